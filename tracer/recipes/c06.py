"""Tracing recipe for C06: propagator.__call__ executed on a stub object (2 channels x 2 depths),
cache miss and cache hit, 'forward' and 'back and forth'."""
import types
import numpy as np
from tracer import shim, opshim

RES = [3, 4]
ARGS = '(u A : fld) (lam0 lam1 z0 z1 zm off : R)'


def _stub(ptype, A):
    lam = [shim.var('lam0'), shim.var('lam1')]
    s = types.SimpleNamespace()
    s.distances = shim.wrap([shim.var('z0'), shim.var('z1')])
    s.generated_kernels = np.zeros((2, 2), dtype=bool)
    s.kernels = {}
    s.propagator_type = ptype
    s.propagation_type = 'Bandlimited Angular Spectrum'
    s.resolution = list(RES)
    s.resolution_factor = 1
    s.pixel_pitch = shim.var('dx')
    s.wavelengths = lam
    s.device = 'cpu'
    s.aperture_samples = [2, 2, 1, 1]
    s.zero_mode_distance = shim.var('zm')
    s.image_location_offset = shim.var('off')
    s.aperture = A
    return s


def trace():
    ns = opshim.namespace()
    shim.load('odak/learn/wave/classical.py', ['custom'], ns)
    calls = []
    bind_gpk = shim.binder('odak/learn/wave/classical.py', 'get_propagation_kernel')
    def gpk(*a, **kw):
        kw = bind_gpk(*a, **kw)          # by name, however the caller passed them
        calls.append(kw)
        return opshim.FT('kernel', kw.get('propagation_type'), shim.E.lift(kw['wavelength']), shim.E.lift(kw['distance']), shape=(kw['nu'], kw['nv']))
    ns['get_propagation_kernel'] = gpk
    shim.load('odak/learn/wave/propagators.py', ['__call__'], ns, cls='propagator')
    call = ns['__call__']
    u, A = opshim.fvar('u', shape=tuple(RES)), opshim.fvar('A', shape=(2 * RES[0], 2 * RES[1]))
    defs, notes = [], []
    for ptype, tag in (('forward', 'fwd'), ('back and forth', 'baf')):
        for (c, d) in ((1, 0), (0, 1)):
            s = _stub(ptype, A)
            del calls[:]
            miss = call(s, u, c, d)
            nreq = len(calls)
            for kw in calls:
                ok = kw.get('nu') == 2 * RES[0] and kw.get('nv') == 2 * RES[1] and kw.get('dx') is s.pixel_pitch and \
                    kw.get('propagation_type') == s.propagation_type and kw.get('scale') == 1 and kw.get('wavelength') is s.wavelengths[c]
                if not ok:
                    raise shim.TraceError('kernel request with unexpected arguments: %r' % ({k: str(v)[:40] for k, v in kw.items()},))
            if not bool(s.generated_kernels[d, c]) or s.generated_kernels.sum() != 1:
                raise shim.TraceError('generated_kernels bookkeeping: %r' % (s.generated_kernels.tolist(),))
            del calls[:]
            hit = call(s, u, c, d)
            if calls:
                raise shim.TraceError('kernel regenerated on a warm cache')
            defs.append(('p_%s_miss_%d_%d' % (tag, c, d), ARGS, opshim.coq(miss)))
            defs.append(('p_%s_hit_%d_%d' % (tag, c, d), ARGS, opshim.coq(hit)))
            notes.append({'type': ptype, 'channel': c, 'depth': d, 'kernel_requests_on_miss': nreq})
    return defs, notes


HEADER = ('(* GENERATED on every run from the current source of odak.learn.wave.propagator.__call__. *)\n'
          'From Coq Require Import Reals.\nFrom Coquelicot Require Import Complex.\n'
          'From OdakV Require Import Base.RealAux Wave.Fields.\nOpen Scope R_scope.\n'
          'Section GenC06.\nVariables F Finv S Sinv PAD CROP : fld -> fld.\nVariable KER : R -> R -> fld.\n')


def text(defs):
    out = [HEADER]
    for name, args, term in defs:
        out.append('Definition %s %s : fld :=\n  %s.\n' % (name, args, term))
    out.append('End GenC06.\n')
    return '\n'.join(out)
