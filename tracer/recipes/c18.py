"""Tracing recipe for C18: pooling-size / LOD maps of odak.learn.perception.foveation.

The functions are traced compositionally: each one is executed symbolically with the functions it
calls replaced by stubs that return fresh symbols (and check the arguments of the call), so every
emitted definition is the straight-line body of ONE function; coq/tie/C18_TieProps.v composes them
again.  Shape: a non-square H x W = 2 x 3 image (every pixel gets its own definition).
"""
from tracer import shim
from tracer.emit import Gen

H, W = 2, 3
FILE = 'odak/learn/perception/foveation.py'
FUNCS = ['make_3d_location_map', 'make_eccentricity_distance_maps', 'make_pooling_size_map_pixels',
         'make_pooling_size_map_lod', 'make_equi_pooling_size_map_pixels', 'make_equi_pooling_size_map_lod']
MODES = {'q': 'quadratic', 'l': 'linear'}


def _fresh():
    ns = shim.base_namespace()
    shim.load(FILE, FUNCS, ns)
    return ns


def trace():
    g = Gen()
    g0, g1, al, rw, rd = [shim.var(n) for n in ('g0', 'g1', 'alpha', 'rw', 'rd')]
    size = (H, W)

    # ---- 1. eccentricity and distance maps (calls make_3d_location_map: traced through)
    ns = _fresh()
    ecc, dist = ns['make_eccentricity_distance_maps']([g0, g1], size, rw, rd)
    assert ecc.shape == size and dist.shape == size, (ecc.shape, dist.shape)
    for i in range(H):
        for j in range(W):
            g.add('ecc_%d_%d' % (i, j), ['g0', 'g1', 'rw', 'rd'], ecc[i, j])
            g.add('dist_%d_%d' % (i, j), ['rw', 'rd'], dist[i, j])

    # ---- 2. pooling size in pixels; the two calls of make_eccentricity_distance_maps are stubbed
    for tag, mode in MODES.items():
        ns = _fresh()
        calls = []

        def stub(gaze, sz, w_, d_, calls=calls):
            k = len(calls)
            calls.append((gaze, tuple(sz), w_, d_))
            return shim.sym('e' if k == 0 else 'c', size), shim.sym('D' if k == 0 else 'Dc', size)
        ns['make_eccentricity_distance_maps'] = stub
        gaze = [g0, g1]
        pix = ns['make_pooling_size_map_pixels'](gaze, size, al, rw, rd, mode)
        if len(calls) != 2:
            raise shim.TraceError('make_pooling_size_map_pixels: expected 2 calls of make_eccentricity_distance_maps, saw %d' % len(calls))
        (ga, sa, wa, da), (gb, sb, wb, db) = calls
        ok = (ga[0] is g0 and ga[1] is g1 and sa == size and wa is rw and da is rd and sb == size and wb is rw and db is rd
              and [float(shim.E.lift(x).cval()) for x in gb] == [0.5, 0.5])
        if not ok:
            raise shim.TraceError('make_pooling_size_map_pixels: unexpected arguments to make_eccentricity_distance_maps: %r' % (calls,))
        assert pix.shape == size
        for i in range(H):
            for j in range(W):
                args = ['e_%d_%d' % (i, j), 'c_%d_%d' % (i, j), 'D_%d_%d' % (i, j), 'alpha', 'rw', 'rd']
                g.add('pix_%s_%d_%d' % (tag, i, j), args, pix[i, j])

    # ---- 3. LOD from pixels (stub for make_pooling_size_map_pixels)
    ns = _fresh()
    seen = []

    def stub_pix(gaze, sz, a_, w_, d_, m_, seen=seen):
        seen.append((gaze, tuple(sz), a_, w_, d_, m_))
        return shim.sym('p', size)
    ns['make_pooling_size_map_pixels'] = stub_pix
    gaze = [g0, g1]
    lod = ns['make_pooling_size_map_lod'](gaze, size, al, rw, rd, 'quadratic')
    if len(seen) != 1 or not (seen[0][0] is gaze and seen[0][1] == size and seen[0][2] is al and seen[0][3] is rw
                              and seen[0][4] is rd and seen[0][5] == 'quadratic'):
        raise shim.TraceError('make_pooling_size_map_lod: unexpected call of make_pooling_size_map_pixels: %r' % (seen,))
    for i in range(H):
        for j in range(W):
            g.add('lod_%d_%d' % (i, j), ['p_%d_%d' % (i, j)], lod[i, j])

    # ---- 4. equirectangular: pixels (one function) and LOD (stub)
    # torch.acos is stubbed too: the body is  F(acos(G(gaze)))  with one acos call on the whole map;
    # G (the clamped cosine) and F (pooling size from the eccentricity) are emitted separately
    for tag, mode in MODES.items():
        ns = _fresh()
        acos_args = []

        def stub_acos(x, acos_args=acos_args):
            acos_args.append(x)
            return shim.sym('e', size)
        ns['torch'].__dict__['acos'] = stub_acos
        ns['torch'].__dict__['arccos'] = stub_acos
        ep = ns['make_equi_pooling_size_map_pixels']([g0, g1], size, al, mode)
        if len(acos_args) != 1 or tuple(acos_args[0].shape) != size:
            raise shim.TraceError('make_equi_pooling_size_map_pixels: expected one acos over the %s map' % (size,))
        assert ep.shape == size
        for i in range(H):
            for j in range(W):
                if tag == 'q':
                    g.add('ecos_%d_%d' % (i, j), ['g0', 'g1'], acos_args[0][i, j])
                g.add('epix_%s_%d_%d' % (tag, i, j), ['e_%d_%d' % (i, j), 'alpha'], ep[i, j])
    ns = _fresh()
    seen2 = []

    def stub_epix(gaze, sz, a_, m_, seen2=seen2):
        seen2.append((gaze, tuple(sz), a_, m_))
        return shim.sym('p', size)
    ns['make_equi_pooling_size_map_pixels'] = stub_epix
    gaze = [g0, g1]
    elod = ns['make_equi_pooling_size_map_lod'](gaze, size, al, 'linear')
    if len(seen2) != 1 or not (seen2[0][0] is gaze and seen2[0][1] == size and seen2[0][2] is al and seen2[0][3] == 'linear'):
        raise shim.TraceError('make_equi_pooling_size_map_lod: unexpected call of make_equi_pooling_size_map_pixels: %r' % (seen2,))
    for i in range(H):
        for j in range(W):
            g.add('elod_%d_%d' % (i, j), ['p_%d_%d' % (i, j)], elod[i, j])
    return g


# ---------------------------------------------------------------- numeric evaluation of the composed traced terms
def eval_screen(g, tag, i, j, g0, g1, alpha, rw, rd):
    """traced pixels / lod value of pixel (i, j): composition of the traced definitions, float64"""
    e = g.evalf('ecc_%d_%d' % (i, j), {'g0': g0, 'g1': g1, 'rw': rw, 'rd': rd})
    c = g.evalf('ecc_%d_%d' % (i, j), {'g0': 0.5, 'g1': 0.5, 'rw': rw, 'rd': rd})
    D = g.evalf('dist_%d_%d' % (i, j), {'rw': rw, 'rd': rd})
    p = g.evalf('pix_%s_%d_%d' % (tag, i, j), {'e_%d_%d' % (i, j): e, 'c_%d_%d' % (i, j): c, 'D_%d_%d' % (i, j): D,
                                                 'alpha': alpha, 'rw': rw, 'rd': rd})
    l = g.evalf('lod_%d_%d' % (i, j), {'p_%d_%d' % (i, j): p})
    return p, l


def eval_equi(g, tag, i, j, g0, g1, alpha):
    import math
    cs = g.evalf('ecos_%d_%d' % (i, j), {'g0': g0, 'g1': g1})
    p = g.evalf('epix_%s_%d_%d' % (tag, i, j), {'e_%d_%d' % (i, j): math.acos(cs), 'alpha': alpha})
    l = g.evalf('elod_%d_%d' % (i, j), {'p_%d_%d' % (i, j): p})
    return p, l
