"""Tracing recipe for C18: pooling-size / LOD maps of odak.learn.perception.foveation.

The functions are traced compositionally: each one is executed symbolically with the functions it
calls replaced by stubs that return fresh symbols (and check the arguments of the call), so every
emitted definition is the straight-line body of ONE function; coq/tie/C18_TieProps.v composes them
again.  Shape: a non-square H x W = 2 x 3 image (every pixel gets its own definition).
"""
import ast, os
from tracer import shim
from tracer.emit import Gen

H, W = 2, 3
FILE = 'odak/learn/perception/foveation.py'
ENTRY = ['make_eccentricity_distance_maps', 'make_pooling_size_map_pixels', 'make_pooling_size_map_lod',
         'make_equi_pooling_size_map_pixels', 'make_equi_pooling_size_map_lod']
MODES = {'q': 'quadratic', 'l': 'linear'}


def _functions():
    """every top-level function of the file (private helpers the entry points may call are traced through)"""
    tree = ast.parse(open(os.path.join(shim.REPO, FILE)).read())
    return {n.name: n for n in tree.body if isinstance(n, ast.FunctionDef)}


def _fresh():
    ns = shim.base_namespace()
    shim.load(FILE, sorted(_functions()), ns)
    return ns


def _binder(fname):
    """(*args, **kwargs) of a call of the real `fname` -> list of argument values in the order of the signature it has
    TODAY, defaults filled in: the stubs below do not depend on parameter names or on positional / keyword passing"""
    fn = _functions().get(fname)
    if fn is None:
        raise shim.TraceError('%s: function %s not found' % (FILE, fname))
    names = [a.arg for a in fn.args.posonlyargs + fn.args.args]
    defaults = {}
    for nm, d in zip(names[len(names) - len(fn.args.defaults):], fn.args.defaults):
        try:
            defaults[nm] = ast.literal_eval(d)
        except Exception:
            pass
    bind = shim.binder(FILE, fname)

    def ordered(*a, **k):
        d = bind(*a, **k)
        unknown = set(d) - set(names)
        if unknown:
            raise shim.TraceError('%s called with unknown argument(s) %s' % (fname, sorted(unknown)))
        out = []
        for nm in names:
            if nm in d: out.append(d[nm])
            elif nm in defaults: out.append(defaults[nm])
            else: raise shim.TraceError('%s called without %s' % (fname, nm))
        return out
    return ordered


def _same(x, v):
    """the argument is the symbol v itself (not merely an equal-looking value)"""
    return x is v


def _is_gaze(x, g0, g1):
    try:
        return len(x) == 2 and x[0] is g0 and x[1] is g1
    except Exception:
        return False


def _consts(x):
    try:
        return [float(shim.E.lift(t).cval()) for t in x]
    except Exception:
        return None


class _acos_cut:
    """torch.acos / x.acos() / torch.arccos replaced by a recording stub while one function is traced (the tensor-method
    spelling is served from shim._TORCH_FUNCS, the function spelling from the namespace)"""
    def __init__(s, ns, stub): s.ns, s.stub = ns, stub
    def __enter__(s):
        s.old = {k: shim._TORCH_FUNCS.get(k) for k in ('acos', 'arccos')}
        for k in ('acos', 'arccos'):
            shim._TORCH_FUNCS[k] = s.stub
            s.ns['torch'].__dict__[k] = s.stub
        return s
    def __exit__(s, *a):
        for k, v in s.old.items():
            if v is None: shim._TORCH_FUNCS.pop(k, None)
            else: shim._TORCH_FUNCS[k] = v
        return False


def trace():
    g = Gen()
    g0, g1, al, rw, rd = [shim.var(n) for n in ('g0', 'g1', 'alpha', 'rw', 'rd')]
    size = (H, W)

    # ---- 1. eccentricity and distance maps (helpers such as make_3d_location_map are traced through)
    ns = _fresh()
    ecc, dist = ns['make_eccentricity_distance_maps']([g0, g1], size, rw, rd)
    assert ecc.shape == size and dist.shape == size, (ecc.shape, dist.shape)
    for i in range(H):
        for j in range(W):
            g.add('ecc_%d_%d' % (i, j), ['g0', 'g1', 'rw', 'rd'], ecc[i, j])
            g.add('dist_%d_%d' % (i, j), ['rw', 'rd'], dist[i, j])

    # ---- 2. pooling size in pixels; the two calls of make_eccentricity_distance_maps are stubbed
    for tag, mode in MODES.items():
        ns = _fresh()
        calls = []
        bind = _binder('make_eccentricity_distance_maps')

        def stub(*a, calls=calls, bind=bind, **k):
            n = len(calls)
            calls.append(bind(*a, **k))
            return shim.sym('e' if n == 0 else 'c', size), shim.sym('D' if n == 0 else 'Dc', size)
        ns['make_eccentricity_distance_maps'] = stub
        pix = ns['make_pooling_size_map_pixels']([g0, g1], size, al, rw, rd, mode)
        if len(calls) != 2:
            raise shim.TraceError('make_pooling_size_map_pixels: expected 2 calls of make_eccentricity_distance_maps, saw %d' % len(calls))
        (ga, sa, wa, da), (gb, sb, wb, db) = calls
        ok = (_is_gaze(ga, g0, g1) and tuple(sa) == size and _same(wa, rw) and _same(da, rd)
              and tuple(sb) == size and _same(wb, rw) and _same(db, rd) and _consts(gb) == [0.5, 0.5])
        if not ok:
            raise shim.TraceError('make_pooling_size_map_pixels: unexpected arguments to make_eccentricity_distance_maps: %r' % (calls,))
        assert pix.shape == size
        for i in range(H):
            for j in range(W):
                args = ['e_%d_%d' % (i, j), 'c_%d_%d' % (i, j), 'D_%d_%d' % (i, j), 'alpha', 'rw', 'rd']
                g.add('pix_%s_%d_%d' % (tag, i, j), args, pix[i, j])

    # ---- 3. LOD from pixels (stub for make_pooling_size_map_pixels)
    ns = _fresh()
    seen = []
    bind = _binder('make_pooling_size_map_pixels')

    def stub_pix(*a, seen=seen, bind=bind, **k):
        seen.append(bind(*a, **k))
        return shim.sym('p', size)
    ns['make_pooling_size_map_pixels'] = stub_pix
    lod = ns['make_pooling_size_map_lod']([g0, g1], size, al, rw, rd, 'quadratic')
    if len(seen) != 1 or not (_is_gaze(seen[0][0], g0, g1) and tuple(seen[0][1]) == size and _same(seen[0][2], al) and _same(seen[0][3], rw)
                              and _same(seen[0][4], rd) and seen[0][5] == 'quadratic'):
        raise shim.TraceError('make_pooling_size_map_lod: unexpected call of make_pooling_size_map_pixels: %r' % (seen,))
    assert lod.shape == size
    for i in range(H):
        for j in range(W):
            g.add('lod_%d_%d' % (i, j), ['p_%d_%d' % (i, j)], lod[i, j])

    # ---- 4. equirectangular: pixels (one function) and LOD (stub)
    # acos is a cut point too: the body is  F(acos(G(gaze)))  with one acos call on the whole map;
    # G (the clamped cosine) and F (pooling size from the eccentricity) are emitted separately
    for tag, mode in MODES.items():
        ns = _fresh()
        acos_args = []

        def stub_acos(x, *a, acos_args=acos_args, **k):
            acos_args.append(x)
            return shim.sym('e', size)
        with _acos_cut(ns, stub_acos):
            ep = ns['make_equi_pooling_size_map_pixels']([g0, g1], size, al, mode)
        if len(acos_args) != 1 or tuple(acos_args[0].shape) != size:
            raise shim.TraceError('make_equi_pooling_size_map_pixels: expected one acos over the %s map' % (size,))
        assert ep.shape == size
        for i in range(H):
            for j in range(W):
                if tag == 'q':
                    g.add('ecos_%d_%d' % (i, j), ['g0', 'g1'], acos_args[0][i, j])
                g.add('epix_%s_%d_%d' % (tag, i, j), ['e_%d_%d' % (i, j), 'alpha'], ep[i, j])
    ns = _fresh()
    seen2 = []
    bind2 = _binder('make_equi_pooling_size_map_pixels')

    def stub_epix(*a, seen2=seen2, bind2=bind2, **k):
        seen2.append(bind2(*a, **k))
        return shim.sym('p', size)
    ns['make_equi_pooling_size_map_pixels'] = stub_epix
    elod = ns['make_equi_pooling_size_map_lod']([g0, g1], size, al, 'linear')
    if len(seen2) != 1 or not (_is_gaze(seen2[0][0], g0, g1) and tuple(seen2[0][1]) == size and _same(seen2[0][2], al) and seen2[0][3] == 'linear'):
        raise shim.TraceError('make_equi_pooling_size_map_lod: unexpected call of make_equi_pooling_size_map_pixels: %r' % (seen2,))
    assert elod.shape == size
    for i in range(H):
        for j in range(W):
            g.add('elod_%d_%d' % (i, j), ['p_%d_%d' % (i, j)], elod[i, j])
    return g


# ---------------------------------------------------------------- numeric evaluation of the composed traced terms
def eval_screen(g, tag, i, j, g0, g1, alpha, rw, rd):
    """traced pixels / lod value of pixel (i, j): composition of the traced definitions, float64"""
    e = g.evalf('ecc_%d_%d' % (i, j), {'g0': g0, 'g1': g1, 'rw': rw, 'rd': rd})
    c = g.evalf('ecc_%d_%d' % (i, j), {'g0': 0.5, 'g1': 0.5, 'rw': rw, 'rd': rd})
    D = g.evalf('dist_%d_%d' % (i, j), {'rw': rw, 'rd': rd})
    p = g.evalf('pix_%s_%d_%d' % (tag, i, j), {'e_%d_%d' % (i, j): e, 'c_%d_%d' % (i, j): c, 'D_%d_%d' % (i, j): D,
                                                 'alpha': alpha, 'rw': rw, 'rd': rd})
    l = g.evalf('lod_%d_%d' % (i, j), {'p_%d_%d' % (i, j): p})
    return p, l


def eval_equi(g, tag, i, j, g0, g1, alpha):
    import math
    cs = g.evalf('ecos_%d_%d' % (i, j), {'g0': g0, 'g1': g1})
    p = g.evalf('epix_%s_%d_%d' % (tag, i, j), {'e_%d_%d' % (i, j): math.acos(cs), 'alpha': alpha})
    l = g.evalf('elod_%d_%d' % (i, j), {'p_%d_%d' % (i, j): p})
    return p, l
