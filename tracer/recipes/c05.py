"""Tracing recipe for C05: every scalar (non-FFT) differentiable entry point of the PyTorch API.

Each entry point is cut from the CURRENT source under $ODAK_REPO, executed symbolically at a small fixed
shape, and turned into ONE scalar objective  sum_k w_k * output_k  (fixed rational weights) over the
parameter tensors' entries.  The objective is emitted as a term of `OdakV.C05.Model.expr`; Coq computes
its gradient and side conditions.  `Entry.real` runs the REAL odak function on torch tensors and forms the
same objective, so torch.autograd.grad of it can be compared with the value of Coq's gradient term.

Recipe-local shim extensions (the shared shim is untouched): the NaN guard `s[s == 0] = nan` of the ray
constructors is recorded, not applied (coincident points are a documented non-smooth point);
`torch.rand` returns fixed numbers chosen by the caller (the luminous-angle constructors are traced for a
fixed draw and the real function is run with `torch.rand` patched to the same numbers); `torch.log10`;
`refract` is cut at its `while` into prologue / Newton step / epilogue, the step is unrolled k times, k being
the number of iterations the real function takes at the sample point (found by matching its value)."""
import ast, contextlib, math, os
from fractions import Fraction
import numpy as _np
from tracer import shim, deep

WEIGHTS = [Fraction(x, 4) for x in (3, -2, 5, 1, -4, 2, -1, 4, -3, 6, 7, -5)]


def weight(k):
    return WEIGHTS[k % len(WEIGHTS)]


class Entry:
    def __init__(s, name, group, params, outputs, real, dtype='f32', nonsmooth=(), note='', source=''):
        s.name, s.group, s.params, s.dtype, s.note, s.source = name, group, params, dtype, note, source
        s.nonsmooth = list(nonsmooth)
        s.varnames = [n for p, shp in params for n in shim.names(p, shp)]
        s.index = {n: i for i, n in enumerate(s.varnames)}
        s.outputs = [shim.E.lift(o) for o in outputs]
        obj = shim.const(0)
        for k, o in enumerate(s.outputs):
            obj = obj + shim.const(weight(k)) * o
        s.objective = obj
        s.real = real                    # dict name -> torch tensor  ->  1-D torch tensor of the outputs

    @property
    def nvars(s): return len(s.varnames)

    def coq_name(s): return 'p_' + s.name

    def program(s):
        if not hasattr(s, '_prog'):
            s._prog = deep.to_prog(s.objective, s.index)
        return s._prog

    def coq(s):
        return deep.prog_coq(s.coq_name(), s.program())

    def query(s):
        """the term Coq evaluates: well-formedness flag and, per instruction, tangent expression and side conditions"""
        m = len(s.program())
        return '(wf %s %d, reportP %d %s %d)' % (s.coq_name(), s.nvars, s.nvars + m, s.coq_name(), s.nvars)

    def env_of(s, point):
        """point: dict param -> numpy array; list of floats in variable order"""
        out = []
        for p, shp in s.params:
            a = _np.asarray(point[p], dtype=_np.float64).reshape(shp)
            out += [float(a[idx]) for idx in _np.ndindex(*shp)]
        return out

    def nodes(s):
        return shim.size(s.objective)


def flat(x):
    return [e for e in _np.asarray(x, dtype=object).reshape(-1)]


def cparts(x):
    """real parts then imaginary parts of an array of complex (CE) entries"""
    fl = [shim.CE.lift(e) for e in _np.asarray(x, dtype=object).reshape(-1)]
    return [e.re for e in fl] + [e.im for e in fl]


# ----------------------------------------------------------------- recipe-local shim extensions
@contextlib.contextmanager
def nan_guard():
    old = shim.T.__setitem__
    seen = []

    def t_set(s, idx, v):
        if isinstance(idx, _np.ndarray) and idx.dtype == object and isinstance(v, float) and v != v:
            seen.append(_np.asarray(idx).copy()); return
        return old(s, idx, v)
    shim.T.__setitem__ = t_set
    try:
        yield seen
    finally:
        shim.T.__setitem__ = old


def _log10(x):
    return shim._ew1(lambda e: shim.mk('/', shim.mk('ln', shim._lift(e)), shim.mk('ln', shim.const(10))), x)


def namespace(rand=None):
    ns = shim.base_namespace()
    t = ns['torch'].__dict__
    t['log10'] = _log10
    for nm, v in (('ones_like', 1), ('zeros_like', 0)):            # also of a 0-d entry (an E, not an array)
        t[nm] = (lambda v_: lambda x, **k: shim._full(x.shape, shim.const(v_)) if isinstance(x, _np.ndarray) else shim.const(v_))(v)
    if rand is not None:
        draws = list(rand)

        def _rand(*n, **k):
            n = n[0] if len(n) == 1 else n
            return shim.wrap(_np.array([Fraction(repr(float(x))) for x in draws.pop(0)[:int(n)]], dtype=object))
        t['rand'] = _rand
    return ns


class _Obj:
    device = 'cpu'


# ----------------------------------------------------------------- entries
def wave_entries(T):
    """T: the torch module and odak modules, passed by the harness (`real` closures use them)"""
    torch, lw = T['torch'], T['lw']
    ns = namespace()
    shim.load('odak/learn/wave/util.py', ['calculate_phase', 'calculate_amplitude', 'set_amplitude', 'generate_complex_field'], ns)
    out = []
    shp = (2, 2)
    amp, ph = shim.sym('am', shp), shim.sym('ph', shp)
    f = shim.csym('f', shp)
    out.append(Entry('generate_complex_field', 'wave', [('am', shp), ('ph', shp)], cparts(ns['generate_complex_field'](amp, ph)),
                     lambda p: _cat(torch, lw.generate_complex_field(p['am'], p['ph'])), dtype='f64',
                     source='odak/learn/wave/util.py:generate_complex_field'))
    out.append(Entry('set_amplitude', 'wave', [('fr', shp), ('fi', shp), ('am', shp)], cparts(ns['set_amplitude'](f, amp)),
                     lambda p: _cat(torch, lw.set_amplitude(torch.complex(p['fr'], p['fi']), p['am'])), dtype='f64',
                     nonsmooth=['field = 0 (phase undefined)', 'amplitude = 0 (|.| has a kink)'],
                     source='odak/learn/wave/util.py:set_amplitude'))
    g = shim.csym('g', shp)
    out.append(Entry('set_amplitude_complex', 'wave', [('fr', shp), ('fi', shp), ('gr', shp), ('gi', shp)], cparts(ns['set_amplitude'](f, g)),
                     lambda p: _cat(torch, lw.set_amplitude(torch.complex(p['fr'], p['fi']), torch.complex(p['gr'], p['gi']))), dtype='f64',
                     nonsmooth=['field = 0', 'amplitude field = 0'], source='odak/learn/wave/util.py:set_amplitude'))
    out.append(Entry('calculate_amplitude', 'wave', [('fr', shp), ('fi', shp)], flat(ns['calculate_amplitude'](f)),
                     lambda p: lw.calculate_amplitude(torch.complex(p['fr'], p['fi'])).reshape(-1), dtype='f64',
                     nonsmooth=['field = 0'], source='odak/learn/wave/util.py:calculate_amplitude'))
    out.append(Entry('calculate_phase', 'wave', [('fr', shp), ('fi', shp)], flat(ns['calculate_phase'](f)),
                     lambda p: lw.calculate_phase(torch.complex(p['fr'], p['fi'])).reshape(-1), dtype='f64',
                     nonsmooth=['field = 0', 'negative real axis (2 pi jump of the value; the gradient formula is continuous)'],
                     source='odak/learn/wave/util.py:calculate_phase'))
    return out


def _cat(torch, z):
    return torch.cat((z.real.reshape(-1), z.imag.reshape(-1)))


def ray_entries(T):
    torch, lr = T['torch'], T['lr']
    out = []
    ns = namespace()
    shim.load('odak/learn/raytracing/ray.py', ['create_ray_from_two_points', 'propagate_ray'], ns)
    shim.load('odak/learn/raytracing/primitives.py', ['center_of_triangle'], ns)
    shim.load('odak/learn/raytracing/boundary.py', ['get_triangle_normal', 'intersect_w_surface', 'reflect'], ns)
    a, b = shim.sym('a', (1, 3)), shim.sym('b', (1, 3))
    with nan_guard() as seen:
        ray = ns['create_ray_from_two_points'](a, b)
    assert ray.shape == (1, 2, 3)
    out.append(Entry('create_ray_from_two_points', 'ray', [('a', (1, 3)), ('b', (1, 3))], flat(ray),
                     lambda p: lr.create_ray_from_two_points(p['a'], p['b']).reshape(-1),
                     nonsmooth=['coincident points (direction undefined, NaN by design)'],
                     note='%d NaN guard(s) recorded' % len(seen), source='odak/learn/raytracing/ray.py:create_ray_from_two_points'))
    r, d = shim.sym('r', (1, 2, 3)), shim.sym('d', (1,))
    out.append(Entry('propagate_ray', 'ray', [('r', (1, 2, 3)), ('d', (1,))], flat(ns['propagate_ray'](r, d)),
                     lambda p: lr.propagate_ray(p['r'], p['d']).reshape(-1), source='odak/learn/raytracing/ray.py:propagate_ray'))
    tri = shim.sym('t', (3, 3))
    nrm = ns['get_triangle_normal'](tri)
    out.append(Entry('get_triangle_normal', 'ray', [('t', (3, 3))], flat(nrm),
                     lambda p: lr.get_triangle_normal(p['t']).reshape(-1), nonsmooth=['degenerate triangle (zero area)'],
                     source='odak/learn/raytracing/boundary.py:get_triangle_normal'))
    nn, dist = ns['intersect_w_surface'](r, tri)
    assert nn.shape == (1, 2, 3) and dist.shape == (1, 1)
    outs = flat(nn) + flat(dist)

    def real_surface(p):
        n_, d_ = lr.intersect_w_surface(p['r'], p['t'])
        return torch.cat((n_.reshape(-1), d_.reshape(-1)))

    def real_triangle(p):
        n_, d_, iray, inorm, check = lr.intersect_w_triangle(p['r'], p['t'])
        return torch.cat((n_.reshape(-1), d_.reshape(-1)))
    ns_ = ['ray parallel to the plane', 'degenerate triangle']
    out.append(Entry('intersect_w_surface', 'ray', [('r', (1, 2, 3)), ('t', (3, 3))], outs, real_surface, nonsmooth=ns_,
                     source='odak/learn/raytracing/boundary.py:intersect_w_surface'))
    out.append(Entry('intersect_w_triangle', 'ray', [('r', (1, 2, 3)), ('t', (3, 3))], outs, real_triangle, nonsmooth=ns_ + ['hit on an edge (flag flips)'],
                     note='value outputs (normal, distance) of intersect_w_triangle are those of intersect_w_surface; the masked copies are checked by the oracle',
                     source='odak/learn/raytracing/boundary.py:intersect_w_triangle'))
    n = shim.sym('n', (1, 2, 3))
    out.append(Entry('reflect', 'ray', [('r', (1, 2, 3)), ('n', (1, 2, 3))], flat(ns['reflect'](r, n)),
                     lambda p: lr.reflect(p['r'], p['n']).reshape(-1), nonsmooth=['zero normal'],
                     source='odak/learn/raytracing/boundary.py:reflect'))
    return out


# ---- refract: prologue / Newton step / epilogue
def _stores(stmts):
    out = []
    for st in stmts:
        for n in ast.walk(st):
            if isinstance(n, ast.Name) and isinstance(n.ctx, ast.Store) and n.id not in out: out.append(n.id)
    return out


def _loads(stmts):
    out = []
    for st in stmts:
        for n in ast.walk(st):
            if isinstance(n, ast.Name) and isinstance(n.ctx, ast.Load) and n.id not in out: out.append(n.id)
    return out


def _live_in(stmts):
    """names a straight-line block reads before it assigns them"""
    out, done = [], set()
    for st in stmts:
        for n in _loads([st]):
            if n not in done and n not in out: out.append(n)
        done |= set(_stores([st]))
    return out


def _is_exit_test(st):
    """`if <test>: break` (the loop's exit condition written inside the body)"""
    return isinstance(st, ast.If) and not st.orelse and len(st.body) == 1 and isinstance(st.body[0], ast.Break)


def _is_where_keep(st):
    """`X = torch.where(<cond>, <fill>, X)`: keeps X wherever the condition is false"""
    return (isinstance(st, ast.Assign) and len(st.targets) == 1 and isinstance(st.targets[0], ast.Name) and isinstance(st.value, ast.Call)
            and isinstance(st.value.func, ast.Attribute) and st.value.func.attr == 'where' and len(st.value.args) == 3
            and isinstance(st.value.args[2], ast.Name) and st.value.args[2].id == st.targets[0].id)


class RefractPieces:
    """`refract` iterates on its data.  Its CURRENT source must have the shape
         prologue;  LOOP;  epilogue;  return
    where LOOP is either `while <cond>: <step>` or `for <i> in range(...): ... if <converged>: break ...` (the only loop of the
    function that can stop on its data).  The loop CONTROL -- the loop variable / iteration counter, the step-size variable `eps`
    that only the exit condition reads, the exit test itself, and after the loop the statements that turn unconverged entries
    into NaN (`X = torch.where(<control>, nan, X)`) -- is cut away; what remains is traced as three straight-line pieces and the
    step is unrolled k times.  Anything else (several data-dependent loops, break / continue elsewhere, try, nested defs,
    several returns) is refused: fail closed.  That the pieces composed k times reproduce the real function at the sampled points
    is checked by the harness (value match), which also finds k."""
    CONTROL = ('num', 'eps')

    def __init__(s):
        rel = 'odak/learn/raytracing/boundary.py'
        path = os.path.join(shim.REPO, rel)
        src = open(path).read()
        fn = [x for x in ast.parse(src).body if isinstance(x, ast.FunctionDef) and x.name == 'refract'][0]
        body = [st for st in fn.body if not (isinstance(st, ast.Expr) and isinstance(getattr(st, 'value', None), ast.Constant))]
        cands = [i for i, st in enumerate(body) if isinstance(st, ast.While) or (isinstance(st, ast.For) and any(isinstance(x, ast.Break) for x in ast.walk(st)))]
        rets = [x for x in ast.walk(fn) if isinstance(x, ast.Return)]
        bad = [x for x in ast.walk(fn) if isinstance(x, (ast.Continue, ast.Try, ast.With, ast.Raise, ast.Yield, ast.Lambda, ast.FunctionDef, ast.Global, ast.Nonlocal)) and x is not fn]
        if len(cands) != 1 or bad or len(rets) != 1 or body[-1] is not rets[0]:
            raise shim.TraceError('refract no longer has the shape `prologue; while / for-break loop; epilogue; return`')
        k = cands[0]
        loop = body[k]
        if loop.orelse or any(isinstance(x, (ast.While, ast.For)) for st in loop.body for x in ast.walk(st)):
            raise shim.TraceError('refract: loop with an else clause or a nested loop')
        control = set(s.CONTROL)
        if isinstance(loop, ast.For):
            if not (isinstance(loop.target, ast.Name) and isinstance(loop.iter, ast.Call) and isinstance(loop.iter.func, ast.Name) and loop.iter.func.id == 'range'):
                raise shim.TraceError('refract: the for loop is not `for <name> in range(...)`')
            control.add(loop.target.id)
        breaks = [x for st in loop.body for x in ast.walk(st) if isinstance(x, ast.Break)]
        exits = [st for st in loop.body if _is_exit_test(st)]
        if len(breaks) != len(exits) or (isinstance(loop, ast.For) and not exits):
            raise shim.TraceError('refract: a break that is not a top-level `if <test>: break` of the loop')
        s.params = [a.arg for a in fn.args.args]

        def is_control_assign(st):
            tg = _stores([st])
            return isinstance(st, (ast.Assign, ast.AugAssign)) and tg and all(t in control for t in tg)
        pre = [st for st in body[:k] if not is_control_assign(st)]
        step = [st for st in loop.body if not is_control_assign(st) and not _is_exit_test(st)]
        if any(n in control for n in _loads(step)):
            raise shim.TraceError('refract: the Newton step reads a loop-control variable')
        # after the loop: statements that read the control are cut; names they define become control as well, except through
        # `X = torch.where(<control>, nan, X)`, which leaves X as it is wherever the iteration converged
        post, s.dropped_post = [], []
        for st in body[k + 1:]:
            if any(n in control for n in _loads([st])):
                s.dropped_post.append(ast.get_source_segment(src, st))
                if not _is_where_keep(st): control |= set(_stores([st]))
            else:
                post.append(st)
        s.ns = namespace()
        s.ns['len'] = shim.sym_len
        shim.load(rel, [], s.ns)                              # module-level helpers the pieces may call
        known = set(s.params) | set(_stores(pre)) | set(_stores(step))
        s.pre_out = _stores(pre)
        s.step_in = [n for n in _live_in(step) if n in known]
        s.step_out = _stores(step)
        s.post_in = [n for n in _live_in(post) if n in known]
        _mkfn('rf_pre', s.params, pre + [_ret(s.pre_out)], s.ns, path)
        _mkfn('rf_step', s.step_in, step + [_ret(s.step_out)], s.ns, path)
        _mkfn('rf_post', s.post_in, post, s.ns, path)
        s.loop_kind = type(loop).__name__

    def outputs(s, v, n, n1, n2, steps):
        args = {'vector': v, 'normvector': n, 'n1': n1, 'n2': n2}
        # remaining parameters (error, max_iterations, ...) keep a harmless constant: they only steer the loop
        st = {p: (args[p] if p in args else 1000 if 'iter' in p else 0.01) for p in s.params}
        vals = s.ns['rf_pre'](*[st[p] for p in s.params])
        # the prologue may rebind its parameters (e.g. vector = vector.unsqueeze(0))
        st.update(dict(zip(s.pre_out, vals)))
        for _ in range(steps):
            missing = [x for x in s.step_in if x not in st]
            if missing: raise shim.TraceError('refract: the Newton step reads %s before it is defined' % missing)
            st.update(dict(zip(s.step_out, s.ns['rf_step'](*[st[x] for x in s.step_in]))))
        missing = [x for x in s.post_in if x not in st]
        if missing: raise shim.TraceError('refract: the epilogue reads %s, which only the cut loop control defines' % missing)
        return s.ns['rf_post'](*[st[x] for x in s.post_in])


def _mentions(st, names):
    return any(isinstance(x, ast.Name) and x.id in names for x in ast.walk(st))


def _mkfn(name, args, body, ns, path):
    f = ast.FunctionDef(name=name, args=ast.arguments(posonlyargs=[], args=[ast.arg(a) for a in args], kwonlyargs=[], kw_defaults=[], defaults=[]),
                        body=body, decorator_list=[], returns=None, type_params=[])
    mod = ast.Module([f], [])
    ast.fix_missing_locations(mod)
    exec(compile(mod, path, 'exec'), ns)


def _ret(names):
    return ast.Return(ast.Tuple([ast.Name(n, ast.Load()) for n in names], ast.Load()))


REFRACT_STEPS = (1, 2, 3, 4, 5, 6)
REFRACT_N = (Fraction(1), Fraction(3, 2))


def refract_entries(T):
    torch, lr = T['torch'], T['lr']
    pieces = RefractPieces()
    out = []
    for k in REFRACT_STEPS:
        v, n = shim.sym('v', (1, 2, 3)), shim.sym('n', (1, 2, 3))
        o = pieces.outputs(v, n, REFRACT_N[0], REFRACT_N[1], k)
        assert o.shape == (1, 2, 3)
        out.append(Entry('refract_k%d' % k, 'refract', [('v', (1, 2, 3)), ('n', (1, 2, 3))], flat(o),
                         lambda p: lr.refract(p['v'], p['n'], float(REFRACT_N[0]), float(REFRACT_N[1])).reshape(-1),
                         nonsmooth=['total internal reflection boundary', 'zero normal', 'grazing incidence (a = 0)', 'inputs where the iteration count changes'],
                         note='Newton step unrolled %d times (%s loop); loop-control statements cut after the loop: %s' % (k, pieces.loop_kind, pieces.dropped_post),
                         source='odak/learn/raytracing/boundary.py:refract'))
    return out


# ---- planar mesh: heights -> triangles -> hit point, normal -> reflected ray
def mesh_entry(T, rays_np, hit_triangles):
    """`hit_triangles`: indices (into get_triangles()) of the triangles the given rays hit at the sample
    heights, in the order `mirror` visits them, each with the list of rays that hit it (decided by the real
    function; the flags are piecewise constant in the heights)"""
    torch, lr = T['torch'], T['lr']
    ns = namespace()
    shim.load('odak/learn/tools/transformation.py', ['rotmatx', 'rotmaty', 'rotmatz', 'rotate_points'], ns)
    shim.load('odak/learn/raytracing/primitives.py', ['center_of_triangle'], ns)
    shim.load('odak/learn/raytracing/boundary.py', ['get_triangle_normal', 'intersect_w_surface', 'reflect'], ns)
    shim.load('odak/learn/raytracing/mesh.py', ['get_squares', 'get_triangles'], ns, cls='planar_mesh')
    me = _Obj()
    me.number_of_meshes = [2, 2]
    me.angles = shim.wrap(_np.array([0, 0, 0]))
    me.offset = shim.wrap(_np.array([0, 0, 0]))
    xs = [Fraction(-1, 2), Fraction(1, 2)]
    me.X = shim.wrap(_np.array([[[xs[0]], [xs[0]]], [[xs[1]], [xs[1]]]], dtype=object))
    me.Y = shim.wrap(_np.array([[[xs[0]], [xs[1]]], [[xs[0]], [xs[1]]]], dtype=object))
    me.heights = shim.sym('h', (2, 2, 1))
    me.get_squares = lambda: ns['get_squares'](me)
    tris = ns['get_triangles'](me)
    assert tris.shape == (8, 3, 3), tris.shape
    outs_r, outs_n = [], []
    for ti, ray_ids in hit_triangles:
        for ri in ray_ids:
            ray = shim.wrap(_np.array([[[Fraction(repr(float(x))) for x in row] for row in rays_np[ri]]], dtype=object))
            nn, dist = ns['intersect_w_surface'](ray, tris[ti])
            refl = ns['reflect'](ray, nn)
            outs_r += flat(refl); outs_n += flat(nn)

    def real(p):
        mesh = lr.planar_mesh(size=torch.tensor([1., 1.]), number_of_meshes=torch.tensor([2, 2]), heights=p['h'].detach().clone())
        rr, nn_ = mesh.mirror(torch.tensor(rays_np, dtype=torch.float32))
        real.leaf = mesh.heights
        return torch.cat((rr.reshape(-1), nn_.reshape(-1)))
    real.leaves = lambda: [real.leaf]
    e = Entry('planar_mesh_mirror', 'mesh', [('h', (2, 2, 1))], outs_r + outs_n, real,
              nonsmooth=['ray hits an edge or a vertex of the mesh', 'ray parallel to a facet'],
              note='hit pattern %r read off the real function at the sample heights' % (hit_triangles,),
              source='odak/learn/raytracing/mesh.py:planar_mesh.mirror')
    return e


# ---- luminous-angle constructors, for a fixed random draw
def luminous_entries(T, draws_point, draws_grid):
    torch, lr = T['torch'], T['lr']
    out = []
    ns = namespace(rand=draws_point)
    shim.load('odak/learn/raytracing/ray.py', ['create_ray_from_point_w_luminous_angle'], ns)
    o, tl = shim.sym('o', (3,)), shim.sym('tl', (3,))
    nray = len(draws_point[0])
    rays = ns['create_ray_from_point_w_luminous_angle'](o, nray, tl, 30.)
    assert rays.shape == (nray, 2, 3)

    def real_point(p):
        with patched_rand(torch, draws_point):
            return lr.create_ray_from_point_w_luminous_angle(p['o'], nray, p['tl'], 30.).reshape(-1)
    out.append(Entry('create_ray_from_point_w_luminous_angle', 'luminous', [('o', (3,)), ('tl', (3,))], flat(rays), real_point,
                     note='torch.rand fixed to the same draw in the trace and in the real run',
                     source='odak/learn/raytracing/ray.py:create_ray_from_point_w_luminous_angle'))
    ns = namespace(rand=draws_grid)
    shim.load('odak/learn/tools/transformation.py', ['rotmatx', 'rotmaty', 'rotmatz', 'rotate_points'], ns)
    shim.load('odak/learn/raytracing/ray.py', ['create_ray_from_grid_w_luminous_angle'], ns)
    c, tl = shim.sym('c', (3,)), shim.sym('tl', (3,))
    per = len(draws_grid[0]) // 4
    rays = ns['create_ray_from_grid_w_luminous_angle'](c, [1., 1.], [2, 2], tl, per, 30.)
    assert rays.shape == (4 * per, 2, 3), rays.shape

    def real_grid(p):
        with patched_rand(torch, draws_grid):
            return lr.create_ray_from_grid_w_luminous_angle(p['c'], [1., 1.], [2, 2], p['tl'], per, 30.).reshape(-1)
    out.append(Entry('create_ray_from_grid_w_luminous_angle', 'luminous', [('c', (3,)), ('tl', (3,))], flat(rays), real_grid,
                     note='torch.rand fixed to the same draw in the trace and in the real run',
                     source='odak/learn/raytracing/ray.py:create_ray_from_grid_w_luminous_angle'))
    return out


@contextlib.contextmanager
def patched_rand(torch, draws):
    old = torch.rand
    q = [list(d) for d in draws]

    def fake(*n, **k):
        n = n[0] if len(n) == 1 else n
        return torch.tensor(q.pop(0)[:int(n)], dtype=torch.float32)
    torch.rand = fake
    try:
        yield
    finally:
        torch.rand = old


# ---- colour conversions
COLOUR = [  # name, input domain, documented non-smooth points
    ('rgb_2_ycrcb', 'unit', []), ('ycrcb_2_rgb', 'unit', []),
    ('rgb_to_linear_rgb', 'unit', ['x = 0.04045 (branch threshold)']),
    ('linear_rgb_to_rgb', 'unit', ['x = 0.0031308 (branch threshold)']),
    ('linear_rgb_to_xyz', 'unit', []), ('xyz_to_linear_rgb', 'unit', []),
    ('rgb_to_hsv', 'unit', ['ties of max / min channel (grey axis, hue sector borders)']),
    ('hsv_to_rgb', 'hsv', ['hue on a sector border (h multiple of 60 degrees)']),
    ('srgb_to_lab', 'unit', ['x = 0.04045', 'X/Xn, Y/Yn, Z/Zn = (6/29)^3 (branch thresholds)']),
    ('lab_to_srgb', 'lab', ['f = 6/29 and linear rgb = 0.0031308 (branch thresholds)']),
]
CSHAPE = (3, 1, 2)


def colour_entries(T):
    torch, lp = T['torch'], T['lp']
    ns = namespace()
    shim.load('odak/learn/perception/color_conversion.py', [c[0] for c in COLOUR], ns)
    out = []
    for fn, domain, nsm in COLOUR:
        x = shim.sym('x', CSHAPE)
        with shim.int_casts_truncate():
            y = ns[fn](x.clone())
        f = getattr(lp, fn)
        out.append(Entry(fn, 'colour', [('x', CSHAPE)], flat(y), (lambda f_: lambda p: f_(p['x']).reshape(-1))(f),
                         nonsmooth=nsm, note='input domain: %s' % domain, source='odak/learn/perception/color_conversion.py:%s' % fn))
        out[-1].domain = domain
    return out


# ---- losses
def loss_entries(T, mp_real):
    """mp_real: a constructed odak multiplane_loss object (its masks / weights are constants of the trace)"""
    torch = T['torch']
    out = []
    ns = namespace()
    shim.load('odak/learn/tools/loss.py', ['total_variation_loss', 'wrapped_mean_squared_error'], ns)
    fr = shim.sym('x', (3, 3))
    from odak.learn.tools import total_variation_loss, wrapped_mean_squared_error
    out.append(Entry('total_variation_loss', 'loss', [('x', (3, 3))], [ns['total_variation_loss'](fr)],
                     lambda p: total_variation_loss(p['x']).reshape(-1), dtype='f64', source='odak/learn/tools/loss.py:total_variation_loss'))
    fr3 = shim.sym('x', (2, 2, 3))
    out.append(Entry('total_variation_loss_3d', 'loss', [('x', (2, 2, 3))], [ns['total_variation_loss'](fr3)],
                     lambda p: total_variation_loss(p['x']).reshape(-1), dtype='f64', source='odak/learn/tools/loss.py:total_variation_loss'))
    a, b = shim.sym('x', (2, 2)), shim.sym('y', (2, 2))
    for red in ('mean', 'sum'):
        out.append(Entry('wrapped_mean_squared_error_%s' % red, 'loss', [('x', (2, 2)), ('y', (2, 2))], [ns['wrapped_mean_squared_error'](a, b, reduction=red)],
                         (lambda r_: lambda p: wrapped_mean_squared_error(p['x'], p['y'], reduction=r_).reshape(-1))(red), dtype='f64',
                         source='odak/learn/tools/loss.py:wrapped_mean_squared_error'))
    # PSNR
    ns2 = namespace()
    shim.load('odak/learn/perception/image_quality_losses.py', ['forward'], ns2, cls='PSNR')
    from odak.learn.perception.image_quality_losses import PSNR
    psnr = PSNR()
    out.append(Entry('PSNR', 'loss', [('x', (2, 2)), ('y', (2, 2))], [ns2['forward'](_Obj(), a, b)],
                     lambda p: psnr(p['x'], p['y']).reshape(-1), dtype='f64', nonsmooth=['identical images (mse = 0, PSNR infinite)'],
                     source='odak/learn/perception/image_quality_losses.py:PSNR.forward'))
    # multiplane_loss.__call__ : masks, weights and the reduction are constants of the constructed object
    ns3 = namespace()
    shim.load('odak/learn/wave/loss.py', ['__call__'], ns3, cls='multiplane_loss')
    me = _Obj()
    me.weights = [Fraction(repr(float(w))) for w in mp_real.weights]
    me.masks = shim.wrap(_np.vectorize(lambda v: Fraction(repr(float(v))), otypes=[object])(mp_real.masks.numpy()))
    red = mp_real.reduction
    if red not in ('mean', 'sum'):
        raise shim.TraceError('multiplane_loss reduction %r' % red)

    def mse(u, v):
        d = _np.asarray(shim.wrap(u) - shim.wrap(v), dtype=object)
        d = _np.broadcast_arrays(d)[0]
        tot = shim.const(0)
        for e in d.reshape(-1): tot = tot + shim._lift(e) * shim._lift(e)
        return tot / d.size if red == 'mean' else tot
    me.loss_function = mse
    shp = tuple(mp_real.target_image.shape)
    img, tgt = shim.sym('x', shp), shim.sym('y', shp)
    for pid in (None, 1):
        val = ns3['__call__'](me, img, tgt, plane_id=pid)
        out.append(Entry('multiplane_loss_plane_%s' % ('all' if pid is None else pid), 'loss', [('x', shp), ('y', shp)], [val],
                         (lambda pid_: lambda p: mp_real(p['x'], p['y'], plane_id=pid_).reshape(-1))(pid),
                         note='masks / weights / reduction of a constructed object are constants of the trace', source='odak/learn/wave/loss.py:multiplane_loss.__call__'))
    return out


# ----------------------------------------------------------------- structural pass (mechanism: no autograd break on the path)
BREAKERS = ('detach', 'item', 'numpy', 'tolist', 'cpu')
ANCHOR_FILES = ['odak/learn/wave/classical.py', 'odak/learn/wave/util.py', 'odak/learn/wave/propagators.py',
                'odak/learn/raytracing/boundary.py', 'odak/learn/raytracing/ray.py', 'odak/learn/raytracing/mesh.py',
                'odak/learn/perception/color_conversion.py', 'odak/learn/tools/loss.py', 'odak/learn/wave/loss.py',
                'odak/learn/perception/image_quality_losses.py', 'odak/learn/tools/transformation.py']


def structural_scan():
    """every `.detach()`, `.item()`, `.numpy()`, `.tolist()` call and every `torch.tensor(<expression mentioning a
    local tensor name>)` per function of the anchor files: {file:function -> [(line, kind, text)]}"""
    res = {}
    for rel in ANCHOR_FILES:
        path = os.path.join(shim.REPO, rel)
        if not os.path.exists(path):
            continue
        src = open(path).read()
        tree = ast.parse(src)
        funcs = []
        for n in tree.body:
            if isinstance(n, ast.FunctionDef): funcs.append((n.name, n))
            if isinstance(n, ast.ClassDef):
                funcs += [(n.name + '.' + m.name, m) for m in n.body if isinstance(m, ast.FunctionDef)]
        for name, fn in funcs:
            params = {a.arg for a in fn.args.args} - {'self'}
            assigned = {t.id for st in ast.walk(fn) for t in (getattr(st, 'targets', []) if isinstance(st, ast.Assign) else []) if isinstance(t, ast.Name)}
            names = params | assigned
            hits = []
            for c in ast.walk(fn):
                if not isinstance(c, ast.Call): continue
                f = c.func
                if isinstance(f, ast.Attribute) and f.attr in BREAKERS:
                    hits.append((c.lineno, f.attr, ast.get_source_segment(src, c)[:120]))
                if isinstance(f, ast.Attribute) and f.attr == 'tensor' and isinstance(f.value, ast.Name) and f.value.id == 'torch' and c.args:
                    used = {x.id for x in ast.walk(c.args[0]) if isinstance(x, ast.Name)} & names
                    sub = any(isinstance(x, (ast.Subscript, ast.Name)) for x in ast.walk(c.args[0]))
                    if used and sub:
                        hits.append((c.lineno, 'torch.tensor(<%s>)' % ','.join(sorted(used)), ast.get_source_segment(src, c)[:120].replace('\n', ' ')))
            if hits:
                res['%s:%s' % (rel, name)] = sorted(hits)
    return res
