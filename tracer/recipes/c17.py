"""Tracing recipe for C17: the closed-form losses (PyTorch API), at small concrete shapes.

Traced from the current sources: wrapped_mean_squared_error, total_variation_loss (odak/learn/tools/loss.py),
multiplane_loss.__call__, perceptual_multiplane_loss.__call__, speckle_contrast.{functional_conv2d, forward},
phase_gradient.{functional_conv2d, forward} (odak/learn/wave/loss.py), PSNR.forward
(odak/learn/perception/image_quality_losses.py).
External torch pieces are given by their contracts here (and validated numerically against torch on every
run by the self-check in harness/props/c17.py): nn.MSELoss / nn.L1Loss = mean (or sum) of squared / absolute
differences, F.conv2d = strided, zero-padded cross-correlation, log10 = ln / ln 10.
"""
import numpy as _np
from tracer import shim
from tracer.emit import Gen


def _mse(reduction='mean'):
    def f(a, b):
        d = (shim.wrap(a) - shim.wrap(b)) ** 2
        return d.mean() if reduction == 'mean' else d.sum()
    return f


def _l1(reduction='mean'):
    def f(a, b):
        d = (shim.wrap(a) - shim.wrap(b)).abs()
        return d.mean() if reduction == 'mean' else d.sum()
    return f


def _pair(v):
    return tuple(v) if isinstance(v, (tuple, list)) else (v, v)


def conv2d(x, k, bias=None, stride=1, padding=0):
    """torch.nn.functional.conv2d for groups=1: cross-correlation with zero padding"""
    x = _np.asarray(x); k = _np.asarray(k)
    N, C, H, W = x.shape; O, Ci, kh, kw = k.shape
    if Ci != C or bias is not None or isinstance(padding, str):
        raise shim.TraceError('conv2d: unsupported configuration')
    sh, sw = _pair(stride); ph, pw = _pair(padding)
    xp = _np.empty((N, C, H + 2 * ph, W + 2 * pw), dtype=object); xp[...] = shim.const(0)
    xp[:, :, ph:ph + H, pw:pw + W] = x
    oh = (H + 2 * ph - kh) // sh + 1; ow = (W + 2 * pw - kw) // sw + 1
    out = _np.empty((N, O, oh, ow), dtype=object)
    for n in range(N):
        for o in range(O):
            for i in range(oh):
                for j in range(ow):
                    acc = shim.const(0)
                    for c in range(C):
                        for u in range(kh):
                            for v in range(kw):
                                acc = acc + shim.E.lift(xp[n, c, i * sh + u, j * sw + v]) * shim.E.lift(k[o, c, u, v])
                    out[n, o, i, j] = acc
    return shim.wrap(out)


def namespace():
    ns = shim.base_namespace()
    t = ns['torch'].__dict__
    ln10 = shim.mk('ln', shim.const(10))
    t['log10'] = lambda x: shim._ew1(lambda e: shim.mk('/', shim.mk('ln', shim._lift(e)), ln10), x)
    F = shim._NS('torch.nn.functional'); F.__dict__['conv2d'] = conv2d
    ns['F'] = F
    nn = shim._NS('torch.nn')
    nn.__dict__['MSELoss'] = lambda reduction='mean': _mse(reduction)
    nn.__dict__['L1Loss'] = lambda reduction='mean': _l1(reduction)
    nn.__dict__['Upsample'] = Upsample
    t['nn'] = nn
    return ns


class Upsample:
    """torch.nn.Upsample(scale_factor = 0.5, mode = 'nearest') on NCHW: output side floor(n / 2), source index 2 i"""
    def __init__(self, scale_factor=None, mode='nearest', **k):
        if scale_factor != 0.5 or mode != 'nearest' or k:
            raise shim.TraceError('Upsample: unsupported configuration')

    def __call__(self, x):
        a = _np.asarray(x)
        return shim.wrap(a[..., 0:2 * (a.shape[-2] // 2):2, 0:2 * (a.shape[-1] // 2):2])


class Stub:
    pass


A22 = shim.names('a', (2, 2)); B22 = shim.names('b', (2, 2))
F23 = shim.names('f', (2, 3)); F222 = shim.names('f', (2, 2, 2))
X = shim.names('x', (1, 1, 2)); TG = shim.names('t', (1, 1, 2)); M = shim.names('m', (2, 1, 1, 2))
W3 = ['w0', 'w1', 'w2']; V3 = ['v0', 'v1', 'v2']
P22 = shim.names('p', (2, 2)); T22 = shim.names('t', (2, 2))
I33 = shim.names('i', (1, 1, 3, 3))
LAPLACIAN = [[-1, -1, -1], [-1, 8, -1], [-1, -1, -1]]


def _scalar(v):
    return shim._scalar(v) if isinstance(v, _np.ndarray) else v


def trace():
    g = Gen()
    # ---------------- odak/learn/tools/loss.py
    ns = namespace()
    shim.load('odak/learn/tools/loss.py', ['wrapped_mean_squared_error', 'total_variation_loss'], ns)
    a = shim.sym('a', (2, 2)); b = shim.sym('b', (2, 2))
    g.add('w_mean', A22 + B22, _scalar(ns['wrapped_mean_squared_error'](a, b, reduction='mean')))
    g.add('w_sum', A22 + B22, _scalar(ns['wrapped_mean_squared_error'](a, b, reduction='sum')))
    g.add('tv2d', F23, _scalar(ns['total_variation_loss'](shim.sym('f', (2, 3)))))
    g.add('tv3d', F222, _scalar(ns['total_variation_loss'](shim.sym('f', (2, 2, 2)))))
    # ---------------- odak/learn/wave/loss.py : multiplane_loss.__call__
    ns = namespace()
    shim.load('odak/learn/wave/loss.py', ['__call__'], ns, cls='multiplane_loss')
    s = Stub(); s.weights = [shim.var(n) for n in W3]; s.masks = shim.sym('m', (2, 1, 1, 2)); s.loss_function = _mse('mean')
    x = shim.sym('x', (1, 1, 2)); t = shim.sym('t', (1, 1, 2))
    g.add('mp_all', W3 + X + TG + M, _scalar(ns['__call__'](s, x, t)))
    g.add('mp_plane1', W3 + X + TG + M, _scalar(ns['__call__'](s, x, t, plane_id=1)))
    ns = namespace()
    shim.load('odak/learn/wave/loss.py', ['__call__'], ns, cls='perceptual_multiplane_loss')
    s = Stub(); s.masks = shim.sym('m', (2, 1, 1, 2)); s.l2_loss_fn = _mse('mean'); s.l1_loss_fn = _l1('mean')
    s.base_loss_weights = {'base_l2_loss': shim.var('w0'), 'loss_l2_mask': shim.var('w1'), 'loss_l2_cor': shim.var('w2'),
                           'base_l1_loss': shim.var('v0'), 'loss_l1_mask': shim.var('v1'), 'loss_l1_cor': shim.var('v2')}
    s.additional_loss_weights = {}; s.return_components = False
    g.add('pmp_all', W3 + V3 + X + TG + M, _scalar(ns['__call__'](s, x, t)))
    # ---------------- speckle_contrast (2 x 2 box kernel, stride 1, on a 3 x 3 intensity)
    ns = namespace()
    shim.load('odak/learn/wave/loss.py', ['functional_conv2d', 'forward'], ns, cls='speckle_contrast')
    s = Stub(); s.kernel = shim.wrap(_np.full((1, 1, 2, 2), shim.const(shim.Fraction(1, 4)), dtype=object)); s.step_size = (1, 1)
    s.loss = _mse('mean'); s.functional_conv2d = lambda z, _f=ns['functional_conv2d'], _s=s: _f(_s, z)
    inten = shim.sym('i', (1, 1, 3, 3))
    c = ns['functional_conv2d'](s, inten)
    assert c.shape == (1, 1, 2, 2), c.shape
    for u in range(2):
        for v in range(2):
            g.add('sc_%d_%d' % (u, v), I33, c[0, 0, u, v])
    g.add('sc_loss', I33, _scalar(ns['forward'](s, inten)))
    # ---------------- phase_gradient (default Laplacian / 8, zero padding 1, on a 3 x 3 phase)
    ns = namespace()
    shim.load('odak/learn/wave/loss.py', ['functional_conv2d', 'forward'], ns, cls='phase_gradient')
    s = Stub()
    s.kernel = shim.wrap(_np.array([[[[shim.const(shim.Fraction(v, 8)) for v in row] for row in LAPLACIAN]]], dtype=object))
    s.loss = _mse('mean'); s.functional_conv2d = lambda z, _f=ns['functional_conv2d'], _s=s: _f(_s, z)
    e = ns['functional_conv2d'](s, inten)
    assert e.shape == (1, 1, 3, 3), e.shape
    for u in range(3):
        for v in range(3):
            g.add('pg_%d_%d' % (u, v), I33, e[0, 0, u, v])
    g.add('pg_loss_t', I33, _scalar(ns['forward'](s, inten)))
    # ---------------- PSNR.forward
    ns = namespace()
    shim.load('odak/learn/perception/image_quality_losses.py', ['forward'], ns, cls='PSNR')
    p = shim.sym('p', (2, 2)); tt = shim.sym('t', (2, 2))
    # ---------------- metameric_loss_stats of MetamericLoss (no radial weights) and MetamericLossUniform:
    # two statistics maps, of 2 and 1 entries
    SA = shim.names('sa', (1, 1, 1, 2)) + shim.names('sb', (1, 1, 1, 1)); TA = shim.names('ta', (1, 1, 1, 2)) + shim.names('tb', (1, 1, 1, 1))
    sa = [shim.sym('sa', (1, 1, 1, 2)), shim.sym('sb', (1, 1, 1, 1))]; ta = [shim.sym('ta', (1, 1, 1, 2)), shim.sym('tb', (1, 1, 1, 1))]
    ns2 = namespace()
    shim.load('odak/learn/perception/metameric_loss.py', ['metameric_loss_stats'], ns2, cls='MetamericLoss')
    st = Stub(); st.use_radial_weight = False
    g.add('met_stats_t', SA + TA, _scalar(ns2['metameric_loss_stats'](st, sa, ta, [0.5, 0.5])))
    ns2 = namespace()
    shim.load('odak/learn/perception/metameric_loss_uniform.py', ['metameric_loss_stats'], ns2, cls='MetamericLossUniform')
    g.add('metu_stats_t', SA + TA, _scalar(ns2['metameric_loss_stats'](Stub(), sa, ta)))
    # ---------------- multi_scale_total_variation_loss (2 levels, 1 x 1 x 2 x 4 frame)
    ns2 = namespace()
    shim.load('odak/learn/tools/loss.py', ['total_variation_loss', 'multi_scale_total_variation_loss'], ns2)
    g.add('mstv_t', shim.names('f', (1, 1, 2, 4)), _scalar(ns2['multi_scale_total_variation_loss'](shim.sym('f', (1, 1, 2, 4)), levels=2)))
    g.add('psnr_t', P22 + T22 + ['peak'], _scalar(ns['forward'](Stub(), p, tt, peak_value=shim.var('peak'))))
    return g
