"""Tracing recipe for C11 (and the refract pieces shared with C12): reflection / refraction.

`reflect` (both APIs) is straight-line code and is traced whole, for one ray, for two rays with two
normals and for two rays sharing one normal.  `refract` iterates on its data, so its CURRENT source is
cut (ast) at the `while` statement into four straight-line pieces that are traced separately:

  pre    everything before the loop except the initialisation of the loop control (`num`, `eps`)
  body   the loop body, as a function of the loop state
  guard  the loop condition (python `and` / `len(x[mask]) > 0` rewritten to symbolic and / any)
  post   everything after the loop

The Coq model composes them by fuel recursion; that the function really has the shape
`pre; while guard: body; post` (one loop, no break / continue / else, a single return at the end) is
checked structurally here, and numerically by the self-check in the harness (pieces composed in Python
reproduce the real function).  NaN is not a real number: `torch.full_like(x, float('nan'))` is traced as
the marker variable `NaN`, an explicit argument of the emitted definitions.
"""
import ast, os
from tracer import shim
from tracer.emit import Gen

TORCH = 'odak/learn/raytracing/boundary.py'
NUMPY = 'odak/raytracing/boundary.py'


class _SymBool(ast.NodeTransformer):
    """`x and y` -> __and__(x, y), `x or y` -> __or__(x, y), `not x` -> __not__(x) (python's own short-circuit
    operators would ask for the truth value of a symbolic condition)"""
    def visit_BoolOp(s, node):
        s.generic_visit(node)
        f = '__and__' if isinstance(node.op, ast.And) else '__or__'
        r = node.values[0]
        for v in node.values[1:]:
            r = ast.Call(ast.Name(f, ast.Load()), [r, v], [])
        return r
    def visit_UnaryOp(s, node):
        s.generic_visit(node)
        if isinstance(node.op, ast.Not):
            return ast.Call(ast.Name('__not__', ast.Load()), [node.operand], [])
        return node


def _assigned(stmts):
    out = []
    for st in stmts:
        for n in ast.walk(st):
            if isinstance(n, ast.Name) and isinstance(n.ctx, ast.Store) and n.id not in out:
                out.append(n.id)
    return out


def _fn(name, args, body, ns, path):
    f = ast.FunctionDef(name=name, args=ast.arguments(posonlyargs=[], args=[ast.arg(a) for a in args], kwonlyargs=[], kw_defaults=[], defaults=[]),
                        body=body, decorator_list=[], returns=None, type_params=[])
    mod = ast.Module([f], [])
    ast.fix_missing_locations(mod)
    exec(compile(mod, path, 'exec'), ns)
    return ns[name]


def _ret(names):
    return ast.Return(ast.Tuple([ast.Name(n, ast.Load()) for n in names], ast.Load()))


def refract_pieces():
    """cut the current `refract`; returns (namespace, info)"""
    path = os.path.join(shim.REPO, TORCH)
    src = open(path).read()
    fn = [n for n in ast.parse(src).body if isinstance(n, ast.FunctionDef) and n.name == 'refract'][0]
    params = [a.arg for a in fn.args.args]
    defaults = {a.arg: ast.literal_eval(d) for a, d in zip(fn.args.args[-len(fn.args.defaults):], fn.args.defaults)} if fn.args.defaults else {}
    body = [st for st in fn.body if not (isinstance(st, ast.Expr) and isinstance(getattr(st, 'value', None), ast.Constant))]
    loops = [i for i, st in enumerate(body) if isinstance(st, (ast.While, ast.For))]
    bad = [n for n in ast.walk(fn) if isinstance(n, (ast.Break, ast.Continue, ast.Try, ast.With, ast.Raise, ast.Yield, ast.Lambda, ast.FunctionDef)) and n is not fn]
    rets = [n for n in ast.walk(fn) if isinstance(n, ast.Return)]
    nested = [n for st in body for n in ast.walk(st) if isinstance(n, (ast.While, ast.For)) and n is not st]
    if len(loops) != 1 or not isinstance(body[loops[0]], ast.While) or body[loops[0]].orelse or bad or nested \
            or len(rets) != 1 or body[-1] is not rets[0]:
        raise shim.TraceError('refract no longer has the shape `pre; while guard: body; post; return`')
    k = loops[0]
    loop = body[k]
    pre_all, post = body[:k], body[k + 1:]
    control = ('num', 'eps')
    pre, init = [], {}
    for st in pre_all:
        tg = _assigned([st])
        if isinstance(st, ast.Assign) and len(tg) == 1 and tg[0] in control:
            init[tg[0]] = ast.get_source_segment(src, st.value)
        else:
            pre.append(st)
    state = ['mu', 'div', 'a', 'b', 'to']
    ns = shim.base_namespace({'len': shim.sym_len,
                              '__and__': lambda x, y: shim.B.lift(x) & shim.B.lift(y),
                              '__or__': lambda x, y: shim.B.lift(x) | shim.B.lift(y),
                              '__not__': lambda x: ~shim.B.lift(x)})
    _fn('rf_pre', params, pre + [_ret(state)], ns, path)
    _fn('rf_body', ['to', 'a', 'b', 'div', 'num', 'error'], list(loop.body) + [_ret(['to', 'eps', 'num'])], ns, path)
    guard = _SymBool().visit(ast.parse(ast.get_source_segment(src, loop.test), mode='eval').body)
    _fn('rf_guard', ['eps', 'error', 'num', 'max_iterations'], [ast.Return(guard)], ns, path)
    _fn('rf_post', ['to', 'eps', 'error', 'vector', 'normvector', 'mu'], post, ns, path)
    info = {'params': params, 'defaults': defaults, 'init': init, 'guard_src': ast.get_source_segment(src, loop.test),
            'body_assigns': _assigned(loop.body), 'has_cap': 'max_iterations' in params}
    return ns, info


VARGS = shim.names('v', (1, 2, 3))
NARGS = shim.names('n', (1, 2, 3))
V2 = shim.names('v', (2, 2, 3))
N2 = shim.names('n', (2, 2, 3))
SC = ['n1', 'n2']


def trace_reflect(g):
    # ---------------- PyTorch
    ns = shim.base_namespace()
    shim.load(TORCH, ['reflect'], ns)
    r = ns['reflect'](shim.sym('v', (1, 2, 3)), shim.sym('n', (1, 2, 3)))
    assert r.shape == (1, 2, 3), r.shape
    for k in range(3):
        g.add('t_refl_o_%d' % k, VARGS + NARGS, r[0, 0, k]); g.add('t_refl_d_%d' % k, VARGS + NARGS, r[0, 1, k])
    r = ns['reflect'](shim.sym('v_0', (2, 3)), shim.sym('n_0', (2, 3)))          # [2 x 3] inputs are promoted
    assert r.shape == (1, 2, 3), r.shape
    for k in range(3):
        g.add('t_refl2d_o_%d' % k, VARGS + NARGS, r[0, 0, k]); g.add('t_refl2d_d_%d' % k, VARGS + NARGS, r[0, 1, k])
    r = ns['reflect'](shim.sym('v', (2, 2, 3)), shim.sym('n', (2, 2, 3)))
    assert r.shape == (2, 2, 3), r.shape
    for i in range(2):
        for k in range(3):
            g.add('tb_refl_o_%d_%d' % (i, k), V2 + N2, r[i, 0, k]); g.add('tb_refl_d_%d_%d' % (i, k), V2 + N2, r[i, 1, k])
    r = ns['reflect'](shim.sym('v', (2, 2, 3)), shim.sym('n', (1, 2, 3)))          # two rays, one normal
    assert r.shape == (2, 2, 3), r.shape
    for i in range(2):
        for k in range(3):
            g.add('ts_refl_o_%d_%d' % (i, k), V2 + NARGS, r[i, 0, k]); g.add('ts_refl_d_%d_%d' % (i, k), V2 + NARGS, r[i, 1, k])
    # ---------------- NumPy
    ns2 = shim.base_namespace()
    shim.load(NUMPY, ['reflect'], ns2)
    r = ns2['reflect'](shim.sym('v_0', (2, 3)), shim.sym('n_0', (2, 3)))
    assert r.shape == (2, 3), r.shape
    for k in range(3):
        g.add('n_refl_o_%d' % k, VARGS + NARGS, r[0, k]); g.add('n_refl_d_%d' % k, VARGS + NARGS, r[1, k])
    r = ns2['reflect'](shim.sym('v', (2, 2, 3)), shim.sym('n', (2, 2, 3)))
    assert r.shape == (2, 2, 3), r.shape
    for i in range(2):
        for k in range(3):
            g.add('nb_refl_o_%d_%d' % (i, k), V2 + N2, r[i, 0, k]); g.add('nb_refl_d_%d_%d' % (i, k), V2 + N2, r[i, 1, k])
    # three rays: the batch size at which the unrepaired broadcast mixed rays up silently
    V3n, N3n = shim.names('v', (3, 2, 3)), shim.names('n', (3, 2, 3))
    r = ns2['reflect'](shim.sym('v', (3, 2, 3)), shim.sym('n', (3, 2, 3)))
    assert r.shape == (3, 2, 3), r.shape
    for i in range(3):
        for k in range(3):
            g.add('n3_refl_d_%d_%d' % (i, k), V3n + N3n, r[i, 1, k])
    r = ns2['reflect'](shim.sym('v', (2, 2, 3)), shim.sym('n', (1, 2, 3)))
    assert r.shape == (2, 2, 3), r.shape
    for i in range(2):
        for k in range(3):
            g.add('ns_refl_o_%d_%d' % (i, k), V2 + NARGS, r[i, 0, k]); g.add('ns_refl_d_%d_%d' % (i, k), V2 + NARGS, r[i, 1, k])


def trace_refract(g, with_guard=False):
    """pieces of `refract`; returns info.  Definitions:
       g_rf_mu g_rf_div g_rf_a g_rf_b g_rf_to (v n n1 n2 NaN)    state after `pre`, one ray
       g_rfb_*_i                                                 the same for two rays with two normals (row i)
       g_rf_step g_rf_eps (to a b div), g_rf_num (num)           loop body
       g_rf_out_o_k g_rf_out_d_k (to eps error v n mu NaN)       post: outgoing ray
       g_rf_guard1 / g_rf_guard2 (eps.. error num cap)           loop condition for 1 / 2 rays   (with_guard)"""
    ns, info = refract_pieces()
    err, num, cap, nan = shim.var('error'), shim.var('num'), shim.var('cap'), 'NaN'
    n1, n2 = shim.var('n1'), shim.var('n2')
    kw = {}
    if info['has_cap']:
        kw['max_iterations'] = cap
    mu, div, a, b, to = ns['rf_pre'](shim.sym('v', (1, 2, 3)), shim.sym('n', (1, 2, 3)), n1, n2, err, **kw)
    args = VARGS + NARGS + SC + [nan]
    g.add('g_rf_mu', args, mu)
    for nm, x in (('g_rf_div', div), ('g_rf_a', a), ('g_rf_b', b), ('g_rf_to', to)):
        assert x.shape == (1,), (nm, x.shape)
        g.add(nm, args, x[0])
    mu2, div2, a2, b2, to2 = ns['rf_pre'](shim.sym('v', (2, 2, 3)), shim.sym('n', (2, 2, 3)), n1, n2, err, **kw)
    args2 = V2 + N2 + SC + [nan]
    for i in range(2):
        for nm, x in (('g_rfb_div', div2), ('g_rfb_a', a2), ('g_rfb_b', b2), ('g_rfb_to', to2)):
            g.add('%s_%d' % (nm, i), args2, x[i])
    # body on one row (the body is elementwise: checked on two rows as well)
    st = ['to', 'a', 'b', 'div']
    t1, e1, num1 = ns['rf_body'](shim.sym('to', (1,)), shim.sym('a', (1,)), shim.sym('b', (1,)), shim.sym('div', (1,)), num, err)
    g.add('g_rf_step', [s + '_0' for s in st], t1[0]); g.add('g_rf_eps', [s + '_0' for s in st], e1[0])
    g.add('g_rf_num', ['num'], num1)
    t2, e2, _ = ns['rf_body'](shim.sym('to', (2,)), shim.sym('a', (2,)), shim.sym('b', (2,)), shim.sym('div', (2,)), num, err)
    a2n = [s + '_%d' % i for s in st for i in range(2)]
    for i in range(2):
        g.add('g_rfb_step_%d' % i, a2n, t2[i]); g.add('g_rfb_eps_%d' % i, a2n, e2[i])
    # post
    out = ns['rf_post'](shim.sym('to', (1,)), shim.sym('eps', (1,)), err, shim.sym('v', (1, 2, 3)), shim.sym('n', (1, 2, 3)), shim.var('mu'))
    assert out.shape == (1, 2, 3), out.shape
    pa = ['to_0', 'eps_0', 'error'] + VARGS + NARGS + ['mu', nan]
    for k in range(3):
        g.add('g_rf_out_o_%d' % k, pa, out[0, 0, k]); g.add('g_rf_out_d_%d' % k, pa, out[0, 1, k])
    out2 = ns['rf_post'](shim.sym('to', (2,)), shim.sym('eps', (2,)), err, shim.sym('v', (2, 2, 3)), shim.sym('n', (2, 2, 3)), shim.var('mu'))
    assert out2.shape == (2, 2, 3), out2.shape
    pa2 = ['to_0', 'to_1', 'eps_0', 'eps_1', 'error'] + V2 + N2 + ['mu', nan]
    for i in range(2):
        for k in range(3):
            g.add('g_rfb_out_o_%d_%d' % (i, k), pa2, out2[i, 0, k]); g.add('g_rfb_out_d_%d_%d' % (i, k), pa2, out2[i, 1, k])
    if with_guard:
        ga = (cap,) if info['has_cap'] else (shim.const(0),)
        g1 = ns['rf_guard'](shim.sym('eps', (1,)), err, num, *ga)
        g.add('g_rf_guard1', ['eps_0', 'error', 'num', 'cap'], shim.B.lift(g1))
        g2 = ns['rf_guard'](shim.sym('eps', (2,)), err, num, *ga)
        g.add('g_rf_guard2', ['eps_0', 'eps_1', 'error', 'num', 'cap'], shim.B.lift(g2))
    return info


def trace():
    g = Gen()
    trace_reflect(g)
    info = trace_refract(g, with_guard=True)
    return g, info
