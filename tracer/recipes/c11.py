"""Tracing recipe for C11 (and the refract pieces shared with C12): reflection / refraction.

`reflect` (both APIs) is straight-line code and is traced whole, for one ray, for two rays with two
normals and for two rays sharing one normal.  `refract` iterates on its data, so its CURRENT source is
cut (ast) at the `while` statement into four straight-line pieces that are traced separately:

  pre    everything before the loop except the initialisation of the loop control (counter, step size)
  body   the loop body, as a function of the loop state
  guard  the loop condition (python `and` / `len(x[mask]) > 0` / `.any()` rewritten to symbolic and / any)
  post   everything after the loop
(local names do not matter: the roles are found from the data flow, see RefractCut)

The Coq model composes them by fuel recursion; that the function really has the shape
`pre; while guard: body; post` (one loop, no break / continue / else, a single return at the end) is
checked structurally here, and numerically by the self-check in the harness (pieces composed in Python
reproduce the real function).  NaN is not a real number: `torch.full_like(x, float('nan'))` is traced as
the marker variable `NaN`, an explicit argument of the emitted definitions.
"""
import ast, os
from tracer import shim
from tracer.emit import Gen

TORCH = 'odak/learn/raytracing/boundary.py'
NUMPY = 'odak/raytracing/boundary.py'


class _SymBool(ast.NodeTransformer):
    """`x and y` -> __and__(x, y), `x or y` -> __or__(x, y), `not x` -> __not__(x) (python's own short-circuit
    operators would ask for the truth value of a symbolic condition)"""
    def visit_BoolOp(s, node):
        s.generic_visit(node)
        f = '__and__' if isinstance(node.op, ast.And) else '__or__'
        r = node.values[0]
        for v in node.values[1:]:
            r = ast.Call(ast.Name(f, ast.Load()), [r, v], [])
        return r
    def visit_UnaryOp(s, node):
        s.generic_visit(node)
        if isinstance(node.op, ast.Not):
            return ast.Call(ast.Name('__not__', ast.Load()), [node.operand], [])
        return node


def _assigned(stmts):
    out = []
    for st in stmts:
        for n in ast.walk(st):
            if isinstance(n, ast.Name) and isinstance(n.ctx, ast.Store) and n.id not in out:
                out.append(n.id)
    return out


def _fn(name, args, body, ns, path):
    f = ast.FunctionDef(name=name, args=ast.arguments(posonlyargs=[], args=[ast.arg(a) for a in args], kwonlyargs=[], kw_defaults=[], defaults=[]),
                        body=body, decorator_list=[], returns=None, type_params=[])
    mod = ast.Module([f], [])
    ast.fix_missing_locations(mod)
    exec(compile(mod, path, 'exec'), ns)
    return ns[name]


def _ret(names):
    return ast.Return(ast.Tuple([ast.Name(n, ast.Load()) for n in names], ast.Load()))


def _loaded(nodes):
    out = []
    for nd in nodes:
        for n in ast.walk(nd):
            if isinstance(n, ast.Name) and isinstance(n.ctx, ast.Load) and n.id not in out:
                out.append(n.id)
    return out


def _read_before_write(stmts):
    """names a statement list reads before (or without) assigning them"""
    written, out = set(), []
    for st in stmts:
        val = st.value if isinstance(st, (ast.Assign, ast.AugAssign, ast.AnnAssign)) else st
        for n in _loaded([val]) + ([st.target.id] if isinstance(st, ast.AugAssign) and isinstance(st.target, ast.Name) else []):
            if n not in written and n not in out:
                out.append(n)
        written.update(_assigned([st]))
    return out


def _is_plain_bool(x):
    import numpy
    return isinstance(x, (bool, numpy.bool_))


def sym_and(x, y):
    """`x and y` where either may be symbolic; plain python values keep python's semantics"""
    if not isinstance(x, shim.B) and not isinstance(y, shim.B) and not (_is_plain_bool(x) and _is_plain_bool(y)):
        return x and y
    return shim.B.lift(x) & shim.B.lift(y)


def sym_or(x, y):
    if not isinstance(x, shim.B) and not isinstance(y, shim.B) and not (_is_plain_bool(x) and _is_plain_bool(y)):
        return x or y
    return shim.B.lift(x) | shim.B.lift(y)


def sym_not(x):
    return ~x if isinstance(x, shim.B) else (not x)


def bind_module_constants(src, ns):
    """module-level `NAME = <literal>` assignments of the file (e.g. `_AXES = (0, 1, 2)`), for names the namespace lacks"""
    for st in ast.parse(src).body:
        if isinstance(st, ast.Assign) and len(st.targets) == 1 and isinstance(st.targets[0], ast.Name) and st.targets[0].id not in ns:
            try:
                ns[st.targets[0].id] = ast.literal_eval(st.value)
            except Exception:
                pass


class RefractCut:
    """The current `refract`, cut at its `while`.  Nothing depends on the NAMES of its locals: the roles are found from
    the data flow — the two loop-control variables are the names the loop condition reads and the body assigns (the
    one initialised with an integer literal is the counter, the other the step size `eps`), the Newton variable is the
    one other name the body assigns that is read again (by the next pass or after the loop).  Every piece is executed
    in the namespace the symbolic prologue leaves behind, so hoisted temporaries and local helper functions are
    simply there; only the loop state is replaced by fresh symbols."""

    def __init__(self):
        self.path = os.path.join(shim.REPO, TORCH)
        src = self.src = open(self.path).read()
        fn = [n for n in ast.parse(src).body if isinstance(n, ast.FunctionDef) and n.name == 'refract'][0]
        self.params = [a.arg for a in fn.args.args]
        self.defaults = {a.arg: ast.literal_eval(d) for a, d in zip(fn.args.args[-len(fn.args.defaults):], fn.args.defaults)} if fn.args.defaults else {}
        body = [st for st in fn.body if not (isinstance(st, ast.Expr) and isinstance(getattr(st, 'value', None), ast.Constant))]
        # "the loop" is the one top-level statement that iterates on data: a `while`, or a `for` that can `break`; a plain
        # `for axis in (0, 1, 2): ...` over a concrete iterable is straight-line code that python itself unrolls when the
        # piece it belongs to is executed
        def has_break(st): return any(isinstance(n, ast.Break) for n in ast.walk(st))
        loops = [i for i, st in enumerate(body) if isinstance(st, ast.While) or (isinstance(st, ast.For) and has_break(st))]
        helpers = [st for st in body if isinstance(st, ast.FunctionDef)]
        inner = [n for st in body if not isinstance(st, ast.FunctionDef) for n in ast.walk(st)]
        bad = [n for n in inner if isinstance(n, (ast.Continue, ast.Try, ast.With, ast.Raise, ast.Yield, ast.FunctionDef, ast.Global, ast.Nonlocal))]
        bad += [n for h in helpers for n in ast.walk(h) if isinstance(n, (ast.While, ast.For, ast.Try, ast.With, ast.Raise, ast.Yield, ast.Global, ast.Nonlocal))]
        rets = [n for n in inner if isinstance(n, ast.Return)]
        nested = [n for st in body for n in ast.walk(st) if not isinstance(st, ast.FunctionDef) and n is not st
                  and (isinstance(n, ast.While) or (isinstance(n, ast.For) and (has_break(n) or n.orelse)))]
        if len(loops) != 1 or body[loops[0]].orelse or bad or nested \
                or len(rets) != 1 or body[-1] is not rets[0] or any(body.index(h) > loops[0] for h in helpers):
            raise shim.TraceError('refract no longer has the shape `pre; loop; post; return`')
        k = loops[0]
        pre_all, self.post, self.ret = body[:k], body[k + 1:-1], body[-1].value
        self.guard, self.body, synth = self._normalise(body[k])
        if any(isinstance(n, ast.Break) for st in self.post + pre_all for n in ast.walk(st)):
            raise shim.TraceError('refract: break outside the loop')
        body_assigned = _assigned(self.body)
        self.local_helpers = {h.name: h for h in helpers}
        guard_reads = self._reads_through(self.guard)
        control = [n for n in guard_reads if n in body_assigned]
        if len(control) != 2:
            raise shim.TraceError('refract: the loop condition reads %s of the names its body assigns (expected a counter and a step size)' % control)
        self.init, self.pre = {}, []
        for st in pre_all:
            tg = _assigned([st])
            if isinstance(st, ast.Assign) and len(tg) == 1 and tg[0] in control and not isinstance(st, ast.FunctionDef):
                self.init[tg[0]] = ast.get_source_segment(src, st.value)
            else:
                self.pre.append(st)
        self.init.update({n: v for n, v in synth.items() if n in control})
        if sorted(self.init) != sorted(control):
            raise shim.TraceError('refract: loop-control variables %s are not initialised once before the loop' % control)
        def is_int(x):
            try: return isinstance(ast.literal_eval(x), int)
            except Exception: return False
        counters = [n for n in control if is_int(self.init[n])]
        if len(counters) != 1:
            raise shim.TraceError('refract: cannot tell the iteration counter among %s' % control)
        self.counter = counters[0]; self.eps = [n for n in control if n != self.counter][0]
        later = _loaded(self.post + [self.ret])
        state = [n for n in body_assigned if n not in control and (n in later or n in _read_before_write(self.body))]
        if len(state) != 1:
            raise shim.TraceError('refract: the loop carries %s besides its control variables (expected the Newton variable only)' % state)
        self.to = state[0]
        self.has_cap = 'max_iterations' in self.params
        self.guard_src = ast.unparse(self.guard)
        self.info = {'params': self.params, 'defaults': self.defaults, 'init': {'counter': self.init[self.counter], 'eps': self.init[self.eps]},
                     'names': {'counter': self.counter, 'eps': self.eps, 'to': self.to}, 'guard_src': self.guard_src,
                     'guard_reads_cap': 'max_iterations' in guard_reads, 'body_assigns': body_assigned, 'has_cap': self.has_cap}

    def _reads_through(self, node, depth=0):
        """names the expression reads, directly or THROUGH calls of the function's own local helper functions (closures
        read the enclosing locals; their parameters are bound to what the call passes, whose reads are counted at the call)"""
        out = []
        for n in _loaded([node]):
            if n not in out: out.append(n)
            h = self.local_helpers.get(n)
            if h is not None and depth < 3:
                params = {a.arg for a in h.args.args + h.args.kwonlyargs}
                for st in h.body:
                    for r in self._reads_through(st, depth + 1):
                        if r not in params and r not in out: out.append(r)
        return out

    @staticmethod
    def _normalise(loop):
        """(condition under which a pass is made, statements of a pass, {synthesised control variable: initial value}) for the
        loop forms  `while c: ...`,  `while True: if d: break; ...`,  `while c: if d: break; ...`  and
        `for i in range(n): [if d: break;] ...`  (the range index becomes an explicit counter).  A break anywhere but in
        leading `if d: break` statements, a `continue`, an `else` clause or any other iterable fail closed."""
        body, conds, synth = list(loop.body), [], {}
        if isinstance(loop, ast.While):
            t = loop.test
            if not (isinstance(t, ast.Constant) and t.value in (True, 1)):
                conds.append(t)
        else:
            it = loop.iter
            if not (isinstance(it, ast.Call) and isinstance(it.func, ast.Name) and it.func.id == 'range' and len(it.args) == 1 and not it.keywords
                    and isinstance(loop.target, ast.Name)):
                raise shim.TraceError('refract: a for loop that does not run over range(n)')
            cnt = '__pass'
            synth[cnt] = '0'
            conds.append(ast.Compare(ast.Name(cnt, ast.Load()), [ast.Lt()], [it.args[0]]))
        def is_break_if(st):
            return isinstance(st, ast.If) and not st.orelse and len(st.body) == 1 and isinstance(st.body[0], ast.Break)
        while body and is_break_if(body[0]):
            conds.append(ast.UnaryOp(ast.Not(), body[0].test)); body = body[1:]
        if isinstance(loop, ast.For):
            body = [ast.Assign([ast.Name(loop.target.id, ast.Store())], ast.Name('__pass', ast.Load()))] + body + \
                   [ast.AugAssign(ast.Name('__pass', ast.Store()), ast.Add(), ast.Constant(1))]
        if not conds or not body or any(isinstance(n, ast.Break) for st in body for n in ast.walk(st)):
            raise shim.TraceError('refract: the loop has no recognisable continuation condition (or breaks in the middle of a pass)')
        guard = conds[0] if len(conds) == 1 else ast.BoolOp(ast.And(), conds)
        for nd in [guard] + body:
            ast.fix_missing_locations(nd)
        return guard, body, synth

    def _exec(self, stmts, ns):
        mod = ast.Module([s for s in stmts], [])
        ast.fix_missing_locations(mod)
        exec(compile(mod, self.path, 'exec'), ns)

    def _eval(self, expr, ns):
        e = ast.Expression(expr)
        ast.fix_missing_locations(e)
        return eval(compile(e, self.path, 'eval'), ns)

    def run(self, vshape, nshape):
        """symbolic prologue on inputs of the given shapes, then one pass of the body, the condition and the epilogue on
        fresh loop state; returns dict(to0, step, eps, num, guard, out, m)"""
        import builtins, copy
        sb = lambda x: x if isinstance(x, shim.B) else builtins.bool(x)
        nanf = lambda x: shim.var('NaN') if isinstance(x, str) and x.strip().lower() == 'nan' else shim._float(x)
        ns = shim.base_namespace({'len': shim.sym_len, 'bool': sb, 'float': nanf, '__and__': sym_and, '__or__': sym_or, '__not__': sym_not})
        vals = {'vector': shim.sym('v', vshape), 'normvector': shim.sym('n', nshape), 'n1': shim.var('n1'), 'n2': shim.var('n2'),
                'error': shim.var('error'), 'max_iterations': shim.var('cap')}
        shim.load(TORCH, [], ns)                     # module-level helpers of the file (a private helper a refactoring introduces)
        bind_module_constants(self.src, ns)
        for p_ in self.params:
            if p_ not in vals:
                raise shim.TraceError('refract has an unknown parameter %s' % p_)
            ns[p_] = vals[p_]
        # local helper functions (closures over the function's locals) are defined by the prologue INSIDE ns: every piece is run
        # in that same dict (restored to the state the prologue left, loop state replaced by symbols), so that a closure such as
        # `still_searching()` reads the piece's eps / counter; python's and / or / not inside local helpers are made symbolic
        pre = [(_SymBool().visit(st) if isinstance(st, ast.FunctionDef) else st) for st in copy.deepcopy(self.pre)]
        self._exec(pre, ns)
        base = dict(ns)
        to0 = ns[self.to]
        m = int(_np_size(to0))
        def piece(**state):
            ns.clear(); ns.update(base); ns.update(state)
        piece(**{self.to: shim.sym('to', (m,)), self.counter: shim.var('num')})
        self._exec(copy.deepcopy(self.body), ns)
        step, eps, num = ns[self.to], ns[self.eps], ns[self.counter]
        piece(**{self.eps: shim.sym('eps', (m,)), self.counter: shim.var('num')})
        if not self.has_cap:
            ns['max_iterations'] = shim.const(0)
        guard = self._eval(_SymBool().visit(copy.deepcopy(self.guard)), ns)
        piece(**{self.to: shim.sym('to', (m,)), self.eps: shim.sym('eps', (m,))})
        self._exec(copy.deepcopy(self.post), ns)
        out = self._eval(copy.deepcopy(self.ret), ns)
        return {'to0': to0, 'step': step, 'eps': eps, 'num': num, 'guard': shim.B.lift(guard), 'out': out, 'm': m}


def _np_size(x):
    import numpy
    return numpy.asarray(x).size


VARGS = shim.names('v', (1, 2, 3))
NARGS = shim.names('n', (1, 2, 3))
V2 = shim.names('v', (2, 2, 3))
N2 = shim.names('n', (2, 2, 3))
SC = ['n1', 'n2']


def trace_reflect(g):
    # ---------------- PyTorch
    ns = shim.base_namespace()
    shim.load(TORCH, ['reflect'], ns)
    bind_module_constants(open(os.path.join(shim.REPO, TORCH)).read(), ns)
    r = ns['reflect'](shim.sym('v', (1, 2, 3)), shim.sym('n', (1, 2, 3)))
    assert r.shape == (1, 2, 3), r.shape
    for k in range(3):
        g.add('t_refl_o_%d' % k, VARGS + NARGS, r[0, 0, k]); g.add('t_refl_d_%d' % k, VARGS + NARGS, r[0, 1, k])
    r = ns['reflect'](shim.sym('v_0', (2, 3)), shim.sym('n_0', (2, 3)))          # [2 x 3] inputs are promoted
    assert r.shape == (1, 2, 3), r.shape
    for k in range(3):
        g.add('t_refl2d_o_%d' % k, VARGS + NARGS, r[0, 0, k]); g.add('t_refl2d_d_%d' % k, VARGS + NARGS, r[0, 1, k])
    r = ns['reflect'](shim.sym('v', (2, 2, 3)), shim.sym('n', (2, 2, 3)))
    assert r.shape == (2, 2, 3), r.shape
    for i in range(2):
        for k in range(3):
            g.add('tb_refl_o_%d_%d' % (i, k), V2 + N2, r[i, 0, k]); g.add('tb_refl_d_%d_%d' % (i, k), V2 + N2, r[i, 1, k])
    r = ns['reflect'](shim.sym('v', (2, 2, 3)), shim.sym('n', (1, 2, 3)))          # two rays, one normal
    assert r.shape == (2, 2, 3), r.shape
    for i in range(2):
        for k in range(3):
            g.add('ts_refl_o_%d_%d' % (i, k), V2 + NARGS, r[i, 0, k]); g.add('ts_refl_d_%d_%d' % (i, k), V2 + NARGS, r[i, 1, k])
    r = ns['reflect'](shim.sym('v', (1, 2, 3)), shim.sym('n', (2, 2, 3)))          # ONE ray, two normals
    assert r.shape == (2, 2, 3), r.shape
    for i in range(2):
        for k in range(3):
            g.add('t1m_refl_o_%d_%d' % (i, k), VARGS + N2, r[i, 0, k]); g.add('t1m_refl_d_%d_%d' % (i, k), VARGS + N2, r[i, 1, k])
    # ---------------- NumPy
    ns2 = shim.base_namespace()
    shim.load(NUMPY, ['reflect'], ns2)
    bind_module_constants(open(os.path.join(shim.REPO, NUMPY)).read(), ns2)
    r = ns2['reflect'](shim.sym('v', (1, 2, 3)), shim.sym('n', (2, 2, 3)))         # ONE ray, two normals
    assert r.shape == (2, 2, 3), r.shape
    for i in range(2):
        for k in range(3):
            g.add('n1m_refl_o_%d_%d' % (i, k), VARGS + N2, r[i, 0, k]); g.add('n1m_refl_d_%d_%d' % (i, k), VARGS + N2, r[i, 1, k])
    r = ns2['reflect'](shim.sym('v_0', (2, 3)), shim.sym('n_0', (2, 3)))
    assert r.shape == (2, 3), r.shape
    for k in range(3):
        g.add('n_refl_o_%d' % k, VARGS + NARGS, r[0, k]); g.add('n_refl_d_%d' % k, VARGS + NARGS, r[1, k])
    r = ns2['reflect'](shim.sym('v', (2, 2, 3)), shim.sym('n', (2, 2, 3)))
    assert r.shape == (2, 2, 3), r.shape
    for i in range(2):
        for k in range(3):
            g.add('nb_refl_o_%d_%d' % (i, k), V2 + N2, r[i, 0, k]); g.add('nb_refl_d_%d_%d' % (i, k), V2 + N2, r[i, 1, k])
    # three rays: the batch size at which the unrepaired broadcast mixed rays up silently
    V3n, N3n = shim.names('v', (3, 2, 3)), shim.names('n', (3, 2, 3))
    r = ns2['reflect'](shim.sym('v', (3, 2, 3)), shim.sym('n', (3, 2, 3)))
    assert r.shape == (3, 2, 3), r.shape
    for i in range(3):
        for k in range(3):
            g.add('n3_refl_d_%d_%d' % (i, k), V3n + N3n, r[i, 1, k])
    r = ns2['reflect'](shim.sym('v', (2, 2, 3)), shim.sym('n', (1, 2, 3)))
    assert r.shape == (2, 2, 3), r.shape
    for i in range(2):
        for k in range(3):
            g.add('ns_refl_o_%d_%d' % (i, k), V2 + NARGS, r[i, 0, k]); g.add('ns_refl_d_%d_%d' % (i, k), V2 + NARGS, r[i, 1, k])


def trace_refract(g, with_guard=False):
    """pieces of `refract`, all as functions of the INPUTS (ray v, normal n, indices) and of the loop state; returns info.
       g_rf_to (v n n1 n2 NaN)                      start value handed to the loop (NaN marker under TIR), one ray
       g_rf_step, g_rf_eps (to_0 v n n1 n2 NaN)     one pass of the loop body: next Newton variable, step size
       g_rf_num (num)                               the counter after one pass
       g_rf_out_o_k g_rf_out_d_k (to_0 eps_0 error v n n1 n2 NaN)   epilogue: outgoing ray
       g_rf_guard1 / g_rf_guard2 (eps.. error num cap)               loop condition for 1 / 2 rays   (with_guard)
       g_rfb_*_i                                    the same for two rays with two normals (row i)
       g_rf1m_*_i                                   the same for ONE ray with two normals (row i)"""
    cut = RefractCut()
    nan = 'NaN'
    IN1, IN2, IN3 = VARGS + NARGS + SC + [nan], V2 + N2 + SC + [nan], VARGS + N2 + SC + [nan]
    r = cut.run((1, 2, 3), (1, 2, 3))
    assert r['m'] == 1 and r['out'].shape == (1, 2, 3), (r['m'], r['out'].shape)
    g.add('g_rf_to', IN1, r['to0'][0])
    g.add('g_rf_step', ['to_0'] + IN1, r['step'][0]); g.add('g_rf_eps', ['to_0'] + IN1, r['eps'][0]); g.add('g_rf_num', ['num'], r['num'])
    for k in range(3):
        g.add('g_rf_out_o_%d' % k, ['to_0', 'eps_0', 'error'] + IN1, r['out'][0, 0, k]); g.add('g_rf_out_d_%d' % k, ['to_0', 'eps_0', 'error'] + IN1, r['out'][0, 1, k])
    if with_guard:
        g.add('g_rf_guard1', ['eps_0', 'error', 'num', 'cap'], r['guard'])
    for pre, vs, ns_, IN in (('g_rfb', (2, 2, 3), (2, 2, 3), IN2), ('g_rf1m', (1, 2, 3), (2, 2, 3), IN3)):
        r2 = cut.run(vs, ns_)
        assert r2['m'] == 2 and r2['out'].shape == (2, 2, 3), (pre, r2['m'], r2['out'].shape)
        for i in range(2):
            g.add('%s_to_%d' % (pre, i), IN, r2['to0'][i])
            g.add('%s_step_%d' % (pre, i), ['to_0', 'to_1'] + IN, r2['step'][i]); g.add('%s_eps_%d' % (pre, i), ['to_0', 'to_1'] + IN, r2['eps'][i])
            for k in range(3):
                g.add('%s_out_o_%d_%d' % (pre, i, k), ['to_0', 'to_1', 'eps_0', 'eps_1', 'error'] + IN, r2['out'][i, 0, k])
                g.add('%s_out_d_%d_%d' % (pre, i, k), ['to_0', 'to_1', 'eps_0', 'eps_1', 'error'] + IN, r2['out'][i, 1, k])
        if with_guard and pre == 'g_rfb':
            g.add('g_rf_guard2', ['eps_0', 'eps_1', 'error', 'num', 'cap'], r2['guard'])
    return cut.info


def trace():
    g = Gen()
    trace_reflect(g)
    info = trace_refract(g, with_guard=True)
    return g, info
