"""Tracing recipes shared by the wave properties (C01, C02, C03, C06).

kernels():   per-pixel real/imaginary parts, phases and band-limit masks of the transfer functions of both
             APIs, with symbolic dx, wavelength, distance on a small non-square grid.
pipelines(): the operator structure (fft2 / shifts / products / pad / crop) of every propagation function.
"""
from tracer import shim, opshim
from tracer.emit import Gen

NU, NV = 3, 4                    # torch: nu rows, nv columns
KARGS = ['dx', 'lam', 'z']


def _record_exp(ns, store):
    real_exp = ns['torch'].__dict__['exp']
    def exp(x):
        store.append(x)
        return real_exp(x)
    ns['torch'].__dict__['exp'] = exp
    real_nexp = ns['np'].__dict__['exp']
    def nexp(x):
        store.append(x)
        return real_nexp(x)
    ns['np'].__dict__['exp'] = nexp


def _phase_of(arg):
    """argument handed to exp(): must be purely imaginary; returns the real phase array"""
    a = shim.wrap(arg) if not isinstance(arg, shim.T) else arg
    out = shim._np.empty(a.shape, dtype=object)
    for idx in shim._np.ndindex(*a.shape):
        e = a[idx]
        if not isinstance(e, shim.CE) or not (e.re.is_const() and e.re.cval() == 0):
            raise shim.TraceError('kernel exponent is not purely imaginary')
        out[idx] = e.im
    return out


def _find(e, op, acc=None, seen=None):
    acc = [] if acc is None else acc; seen = set() if seen is None else seen
    if id(e) in seen or not isinstance(e, (shim.E, shim.B)): return acc
    seen.add(id(e))
    if isinstance(e, shim.E) and e.op == op and not any(x is e.a[0] for x in acc): acc.append(e.a[0])
    for x in e.a:
        if isinstance(x, (shim.E, shim.B)): _find(x, op, acc, seen)
    return acc


def _radicand(ph):
    r = _find(ph, 'sqrt')
    if len(r) != 1:
        raise shim.TraceError('angular-spectrum phase with %d square roots' % len(r))
    return r[0]


def _phase_of_pixel(px):
    """the real phase of a kernel sample, read from the sample itself: re contains cos(phi), im contains sin(phi) for one phi
    (independent of whether the code wrote exp(1j*phi), cos + 1j sin, or called generate_complex_field)"""
    px = shim.CE.lift(px)
    c, s_ = _find(px.re, 'cos'), _find(px.im, 'sin')
    if len(c) != 1 or len(s_) != 1 or c[0] is not s_[0]:
        raise shim.TraceError('kernel sample is not of the form A cos(phi) + i A sin(phi) (found %d cos / %d sin arguments)' % (len(c), len(s_)))
    return c[0]


def _ites(e, acc=None, seen=None):
    acc = [] if acc is None else acc; seen = set() if seen is None else seen
    if id(e) in seen or not isinstance(e, (shim.E, shim.B)): return acc
    seen.add(id(e))
    if isinstance(e, shim.E) and e.op == 'ite' and not any(x is e for x in acc): acc.append(e)
    for x in e.a:
        if isinstance(x, (shim.E, shim.B)): _ites(x, acc, seen)
    return acc


def _mask_of_pixel(px):
    """the 0/1 band-limit mask of a kernel sample: the condition of the (single) if-then-else with branches 1 and 0"""
    found = []
    for part in (px.re, px.im):
        for e in _ites(part):
            c, a, b = e.a
            if isinstance(a, shim.E) and isinstance(b, shim.E) and a.is_const() and b.is_const() and a.cval() == 1 and b.cval() == 0:
                if not any(c is x for x in found): found.append(c)
    if len(found) != 1:
        raise shim.TraceError('band-limited kernel sample does not carry exactly one 0/1 mask (found %d)' % len(found))
    return found[0]


def kernels():
    g = Gen()
    info = {}
    dx, lam, z = shim.var('dx'), shim.var('lam'), shim.var('z')
    # ------------------------------------------------------------ PyTorch kernel builders
    for tag, fname in (('as', 'get_angular_spectrum_kernel'), ('tf', 'get_transfer_function_fresnel_kernel')):
        ns = shim.base_namespace(); store = []
        _record_exp(ns, store)
        shim.load('odak/learn/wave/util.py', ['wavenumber', 'generate_complex_field'], ns)
        shim.load_all('odak/learn/wave/classical.py', ns)          # private helpers of the kernel builders
        shim.load('odak/learn/wave/classical.py', [fname], ns)
        H = ns[fname](NU, NV, dx=dx, wavelength=lam, distance=z, device='cpu')
        if H.shape != (NU, NV): raise shim.TraceError('%s: kernel shape %s' % (fname, H.shape))
        for i in range(NU):
            for j in range(NV):
                ph_ = _phase_of_pixel(H[i, j])
                g.add('%s_ph_%d_%d' % (tag, i, j), KARGS, ph_)
                if tag == 'as': g.add('as_rad_%d_%d' % (i, j), KARGS, _radicand(ph_))
                g.add('%s_re_%d_%d' % (tag, i, j), KARGS, H[i, j].re)
                g.add('%s_im_%d_%d' % (tag, i, j), KARGS, H[i, j].im)
    # band-limited: sample = mask01 x exp(i phase); mask and phase are read from the sample itself
    ns = shim.base_namespace()
    shim.load('odak/learn/wave/util.py', ['wavenumber', 'generate_complex_field'], ns)
    shim.load_all('odak/learn/wave/classical.py', ns)
    shim.load('odak/learn/wave/classical.py', ['get_band_limited_angular_spectrum_kernel'], ns)
    H = ns['get_band_limited_angular_spectrum_kernel'](NU, NV, dx=dx, wavelength=lam, distance=z, device='cpu')
    if H.shape != (NU, NV): raise shim.TraceError('band-limited kernel shape %s' % (H.shape,))
    for i in range(NU):
        for j in range(NV):
            px = shim.CE.lift(H[i, j])
            g.add('bl_mask_%d_%d' % (i, j), KARGS, _mask_of_pixel(px))
            g.add('bl_ph_%d_%d' % (i, j), KARGS, _phase_of_pixel(px))
            g.add('bl_rad_%d_%d' % (i, j), KARGS, _radicand(_phase_of_pixel(px)))
            g.add('bl_re_%d_%d' % (i, j), KARGS, px.re)
            g.add('bl_im_%d_%d' % (i, j), KARGS, px.im)
    # ------------------------------------------------------------ NumPy propagators: kernel literals
    k = shim.var('k')
    for tag, fname in (('nas', 'angular_spectrum'), ('ntf', 'transfer_function_fresnel'), ('nbl', 'band_limited_angular_spectrum')):
        ns = opshim.namespace(); store = []
        for helper in ('odak/wave/utils.py', 'odak/wave/__init__.py'):          # what odak/wave/classical.py imports at module level
            shim.load_all(helper, ns)
        _record_exp(ns, store)
        shim.load('odak/wave/classical.py', [fname], ns)
        u = opshim.fvar('u', shape=(NU, NV))      # numpy: field.shape = (nv, nu) = (rows, cols)
        term = ns[fname](u, k, z, dx, lam)
        lits = _literals(term)
        if len(lits) != 1: raise shim.TraceError('%s: expected one kernel literal, found %d' % (fname, len(lits)))
        H = lits[0]
        if H.shape != (NU, NV): raise shim.TraceError('%s: kernel shape %s' % (fname, H.shape))
        for i in range(NU):
            for j in range(NV):
                e = shim.CE.lift(H[i, j])
                g.add('%s_ph_%d_%d' % (tag, i, j), ['k'] + KARGS, _phase_of_pixel(e))
                if tag in ('nas', 'nbl'): g.add('%s_rad_%d_%d' % (tag, i, j), ['k'] + KARGS, _radicand(_phase_of_pixel(e)))
                if tag == 'nbl': g.add('nbl_mask_%d_%d' % (i, j), ['k'] + KARGS, _mask_of_pixel(e))
                g.add('%s_re_%d_%d' % (tag, i, j), ['k'] + KARGS, e.re)
                g.add('%s_im_%d_%d' % (tag, i, j), ['k'] + KARGS, e.im)
        info[fname] = opshim.coq(term)
    return g, info


def _literals(t, acc=None):
    acc = [] if acc is None else acc
    if isinstance(t, opshim.FT):
        if t.op == 'lit':
            if not any(t.a[0] is x for x in acc): acc.append(t.a[0])
        else:
            for x in t.a: _literals(x, acc)
    return acc


# ---------------------------------------------------------------------------------------------
TORCH_PIPES = ['angular_spectrum', 'band_limited_angular_spectrum', 'transfer_function_fresnel',
               'impulse_response_fresnel', 'seperable_impulse_response_fresnel', 'incoherent_angular_spectrum']
TYPE_OF = {'angular_spectrum': 'Angular Spectrum', 'band_limited_angular_spectrum': 'Bandlimited Angular Spectrum',
           'transfer_function_fresnel': 'Transfer Function Fresnel', 'impulse_response_fresnel': 'Impulse Response Fresnel',
           'seperable_impulse_response_fresnel': 'Seperable Impulse Response Fresnel',
           'incoherent_angular_spectrum': 'Incoherent Angular Spectrum'}


TERMS = {}


def pipelines():
    """returns list of (name, args, coq_term) for the operator-level definitions, and the dispatch record"""
    out = []
    disp = {}
    u, K, A = opshim.fvar('u'), opshim.fvar('K'), opshim.fvar('A')
    ns = opshim.namespace()
    shim.load('odak/learn/wave/classical.py', ['custom'], ns)
    custom = ns['custom']
    TERMS.clear()
    TERMS['t_custom'] = custom(u, K, zero_padding=False, aperture=A)
    out.append(('t_custom', 'u K A', opshim.coq(TERMS['t_custom'])))
    out.append(('t_custom_noap', 'u K', opshim.coq(custom(u, K, zero_padding=False, aperture=1.))))
    out.append(('t_custom_nokernel', 'u A', opshim.coq(custom(u, None, zero_padding=False, aperture=A))))
    out.append(('t_custom_fpad', 'u K A', opshim.coq(custom(u, K, zero_padding=True, aperture=A))))
    # every torch method = custom with the kernel of its own type
    calls = []
    bind_gpk = shim.binder('odak/learn/wave/classical.py', 'get_propagation_kernel')
    def gpk(*a, **kw):
        calls.append(bind_gpk(*a, **kw))          # by name, however the caller passed them
        return opshim.fvar('K')
    ns['get_propagation_kernel'] = gpk
    shim.load('odak/learn/wave/classical.py', TORCH_PIPES + ['propagate_beam', 'fraunhofer'], ns)
    k, z, dx, lam = shim.var('k'), shim.var('z'), shim.var('dx'), shim.var('lam')
    for f in TORCH_PIPES:
        del calls[:]
        term = ns[f](field=u, k=k, distance=z, dx=dx, wavelength=lam, zero_padding=False, aperture=A)
        if len(calls) != 1: raise shim.TraceError('%s: %d kernel requests' % (f, len(calls)))
        kw = calls[0]
        disp[f] = {'propagation_type': kw.get('propagation_type'), 'nu_nv': [kw.get('nu'), kw.get('nv')],
                   'distance_is_z': kw.get('distance') is z, 'wavelength_is_lam': kw.get('wavelength') is lam, 'dx_is_dx': kw.get('dx') is dx}
        out.append(('t_' + f, 'u K A', opshim.coq(term)))
    # propagate_beam dispatch + pad / crop placement
    for name, zp in (('t_beam_nopad', [False, False, False]), ('t_beam_padcrop', [True, False, True]), ('t_beam_padonly', [True, False, False]), ('t_beam_croponly', [False, False, True])):
        for f in TORCH_PIPES:
            del calls[:]
            term = ns['propagate_beam'](u, k, z, dx, lam, propagation_type=TYPE_OF[f], zero_padding=zp, aperture=A)
            if calls[0].get('propagation_type') != TYPE_OF[f]:
                raise shim.TraceError('propagate_beam(%s) requested a %s kernel' % (TYPE_OF[f], calls[0].get('propagation_type')))
            TERMS['%s_%s' % (name, f)] = term
            out.append(('%s_%s' % (name, f), 'u K A', opshim.coq(term)))
    out.append(('t_beam_custom', 'u K A', opshim.coq(ns['propagate_beam'](u, k, z, dx, lam, propagation_type='custom', kernel=K, zero_padding=[False, False, False], aperture=A))))
    # NumPy pipelines (kernel literal shown as H)
    for f in ('angular_spectrum', 'band_limited_angular_spectrum', 'transfer_function_fresnel', 'impulse_response_fresnel'):
        nsn = opshim.namespace()
        for helper in ('odak/wave/utils.py', 'odak/wave/__init__.py'):
            shim.load_all(helper, nsn)
        shim.load('odak/wave/classical.py', [f], nsn)
        un = opshim.fvar('u', shape=(NU, NV))
        term = nsn[f](un, k, z, dx, lam)
        TERMS['n_' + f] = term
        out.append(('n_' + f, 'u H' + (' (dx : R)' if f in ('transfer_function_fresnel', 'impulse_response_fresnel') else ''), opshim.coq(_name_lits(term))))
    # Fraunhofer (both APIs): pointwise factor x centred transform x dx^2
    nst = opshim.namespace()
    shim.load('odak/learn/wave/classical.py', ['fraunhofer'], nst)
    term = nst['fraunhofer'](opshim.fvar('u', shape=(NU, NV)), k, z, dx, lam)
    TERMS['t_fraunhofer'] = term
    out.append(('t_fraunhofer', 'u H (dx : R)', opshim.coq(_name_lits(term))))
    nsn = opshim.namespace()
    shim.load('odak/wave/classical.py', ['fraunhofer'], nsn)
    term = nsn['fraunhofer'](opshim.fvar('u', shape=(NU, NV)), k, z, dx, lam)
    TERMS['n_fraunhofer'] = term
    out.append(('n_fraunhofer', 'u H (dx : R)', opshim.coq(_name_lits(term))))
    return out, disp


def _name_lits(t):
    """replace kernel literals by the field variable H (one literal per pipeline, checked)"""
    lits = _literals(t)
    if len(lits) != 1: raise shim.TraceError('expected exactly one kernel literal, got %d' % len(lits))
    def rec(x):
        if isinstance(x, opshim.FT):
            if x.op == 'lit': return opshim.fvar('H', shape=x.shape)
            return opshim.FT(x.op, *[rec(y) for y in x.a], shape=x.shape)
        return x
    return rec(t)


def dispatchers():
    """get_propagation_kernel (PyTorch) and propagate_beam (NumPy) only DISPATCH: with every builder / method replaced by a
    marker-returning stub, each type must come back as exactly the marker of its own builder, called with the caller's arguments"""
    class Marker:
        def __init__(s, name, args, kw): s.name, s.args, s.kw = name, args, kw
    def stub(name):
        return lambda *a, **k: Marker(name, a, k)
    notes = {}
    ns = shim.base_namespace()
    builders = {'Bandlimited Angular Spectrum': 'get_band_limited_angular_spectrum_kernel', 'Angular Spectrum': 'get_angular_spectrum_kernel',
                'Transfer Function Fresnel': 'get_transfer_function_fresnel_kernel', 'Impulse Response Fresnel': 'get_impulse_response_fresnel_kernel',
                'Incoherent Angular Spectrum': 'get_incoherent_angular_spectrum_kernel'}
    for b in list(builders.values()) + ['get_seperable_impulse_response_fresnel_kernel']:
        ns[b] = stub(b)
    ns['get_seperable_impulse_response_fresnel_kernel'] = lambda *a, **k: (Marker('get_seperable_impulse_response_fresnel_kernel', a, k), None, None, None)
    ns['logging'] = type('L', (), {'warning': staticmethod(lambda *a, **k: None)})
    shim.load('odak/learn/wave/classical.py', ['get_propagation_kernel'], ns)
    dx, lam, z = shim.var('dx'), shim.var('lam'), shim.var('z')
    for typ, b in list(builders.items()) + [('Seperable Impulse Response Fresnel', 'get_seperable_impulse_response_fresnel_kernel')]:
        r = ns['get_propagation_kernel'](nu=4, nv=6, dx=dx, wavelength=lam, distance=z, device='cpu', propagation_type=typ, scale=1, samples=[2, 2, 1, 1])
        ok = isinstance(r, Marker) and r.name == b and r.kw.get('nu') == 4 and r.kw.get('nv') == 6 and r.kw.get('dx') is dx and r.kw.get('wavelength') is lam and r.kw.get('distance') is z
        notes['torch:' + typ] = bool(ok)
    nsn = shim.base_namespace()
    methods = {'Rayleigh-Sommerfeld': 'rayleigh_sommerfeld', 'Angular Spectrum': 'angular_spectrum', 'Impulse Response Fresnel': 'impulse_response_fresnel',
               'Bandlimited Angular Spectrum': 'band_limited_angular_spectrum', 'Bandextended Angular Spectrum': 'band_extended_angular_spectrum',
               'Adaptive Sampling Angular Spectrum': 'adaptive_sampling_angular_spectrum', 'Transfer Function Fresnel': 'transfer_function_fresnel',
               'Fraunhofer': 'fraunhofer', 'Fraunhofer Inverse': 'fraunhofer_inverse'}
    for mname in methods.values():
        nsn[mname] = stub(mname)
    shim.load('odak/wave/classical.py', ['propagate_beam'], nsn)
    k = shim.var('k'); fld = object()
    for typ, mname in methods.items():
        r = nsn['propagate_beam'](fld, k, z, dx, lam, typ)
        ok = isinstance(r, Marker) and r.name == mname and len(r.args) == 5 and r.args[0] is fld and r.args[1] is k and r.args[2] is z and r.args[3] is dx and r.args[4] is lam
        notes['numpy:' + typ] = bool(ok)
    return notes


UP_SCALE, UP_SHAPE = 2, (2, 3)


def upsampled():
    """scale > 1: the field handed to `custom` by the impulse-response methods, as per-sample expressions of the
    symbolic complex input (ur_i_j, ui_i_j)"""
    g = Gen()
    args = shim.names('ur', UP_SHAPE) + shim.names('ui', UP_SHAPE)
    for tag, f in (('ir', 'impulse_response_fresnel'), ('sir', 'seperable_impulse_response_fresnel')):
        ns = shim.base_namespace(); cap = {}
        shim.load('odak/learn/wave/util.py', ['calculate_amplitude', 'calculate_phase', 'generate_complex_field'], ns)
        ns['get_propagation_kernel'] = lambda *a, **kw: 'KERNEL'
        def custom(field_scale, H, zero_padding=False, aperture=1.):
            cap['f'] = field_scale
            return field_scale
        ns['custom'] = custom
        shim.load('odak/learn/wave/classical.py', [f], ns)
        u = shim.csym('u', UP_SHAPE)
        ns[f](u, shim.var('k'), shim.var('z'), shim.var('dx'), shim.var('lam'), scale=UP_SCALE, samples=[2, 2, 1, 1])
        fs = cap['f']
        if fs.shape != (UP_SHAPE[0] * UP_SCALE, UP_SHAPE[1] * UP_SCALE):
            raise shim.TraceError('%s: upsampled field shape %s' % (f, fs.shape))
        for i in range(fs.shape[0]):
            for j in range(fs.shape[1]):
                e = shim.CE.lift(fs[i, j])
                g.add('up_%s_re_%d_%d' % (tag, i, j), args, e.re); g.add('up_%s_im_%d_%d' % (tag, i, j), args, e.im)
    return g


HEADER = ('(* GENERATED on every run by the operator-level tracer from the current /repo sources. *)\n'
          'From Coq Require Import Reals.\nFrom Coquelicot Require Import Complex.\n'
          'From OdakV Require Import Base.RealAux Wave.Fields.\nOpen Scope R_scope.\n'
          'Section GenPipes.\nVariables F Finv S Sinv PAD CROP : fld -> fld.\n')


def pipes_text(defs):
    out = [HEADER]
    for name, args, term in defs:
        a = []
        for tok in args.replace('(dx : R)', '@dx').split():
            a.append('(dx : R)' if tok == '@dx' else '(%s : fld)' % tok)
        out.append('Definition %s %s : fld :=\n  %s.\n' % (name, ' '.join(a), term))
    out.append('End GenPipes.\n')
    return '\n'.join(out)
