"""Tracing recipe for C04: the exponents (and sampled values) of the lens phases and of the Fresnel
impulse responses of both APIs, with symbolic k, focal length, dx, wavelength and distance, on a small
non-square grid.  The transfer-function kernels (as / tf / bl / nas / ntf / nbl, incl. the band-limit masks bl_mask / nbl_mask,
all read off the finished kernel samples) are traced by the shared recipe tracer/recipes/wave.py (Run.GenWaveK); this recipe adds
Run.GenC04.  Nothing here refers to a local variable name of the traced functions."""
from tracer import shim, opshim
from tracer.emit import Gen
from tracer.recipes import wave as W

NX, NY = 3, 4
SAMPLES2 = [2, 1, 1, 2]          # second impulse-response trace: 2 x 1 hologram-pixel samples, 1 x 2 image-pixel samples


def _lens(g, relpath, tag, nx, ny, shape):
    k, f, dx = shim.var('k'), shim.var('f'), shim.var('dx')
    ns = shim.base_namespace(); store = []
    W._record_exp(ns, store)
    shim.load(relpath, ['quadratic_phase_function'], ns)
    q = ns['quadratic_phase_function'](nx, ny, k, focal=f, dx=dx)
    if tuple(q.shape) != shape: raise shim.TraceError('%s: lens shape %s' % (relpath, q.shape))
    if len(store) != 1: raise shim.TraceError('%s: %d exponentials' % (relpath, len(store)))
    ph = shim._np.broadcast_to(W._phase_of(store[0]), shape)
    for i in range(shape[0]):
        for j in range(shape[1]):
            e = shim.CE.lift(q[i, j])
            g.add('%s_ph_%d_%d' % (tag, i, j), ['k', 'f', 'dx'], ph[i, j])
            g.add('%s_re_%d_%d' % (tag, i, j), ['k', 'f', 'dx'], e.re)
            g.add('%s_im_%d_%d' % (tag, i, j), ['k', 'f', 'dx'], e.im)


def trace():
    g = Gen()
    info = {}
    dx, lam, z, k = shim.var('dx'), shim.var('lam'), shim.var('z'), shim.var('k')
    A3 = ['dx', 'lam', 'z']
    # ------------------------------------------------------------ lens phases; torch returns [nx, ny], numpy [ny, nx]:
    # both are requested so that they cover the NX x NY field of the matching propagator
    _lens(g, 'odak/learn/wave/lens.py', 'tl', NX, NY, (NX, NY))
    _lens(g, 'odak/wave/lens.py', 'nl', NY, NX, (NX, NY))
    # ------------------------------------------------------------ torch impulse response, one sample per pixel
    for tag, samples in (('tir', [1, 1, 1, 1]), ('tir2', SAMPLES2)):
        ns = opshim.namespace(); store = []
        W._record_exp(ns, store)
        shim.load('odak/learn/wave/util.py', ['wavenumber'], ns)
        shim.load('odak/learn/wave/classical.py', ['get_impulse_response_fresnel_kernel'], ns)
        H = ns['get_impulse_response_fresnel_kernel'](NX, NY, dx=dx, wavelength=lam, distance=z, device='cpu', scale=1, aperture_samples=samples)
        n_exp = samples[0] * samples[1] * samples[2] * samples[3]
        if len(store) != n_exp: raise shim.TraceError('torch impulse response: %d exponentials for samples %r' % (len(store), samples))
        lits = W._literals(H)
        if len(lits) != 1 or tuple(lits[0].shape) != (NX, NY): raise shim.TraceError('torch impulse response: kernel literal')
        info[tag + '_pipeline'] = opshim.coq(W._name_lits(H))
        for s, arg in enumerate(store):
            ph = shim._np.broadcast_to(W._phase_of(arg), (NX, NY))
            for i in range(NX):
                for j in range(NY):
                    g.add(('%s_ph_%d_%d' % (tag, i, j)) if tag == 'tir' else ('%s_ph_%d_%d_%d' % (tag, s, i, j)), A3, ph[i, j])
        if tag == 'tir':
            for i in range(NX):
                for j in range(NY):
                    e = shim.CE.lift(lits[0][i, j])
                    g.add('tir_re_%d_%d' % (i, j), A3, e.re); g.add('tir_im_%d_%d' % (i, j), A3, e.im)
    # ------------------------------------------------------------ torch separable impulse response
    ns = opshim.namespace(); store = []
    W._record_exp(ns, store)
    shim.load('odak/learn/wave/util.py', ['wavenumber'], ns)
    shim.load('odak/learn/wave/classical.py', ['get_seperable_impulse_response_fresnel_kernel'], ns)
    # the function reshapes a 0-d element (y[n // 2].unsqueeze(-1) / .view(1, 1)); the shim returns bare scalars for element
    # indexing, so give scalars the one-element-tensor view for the duration of this trace only
    added = []
    for nm, fn in (('unsqueeze', lambda s, d: shim.wrap([s])), ('view', lambda s, *a: shim.wrap([s]).reshape(*a)), ('reshape', lambda s, *a: shim.wrap([s]).reshape(*a))):
        if not hasattr(shim.E, nm): setattr(shim.E, nm, fn); added.append(nm)
    try:
        H, h, h_x, h_y = ns['get_seperable_impulse_response_fresnel_kernel'](NX, NY, dx=dx, wavelength=lam, distance=z, device='cpu', scale=1, aperture_samples=[1, 1, 1, 1])
        store1 = list(store); del store[:]
        # second trace, sub-pixel samples: only the operator structure / normalisation and the number of summed terms are used
        H2, _, _, _ = ns['get_seperable_impulse_response_fresnel_kernel'](NX, NY, dx=dx, wavelength=lam, distance=z, device='cpu', scale=1, aperture_samples=SAMPLES2)
        nterm = SAMPLES2[0] * SAMPLES2[1] * SAMPLES2[2] * SAMPLES2[3]
        if len(store) != 3 or W._phase_of(store[0]).size != NX * nterm or W._phase_of(store[1]).size != NY * nterm:
            raise shim.TraceError('separable impulse response, samples %r: unexpected exponent shapes' % (SAMPLES2,))
        info['ts2_pipeline'] = opshim.coq(W._name_lits(H2))
        info['ts2_terms'] = [nterm, nterm]
        store[:] = store1
    finally:
        for nm in added: delattr(shim.E, nm)
    if len(store) != 3: raise shim.TraceError('separable impulse response: %d exponentials' % len(store))
    px, py, pc = [W._phase_of(a) for a in store]
    if px.size != NX or py.size != NY or pc.size != 1: raise shim.TraceError('separable impulse response: exponent shapes %s %s %s' % (px.shape, py.shape, pc.shape))
    for i in range(NX): g.add('tsx_ph_%d' % i, A3, px.reshape(-1)[i])
    for j in range(NY): g.add('tsy_ph_%d' % j, A3, py.reshape(-1)[j])
    g.add('tsc_ph', A3, pc.reshape(-1)[0])
    if tuple(h.shape) != (NX, NY): raise shim.TraceError('separable impulse response: h shape %s' % (h.shape,))
    for i in range(NX):
        for j in range(NY):
            e = shim.CE.lift(h[i, j])
            g.add('ts_re_%d_%d' % (i, j), A3, e.re); g.add('ts_im_%d_%d' % (i, j), A3, e.im)
    info['ts_pipeline'] = opshim.coq(W._name_lits(H))
    # ------------------------------------------------------------ numpy impulse response
    ns = opshim.namespace(); store = []
    W._record_exp(ns, store)
    shim.load('odak/wave/classical.py', ['impulse_response_fresnel'], ns)
    u = opshim.fvar('u', shape=(NX, NY))
    term = ns['impulse_response_fresnel'](u, k, z, dx, lam)
    lits = W._literals(term)
    if len(lits) != 1 or tuple(lits[0].shape) != (NX, NY) or len(store) != 1: raise shim.TraceError('numpy impulse response: literal / exponentials')
    ph = shim._np.broadcast_to(W._phase_of(store[0]), (NX, NY))
    A4 = ['k'] + A3
    for i in range(NX):
        for j in range(NY):
            e = shim.CE.lift(lits[0][i, j])
            g.add('nir_ph_%d_%d' % (i, j), A4, ph[i, j])
            g.add('nir_re_%d_%d' % (i, j), A4, e.re); g.add('nir_im_%d_%d' % (i, j), A4, e.im)
    info['nir_pipeline'] = opshim.coq(W._name_lits(term))
    return g, info


PIPE_HEADER = ('(* GENERATED on every run (C04): operator structure around the sampled impulse responses. *)\n'
               'From Coq Require Import Reals.\nFrom Coquelicot Require Import Complex.\n'
               'From OdakV Require Import Base.RealAux Wave.Fields.\nOpen Scope R_scope.\n'
               'Section GenC04Pipes.\nVariables F Finv S Sinv : fld -> fld.\n')


def pipes_text(info):
    out = [PIPE_HEADER]
    out.append('Definition tir_kernel (H : fld) (dx : R) : fld :=\n  %s.\n' % info['tir_pipeline'])
    out.append('Definition tir2_kernel (H : fld) (dx : R) : fld :=\n  %s.\n' % info['tir2_pipeline'])
    out.append('Definition ts_kernel (H : fld) (dx : R) : fld :=\n  %s.\n' % info['ts_pipeline'])
    out.append('(* h_x and h_y of this trace each sum %d exponentials per sample *)\nDefinition ts2_kernel (H : fld) (dx : R) : fld :=\n  %s.\n' % (info['ts2_terms'][0], info['ts2_pipeline']))
    out.append('Definition nir_pipe (u H : fld) (dx : R) : fld :=\n  %s.\n' % info['nir_pipeline'])
    out.append('End GenC04Pipes.\n')
    return '\n'.join(out)
