"""Tracing recipe for C16: set_targets, get_targets and add_defocus_blur of both multiplane loss classes and
slice_rgbd_targets, executed symbolically on a 2x2 image with 1 or 3 channels (real variables x_ch_y_x,
depth d_y_x, positions p_k, multiplier mult)."""
from types import SimpleNamespace
import numpy as np
from tracer import shim
from tracer.emit import Gen, close

H = W = 2
CLASSES = (('multiplane_loss', 'ml'), ('perceptual_multiplane_loss', 'pl'))
CONFIGS = [(1, 1), (1, 2), (1, 3), (3, 1), (3, 3)]          # (channels, number of planes)
SLICE_CONFIGS = [(1, 1), (3, 2), (1, 3)]            # (channels, number of planes N; N+1 positions)
# add_defocus_blur: (channels, planes, planes whose `sum(plane) > 0` guard is FALSE on the traced path)
DEFOCUS_CONFIGS = [(1, 2, ()), (1, 3, ()), (3, 2, ()), (1, 3, (1,))]
DEFOCUS_TAGS = (('multiplane_loss', 'df'), ('perceptual_multiplane_loss', 'dp'))
BLUR_SIZE = 3
DARGS = shim.names('d', (H, W))
TIE_STAGE1 = ['C16_TieA', 'C16_TieB', 'C16_TieC'] + ['C16_Tie%s' % c for c in 'DEFGHIJK']
TIE_STAGE2 = ['C16_TieProps']
SAMPLE_DEF = 'ml_c3n3_gt_focus_1_0_1'


def xargs(C):
    return shim.names('x', (C, H, W))


def pargs(N):
    return ['p_%d' % k for k in range(N + 1)]


def dname(tag, C, n, empty=()):
    return '%s_c%dn%d%s' % (tag, C, n, ''.join('e%d' % j for j in empty))


def _extend(ns):
    """names of torch that refactorings of these functions use; all are re-expressed with operations the
    shim already has (kept here so that tracer/shim.py stays untouched)"""
    t = ns['torch'].__dict__
    t.setdefault('eq', lambda a, b: shim.wrap(a) == b)
    t.setdefault('ne', lambda a, b: shim.wrap(a) != b)
    t.setdefault('lt', lambda a, b: shim.wrap(a) < b)
    t.setdefault('le', lambda a, b: shim.wrap(a) <= b)
    t.setdefault('gt', lambda a, b: shim.wrap(a) > b)
    t.setdefault('ge', lambda a, b: shim.wrap(a) >= b)
    t.setdefault('multiply', lambda a, b: a * b)
    return ns


def _emit_planes(g, pre, C, n, args, me):
    for y in range(H):
        for x in range(W):
            g.add('%s_q_%d_%d' % (pre, y, x), args, me.target_depth[y, x])
            for ch in range(C):
                for i in range(n):
                    g.add('%s_mask_%d_%d_%d_%d' % (pre, i, ch, y, x), args, me.masks[i, ch, y, x])


def trace():
    g = Gen16()
    for cls, tag in CLASSES:
        for C, n in CONFIGS:
            ns = _extend(shim.base_namespace())
            shim.load('odak/learn/wave/loss.py', ['set_targets', 'get_targets'], ns, cls=cls)
            me = SimpleNamespace(target_image=shim.sym('x', (C, H, W)), target_depth=shim.sym('d', (H, W)),
                                 number_of_planes=n, device='cpu', multiplier=shim.var('mult'))
            ns['set_targets'](me)
            assert me.targets.shape == (n, C, H, W) and me.masks.shape == (n, C, H, W), (me.targets.shape, me.masks.shape)
            assert me.focus_target.shape == (C, H, W) and me.target_depth.shape == (H, W), (me.focus_target.shape, me.target_depth.shape)
            args = xargs(C) + DARGS
            pre = dname(tag, C, n)
            _emit_planes(g, pre, C, n, args, me)
            for y in range(H):
                for x in range(W):
                    for ch in range(C):
                        g.add('%s_focus_%d_%d_%d' % (pre, ch, y, x), args, me.focus_target[ch, y, x])
                        for i in range(n):
                            g.add('%s_target_%d_%d_%d_%d' % (pre, i, ch, y, x), args, me.targets[i, ch, y, x])
            # the observation point of the property: what get_targets hands out (scheme 'naive')
            out = ns['get_targets'](me)
            if len(out) != 3:
                raise shim.TraceError('get_targets returns %d values' % len(out))
            t_out, f_out, d_out = out
            assert t_out.shape == (n, C, H, W) and f_out.shape == (C, H, W) and d_out.shape == (H, W)
            gargs = args + ['mult']
            for y in range(H):
                for x in range(W):
                    g.add('%s_gt_depth_%d_%d' % (pre, y, x), gargs, d_out[y, x])
                    for ch in range(C):
                        g.add('%s_gt_focus_%d_%d_%d' % (pre, ch, y, x), gargs, f_out[ch, y, x])
                        for i in range(n):
                            g.add('%s_gt_target_%d_%d_%d_%d' % (pre, i, ch, y, x), gargs, t_out[i, ch, y, x])
    for C, N in SLICE_CONFIGS:
        ns = _extend(shim.base_namespace())
        shim.load('odak/learn/perception/util.py', ['slice_rgbd_targets'], ns)
        pos = [shim.wrap(np.array(shim.var('p_%d' % k), dtype=object)) for k in range(N + 1)]   # 0-d tensors
        targets, masks = ns['slice_rgbd_targets'](shim.sym('x', (C, H, W)), shim.sym('d', (H, W)), pos)
        assert targets.shape == (N, C, H, W) and masks.shape == (N, C, H, W), (targets.shape, masks.shape)
        args = xargs(C) + DARGS + pargs(N)
        pre = 'sl_c%dn%d' % (C, N)
        for y in range(H):
            for x in range(W):
                for ch in range(C):
                    for i in range(N):
                        g.add('%s_mask_%d_%d_%d_%d' % (pre, i, ch, y, x), args, masks[i, ch, y, x])
                        g.add('%s_target_%d_%d_%d_%d' % (pre, i, ch, y, x), args, targets[i, ch, y, x])
    for cls, tag in DEFOCUS_TAGS:
        for C, n, empty in DEFOCUS_CONFIGS:
            _trace_defocus(g, cls, tag, C, n, empty)
    return g


# ---------------------------------------------------------------- add_defocus_blur (conv2d as an operator)
# The Gaussian kernel builder and conv2d are replaced by an uninterpreted operator
#     blur k p a b c d  =  pixel p of conv2d([[a, b], [c, d]], normalised Gaussian kernel of integer sigma k, 'same')
# and the data-dependent guard `torch.sum(targets_cache[j]) > 0` is decided by the recipe: true for every plane
# except the ones listed as empty.  The guard expressions are emitted; the tie states the path condition on them.
class _Kernel:
    def __init__(s, nsigma):
        s.ns = (float(nsigma[0]), float(nsigma[1]))
        if s.ns[0] != s.ns[1] or not s.ns[0].is_integer():
            raise shim.TraceError('kernel with nsigma %r is outside the recipe' % (nsigma,))
    def to(s, *a, **k): return s
    def unsqueeze(s, d): return s
    def sum(s, *a, **k): return 'kernel-sum'
    def __getitem__(s, idx): return s
    def __truediv__(s, o):
        if o != 'kernel-sum': raise shim.TraceError('kernel divided by something that is not its own sum')
        return s


class _Guard:
    def __init__(s, e, book): s.e, s.book = e, book
    def __gt__(s, o):                                   # also reached by `0 < guard`
        if isinstance(o, bool) or not isinstance(o, (int, float)) or o != 0:
            raise shim.TraceError('guard compared with %r' % (o,))
        return s.book.decide(s.e)
    def __bool__(s): raise shim.TraceError('truth value of a plane sum (only `sum > 0` is a known occupancy test)')


class _MethodSumAsGuard:
    """while add_defocus_blur is traced, `t.sum()` without an axis (the method spelling of the occupancy test
    `torch.sum(t) > 0`) yields the same recorded guard object as `torch.sum(t)`; sums along an axis are untouched.
    The patch is confined to the `with` block, tracer/shim.py is not edited; anything else done with a guard object
    (arithmetic, other comparisons) raises: fail-closed."""
    def __init__(s, book): s.book = book
    def __enter__(s):
        s.orig = orig = shim.T.sum
        book = s.book

        def sum_(t, axis=None, dim=None, *a, **k):
            if axis is None and dim is None and not a and not k:
                return _Guard(orig(t), book)
            return orig(t, axis, dim, *a, **k)
        shim.T.sum = sum_
        return s
    def __exit__(s, *a):
        shim.T.sum = s.orig
        return False


class _GuardBook:
    """guards in order of first appearance: channel-major, plane-minor"""
    def __init__(s, n, empty): s.n, s.empty, s.seen = n, set(empty), []
    def decide(s, e):
        for k, f in enumerate(s.seen):
            if f is e: break
        else:
            s.seen.append(e); k = len(s.seen) - 1
        return (k % s.n) not in s.empty


def _defocus_namespace(book):
    ns = _extend(shim.base_namespace())
    t = ns['torch'].__dict__
    orig_sum = t['sum']

    def tsum(x, axis=None, dim=None, **k):
        if isinstance(x, _Kernel):
            return 'kernel-sum'
        if axis is None and dim is None:
            return _Guard(orig_sum(x), book)
        return orig_sum(x, axis=axis, dim=dim, **k)

    def conv2d(inp, ker, padding=None, **k):
        if padding != 'same' or not isinstance(ker, _Kernel) or tuple(inp.shape) != (1, 1, H, W) or k:
            raise shim.TraceError('conv2d call outside the recipe')
        a = [inp[0, 0, y, x] for y in range(H) for x in range(W)]
        out = np.empty((1, 1, H, W), dtype=object)
        for y in range(H):
            for x in range(W):
                out[0, 0, y, x] = shim.E('uf', 'blur %d%%nat %d%%nat' % (int(ker.ns[0]), 2 * y + x), *[shim.E.lift(v) for v in a])
        return shim.wrap(out)

    fn = SimpleNamespace(conv2d=conv2d)
    t['sum'] = tsum
    t['nn'] = SimpleNamespace(functional=fn)
    ns['F'] = fn
    ns['generate_2d_gaussian'] = lambda kernel_length, nsigma, *a, **k: _Kernel(nsigma)
    ns['dict'] = dict
    return ns


class Gen16(Gen):
    """definitions that mention the blur operator take it as their first argument"""
    BLUR = '(blur : nat -> nat -> R -> R -> R -> R -> R) '

    def text(self):
        out = []
        for blk in Gen.text(self).split('\n\n'):
            if '(blur ' in blk and blk.startswith('Definition '):
                head, rest = blk.split(' ', 2)[1], blk.split(' ', 2)[2]
                blk = 'Definition %s %s%s' % (head, self.BLUR, rest)
            out.append(blk)
        return '\n\n'.join(out)


def _trace_defocus(g, cls, tag, C, n, empty):
    book = _GuardBook(n, empty)
    ns = _defocus_namespace(book)
    shim.load('odak/learn/wave/loss.py', ['set_targets', 'add_defocus_blur', 'get_targets'], ns, cls=cls)
    me = SimpleNamespace(target_image=shim.sym('x', (C, H, W)), target_depth=shim.sym('d', (H, W)),
                         number_of_planes=n, device='cpu', target_blur_size=BLUR_SIZE, blur_ratio=1.0,
                         multiplier=shim.var('mult'))
    ns['set_targets'](me)
    with _MethodSumAsGuard(book):
        ns['add_defocus_blur'](me)
    t_out, f_out, d_out = ns['get_targets'](me)
    assert t_out.shape == (n, C, H, W) and f_out.shape == (C, H, W), (t_out.shape, f_out.shape)
    if len(book.seen) != C * n:
        raise shim.TraceError('%d distinct plane-sum guards, expected %d' % (len(book.seen), C * n))
    args = xargs(C) + DARGS + ['mult']
    pre = dname(tag, C, n, empty)
    _emit_planes(g, pre, C, n, args, me)
    for ch in range(C):
        for j in range(n):
            g.add('%s_guard_%d_%d' % (pre, j, ch), args, book.seen[ch * n + j])
    for ch in range(C):
        for y in range(H):
            for x in range(W):
                g.add('%s_focus_%d_%d_%d' % (pre, ch, y, x), args, f_out[ch, y, x])
                for i in range(n):
                    g.add('%s_target_%d_%d_%d_%d' % (pre, i, ch, y, x), args, t_out[i, ch, y, x])


# ---------------------------------------------------------------- numeric self-check of the translator
def self_check(g, rng, make_loss, slice_fn, log=print):
    """the traced terms, evaluated numerically, equal what the real code returns (inputs away from the
    rounding / interval boundaries, where float64 evaluation of the term and float32 execution could differ)"""
    import torch
    bad = n = 0

    def cmp(name, env, val, rt=1e-6, at=1e-7):
        nonlocal bad, n
        n += 1
        got = g.evalf(name, env)
        if not close(got, val, rt, at):
            bad += 1
            if bad <= 5: log('self-check mismatch', name, got, val)

    def image_env(img, dep, C):
        env = {}
        for ch in range(C):
            for y in range(H):
                for x in range(W):
                    env['x_%d_%d_%d' % (ch, y, x)] = img[ch, y, x]
        for y in range(H):
            for x in range(W):
                env['d_%d_%d' % (y, x)] = float(np.float32(dep[y, x]))
        return env

    for cls, tag in CLASSES:
        for C, npl in CONFIGS:
            for rep in range(2):
                img = np.array([[[rng.randint(0, 256) / 256.0 for _ in range(W)] for _ in range(H)] for _ in range(C)])
                dep = np.zeros((H, W))
                for y in range(H):
                    for x in range(W):
                        k = rng.randint(0, max(npl - 1, 0))
                        dep[y, x] = min(1.0, max(0.0, (k + rng.uniform(-0.4, 0.4)) / max(npl - 1, 1)))
                mult = rng.choice([1.0, 2.0, 0.5])
                L = make_loss(cls, torch.tensor(img, dtype=torch.float32), torch.tensor(dep, dtype=torch.float32), npl, 'naive', 5, 0.25, mult)
                targets, focus, dout = L.get_targets()
                env = image_env(img, dep, C); env['mult'] = mult
                pre = dname(tag, C, npl)
                for y in range(H):
                    for x in range(W):
                        cmp('%s_q_%d_%d' % (pre, y, x), env, float(L.target_depth[y, x]))
                        cmp('%s_gt_depth_%d_%d' % (pre, y, x), env, float(dout[y, x]))
                        for ch in range(C):
                            cmp('%s_focus_%d_%d_%d' % (pre, ch, y, x), env, float(L.focus_target[ch, y, x]))
                            cmp('%s_gt_focus_%d_%d_%d' % (pre, ch, y, x), env, float(focus[ch, y, x]))
                            for i in range(npl):
                                cmp('%s_mask_%d_%d_%d_%d' % (pre, i, ch, y, x), env, float(L.masks[i, ch, y, x]))
                                cmp('%s_target_%d_%d_%d_%d' % (pre, i, ch, y, x), env, float(L.targets[i, ch, y, x]))
                                cmp('%s_gt_target_%d_%d_%d_%d' % (pre, i, ch, y, x), env, float(targets[i, ch, y, x]))
    for C, N in SLICE_CONFIGS:
        for rep in range(3):
            img = np.array([[[rng.randint(0, 256) / 256.0 for _ in range(W)] for _ in range(H)] for _ in range(C)])
            pos = [0.0] + sorted(rng.randint(1, 15) / 16.0 for _ in range(N - 1)) + [1.0]
            dep = np.array([[rng.choice([0.0, 1.0, rng.randint(0, 16) / 16.0, rng.randint(0, 64) / 64.0]) for _ in range(W)] for _ in range(H)])
            targets, masks = slice_fn(torch.tensor(img, dtype=torch.float32), torch.tensor(dep, dtype=torch.float32), pos)
            env = image_env(img, dep, C)
            env.update({'p_%d' % k: pos[k] for k in range(N + 1)})
            pre = 'sl_c%dn%d' % (C, N)
            for y in range(H):
                for x in range(W):
                    for ch in range(C):
                        for i in range(N):
                            cmp('%s_mask_%d_%d_%d_%d' % (pre, i, ch, y, x), env, float(masks[i, ch, y, x]))
                            cmp('%s_target_%d_%d_%d_%d' % (pre, i, ch, y, x), env, float(targets[i, ch, y, x]))
    # add_defocus_blur: the operator `blur k p` is evaluated with odak's own kernel builder and torch's conv2d
    from odak.learn.tools import generate_2d_gaussian

    def blur_fn(k, p):
        def f(a, b, c, d):
            ker = generate_2d_gaussian([BLUR_SIZE, BLUR_SIZE], [k, k])
            ker = (ker / torch.sum(ker)).unsqueeze(0).unsqueeze(0)
            y = torch.nn.functional.conv2d(torch.tensor([[[[a, b], [c, d]]]], dtype=torch.float32), ker, padding='same')
            return float(y[0, 0, p // 2, p % 2])
        return f
    for dcls, dtag in DEFOCUS_TAGS:
        for C, npl, empty in DEFOCUS_CONFIGS:
            for rep in range(2):
                img = np.array([[[rng.randint(1, 256) / 256.0 for _ in range(W)] for _ in range(H)] for _ in range(C)])
                full = [j for j in range(npl) if j not in empty]
                planes = list(full) + [rng.choice(full) for _ in range(H * W - len(full))]
                rng.shuffle(planes)                    # every non-empty plane owns a pixel, the empty ones none
                # depth values that round, floor and floor(x + 1/2) all send to plane k
                dep = np.array([(k + (rng.uniform(0.05, 0.35) if k < npl - 1 else 0.0)) / (npl - 1) for k in planes]).reshape(H, W)
                mult = rng.choice([1.0, 1.5, 0.5])
                L = make_loss(dcls, torch.tensor(img, dtype=torch.float32), torch.tensor(dep, dtype=torch.float32), npl, 'defocus', BLUR_SIZE, 1.0, mult)
                targets, focus, _ = L.get_targets()
                on_path = all(bool((L.masks[j, ch] * torch.tensor(img[ch], dtype=torch.float32)).sum() > 0) == (j not in empty)
                              for ch in range(C) for j in range(npl))
                if not on_path:
                    continue                           # this input does not follow the traced guard path
                env = image_env(img, dep, C); env['mult'] = mult
                for k in range(npl):
                    for p in range(H * W):
                        env['blur %d%%nat %d%%nat' % (k, p)] = blur_fn(k, p)
                pre = dname(dtag, C, npl, empty)
                for ch in range(C):
                    for j in range(npl):
                        n += 1
                        if (g.evalf('%s_guard_%d_%d' % (pre, j, ch), env) > 0) != (j not in empty):
                            bad += 1; log('self-check: guard off the traced path', pre, j, ch)
                    for y in range(H):
                        for x in range(W):
                            cmp('%s_focus_%d_%d_%d' % (pre, ch, y, x), env, float(focus[ch, y, x]))
                            for i in range(npl):
                                cmp('%s_target_%d_%d_%d_%d' % (pre, i, ch, y, x), env, float(targets[i, ch, y, x]), 1e-5, 1e-6)
    return bad, n
