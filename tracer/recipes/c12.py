"""Tracing recipe for C12: the straight-line pieces of the iterative solvers other than `refract`
(whose pieces come from tracer/recipes/c11.py: prologue, body, guard, epilogue).

odak.raytracing.intersect_parametric (secant iteration): ONE pass of its loop executed symbolically (ParametricCut)
   g_sec_next/d0/e0/e1     the state after the pass: distances and errors (e1 = what the surface function answered)
   g_sec_count             the counter after the pass
   g_sec_guard             the `while` condition            (`or` rewritten to a symbolic or)
   g_sec_stop              the disjunction of the conditions of the `if ...: return False, False` statements inside the loop
                           (as a function of the counter BEFORE the pass)
   g_kernel_point_k        the point at which the surface function was asked (so: which distance goes into the kernel)
   g_sec2_*, g_sec_guard2, g_kernel_point2_* the same for a batch of two rays
   g_sphere_err, g_cyl_err intersection_kernel_for_parametric_surfaces with sphere_function / cylinder_function
odak.learn.raytracing.intersect_w_sphere (fixed number of optimiser steps): executed symbolically around one optimiser step
   g_ts_check              the flag as a function of the distance before (x) and after (y) the last optimiser step
Local names are irrelevant in both: the roles are read off the data flow (ParametricCut, torch_sphere_pass).
"""
import ast, os
from tracer import shim
from tracer.emit import Gen
from tracer.recipes.c11 import _SymBool, _fn, _ret

NUMPY = 'odak/raytracing/boundary.py'
TORCH = 'odak/learn/raytracing/boundary.py'
RAY = shim.names('r', (1, 2, 3))
SPH = ['s_%d' % i for i in range(4)]
CYL = ['c_%d' % i for i in range(7)]


def _func(relpath, name):
    path = os.path.join(shim.REPO, relpath)
    src = open(path).read()
    fn = [n for n in ast.parse(src).body if isinstance(n, ast.FunctionDef) and n.name == name][0]
    body = [st for st in fn.body if not (isinstance(st, ast.Expr) and isinstance(getattr(st, 'value', None), ast.Constant))]
    return path, src, fn, body


class _Exits(ast.NodeTransformer):
    """inside the loop body: `if cond: return value` -> `__exits__.append((cond, value))` (cond with symbolic and/or/not)"""
    def visit_If(s, node):
        if node.orelse or len(node.body) != 1 or not isinstance(node.body[0], ast.Return):
            raise shim.TraceError('intersect_parametric: an `if` in the loop that is not `if cond: return value`')
        cond = _SymBool().visit(node.test)
        val = node.body[0].value if node.body[0].value is not None else ast.Constant(None)
        return ast.Expr(ast.Call(ast.Attribute(ast.Name('__exits__', ast.Load()), 'append', ast.Load()), [ast.Tuple([cond, val], ast.Load())], []))


def _targets(stmts):
    """names assigned by the statements, including the bases of subscript targets (`error[1], point = ...`)"""
    out = []
    def tg(t):
        if isinstance(t, ast.Name): out.append(t.id)
        elif isinstance(t, (ast.Tuple, ast.List)): [tg(e) for e in t.elts]
        elif isinstance(t, ast.Subscript) and isinstance(t.value, ast.Name): out.append(t.value.id)
        elif isinstance(t, ast.Starred): tg(t.value)
    for st in stmts:
        for n in ast.walk(st):
            if isinstance(n, ast.Assign): [tg(t) for t in n.targets]
            elif isinstance(n, (ast.AugAssign, ast.AnnAssign)): tg(n.target)
    return list(dict.fromkeys(out))


class ParametricCut:
    """The current `intersect_parametric`, executed symbolically for ONE pass of its loop.  Nothing depends on the names of
    its locals or on how the statements are written: the prologue is run as it is (it builds the initial lists and the
    counter), the roles are read off the data flow — the list whose element [1] is returned holds the distances, the
    list read by the loop condition holds the errors, the integer is the counter — the loop state is replaced by
    symbols, the surface function by a probe that records the point it is asked about and answers with the symbol
    `e1`, and every `if ...: return value` inside the loop is recorded as an exit (condition, value)."""

    def __init__(self):
        path, src, fn, body = _func(NUMPY, 'intersect_parametric')
        self.path, self.src, self.fn = path, src, fn
        loops = [st for st in body if isinstance(st, (ast.While, ast.For))]
        inner = [n for st in body for n in ast.walk(st)]
        if len(loops) != 1 or not isinstance(loops[0], ast.While) or loops[0].orelse \
                or any(isinstance(n, (ast.Break, ast.Continue, ast.Try, ast.With, ast.Raise, ast.Yield, ast.FunctionDef, ast.Lambda)) for n in inner) \
                or any(isinstance(n, (ast.While, ast.For)) and n is not loops[0] for n in inner):
            raise shim.TraceError('intersect_parametric: expected init; one while loop; epilogue')
        self.loop = w = loops[0]
        k = body.index(w)
        self.pre, self.post = body[:k], body[k + 1:]
        if not self.post or not isinstance(self.post[-1], ast.Return) or any(isinstance(n, ast.Return) for st in self.post[:-1] for n in ast.walk(st)):
            raise shim.TraceError('intersect_parametric: the epilogue does not end in a single return')
        ret = self.post[-1].value
        if not (isinstance(ret, ast.Tuple) and len(ret.elts) == 2 and isinstance(ret.elts[0], ast.Subscript) and isinstance(ret.elts[0].value, ast.Name)
                and ast.literal_eval(ret.elts[0].slice) == 1):
            raise shim.TraceError('intersect_parametric: the function no longer returns (<distances>[1], normal)')
        self.dist = ret.elts[0].value.id
        self.params = [a.arg for a in fn.args.args]
        self.defaults = {a.arg: ast.literal_eval(d) for a, d in zip(fn.args.args[-len(fn.args.defaults):], fn.args.defaults)}
        self.guard_src = ast.get_source_segment(src, w.test)
        self.state = _targets(w.body)

    def _exec(self, stmts, ns):
        import copy
        mod = ast.Module(copy.deepcopy(stmts), [])
        ast.fix_missing_locations(mod)
        exec(compile(mod, self.path, 'exec'), ns)

    def namespace(self):
        ns = shim.base_namespace({'__and__': lambda x, y: shim.B.lift(x) & shim.B.lift(y), '__or__': lambda x, y: shim.B.lift(x) | shim.B.lift(y),
                                  '__not__': lambda x: ~shim.B.lift(x)})
        shim.load('odak/tools/vector.py', ['point_to_ray_distance'], ns)
        shim.load('odak/raytracing/ray.py', ['propagate_a_ray'], ns)
        shim.load('odak/raytracing/primitives.py', ['sphere_function', 'cylinder_function'], ns)
        called = {n.func.id for n in ast.walk(self.fn) if isinstance(n, ast.Call) and isinstance(n.func, ast.Name)}
        top = {n.name for n in ast.parse(self.src).body if isinstance(n, ast.FunctionDef)}
        # helpers of the same module that the function (or these helpers) call
        todo, seen = sorted(called & top), set()
        tree = {n.name: n for n in ast.parse(self.src).body if isinstance(n, ast.FunctionDef)}
        while todo:
            f = todo.pop()
            if f in seen or f == 'intersect_parametric': continue
            seen.add(f)
            todo += sorted({n.func.id for n in ast.walk(tree[f]) if isinstance(n, ast.Call) and isinstance(n.func, ast.Name)} & top)
        seen.discard('get_triangle_normal')
        shim.load(NUMPY, sorted(seen), ns)
        return ns

    def run(self, m):
        """one pass for a batch of m rays (m = 1: scalars as in the first iterations of the code)"""
        ns = self.namespace()
        probe = {}
        def surface(point, surf):
            probe['point'] = point
            return shim.wrap([shim.var('e1')]) if m == 1 else shim.sym('e1', (m,))
        vals = {'ray': shim.sym('r', (m, 2, 3)), 'parametric_surface': shim.sym('s', (4,)), 'surface_function': surface,
                'surface_normal_function': lambda point, surf: None, 'target_error': shim.var('tol'), 'iter_no_limit': shim.var('limit')}
        for p_ in self.params:
            if p_ not in vals: raise shim.TraceError('intersect_parametric has an unknown parameter %s' % p_)
            ns[p_] = vals[p_]
        self._exec(self.pre, ns)
        init = {n: ns[n] for n in self.state if n in ns}
        lists = [n for n, v in init.items() if isinstance(v, list) and len(v) == 2 and all(isinstance(x, (int, float)) and not isinstance(x, bool) for x in v)]
        ints = [n for n, v in init.items() if isinstance(v, int) and not isinstance(v, bool)]
        reads = [n.id for n in ast.walk(self.loop.test) if isinstance(n, ast.Name)]
        errs = [n for n in lists if n != self.dist and n in reads]
        if self.dist not in lists or len(errs) != 1 or len(ints) != 1:
            raise shim.TraceError('intersect_parametric: cannot find the distance list, the error list and the counter among %s' % sorted(init))
        err, cnt = errs[0], ints[0]
        self.roles = {'distances': self.dist, 'errors': err, 'counter': cnt}
        self.init = {'distances': init[self.dist], 'errors': init[err], 'counter': init[cnt]}
        def vec(name):
            return shim.var(name) if m == 1 else shim.sym(name, (m,))
        ns[self.dist] = [vec('d0'), vec('d1')]; ns[err] = [vec('e0'), vec('e1_old')]; ns[cnt] = shim.var('iter_no')
        import copy
        guard = eval(compile(ast.fix_missing_locations(ast.Expression(_SymBool().visit(copy.deepcopy(self.loop.test)))), self.path, 'eval'), ns)
        ns['__exits__'] = []
        body = [_Exits().visit(copy.deepcopy(st)) if isinstance(st, ast.If) else st for st in self.loop.body]
        if any(isinstance(n, ast.Return) for st in body for n in ast.walk(st)):
            raise shim.TraceError('intersect_parametric: a return in the loop that is not `if cond: return value`')
        self._exec(body, ns)
        return {'guard': shim.B.lift(guard), 'dist': ns[self.dist], 'err': ns[err], 'count': ns[cnt], 'exits': ns['__exits__'], 'point': probe.get('point')}


def _row(x, i, m):
    """component i of a traced value that is a scalar (m = 1) or a vector of m rows"""
    import numpy
    a = numpy.asarray(x, dtype=object).reshape(-1)
    if a.size == 1: return a[0]
    if a.size != m: raise shim.TraceError('a traced state component has %d entries for %d rays' % (a.size, m))
    return a[i]


class _Sink:
    """stands for the optimiser, the loss object and the progress bar: accepts every call and attribute"""
    def __getattr__(s, k): return s
    def __call__(s, *a, **k): return s
    def __format__(s, spec): return 'sink'
    def __iter__(s): return iter(())


def torch_sphere_pass(m=1):
    """PyTorch intersect_w_sphere, executed symbolically around ONE optimiser step: the prologue as it is (optimiser and
    loss are sinks), the distance replaced by the symbol x, the loop run for one step (number_of_steps = 1, the optimiser
    step does nothing), the distance replaced by the symbol y (its value after the last step), the epilogue up to the
    assignment of the flag.  Roles from the data flow: the function returns (rays, normals, <distance>, <flag>).
    Structural part: one `for` over range(number_of_steps) (possibly through tqdm), no early exit."""
    import copy
    path, src, fn, body = _func(TORCH, 'intersect_w_sphere')
    loops = [st for st in body if isinstance(st, (ast.While, ast.For))]
    if len(loops) != 1 or not isinstance(loops[0], ast.For) or loops[0].orelse:
        raise shim.TraceError('intersect_w_sphere: expected exactly one for loop')
    f = loops[0]
    if any(isinstance(n, (ast.Break, ast.Continue, ast.Return, ast.While, ast.Raise)) for n in ast.walk(f)):
        raise shim.TraceError('intersect_w_sphere: the loop can leave early')
    it = ast.unparse(f.iter).replace(' ', '')
    if it != 'range(number_of_steps)' and not it.startswith('tqdm(range(number_of_steps)'):
        defs = [st for st in body if isinstance(st, ast.Assign) and ast.unparse(st.targets[0]).replace(' ', '') == it]
        if len(defs) != 1 or not ast.unparse(defs[0].value).replace(' ', '').startswith(('tqdm(range(number_of_steps)', 'range(number_of_steps)')):
            raise shim.TraceError('intersect_w_sphere: loop does not run over range(number_of_steps): %s' % it)
    ret = body[-1]
    if not (isinstance(ret, ast.Return) and isinstance(ret.value, ast.Tuple) and len(ret.value.elts) == 4 and all(isinstance(e, ast.Name) for e in ret.value.elts[2:])):
        raise shim.TraceError('intersect_w_sphere: no longer returns (rays, normals, distance, check)')
    dist, flag = ret.value.elts[2].id, ret.value.elts[3].id
    k = body.index(f)
    ns = shim.base_namespace()
    shim.load('odak/learn/raytracing/ray.py', ['propagate_ray', 'create_ray_from_two_points'], ns)
    sink = _Sink()
    ns['torch'].__dict__['nn'] = sink; ns['torch'].__dict__['optim'] = sink
    ns['tqdm'] = lambda x, **kw: _Bar(x)
    params = {a.arg: ast.literal_eval(d) for a, d in zip(fn.args.args[-len(fn.args.defaults):], fn.args.defaults)}
    vals = {'ray': shim.sym('r', (m, 2, 3)), 'sphere': shim.sym('s', (1, 4)), 'learning_rate': shim.var('lr'), 'number_of_steps': 1, 'error_threshold': shim.var('thr')}
    for a in fn.args.args:
        if a.arg not in vals: raise shim.TraceError('intersect_w_sphere has an unknown parameter %s' % a.arg)
        ns[a.arg] = vals[a.arg]
    def ex(stmts):
        mod = ast.Module(copy.deepcopy(stmts), []); ast.fix_missing_locations(mod)
        exec(compile(mod, path, 'exec'), ns)
    ex(body[:k])
    if dist not in ns:
        raise shim.TraceError('intersect_w_sphere: the returned distance is not created before the loop')
    ns[dist] = shim.sym('x', (m,))
    ex([f])
    ns[dist] = shim.sym('y', (m,))
    ns.pop(flag, None)
    for st in body[k + 1:-1]:
        ex([st])
        if flag in ns: break
    if flag not in ns:
        raise shim.TraceError('intersect_w_sphere: the flag is not assigned after the loop')
    return {'flag': ns[flag], 'defaults': params, 'roles': {'distance': dist, 'flag': flag}}


class _Bar:
    """tqdm(range(n)): iterable with a set_description sink"""
    def __init__(s, it): s.it = it
    def __iter__(s): return iter(s.it)
    def set_description(s, *a, **k): pass


def trace():
    g = Gen()
    # ---------------- NumPy: one symbolic pass of the loop of intersect_parametric, for one ray and for two rays
    cut = ParametricCut()
    r = cut.run(1)
    st = ['d0', 'd1', 'e0', 'e1']
    g.add('g_sec_d0', st, _row(r['dist'][0], 0, 1)); g.add('g_sec_next', st, _row(r['dist'][1], 0, 1))
    g.add('g_sec_e0', st, _row(r['err'][0], 0, 1)); g.add('g_sec_e1', st, _row(r['err'][1], 0, 1))
    g.add('g_sec_count', ['iter_no'], r['count'])
    g.add('g_sec_guard', ['iter_no', 'e1_old', 'tol'], r['guard'])
    # every exit inside the loop must return (False, False); their conditions are emitted as ONE disjunction (whether the code
    # writes two `if`s or one `if a or b` is immaterial): over R it is the counter test, the NaN test being `false`
    stop = None
    for cond, val in r['exits']:
        if not (isinstance(val, tuple) and len(val) == 2 and val[0] is False and val[1] is False):
            raise shim.TraceError('intersect_parametric: an exit inside the loop returns %r, not (False, False)' % (val,))
        c = shim.B.lift(cond if not hasattr(cond, 'shape') else _row(cond, 0, 1))
        stop = c if stop is None else (stop | c)
    if stop is None:
        raise shim.TraceError('intersect_parametric: no exit inside the loop (the counter test is gone)')
    g.add('g_sec_stop', ['iter_no', 'limit'], stop)
    if r['point'] is None or r['point'].shape != (1, 3):
        raise shim.TraceError('intersect_parametric: the surface function is not evaluated at one point per ray')
    for k in range(3):
        g.add('g_kernel_point_%d' % k, RAY + ['d1'], r['point'][0, k])
    r2 = cut.run(2)
    st2 = [x + '_%d' % i for x in ('d0', 'd1', 'e0', 'e1') for i in range(2)]
    R2 = shim.names('r', (2, 2, 3))
    for i in range(2):
        g.add('g_sec2_d0_%d' % i, st2, _row(r2['dist'][0], i, 2)); g.add('g_sec2_next_%d' % i, st2, _row(r2['dist'][1], i, 2))
        g.add('g_sec2_e0_%d' % i, st2, _row(r2['err'][0], i, 2)); g.add('g_sec2_e1_%d' % i, st2, _row(r2['err'][1], i, 2))
        for k in range(3):
            g.add('g_kernel_point2_%d_%d' % (i, k), R2 + ['d1_0', 'd1_1'], r2['point'][i, k])
    g.add('g_sec_guard2', ['iter_no', 'e1_old_0', 'e1_old_1', 'tol'], r2['guard'])
    info = {'guard': cut.guard_src, 'roles': cut.roles, 'init': cut.init, 'defaults': cut.defaults, 'path': cut.path}
    # the kernels on their own: sphere and cylinder functions along a ray (one ray; two rays)
    ns = cut.namespace()
    ray = shim.sym('r', (1, 2, 3)); x = shim.var('x')
    e, p = ns['intersection_kernel_for_parametric_surfaces'](x, ray, shim.sym('s', (4,)), ns['sphere_function'])
    g.add('g_sphere_err', RAY + SPH + ['x'], e[0])
    e2r, p2r = ns['intersection_kernel_for_parametric_surfaces'](shim.sym('x', (2,)), shim.sym('r', (2, 2, 3)), shim.sym('s', (4,)), ns['sphere_function'])
    assert e2r.shape == (2,) and p2r.shape == (2, 3), (e2r.shape, p2r.shape)
    for i in range(2):
        g.add('g_sphere_err2_%d' % i, R2 + SPH + ['x_0', 'x_1'], e2r[i])
    e, p = ns['intersection_kernel_for_parametric_surfaces'](x, ray, shim.sym('c', (7,)), ns['cylinder_function'])
    ee = e if not hasattr(e, 'shape') else e.reshape(-1)[0]
    g.add('g_cyl_err', RAY + CYL + ['x'], ee)
    # ---------------- PyTorch: the flag of intersect_w_sphere as a function of the distance before (x) and after (y) the last step
    ti = torch_sphere_pass(1)
    SP1 = shim.names('s', (1, 4))
    import numpy
    fl = numpy.asarray(ti['flag'], dtype=object).reshape(-1)
    if fl.size != 1:
        raise shim.TraceError('intersect_w_sphere: the flag of one ray has %d entries' % fl.size)
    g.add('g_ts_check', RAY + SP1 + ['x_0', 'y_0', 'thr'], shim.B.lift(fl[0]))
    info['torch_sphere_defaults'] = ti['defaults']; info['torch_sphere_roles'] = ti['roles']
    return g, info
