"""Tracing recipe for C12: the straight-line pieces of the iterative solvers other than `refract`
(whose pieces come from tracer/recipes/c11.py: prologue, body, guard, epilogue).

odak.raytracing.intersect_parametric (secant iteration): ONE pass of its loop executed symbolically (ParametricCut)
   g_sec_next/d0/e0/e1     the state after the pass: distances and errors (e1 = what the surface function answered)
   g_sec_ret               the value that would be returned as the distance after the pass
   g_sec_count             the counter after the pass
   g_sec_continue          the `while` condition evaluated on the state AFTER the pass (head-tested or flag-controlled alike)
   g_sec_stop              the disjunction of the conditions of the `if ...: return False, False` statements inside the loop
                           (as a function of the counter BEFORE the pass)
   g_kernel_point_k        the point at which the surface function was asked (so: which distance goes into the kernel)
   g_sec2_*, g_sec_continue2, g_kernel_point2_* the same for a batch of two rays
   g_sphere_err, g_cyl_err intersection_kernel_for_parametric_surfaces with sphere_function / cylinder_function
odak.learn.raytracing.intersect_w_sphere (fixed number of optimiser steps): executed symbolically around one optimiser step
   g_ts_check              the flag as a function of the distance before (x) and after (y) the last optimiser step
Local names are irrelevant in both: the roles are read off the data flow (ParametricCut, torch_sphere_pass).
"""
import ast, os
from tracer import shim
from tracer.emit import Gen
from tracer.recipes.c11 import _SymBool, _fn, _ret, bind_module_constants

NUMPY = 'odak/raytracing/boundary.py'
TORCH = 'odak/learn/raytracing/boundary.py'
RAY = shim.names('r', (1, 2, 3))
SPH = ['s_%d' % i for i in range(4)]
CYL = ['c_%d' % i for i in range(7)]


def _func(relpath, name):
    path = os.path.join(shim.REPO, relpath)
    src = open(path).read()
    fn = [n for n in ast.parse(src).body if isinstance(n, ast.FunctionDef) and n.name == name][0]
    body = [st for st in fn.body if not (isinstance(st, ast.Expr) and isinstance(getattr(st, 'value', None), ast.Constant))]
    return path, src, fn, body


class _Exits(ast.NodeTransformer):
    """inside the loop body: `if cond: return value` -> `__exits__.append((cond, value))` (cond with symbolic and/or/not)"""
    def visit_If(s, node):
        if node.orelse or len(node.body) != 1 or not isinstance(node.body[0], (ast.Return, ast.Break)):
            raise shim.TraceError('intersect_parametric: an `if` in the loop that is not `if cond: return value` / `if cond: break`')
        cond = _SymBool().visit(node.test)
        if isinstance(node.body[0], ast.Break):
            val = ast.Constant('__break__')          # leaves the loop: the result is what the epilogue returns
        else:
            val = node.body[0].value if node.body[0].value is not None else ast.Constant(None)
        return ast.Expr(ast.Call(ast.Attribute(ast.Name('__exits__', ast.Load()), 'append', ast.Load()), [ast.Tuple([cond, val], ast.Load())], []))


def _assigned_names(stmts):
    out = []
    for st in stmts:
        for n in ast.walk(st):
            if isinstance(n, ast.Name) and isinstance(n.ctx, ast.Store) and n.id not in out:
                out.append(n.id)
    return out


def _targets(stmts):
    """names assigned by the statements, including the bases of subscript targets (`error[1], point = ...`)"""
    out = []
    def tg(t):
        if isinstance(t, ast.Name): out.append(t.id)
        elif isinstance(t, (ast.Tuple, ast.List)): [tg(e) for e in t.elts]
        elif isinstance(t, ast.Subscript) and isinstance(t.value, ast.Name): out.append(t.value.id)
        elif isinstance(t, ast.Starred): tg(t.value)
    for st in stmts:
        for n in ast.walk(st):
            if isinstance(n, ast.Assign): [tg(t) for t in n.targets]
            elif isinstance(n, (ast.AugAssign, ast.AnnAssign)): tg(n.target)
    return list(dict.fromkeys(out))


def b_not(x):
    """negation with constants and double negations folded"""
    if x.op == 'const': return shim.B('const', not x.a[0])
    if x.op == 'not': return x.a[0]
    return ~x


def b_and(x, y):
    if x.op == 'const': return y if x.a[0] else x
    if y.op == 'const': return x if y.a[0] else y
    return x & y


class ParametricCut:
    """The current `intersect_parametric`, executed symbolically for ONE pass of its loop.  Nothing depends on the names of
    its locals, on whether the secant state is kept in lists or in scalars, or on whether the loop is head-tested or
    controlled by a flag computed at the end of the body:
      * the prologue is run as it is; every numeric local the loop body assigns (a number, or each entry of a list of
        numbers) is a SLOT of the loop state; boolean locals (a `searching` flag) keep their concrete initial value;
      * the surface function is a probe that records the point it is asked about and answers with the symbol `e1`;
        every `if ...: return value` inside the loop is recorded as an exit (condition, value);
      * a first pass on anonymous symbols finds the roles by DATA FLOW (fingerprints: the expressions are evaluated on
        random numbers): d1 = the slot the probe point is taken at, d0 = the slot that receives the old d1, counter = the
        slot that grows by one, e0 = the remaining slot the new d1 depends on (it must receive e1), any other slot must
        receive e1 as well; anything else fails closed.  The roles are only a NAMING: every definition emitted under
        these names is proved against the model by the tie, so a wrong guess cannot be accepted;
      * a second pass on the canonical symbols d0 d1 e0 e1 iter_no gives the state after the pass, the value that would be
        returned as the distance, the condition under which the loop goes on AFTER the pass (the loop condition
        evaluated on the new state), the exits; that the first pass always runs is the loop condition evaluated on
        the concrete initial state."""

    def __init__(self):
        path, src, fn, body = _func(NUMPY, 'intersect_parametric')
        self.path, self.src, self.fn = path, src, fn
        loops = [st for st in body if isinstance(st, (ast.While, ast.For))]
        inner = [n for st in body for n in ast.walk(st)]
        if len(loops) != 1 or loops[0].orelse \
                or any(isinstance(n, (ast.Continue, ast.Try, ast.With, ast.Raise, ast.Yield, ast.FunctionDef, ast.Lambda)) for n in inner) \
                or any(isinstance(n, (ast.While, ast.For)) and n is not loops[0] for n in inner):
            raise shim.TraceError('intersect_parametric: expected init; one loop; epilogue')
        w = loops[0]
        breaks = [n for n in inner if isinstance(n, ast.Break)]
        last = w.body[-1]
        if breaks and not (len(breaks) == 1 and isinstance(last, ast.If) and not last.orelse and len(last.body) == 1 and last.body[0] is breaks[0]):
            raise shim.TraceError('intersect_parametric: a break that is not `if cond: break` at the end of the loop body')
        k = body.index(w)
        self.pre, self.post = list(body[:k]), body[k + 1:]
        self.test, self.body = self._normalise(w, self.pre, self.namespace())
        # the result is either returned after the loop (`return <distance>, normal`) or from inside it (`if converged: return ...`)
        self.ret_dist = None
        if self.post:
            if not isinstance(self.post[-1], ast.Return) or any(isinstance(n, ast.Return) for st in self.post[:-1] for n in ast.walk(st)):
                raise shim.TraceError('intersect_parametric: the epilogue does not end in a single return')
            ret = self.post[-1].value
            if not (isinstance(ret, ast.Tuple) and len(ret.elts) == 2):
                raise shim.TraceError('intersect_parametric: the function no longer returns (distance, normal)')
            self.ret_dist = ret.elts[0]
        self.params = [a.arg for a in fn.args.args]
        self.defaults = {a.arg: ast.literal_eval(d) for a, d in zip(fn.args.args[-len(fn.args.defaults):], fn.args.defaults)}
        self.guard_src = ast.unparse(self.test)
        self.assigned = _targets(self.body)
        self.roles = None

    @staticmethod
    def _normalise(loop, pre, ns):
        """(loop condition, statements of a pass) for `while c: ...` and for `for i in itertools.count(1): ...` (an unbounded
        counter: the explicit counter `__count` starts at 0, is incremented at the start of every pass and copied into the
        loop variable; the loop condition is `True`, the loop is left by the returns inside it).  Any other iterable fails
        closed."""
        if isinstance(loop, ast.While):
            return loop.test, list(loop.body)
        it = loop.iter
        import itertools
        is_count = False
        if isinstance(it, ast.Call) and not it.keywords and len(it.args) <= 1:
            try:                                         # whatever name the module imports it under
                e = ast.Expression(it.func); ast.fix_missing_locations(e)
                is_count = eval(compile(e, '<iter>', 'eval'), dict(ns, itertools=itertools)) is itertools.count
            except Exception:
                is_count = False
        if not is_count or not isinstance(loop.target, ast.Name):
            raise shim.TraceError('intersect_parametric: a for loop that does not run over itertools.count(start)')
        try:
            start = ast.literal_eval(it.args[0]) if it.args else 0
        except Exception:
            raise shim.TraceError('intersect_parametric: itertools.count with a non-literal start')
        if not isinstance(start, int) or isinstance(start, bool):
            raise shim.TraceError('intersect_parametric: itertools.count with a non-integer start')
        pre.append(ast.parse('__count = %d' % (start - 1)).body[0])
        body = ast.parse('__count += 1\n%s = __count' % loop.target.id).body + list(loop.body)
        return ast.Constant(True), body

    def _exec(self, stmts, ns):
        import copy
        mod = ast.Module(copy.deepcopy(stmts), [])
        ast.fix_missing_locations(mod)
        exec(compile(mod, self.path, 'exec'), ns)

    def _eval(self, expr, ns):
        import copy
        e = ast.Expression(copy.deepcopy(expr)); ast.fix_missing_locations(e)
        return eval(compile(e, self.path, 'eval'), ns)

    def namespace(self):
        import builtins
        sb = lambda x: x if isinstance(x, shim.B) else builtins.bool(x)
        ns = shim.base_namespace({'__and__': lambda x, y: shim.B.lift(x) & shim.B.lift(y), '__or__': lambda x, y: shim.B.lift(x) | shim.B.lift(y),
                                  '__not__': lambda x: ~shim.B.lift(x), 'bool': sb})
        shim.load('odak/tools/vector.py', ['point_to_ray_distance'], ns)
        shim.load('odak/raytracing/ray.py', ['propagate_a_ray'], ns)
        shim.load('odak/raytracing/primitives.py', ['sphere_function', 'cylinder_function'], ns)
        called = {n.func.id for n in ast.walk(self.fn) if isinstance(n, ast.Call) and isinstance(n.func, ast.Name)}
        top = {n.name for n in ast.parse(self.src).body if isinstance(n, ast.FunctionDef)}
        todo, seen = sorted(called & top), set()
        tree = {n.name: n for n in ast.parse(self.src).body if isinstance(n, ast.FunctionDef)}
        while todo:
            f = todo.pop()
            if f in seen or f == 'intersect_parametric': continue
            seen.add(f)
            todo += sorted({n.func.id for n in ast.walk(tree[f]) if isinstance(n, ast.Call) and isinstance(n.func, ast.Name)} & top)
        seen.discard('get_triangle_normal')
        # the kernel is needed by trace() even when the function under test has it inlined
        shim.load(NUMPY, sorted(seen | {'intersection_kernel_for_parametric_surfaces'}), ns)
        return ns

    # ---- the state of the loop
    def _prologue(self, m, probe):
        ns = self.namespace()
        def surface(*a, **kw):
            # user callback: whatever way it is called, its first argument (or the only array-valued keyword besides the surface) is the point
            cands = list(a) + [v for _, v in sorted(kw.items())]
            pts = [c for c in cands if getattr(c, 'shape', None) == (m, 3)]
            if len(pts) != 1:
                raise shim.TraceError('intersect_parametric: the surface function is not called with one [m x 3] point array')
            probe['point'] = pts[0]
            return shim.wrap([shim.var('e1')]) if m == 1 else shim.sym('e1', (m,))
        vals = {'ray': shim.sym('r', (m, 2, 3)), 'parametric_surface': shim.sym('s', (4,)), 'surface_function': surface,
                'surface_normal_function': lambda *a, **kw: '<normal>', 'target_error': shim.var('tol'), 'iter_no_limit': shim.var('limit')}
        for p_ in self.params:
            if p_ not in vals: raise shim.TraceError('intersect_parametric has an unknown parameter %s' % p_)
            ns[p_] = vals[p_]
        bind_module_constants(self.src, ns)
        self._exec(self.pre, ns)
        return ns

    @staticmethod
    def _isnum(x):
        return isinstance(x, (int, float)) and not isinstance(x, bool)

    def _slots(self, ns):
        """[(name, path, initial value)] for every numeric piece of state the prologue leaves behind or the loop body assigns:
        a number, an entry of a list of numbers, or either of these in an attribute of a local object (state kept in an
        instance of a private class); path = sequence of ('idx', i) / ('attr', name)"""
        import types, functools, numpy
        def numeric_parts(v, path):
            if self._isnum(v): return [(path, v)]
            if isinstance(v, list) and v and all(self._isnum(x) for x in v):
                return [(path + (('idx', i),), x) for i, x in enumerate(v)]
            return []
        out = []
        for n in dict.fromkeys(_assigned_names(self.pre) + self.assigned):
            if n not in ns: continue
            v = ns[n]
            parts = numeric_parts(v, ())
            if not parts and not isinstance(v, (shim.T, numpy.ndarray, types.FunctionType, types.BuiltinFunctionType, types.ModuleType, functools.partial,
                                                type, str, bytes, tuple, list, dict, set, bool, shim.E, shim.B)) and v is not None:
                attrs = list(getattr(type(v), '__slots__', ())) or list(getattr(v, '__dict__', {}))
                for a in attrs:
                    try: av = getattr(v, a)
                    except Exception: continue
                    parts += numeric_parts(av, (('attr', a),))
            out += [(n, path, x) for path, x in parts]
        return out

    @staticmethod
    def _put(ns, slot, val):
        n, path, _ = slot
        if not path:
            ns[n] = val; return
        obj = ns[n]
        for kind, key in path[:-1]:
            obj = getattr(obj, key) if kind == 'attr' else obj[key]
        kind, key = path[-1]
        if kind == 'attr': setattr(obj, key, val)
        else: obj[key] = val

    @staticmethod
    def _get(ns, slot):
        n, path, _ = slot
        v = ns[n]
        try:
            for kind, key in path:
                v = getattr(v, key) if kind == 'attr' else v[key]
        except Exception:
            raise shim.TraceError('intersect_parametric: loop state %s changed its layout inside the loop' % n)
        return v

    def _pass(self, ns):
        ns['__exits__'] = []
        import copy
        body = [_Exits().visit(copy.deepcopy(st)) if isinstance(st, ast.If) else st for st in self.body]
        if any(isinstance(n, ast.Return) for st in body for n in ast.walk(st)):
            raise shim.TraceError('intersect_parametric: a return in the loop that is not `if cond: return value`')
        self._exec(body, ns)

    def _discover(self):
        """roles of the slots, by data flow (see the class comment)"""
        import random
        probe = {}
        ns = self._prologue(1, probe)
        first = self._eval(self.test, ns)             # python's own short-circuit semantics on the concrete initial state
        if isinstance(first, shim.B) or not bool(first):
            raise shim.TraceError('intersect_parametric: the first pass of the loop is not unconditional')
        slots = self._slots(ns)
        if not slots:
            raise shim.TraceError('intersect_parametric: no numeric loop state found')
        rnd = random.Random(12345)
        env = {'e1': rnd.uniform(2, 3), 'tol': 0.5, 'limit': 7.0}
        for k, sl in enumerate(slots):
            self._put(ns, sl, shim.var('c%d' % k)); env['c%d' % k] = rnd.uniform(3, 9) + k
        for j in range(2):
            for k3 in range(3): env['r_0_%d_%d' % (j, k3)] = 0.0
        env['r_0_1_0'] = 1.0
        self._pass(ns)
        if probe.get('point') is None or getattr(probe['point'], 'shape', None) != (1, 3):
            raise shim.TraceError('intersect_parametric: the surface function is not evaluated at one point per ray')
        close = lambda a, b: abs(a - b) <= 1e-9 * max(1.0, abs(a), abs(b))
        ev = lambda x: float(shim.evalf(shim.E.lift(_row(x, 0, 1)), env))
        at = ev(probe['point'][0, 0])
        new = [ev(self._get(ns, sl)) for sl in slots]
        old = [env['c%d' % k] for k in range(len(slots))]
        def only(cands, what):
            if len(cands) != 1:
                raise shim.TraceError('intersect_parametric: cannot identify %s in the loop state (%d candidates among %s)' % (what, len(cands), [(s[0], s[1]) for s in slots]))
            return cands[0]
        d1 = only([k for k in range(len(slots)) if close(old[k], at)], 'the distance at which the surface is evaluated')
        d0 = only([k for k in range(len(slots)) if k != d1 and close(new[k], old[d1])], 'the previous distance')
        cnt = only([k for k in range(len(slots)) if k not in (d1, d0) and close(new[k], old[k] + 1) and slots[k][2] == 0 and isinstance(slots[k][2], int)], 'the counter')
        fv = set(shim.free_vars(shim.E.lift(_row(self._get(ns, slots[d1]), 0, 1)))) - {'e1', 'c%d' % d1, 'c%d' % d0}
        e0 = only([k for k in range(len(slots)) if 'c%d' % k in fv], 'the previous error')
        rest = [k for k in range(len(slots)) if k not in (d1, d0, cnt, e0) and not close(new[k], old[k])]      # unchanged = a constant, not state
        for k in [e0] + rest:
            if not close(new[k], env['e1']):
                raise shim.TraceError('intersect_parametric: loop state %s[%s] does not receive the new error' % (slots[k][0], slots[k][1]))
        if len(rest) > 1:
            raise shim.TraceError('intersect_parametric: more loop state than two distances, two errors and a counter: %s' % [(slots[k][0], slots[k][1]) for k in rest])
        self.roles = {'d0': d0, 'd1': d1, 'e0': e0, 'iter_no': cnt}
        if rest: self.roles['e1_old'] = rest[0]
        self.role_names = {r: slots[k][0] + ''.join(('.%s' % key if kind == 'attr' else '[%d]' % key) for kind, key in slots[k][1]) for r, k in self.roles.items()}
        self.init = {r: slots[k][2] for r, k in self.roles.items()}
        self.first_pass_unconditional = True

    def run(self, m):
        """one pass on the canonical symbols, for a batch of m rays (m = 1: scalars as in the first passes of the code)"""
        if self.roles is None:
            self._discover()
        probe = {}
        ns = self._prologue(m, probe)
        slots = self._slots(ns)
        vec = lambda name: shim.var(name) if m == 1 else shim.sym(name, (m,))
        for r, k in self.roles.items():
            self._put(ns, slots[k], shim.var('iter_no') if r == 'iter_no' else vec(r))
        self._pass(ns)
        g = lambda r: self._get(ns, slots[self.roles[r]])
        # exits recorded during the pass, in program order: flags `(False, False)` and at most one success exit `(distance, normal)`;
        # the success exit must come after every flag (as the loop condition of a head-tested loop does)
        flags, success = [], None
        for cond, val in ns['__exits__']:
            if isinstance(val, tuple) and len(val) == 2 and val[0] is False and val[1] is False:
                if success is not None:
                    raise shim.TraceError('intersect_parametric: a flag exit after the exit that returns the result')
                flags.append(cond)
            elif val == '__break__' and success is None and self.ret_dist is not None:
                success = (cond, None)                    # the result is the epilogue's return on the state at the end of this pass
            elif isinstance(val, tuple) and len(val) == 2 and success is None:
                success = (cond, val[0])
            else:
                raise shim.TraceError('intersect_parametric: an exit inside the loop returns %r' % (val,))
        cont = self._eval(_SymBool().visit(__import__('copy').deepcopy(self.test)), ns)
        cont = cont if isinstance(cont, shim.B) else shim.B.lift(bool(cont))
        if success is not None:
            sc = success[0] if not hasattr(success[0], 'shape') else _row(success[0], 0, 1)
            cont = b_and(cont, b_not(shim.B.lift(sc)))
            ret = success[1]
        if success is None or ret is None:
            if self.ret_dist is None:
                raise shim.TraceError('intersect_parametric: no result is returned, neither after the loop nor from inside it')
            self._exec(self.post[:-1], ns)
            ret = self._eval(self.ret_dist, ns)
        if cont.op == 'const':
            raise shim.TraceError('intersect_parametric: the loop does not depend on the error (condition %r)' % (cont.a[0],))
        return {'d0': g('d0'), 'd1': g('d1'), 'e0': g('e0'), 'e1': g('e1_old') if 'e1_old' in self.roles else (shim.var('e1') if m == 1 else shim.sym('e1', (m,))),
                'count': g('iter_no'), 'continue': cont, 'ret': ret, 'exits': [(c, (False, False)) for c in flags], 'point': probe.get('point')}


def _row(x, i, m):
    """component i of a traced value that is a scalar (m = 1) or a vector of m rows"""
    import numpy
    a = numpy.asarray(x, dtype=object).reshape(-1)
    if a.size == 1: return a[0]
    if a.size != m: raise shim.TraceError('a traced state component has %d entries for %d rays' % (a.size, m))
    return a[i]


class _Sink:
    """stands for the optimiser, the loss object and the progress bar: accepts every call and attribute"""
    def __getattr__(s, k): return s
    def __call__(s, *a, **k): return s
    def __format__(s, spec): return 'sink'
    def __iter__(s): return iter(())


def torch_sphere_pass(m=1):
    """PyTorch intersect_w_sphere, executed symbolically around ONE optimiser step: the prologue as it is (optimiser and
    loss are sinks), the distance replaced by the symbol x, the loop run for one step (number_of_steps = 1, the optimiser
    step does nothing), the distance replaced by the symbol y (its value after the last step), the epilogue up to the
    assignment of the flag.  Roles from the data flow: the function returns (rays, normals, <distance>, <flag>).
    Structural part: one `for` over range(number_of_steps) (possibly through tqdm), no early exit."""
    import copy
    path, src, fn, body = _func(TORCH, 'intersect_w_sphere')
    loops = [st for st in body if isinstance(st, (ast.While, ast.For))]
    if len(loops) != 1 or not isinstance(loops[0], ast.For) or loops[0].orelse:
        raise shim.TraceError('intersect_w_sphere: expected exactly one for loop')
    f = loops[0]
    if any(isinstance(n, (ast.Break, ast.Continue, ast.Return, ast.While, ast.Raise)) for n in ast.walk(f)):
        raise shim.TraceError('intersect_w_sphere: the loop can leave early')
    it = ast.unparse(f.iter).replace(' ', '')
    if it != 'range(number_of_steps)' and not it.startswith('tqdm(range(number_of_steps)'):
        defs = [st for st in body if isinstance(st, ast.Assign) and ast.unparse(st.targets[0]).replace(' ', '') == it]
        if len(defs) != 1 or not ast.unparse(defs[0].value).replace(' ', '').startswith(('tqdm(range(number_of_steps)', 'range(number_of_steps)')):
            raise shim.TraceError('intersect_w_sphere: loop does not run over range(number_of_steps): %s' % it)
    ret = body[-1]
    if not (isinstance(ret, ast.Return) and isinstance(ret.value, ast.Tuple) and len(ret.value.elts) == 4 and all(isinstance(e, ast.Name) for e in ret.value.elts[2:])):
        raise shim.TraceError('intersect_w_sphere: no longer returns (rays, normals, distance, check)')
    dist, flag = ret.value.elts[2].id, ret.value.elts[3].id
    k = body.index(f)
    ns = shim.base_namespace()
    shim.load('odak/learn/raytracing/ray.py', ['propagate_ray', 'create_ray_from_two_points'], ns)
    shim.load(TORCH, [], ns)                          # module-level helpers, classes and constants of the file
    bind_module_constants(src, ns)
    sink = _Sink()
    ns['torch'].__dict__['nn'] = sink; ns['torch'].__dict__['optim'] = sink
    ns['tqdm'] = lambda x, **kw: _Bar(x)
    params = {a.arg: ast.literal_eval(d) for a, d in zip(fn.args.args[-len(fn.args.defaults):], fn.args.defaults)}
    vals = {'ray': shim.sym('r', (m, 2, 3)), 'sphere': shim.sym('s', (1, 4)), 'learning_rate': shim.var('lr'), 'number_of_steps': 1, 'error_threshold': shim.var('thr')}
    for a in fn.args.args:
        if a.arg not in vals: raise shim.TraceError('intersect_w_sphere has an unknown parameter %s' % a.arg)
        ns[a.arg] = vals[a.arg]
    def ex(stmts):
        mod = ast.Module(copy.deepcopy(stmts), []); ast.fix_missing_locations(mod)
        exec(compile(mod, path, 'exec'), ns)
    ex(body[:k])
    if dist not in ns:
        raise shim.TraceError('intersect_w_sphere: the returned distance is not created before the loop')
    ns[dist] = shim.sym('x', (m,))
    ex([f])
    ns[dist] = shim.sym('y', (m,))
    ns.pop(flag, None)
    for st in body[k + 1:-1]:
        ex([st])
        if flag in ns: break
    if flag not in ns:
        raise shim.TraceError('intersect_w_sphere: the flag is not assigned after the loop')
    return {'flag': ns[flag], 'defaults': params, 'roles': {'distance': dist, 'flag': flag}}


class _Bar:
    """tqdm(range(n)): iterable with a set_description sink"""
    def __init__(s, it): s.it = it
    def __iter__(s): return iter(s.it)
    def set_description(s, *a, **k): pass


def trace():
    g = Gen()
    # ---------------- NumPy: one symbolic pass of the loop of intersect_parametric, for one ray and for two rays
    cut = ParametricCut()
    r = cut.run(1)
    st = ['d0', 'd1', 'e0', 'e1']
    g.add('g_sec_d0', st, _row(r['d0'], 0, 1)); g.add('g_sec_next', st, _row(r['d1'], 0, 1))
    g.add('g_sec_e0', st, _row(r['e0'], 0, 1)); g.add('g_sec_e1', st, _row(r['e1'], 0, 1))
    g.add('g_sec_ret', st, _row(r['ret'], 0, 1))                       # what would be returned as the distance after this pass
    g.add('g_sec_count', ['iter_no'], r['count'])
    g.add('g_sec_continue', ['iter_no', 'e1', 'tol'], r['continue'])    # the loop condition on the state AFTER the pass
    # every exit inside the loop must return (False, False); their conditions are emitted as ONE disjunction (whether the code
    # writes two `if`s or one `if a or b` is immaterial): over R it is the counter test, the NaN test being `false`
    stop = None
    for cond, val in r['exits']:
        if not (isinstance(val, tuple) and len(val) == 2 and val[0] is False and val[1] is False):
            raise shim.TraceError('intersect_parametric: an exit inside the loop returns %r, not (False, False)' % (val,))
        c = shim.B.lift(cond if not hasattr(cond, 'shape') else _row(cond, 0, 1))
        stop = c if stop is None else (stop | c)
    if stop is None:
        raise shim.TraceError('intersect_parametric: no exit inside the loop (the counter test is gone)')
    g.add('g_sec_stop', ['iter_no', 'limit'], stop)
    if r['point'] is None or r['point'].shape != (1, 3):
        raise shim.TraceError('intersect_parametric: the surface function is not evaluated at one point per ray')
    for k in range(3):
        g.add('g_kernel_point_%d' % k, RAY + ['d1'], r['point'][0, k])
    r2 = cut.run(2)
    st2 = [x + '_%d' % i for x in ('d0', 'd1', 'e0', 'e1') for i in range(2)]
    R2 = shim.names('r', (2, 2, 3))
    for i in range(2):
        g.add('g_sec2_d0_%d' % i, st2, _row(r2['d0'], i, 2)); g.add('g_sec2_next_%d' % i, st2, _row(r2['d1'], i, 2))
        g.add('g_sec2_e0_%d' % i, st2, _row(r2['e0'], i, 2)); g.add('g_sec2_e1_%d' % i, st2, _row(r2['e1'], i, 2))
        g.add('g_sec2_ret_%d' % i, st2, _row(r2['ret'], i, 2))
        for k in range(3):
            g.add('g_kernel_point2_%d_%d' % (i, k), R2 + ['d1_0', 'd1_1'], r2['point'][i, k])
    g.add('g_sec_continue2', ['iter_no', 'e1_0', 'e1_1', 'tol'], r2['continue'])
    info = {'guard': cut.guard_src, 'roles': cut.role_names, 'init': cut.init, 'first_pass_unconditional': cut.first_pass_unconditional,
            'defaults': cut.defaults, 'path': cut.path}
    # the kernels on their own: sphere and cylinder functions along a ray (one ray; two rays)
    ns = cut.namespace()
    ray = shim.sym('r', (1, 2, 3)); x = shim.var('x')
    e, p = ns['intersection_kernel_for_parametric_surfaces'](x, ray, shim.sym('s', (4,)), ns['sphere_function'])
    g.add('g_sphere_err', RAY + SPH + ['x'], e[0])
    e2r, p2r = ns['intersection_kernel_for_parametric_surfaces'](shim.sym('x', (2,)), shim.sym('r', (2, 2, 3)), shim.sym('s', (4,)), ns['sphere_function'])
    assert e2r.shape == (2,) and p2r.shape == (2, 3), (e2r.shape, p2r.shape)
    for i in range(2):
        g.add('g_sphere_err2_%d' % i, R2 + SPH + ['x_0', 'x_1'], e2r[i])
    e, p = ns['intersection_kernel_for_parametric_surfaces'](x, ray, shim.sym('c', (7,)), ns['cylinder_function'])
    ee = e if not hasattr(e, 'shape') else e.reshape(-1)[0]
    g.add('g_cyl_err', RAY + CYL + ['x'], ee)
    # ---------------- PyTorch: the flag of intersect_w_sphere as a function of the distance before (x) and after (y) the last step
    ti = torch_sphere_pass(1)
    SP1 = shim.names('s', (1, 4))
    import numpy
    fl = numpy.asarray(ti['flag'], dtype=object).reshape(-1)
    if fl.size != 1:
        raise shim.TraceError('intersect_w_sphere: the flag of one ray has %d entries' % fl.size)
    g.add('g_ts_check', RAY + SP1 + ['x_0', 'y_0', 'thr'], shim.B.lift(fl[0]))
    info['torch_sphere_defaults'] = ti['defaults']; info['torch_sphere_roles'] = ti['roles']
    return g, info
