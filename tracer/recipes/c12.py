"""Tracing recipe for C12: the straight-line pieces of the iterative solvers other than `refract`
(whose pieces come from tracer/recipes/c11.py: prologue, body, guard, epilogue).

odak.raytracing.intersect_parametric (secant iteration)
   g_sec_next/d0/e0/e1     propagate_parametric_intersection_error: next distances and errors
   g_sec_guard             the `while` condition            (`or` rewritten to a symbolic or)
   g_sec_stop_k            the tests of the `if ...: return False, False` statements inside the loop
   g_sphere_err, g_cyl_err intersection_kernel_for_parametric_surfaces with sphere_function / cylinder_function
odak.learn.raytracing.intersect_w_sphere (fixed number of optimiser steps)
   g_ts_test, g_ts_check   the residual `test` (distance before the last optimiser step) and the flag `check`
                           (also a function of the distance after it)
The shape of both functions around these pieces is checked structurally (`shape_*`).
"""
import ast, os
from tracer import shim
from tracer.emit import Gen
from tracer.recipes.c11 import _SymBool, _fn, _ret

NUMPY = 'odak/raytracing/boundary.py'
TORCH = 'odak/learn/raytracing/boundary.py'
RAY = shim.names('r', (1, 2, 3))
SPH = ['s_%d' % i for i in range(4)]
CYL = ['c_%d' % i for i in range(7)]


def _func(relpath, name):
    path = os.path.join(shim.REPO, relpath)
    src = open(path).read()
    fn = [n for n in ast.parse(src).body if isinstance(n, ast.FunctionDef) and n.name == name][0]
    body = [st for st in fn.body if not (isinstance(st, ast.Expr) and isinstance(getattr(st, 'value', None), ast.Constant))]
    return path, src, fn, body


def shape_parametric():
    """intersect_parametric is  init; while G: [e1 := kernel(d1); (distance, error) := propagate(...); iter_no += 1;
    if T1: return False, False; if T2: return False, False]; normal := ...; return distance[1], normal"""
    path, src, fn, body = _func(NUMPY, 'intersect_parametric')
    loops = [st for st in body if isinstance(st, (ast.While, ast.For))]
    if len(loops) != 1 or not isinstance(loops[0], ast.While) or loops[0].orelse:
        raise shim.TraceError('intersect_parametric: expected exactly one while loop')
    w = loops[0]
    kinds = [type(st).__name__ for st in w.body]
    if kinds != ['Assign', 'Assign', 'AugAssign', 'If', 'If']:
        raise shim.TraceError('intersect_parametric: loop body changed shape: %s' % kinds)
    calls = [st.value.func.id for st in w.body[:2] if isinstance(st.value, ast.Call) and isinstance(st.value.func, ast.Name)]
    if calls != ['intersection_kernel_for_parametric_surfaces', 'propagate_parametric_intersection_error']:
        raise shim.TraceError('intersect_parametric: loop body calls %s' % calls)
    aug = w.body[2]
    if not (isinstance(aug.target, ast.Name) and aug.target.id == 'iter_no' and isinstance(aug.op, ast.Add) and ast.literal_eval(aug.value) == 1):
        raise shim.TraceError('intersect_parametric: counter is not `iter_no += 1`')
    for st in w.body[3:]:
        if st.orelse or len(st.body) != 1 or not isinstance(st.body[0], ast.Return) or ast.unparse(st.body[0].value) != '(False, False)':
            raise shim.TraceError('intersect_parametric: in-loop exit is not `return False, False`')
    if any(isinstance(n, (ast.Break, ast.Continue)) for n in ast.walk(w)):
        raise shim.TraceError('intersect_parametric: break/continue in the loop')
    last = body[-1]
    if not isinstance(last, ast.Return) or ast.unparse(last.value) != '(distance[1], normal)':
        raise shim.TraceError('intersect_parametric: final return changed')
    init = {}
    for st in body[:body.index(w)]:
        if isinstance(st, ast.Assign) and len(st.targets) == 1 and isinstance(st.targets[0], ast.Name):
            init[st.targets[0].id] = ast.unparse(st.value)
    params = {a.arg: ast.literal_eval(d) for a, d in zip(fn.args.args[-len(fn.args.defaults):], fn.args.defaults)}
    return {'guard': ast.get_source_segment(src, w.test), 'stops': [ast.get_source_segment(src, st.test) for st in w.body[3:]],
            'init': init, 'defaults': params, 'path': path}


def shape_torch_sphere():
    """intersect_w_sphere (PyTorch): one `for` over tqdm(range(number_of_steps)) / range(number_of_steps), no break"""
    path, src, fn, body = _func(TORCH, 'intersect_w_sphere')
    loops = [st for st in body if isinstance(st, (ast.While, ast.For))]
    if len(loops) != 1 or not isinstance(loops[0], ast.For) or loops[0].orelse:
        raise shim.TraceError('intersect_w_sphere: expected exactly one for loop')
    f = loops[0]
    if any(isinstance(n, (ast.Break, ast.Continue, ast.Return, ast.While)) for n in ast.walk(f)):
        raise shim.TraceError('intersect_w_sphere: the loop can leave early')
    it = ast.unparse(f.iter)
    if it != 'range(number_of_steps)':
        defs = [st for st in body if isinstance(st, ast.Assign) and ast.unparse(st.targets[0]) == it]
        if len(defs) != 1 or not ast.unparse(defs[0].value).replace(' ', '').startswith('tqdm(range(number_of_steps)'):
            raise shim.TraceError('intersect_w_sphere: loop does not run over range(number_of_steps): %s' % it)
    names = [ast.unparse(st.targets[0]) for st in f.body if isinstance(st, ast.Assign)]
    if 'test' not in names:
        raise shim.TraceError('intersect_w_sphere: `test` is not computed in the loop')
    stm = {ast.unparse(st.targets[0]): st for st in f.body if isinstance(st, ast.Assign)}
    after = [st for st in body[body.index(f) + 1:] if isinstance(st, ast.Assign) and ast.unparse(st.targets[0]) == 'check']
    if len(after) != 1:
        raise shim.TraceError('intersect_w_sphere: `check` is not assigned once after the loop')
    params = {a.arg: ast.literal_eval(d) for a, d in zip(fn.args.args[-len(fn.args.defaults):], fn.args.defaults)}
    return {'path': path, 'stmts': [stm['propagated_ray'], stm['test'], after[0]], 'defaults': params}


def trace():
    g = Gen()
    # ---------------- NumPy: secant step, guard, in-loop exits, kernels
    ns = shim.base_namespace({'__and__': lambda x, y: shim.B.lift(x) & shim.B.lift(y), '__or__': lambda x, y: shim.B.lift(x) | shim.B.lift(y),
                              '__not__': lambda x: ~shim.B.lift(x)})
    shim.load('odak/tools/vector.py', ['point_to_ray_distance'], ns)
    shim.load('odak/raytracing/ray.py', ['propagate_a_ray'], ns)
    shim.load('odak/raytracing/primitives.py', ['sphere_function', 'cylinder_function'], ns)
    shim.load(NUMPY, ['propagate_parametric_intersection_error', 'intersection_kernel_for_parametric_surfaces'], ns)
    d0, d1, e0, e1 = (shim.var(x) for x in ('d0', 'd1', 'e0', 'e1'))
    dist, err = ns['propagate_parametric_intersection_error']([d0, d1], [e0, e1])
    st = ['d0', 'd1', 'e0', 'e1']
    g.add('g_sec_d0', st, dist[0]); g.add('g_sec_next', st, dist[1]); g.add('g_sec_e0', st, err[0]); g.add('g_sec_e1', st, err[1])
    info = shape_parametric()
    path = info['path']
    guard = _SymBool().visit(ast.parse(info['guard'], mode='eval').body)
    _fn('sec_guard', ['iter_no', 'error', 'target_error'], [ast.Return(guard)], ns, path)
    g.add('g_sec_guard', ['iter_no', 'e1', 'tol'], shim.B.lift(ns['sec_guard'](shim.var('iter_no'), [shim.var('e0'), shim.var('e1')], shim.var('tol'))))
    for k, t in enumerate(info['stops']):
        _fn('sec_stop', ['iter_no', 'iter_no_limit', 'point'], [ast.Return(_SymBool().visit(ast.parse(t, mode='eval').body))], ns, path)
        r = ns['sec_stop'](shim.var('iter_no'), shim.var('limit'), shim.sym('p', (1, 3)))
        g.add('g_sec_stop_%d' % k, ['iter_no', 'limit'], shim.B.lift(r if not hasattr(r, 'shape') else r.reshape(-1)[0]))
    ray = shim.sym('r', (1, 2, 3)); x = shim.var('x')
    e, p = ns['intersection_kernel_for_parametric_surfaces'](x, ray, shim.sym('s', (4,)), ns['sphere_function'])
    g.add('g_sphere_err', RAY + SPH + ['x'], e[0])
    for k in range(3):
        g.add('g_kernel_point_%d' % k, RAY + ['x'], p[0, k])
    e, p = ns['intersection_kernel_for_parametric_surfaces'](x, ray, shim.sym('c', (7,)), ns['cylinder_function'])
    ee = e if not hasattr(e, 'shape') else e.reshape(-1)[0]
    g.add('g_cyl_err', RAY + CYL + ['x'], ee)
    # ---------------- PyTorch: residual and flag of intersect_w_sphere
    ti = shape_torch_sphere()
    ns2 = shim.base_namespace()
    shim.load('odak/learn/raytracing/ray.py', ['propagate_ray'], ns2)
    # `test` is computed from the distance BEFORE the last optimiser step, `check` after it: two symbols
    rebind = ast.parse('distance = distance_after').body[0]
    _fn('ts_flag', ['ray', 'sphere', 'distance', 'distance_after', 'error_threshold'], ti['stmts'][:2] + [rebind, ti['stmts'][2]] + [_ret(['test', 'check'])], ns2, ti['path'])
    test, check = ns2['ts_flag'](shim.sym('r', (1, 2, 3)), shim.sym('s', (1, 4)), shim.sym('x', (1,)), shim.sym('y', (1,)), shim.var('thr'))
    SP1 = shim.names('s', (1, 4))
    g.add('g_ts_test', RAY + SP1 + ['x_0'], test[0]); g.add('g_ts_check', RAY + SP1 + ['x_0', 'y_0', 'thr'], shim.B.lift(check[0]))
    info['torch_sphere_defaults'] = ti['defaults']
    return g, info
