"""Tracing recipe for C09: amplitude/phase <-> complex helpers, phase-only SLM pattern, quantize (both APIs).

Every helper is traced on a 2-element array of symbolic samples; element 0 is emitted with element 0's
variables only (Gen.add refuses free variables outside the argument list, so this also checks that the
helper is element-wise), element 1 is emitted as `<name>_el1` over element 1's variables and proved
alpha-equal in the tie.  Bit depth and SLM range are symbolic reals (2**bits traces to `Rpower 2 bits`).
"""
from tracer import shim
from tracer.emit import Gen

Z0 = ['zr_0', 'zi_0']
Z1 = ['zr_1', 'zi_1']
A0 = ['ar_0', 'ai_0']


def _emit_c(g, name, args, val):
    g.add(name, args, shim.CE.lift(val))


def trace():
    g = Gen()
    with shim.int_casts_truncate():
        _numpy(g)
        _torch(g)
    return g


def _numpy(g):
    ns = shim.base_namespace()
    shim.load('odak/wave/utils.py', ['calculate_phase', 'calculate_amplitude'], ns)
    shim.load('odak/wave/__init__.py', ['add_phase', 'set_amplitude', 'generate_complex_field',
                                        'produce_phase_only_slm_pattern'], ns)
    z = shim.csym('z', (2,)); a = shim.csym('a', (2,))
    am = shim.sym('am', (2,)); ph = shim.sym('ph', (2,)); q = shim.sym('q', (2,)); il = shim.sym('il', (2,))
    r = shim.var('r'); b = shim.var('b')
    ph_ = ns['calculate_phase'](z); assert ph_.shape == (2,)
    g.add('n_phase', Z0, ph_[0]); g.add('n_phase_el1', Z1, ph_[1])
    g.add('n_phase_deg', Z0, ns['calculate_phase'](z, deg=True)[0])
    am_ = ns['calculate_amplitude'](z); assert am_.shape == (2,)
    g.add('n_amp', Z0, am_[0]); g.add('n_amp_el1', Z1, am_[1])
    f = ns['generate_complex_field'](am, ph); assert f.shape == (2,)
    _emit_c(g, 'n_gcf', ['am_0', 'ph_0'], f[0]); _emit_c(g, 'n_gcf_el1', ['am_1', 'ph_1'], f[1])
    s = ns['set_amplitude'](z, a); assert s.shape == (2,)
    _emit_c(g, 'n_setamp', Z0 + A0, s[0])
    ap = ns['add_phase'](z, q); assert ap.shape == (2,)
    _emit_c(g, 'n_addphase', Z0 + ['q_0'], ap[0])
    pat, dig = ns['produce_phase_only_slm_pattern'](z, r, bits=b)
    assert pat.shape == (2,) and dig.shape == (2,)
    g.add('n_slm_level', Z0 + ['r', 'b'], dig[0]); g.add('n_slm_level_el1', Z1 + ['r', 'b'], dig[1])
    _emit_c(g, 'n_slm', Z0 + ['r', 'b'], pat[0])
    pat2, dig2 = ns['produce_phase_only_slm_pattern'](z, r, bits=b, illumination=il)
    _emit_c(g, 'n_slm_ill', Z0 + ['r', 'b', 'il_0'], pat2[0])
    g.add('n_slm_ill_level', Z0 + ['r', 'b'], dig2[0])


def _torch(g):
    ns = shim.base_namespace()
    shim.load('odak/learn/wave/util.py', ['calculate_phase', 'calculate_amplitude', 'set_amplitude', 'generate_complex_field'], ns)
    shim.load('odak/learn/tools/matrix.py', ['quantize'], ns)
    z = shim.csym('z', (2,)); a = shim.csym('a', (2,))
    am = shim.sym('am', (2,)); ph = shim.sym('ph', (2,)); x = shim.sym('x', (2,))
    lo = shim.var('lo'); hi = shim.var('hi'); b = shim.var('b')
    ph_ = ns['calculate_phase'](z); assert ph_.shape == (2,)
    g.add('t_phase', Z0, ph_[0]); g.add('t_phase_el1', Z1, ph_[1])
    g.add('t_phase_deg', Z0, ns['calculate_phase'](z, deg=True)[0])
    am_ = ns['calculate_amplitude'](z); assert am_.shape == (2,)
    g.add('t_amp', Z0, am_[0]); g.add('t_amp_el1', Z1, am_[1])
    f = ns['generate_complex_field'](am, ph); assert f.shape == (2,)
    _emit_c(g, 't_gcf', ['am_0', 'ph_0'], f[0]); _emit_c(g, 't_gcf_el1', ['am_1', 'ph_1'], f[1])
    s = ns['set_amplitude'](z, a); assert s.shape == (2,)
    _emit_c(g, 't_setamp', Z0 + A0, s[0])
    qz = ns['quantize'](x, bits=b, limits=[lo, hi]); assert qz.shape == (2,)
    g.add('t_quant', ['x_0', 'lo', 'hi', 'b'], qz[0]); g.add('t_quant_el1', ['x_1', 'lo', 'hi', 'b'], qz[1])
