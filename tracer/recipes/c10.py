"""Tracing recipe for C10: intersection geometry (both APIs).  No local variable of the traced functions is
referred to by name (so renaming / restructuring their bodies does not break the trace)."""
from tracer import shim
from tracer.emit import Gen

TARGS = shim.names('t', (3, 3))
RARGS = shim.names('r', (1, 2, 3))
PARGS = shim.names('p', (1, 3))
T2 = shim.names('t', (2, 3, 3))
R2 = shim.names('r', (2, 2, 3))
P2 = shim.names('p', (2, 3))
PB = shim.names('p', (2, 2, 3))


def trace():
    g = Gen()
    # ---------------- PyTorch API
    ns = shim.base_namespace()
    for f in ('odak/learn/tools/vector.py', 'odak/learn/raytracing/ray.py', 'odak/learn/raytracing/primitives.py', 'odak/learn/raytracing/boundary.py'):
        shim.load_all(f, ns)                      # helpers the traced functions may call
    shim.load('odak/learn/raytracing/primitives.py', ['center_of_triangle', 'is_it_on_triangle', 'is_it_on_triangle_batch'], ns)
    shim.load('odak/learn/raytracing/boundary.py', ['get_triangle_normal', 'intersect_w_surface', 'intersect_w_surface_batch'], ns)
    tri = shim.sym('t', (3, 3)); ray = shim.sym('r', (1, 2, 3)); p = shim.sym('p', (1, 3))
    n = ns['get_triangle_normal'](tri)
    assert n.shape == (2, 3)
    for k in range(3):
        g.add('t_center_%d' % k, TARGS, n[0, k]); g.add('t_normal_%d' % k, TARGS, n[1, k])
    nn, dist = ns['intersect_w_surface'](ray, tri)
    assert nn.shape == (1, 2, 3) and dist.shape == (1, 1)
    g.add('t_dist', TARGS + RARGS, dist[0, 0])
    for k in range(3):
        g.add('t_hit_%d' % k, TARGS + RARGS, nn[0, 0, k]); g.add('t_hitn_%d' % k, TARGS + RARGS, nn[0, 1, k])
    flag = ns['is_it_on_triangle'](p, tri)
    assert flag.shape == (1, 1)
    g.add('t_flag', TARGS + PARGS, flag[0, 0])
    # the flag functions at symbolic points (two points against one triangle; 2 x 2 points against two triangles)
    f2 = ns['is_it_on_triangle'](shim.sym('p', (2, 3)), tri)
    assert f2.shape == (1, 2), f2.shape
    for j in range(2):
        g.add('tf2_flag_%d' % j, TARGS + P2, f2[0, j])
    fbp = ns['is_it_on_triangle_batch'](shim.sym('p', (2, 2, 3)), shim.sym('t', (2, 3, 3)))
    assert fbp.shape == (2, 2), fbp.shape
    for i in range(2):
        for j in range(2):
            g.add('tbf_flag_%d_%d' % (i, j), T2 + PB, fbp[i, j])
    # several rays against ONE triangle (the single-triangle functions accept a batch of rays)
    ray2 = shim.sym('r', (2, 2, 3))
    nm, dm = ns['intersect_w_surface'](ray2, tri)
    assert nm.shape == (2, 2, 3) and dm.shape == (2, 1), (nm.shape, dm.shape)
    fm = ns['is_it_on_triangle'](nm[:, 0], tri)
    assert fm.shape == (1, 2), fm.shape
    for j in range(2):
        g.add('tm_dist_%d' % j, TARGS + R2, dm[j, 0]); g.add('tm_flag_%d' % j, TARGS + R2, fm[0, j])
        for k in range(3):
            g.add('tm_hit_%d_%d' % (j, k), TARGS + R2, nm[j, 0, k]); g.add('tm_hitn_%d_%d' % (j, k), TARGS + R2, nm[j, 1, k])
    # batch: 2 triangles x 2 rays
    tri2 = shim.sym('t', (2, 3, 3))
    nb, db = ns['intersect_w_surface_batch'](ray2, tri2)
    assert nb.shape == (2, 2, 2, 3) and db.shape == (2, 2), (nb.shape, db.shape)
    fb = ns['is_it_on_triangle_batch'](nb[:, :, 0], tri2)
    assert fb.shape == (2, 2)
    for i in range(2):          # triangle
        for j in range(2):      # ray
            g.add('tb_dist_%d_%d' % (i, j), T2 + R2, db[i, j])
            g.add('tb_flag_%d_%d' % (i, j), T2 + R2, fb[i, j])
            for k in range(3):
                g.add('tb_hit_%d_%d_%d' % (i, j, k), T2 + R2, nb[i, j, 0, k])
                g.add('tb_hitn_%d_%d_%d' % (i, j, k), T2 + R2, nb[i, j, 1, k])
    # ---------------- NumPy API
    ns2 = shim.base_namespace()
    for f in ('odak/tools/vector.py', 'odak/raytracing/ray.py', 'odak/raytracing/primitives.py', 'odak/raytracing/boundary.py'):
        shim.load_all(f, ns2)
    shim.load('odak/raytracing/primitives.py', ['center_of_triangle'], ns2)
    shim.load('odak/raytracing/boundary.py', ['get_triangle_normal', 'intersect_w_surface'], ns2)
    tri = shim.sym('t', (3, 3)); ray1 = shim.sym('r_0', (2, 3))
    n = ns2['get_triangle_normal'](tri)
    assert n.shape == (2, 3)
    for k in range(3):
        g.add('n_center_%d' % k, TARGS, n[0, k]); g.add('n_normal_%d' % k, TARGS, n[1, k])
    nn, dist = ns2['intersect_w_surface'](ray1, tri)
    assert nn.shape == (2, 3) and dist.shape == (1,)
    g.add('n_dist', TARGS + RARGS, dist[0])
    for k in range(3):
        g.add('n_hit_%d' % k, TARGS + RARGS, nn[0, k]); g.add('n_hitn_%d' % k, TARGS + RARGS, nn[1, k])
    nm, dm = ns2['intersect_w_surface'](shim.sym('r', (2, 2, 3)), tri)
    dm = shim.wrap(dm).reshape(-1)
    assert nm.shape == (2, 2, 3) and dm.shape == (2,), (nm.shape, dm.shape)
    for j in range(2):
        g.add('nm_dist_%d' % j, TARGS + R2, dm[j])
        for k in range(3):
            g.add('nm_hit_%d_%d' % (j, k), TARGS + R2, nm[j, 0, k]); g.add('nm_hitn_%d_%d' % (j, k), TARGS + R2, nm[j, 1, k])
    return g
