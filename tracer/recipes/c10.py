"""Tracing recipe for C10: intersection geometry (both APIs)."""
from tracer import shim
from tracer.emit import Gen

TARGS = shim.names('t', (3, 3))
RARGS = shim.names('r', (1, 2, 3))
PARGS = shim.names('p', (1, 3))
T2 = shim.names('t', (2, 3, 3))
R2 = shim.names('r', (2, 2, 3))


def trace():
    g = Gen()
    # ---------------- PyTorch API
    ns = shim.base_namespace()
    shim.load('odak/learn/raytracing/primitives.py', ['center_of_triangle', 'is_it_on_triangle', 'is_it_on_triangle_batch'], ns,
              expose={'is_it_on_triangle': ['u', 'v']})
    shim.load('odak/learn/raytracing/boundary.py', ['get_triangle_normal', 'intersect_w_surface', 'intersect_w_surface_batch'], ns)
    tri = shim.sym('t', (3, 3)); ray = shim.sym('r', (1, 2, 3)); p = shim.sym('p', (1, 3))
    n = ns['get_triangle_normal'](tri)
    assert n.shape == (2, 3)
    for k in range(3):
        g.add('t_center_%d' % k, TARGS, n[0, k]); g.add('t_normal_%d' % k, TARGS, n[1, k])
    nn, dist = ns['intersect_w_surface'](ray, tri)
    assert nn.shape == (1, 2, 3) and dist.shape == (1, 1)
    g.add('t_dist', TARGS + RARGS, dist[0, 0])
    for k in range(3):
        g.add('t_hit_%d' % k, TARGS + RARGS, nn[0, 0, k]); g.add('t_hitn_%d' % k, TARGS + RARGS, nn[0, 1, k])
    flag = ns['is_it_on_triangle'](p, tri)
    assert flag.shape == (1, 1)
    g.add('t_u', TARGS + PARGS, ns['__exposed__']['is_it_on_triangle.u'][0, 0])
    g.add('t_v', TARGS + PARGS, ns['__exposed__']['is_it_on_triangle.v'][0, 0])
    g.add('t_flag', TARGS + PARGS, flag[0, 0])
    # batch: 2 triangles x 2 rays; every entry must be the single-pair formula
    tri2 = shim.sym('t', (2, 3, 3)); ray2 = shim.sym('r', (2, 2, 3))
    nb, db = ns['intersect_w_surface_batch'](ray2, tri2)
    assert nb.shape == (2, 2, 2, 3) and db.shape == (2, 2), (nb.shape, db.shape)
    fb = ns['is_it_on_triangle_batch'](nb[:, :, 0], tri2)
    assert fb.shape == (2, 2)
    for i in range(2):          # triangle
        for j in range(2):      # ray
            g.add('tb_dist_%d_%d' % (i, j), T2 + R2, db[i, j])
            g.add('tb_flag_%d_%d' % (i, j), T2 + R2, fb[i, j])
            for k in range(3):
                g.add('tb_hit_%d_%d_%d' % (i, j, k), T2 + R2, nb[i, j, 0, k])
                g.add('tb_hitn_%d_%d_%d' % (i, j, k), T2 + R2, nb[i, j, 1, k])
    # single-pair flag of the single-pair hit point (what intersect_w_triangle computes)
    fl1 = ns['is_it_on_triangle'](nn[:, 0], tri)
    g.add('t_hitflag', TARGS + RARGS, fl1[0, 0])
    # ---------------- NumPy API
    ns2 = shim.base_namespace()
    shim.load('odak/raytracing/primitives.py', ['center_of_triangle'], ns2)
    shim.load('odak/raytracing/boundary.py', ['get_triangle_normal', 'intersect_w_surface'], ns2)
    tri = shim.sym('t', (3, 3)); ray1 = shim.sym('r_0', (2, 3))
    n = ns2['get_triangle_normal'](tri)
    assert n.shape == (2, 3)
    for k in range(3):
        g.add('n_center_%d' % k, TARGS, n[0, k]); g.add('n_normal_%d' % k, TARGS, n[1, k])
    nn, dist = ns2['intersect_w_surface'](ray1, tri)
    assert nn.shape == (2, 3) and dist.shape == (1,)
    g.add('n_dist', TARGS + RARGS, dist[0])
    for k in range(3):
        g.add('n_hit_%d' % k, TARGS + RARGS, nn[0, k]); g.add('n_hitn_%d' % k, TARGS + RARGS, nn[1, k])
    return g
