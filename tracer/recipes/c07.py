"""Tracing recipe for C07 (hologram optimisers).

Two kinds of definitions are cut from the CURRENT sources and emitted for Coq on every run:

 * per-sample (element level, reals): the element-wise helpers the routines rely on
   (generate_complex_field, calculate_amplitude, calculate_phase, set_amplitude of both APIs), the
   quantisation chain of multi_color_hologram_optimizer.optimize (`% 2 pi`, odak.learn.tools.quantize,
   `/ 2^bits * 2 * pi`), and shift_w_double_phase in three stages (global phase x blur, amplitude
   normalisation, checkerboard encoding);
 * operator level: the statements AFTER the optimisation loop of every routine ("epilogue"), and the loop
   bodies of the two Gerchberg-Saxton routines, with the loop-carried variables replaced by free symbols
   ("havoc": whatever the optimiser, the loss and the random numbers did).  propagate_beam, the propagator
   model, zero_pad / crop_center are uninterpreted operators that record their arguments; the element-wise
   helpers appear as the model's field-level operators (justified by the per-sample definitions).
"""
import ast, os, types
import numpy as np
from tracer import shim
from tracer.emit import Gen

PI = shim.PI


# ================================================================ operator terms
class Op:
    """field-level term (complex field `fld`, real image `rfld`, or a python-side placeholder)"""
    __array_ufunc__ = None
    __array_priority__ = 100000

    def __init__(s, op, *a, shape=None, kind='fld'):
        s.op, s.a, s._shape, s.kind = op, a, tuple(shape) if shape is not None else None, kind

    @property
    def shape(s): return s._shape
    @property
    def device(s): return 'cpu'
    def to(s, *a, **k): return s
    def detach(s): return s
    def clone(s): return s
    def __len__(s): return s._shape[0]

    def __getitem__(s, idx):
        if not (isinstance(idx, tuple) and len(idx) == 2 and all(isinstance(i, slice) for i in idx)):
            raise shim.TraceError('field indexed with something else than two slices: %r' % (idx,))
        b = []
        for sl, n in zip(idx, s._shape):
            if sl.step not in (None, 1): raise shim.TraceError('strided slice of a field')
            a0, a1 = _bound(sl.start, 0), _bound(sl.stop, n)
            if not (0 <= a0 <= a1 <= n): raise shim.TraceError('slice %r outside a side of %d (negative / clipped bounds are not modelled)' % (sl, n))
            b += [a0, a1]
        return Op('slice', b[0], b[1], b[2], b[3], s, shape=(b[1] - b[0], b[3] - b[2]), kind=s.kind)

    def __setitem__(s, idx, v):
        """x[r0:r1, c0:c1] = v  becomes  x := paste r0 r1 c0 c1 v x  (in place, like the array)"""
        if not (isinstance(idx, tuple) and len(idx) == 2 and all(isinstance(i, slice) for i in idx)):
            raise shim.TraceError('assignment into a field through something else than two slices')
        if not isinstance(v, Op) or s.kind != 'rfld' or v.kind != 'rfld':
            raise shim.TraceError('window assignment is modelled for real images only')
        b = []
        for sl, n in zip(idx, s._shape):
            if sl.step not in (None, 1): raise shim.TraceError('strided slice of a field')
            a0, a1 = _bound(sl.start, 0), _bound(sl.stop, n)
            if not (0 <= a0 <= a1 <= n): raise shim.TraceError('slice %r outside a side of %d' % (sl, n))
            b += [a0, a1]
        if (b[1] - b[0], b[3] - b[2]) != tuple(v._shape):
            raise shim.TraceError('could not broadcast input array from shape %s into shape %s' % (v._shape, (b[1] - b[0], b[3] - b[2])))
        old = Op(s.op, *s.a, shape=s._shape, kind=s.kind)
        s.op, s.a = 'paste', (b[0], b[1], b[2], b[3], v, old)

    def __pow__(s, n):
        if n == 2 and s.kind == 'rfld': return Op('rmul_f', s, s, shape=s._shape, kind='rfld')      # x ** 2 and x * x are the same term
        raise shim.TraceError('power of a field term')

    def __bool__(s): raise shim.TraceError('truth value of a field term')
    def __mul__(s, o):
        if isinstance(o, _Sink): return o          # loss bookkeeping (masks, targets) is outside the model
        if isinstance(o, Op) and s.kind == 'rfld' and o.kind == 'rfld': return Op('rmul_f', s, o, shape=s._shape, kind='rfld')
        raise shim.TraceError('arithmetic on a field term')
    def __rmul__(s, o):
        if isinstance(o, _Sink): return o
        raise shim.TraceError('arithmetic on a field term')
    def _noarith(s, *a): raise shim.TraceError('arithmetic on a field term')
    __add__ = __radd__ = __sub__ = __rsub__ = __truediv__ = __neg__ = _noarith


def _bound(x, default):
    if x is None: return default
    if isinstance(x, shim.E): x = int(x)
    return int(x)


def var(name, shape, kind='fld'):
    return Op('var', name, shape=shape, kind=kind)


class Lits:
    """names element-level arrays that are handed to operators: arrays with the same entries get the same name"""
    def __init__(s): s.names = {}; s.arrays = {}
    def name(s, arr, hint):
        a = np.asarray(arr, dtype=object)
        key = (a.shape,) + tuple((id(e.re), id(e.im)) if isinstance(e, shim.CE) else id(shim._lift(e)) for e in a.reshape(-1))
        if key not in s.names:
            n = hint if hint not in s.arrays else '%s%d' % (hint, len(s.arrays))
            s.names[key] = n; s.arrays[n] = a
        return s.names[key]


def coq(t):
    """Coq term over the operators of OdakV.C07.Model and the Section variables of the generated file"""
    if isinstance(t, Op):
        if t.op == 'var': return t.a[0]
        if t.op == 'rconst': return '(rconst %s)' % shim.coq(shim.E.lift(t.a[0]))
        if t.op in ('slice',): return '(slice %d%%nat %d%%nat %d%%nat %d%%nat %s)' % (t.a[0], t.a[1], t.a[2], t.a[3], coq(t.a[4]))
        if t.op == 'paste': return '(paste %d%%nat %d%%nat %d%%nat %d%%nat %s %s)' % (t.a[0], t.a[1], t.a[2], t.a[3], coq(t.a[4]), coq(t.a[5]))
        if t.op == 'padf': return '(padf %d%%nat %d%%nat %s)' % (t.a[0], t.a[1], coq(t.a[2]))
        if t.op == 'PROP':
            zp, ptype, k, z, dx, lam, x = t.a
            return '(PROP %s %s %s %s %s %s %s)' % (' '.join('true' if b else 'false' for b in zp), ptype, shim.coq(k), shim.coq(z), shim.coq(dx), shim.coq(lam), coq(x))
        if t.op == 'fsum':
            r = 'fzero'
            for x in t.a: r = '(fadd %s %s)' % (r, coq(x))
            return r
        if t.op == 'MODEL': return '(MODEL %d%%nat %s)' % (t.a[0], coq(t.a[1]))
        return '(%s %s)' % (t.op, ' '.join(coq(x) for x in t.a))
    raise shim.TraceError('emit: not an operator term: %r' % (t,))


# ================================================================ cutting functions, havoc of loops
def _fundef(relpath, fname, cls=None):
    src = open(os.path.join(shim.REPO, relpath)).read()
    tree = ast.parse(src)
    body = tree.body
    if cls is not None:
        body = [n for n in tree.body if isinstance(n, ast.ClassDef) and n.name == cls][0].body
    for n in body:
        if isinstance(n, ast.FunctionDef) and n.name == fname:
            n.decorator_list = []
            return n
    raise shim.TraceError('%s: function %s not found' % (relpath, fname))


def defaults_of(relpath, fname, cls=None):
    """argument names and literal defaults of a function of the current source"""
    fn = _fundef(relpath, fname, cls)
    names = [a.arg for a in fn.args.args]
    ds = fn.args.defaults
    out = {}
    for a, d in zip(names[len(names) - len(ds):], ds):
        try: out[a] = ast.literal_eval(d)
        except Exception: out[a] = None
    return names, out


def _stores(nodes):
    out = set()
    for n in nodes:
        for x in ast.walk(n):
            if isinstance(x, ast.Name) and isinstance(x.ctx, ast.Store): out.add(x.id)
            if isinstance(x, (ast.Subscript, ast.Attribute)) and isinstance(x.ctx, ast.Store):
                b = x
                while isinstance(b, (ast.Subscript, ast.Attribute)): b = b.value
                if isinstance(b, ast.Name): out.add(b.id)
    return out


def split_loop(fn):
    """(statements before, the last top-level for-loop, statements after)"""
    idx = [i for i, st in enumerate(fn.body) if isinstance(st, ast.For)]
    if not idx: raise shim.TraceError('%s: no top-level loop' % fn.name)
    i = idx[-1]
    if len(idx) != 1: raise shim.TraceError('%s: %d top-level loops (one is modelled)' % (fn.name, len(idx)))
    return fn.body[:i], fn.body[i], fn.body[i + 1:]


def _mk(fn, name, body, ns, path):
    f = ast.FunctionDef(name=name, args=fn.args, body=body, decorator_list=[], returns=None, type_comment=None)
    if hasattr(ast, 'TypeAlias'): f.type_params = []
    mod = ast.Module([f], [])
    ast.fix_missing_locations(mod)
    exec(compile(mod, path, 'exec'), ns)
    return ns[name]


def load_havoc(relpath, fname, ns, make, cls=None):
    """Name-independent loop abstraction.  Every variable the (single, top-level) loop assigns becomes a fresh free symbol
    make(name, value before the loop) (a field variable called v_<name>; containers keep their type, see gerchberg_saxton_3d); which of them matter is read off the DATA FLOW afterwards:
      <fname>__epilogue : prologue; havoc; statements after the loop          -> the routine's return value
      <fname>__body     : prologue; havoc; ONE pass through the loop body     -> {name: value after the pass} for every loop-assigned name
      <fname>__init     : prologue only                                       -> {name: value before the loop, or None if unbound}
    The free v_* symbols occurring in the epilogue's result are the loop outputs the routine uses; the v_* symbols occurring in
    their values after one pass are the loop-carried state.  No variable name of the source is known to the recipes."""
    fn = _fundef(relpath, fname, cls)
    pre, loop, post = split_loop(fn)
    assigned = sorted(_stores(loop.body) | _stores([loop.target]))
    ns['__havoc__'] = make
    hav = [ast.parse('%s = __havoc__(%r, locals().get(%r))' % (n, n, n)).body[0] for n in assigned]
    path = os.path.join(shim.REPO, relpath)
    epi = _mk(fn, fname + '__epilogue', list(pre) + hav + list(post), ns, path)
    ret = ast.parse('return {%s}' % ', '.join('%r: %s' % (n, n) for n in sorted(_stores(loop.body)))).body[0]
    bod = _mk(fn, fname + '__body', list(pre) + hav + list(loop.body) + [ret], ns, path)
    ini = _mk(fn, fname + '__init', list(pre) + [ast.parse('__l = locals()').body[0], ast.parse('return {%s}' % ', '.join('%r: __l.get(%r)' % (n, n) for n in assigned)).body[0]], ns, path)
    return epi, bod, ini, assigned


def havoc_vars(t, acc=None):
    """names of the loop symbols (v_*) occurring in an operator term, in order of first occurrence"""
    acc = [] if acc is None else acc
    if isinstance(t, Op):
        if t.op == 'var' and str(t.a[0]).startswith('v_'):
            if t.a[0] not in acc: acc.append(t.a[0])
        else:
            for x in t.a: havoc_vars(x, acc)
    elif isinstance(t, (tuple, list)):
        for x in t: havoc_vars(x, acc)
    return acc


def rename(t, m):
    """the term with loop symbols renamed to role names"""
    if isinstance(t, Op):
        if t.op == 'var': return Op('var', m.get(t.a[0], t.a[0]), shape=t._shape, kind=t.kind)
        return Op(t.op, *[rename(x, m) if isinstance(x, Op) else x for x in t.a], shape=t._shape, kind=t.kind)
    return t


def single_state(fname, ret_terms, out, role):
    """the loop state of a routine whose loop carries ONE field: the loop symbol the epilogue uses; after one pass its value may
    depend on no other loop symbol.  Returns (name of the state variable, renaming)"""
    used = havoc_vars(ret_terms)
    if len(used) != 1: raise shim.TraceError('%s: the statements after the loop use the loop variables %s (exactly one is modelled)' % (fname, [u[2:] for u in used]))
    x = used[0]
    dep = havoc_vars(out[x[2:]])
    if [d for d in dep if d != x]: raise shim.TraceError('%s: the loop-carried hologram depends on further loop state %s' % (fname, [d[2:] for d in dep if d != x]))
    return x[2:], {x: role}


class _Sink:
    """stand-in for loggers, optimisers, progress bars, losses: accepts every call / operation, returns itself"""
    def __call__(s, *a, **k): return s
    def __getattr__(s, k): return s
    def __iter__(s): return iter(())
    def __getitem__(s, k): return s
    def __mul__(s, o): return s
    __rmul__ = __add__ = __radd__ = __sub__ = __rsub__ = __mul__
    def __format__(s, spec): return '<sink>'


class _Bar(list):
    """tqdm(range(n)): iterable with a description"""
    def set_description(s, *a, **k): pass


# ================================================================ stubs
PTYPE = 'ptype'                   # the caller's propagation_type (emitted as a Coq variable of that name)


def _field_arg(x, lits, hint):
    if isinstance(x, Op): return x
    return var(lits.name(x, hint), tuple(np.asarray(x).shape))


K_USED = []                                   # distinct wavenumber expressions handed to propagate_beam during one trace()
K_CANON = (2 * shim.PI) / shim.var('lam')
K_SLOTS = 4


def prop_stub(relpath, lits, log):
    """propagate_beam of the current source as an uninterpreted operator carrying ALL its settings"""
    names, dflt = defaults_of(relpath, 'propagate_beam')
    def propagate_beam(*a, **kw):
        b = dict(dflt); b.update(dict(zip(names, a))); b.update(kw)
        if b.get('propagation_type') != PTYPE:
            raise shim.TraceError('propagate_beam called with propagation type %r instead of the caller\'s' % (b.get('propagation_type'),))
        for extra, want in (('kernel', None), ('aperture', 1.), ('scale', 1)):
            if extra in b and b[extra] != want: raise shim.TraceError('propagate_beam called with %s=%r' % (extra, b[extra]))
        zp = tuple(bool(v) for v in b['zero_padding']) if 'zero_padding' in b else (False, False, False)   # NumPy: never pads
        x = _field_arg(b['field'], lits, 'holo')
        kexpr = shim.E.lift(b['k'])
        if not any(kexpr is e for e in K_USED): K_USED.append(kexpr)
        # the wavenumber handed over is emitted separately (k_used_*: proved = 2 pi / lambda for all lambda in C07_TieE) and written
        # in that canonical form inside the operator term, so that the operator-level ties do not depend on how the source spells it
        t = Op('PROP', zp, PTYPE, K_CANON, shim.E.lift(b['distance']), shim.E.lift(b['dx']), shim.E.lift(b['wavelength']), x, shape=x.shape)
        log.append(t)
        return t
    return propagate_beam, len(dflt.get('zero_padding') or ())


def helper_stubs(lits):
    """field-level versions of the element-wise helpers (their per-sample definitions are tied separately)"""
    def rimg(x, hint):
        if isinstance(x, Op): return x
        if isinstance(x, (int, float)) or (isinstance(x, shim.E) and x.is_const()): return Op('rconst', x, kind='rfld')
        a = np.asarray(x, dtype=object)
        if a.size >= 1 and all(isinstance(e, shim.E) and e.is_const() and e.cval() == a.reshape(-1)[0].cval() for e in a.reshape(-1)):
            return Op('rconst', a.reshape(-1)[0], shape=a.shape, kind='rfld')
        return var(lits.name(a, hint), a.shape, kind='rfld')
    def generate_complex_field(amplitude, phase):
        a, p = rimg(amplitude, 'amp'), rimg(phase, 'phi')
        return Op('gcf_f', a, p, shape=p.shape or a.shape)
    def calculate_amplitude(f): return Op('amp_f', f, shape=f.shape, kind='rfld')
    def calculate_phase(f, deg=False):
        if deg: raise shim.TraceError('phase in degrees')
        return Op('arg_f', f, shape=f.shape, kind='rfld')
    def set_amplitude(f, a): return Op('setamp_f', f, _field_arg(a, lits, 'target'), shape=f.shape)
    return {'generate_complex_field': generate_complex_field, 'calculate_amplitude': calculate_amplitude,
            'calculate_phase': calculate_phase, 'set_amplitude': set_amplitude}


def _common(ns):
    ns['logging'] = _Sink()
    ns['tqdm'] = lambda x, **k: _Bar(x)
    return ns


# ================================================================ per-sample definitions
H0, W0 = 3, 5            # element-level grid (both parities of i + j; odak's torch zero_pad treats a last side < 5 as channels)


def elementwise(g):
    """generate_complex_field / calculate_amplitude / calculate_phase / set_amplitude of both APIs on a 2 x 3 grid of
    distinct symbols: sample (i, j) of the result may only mention sample (i, j) of the inputs (Gen.add checks it)"""
    shp = (2, 3)
    for api, path, names in (('t', 'odak/learn/wave/util.py', ['generate_complex_field', 'calculate_amplitude', 'calculate_phase', 'set_amplitude', 'wavenumber']),
                             ('n', 'odak/wave/utils.py', ['calculate_amplitude', 'calculate_phase'])):
        ns = shim.base_namespace()
        shim.load(path, names, ns)
        if api == 'n':
            shim.load('odak/wave/__init__.py', ['generate_complex_field', 'set_amplitude', 'wavenumber'], ns)
        a, p = shim.sym('a', shp), shim.sym('p', shp)
        z, t = shim.csym('z', shp), shim.csym('t', shp)
        G = ns['generate_complex_field'](a, p)
        G1 = ns['generate_complex_field'](1., p) if api == 't' else ns['generate_complex_field'](1, p)
        A = ns['calculate_amplitude'](z); P = ns['calculate_phase'](z)
        Sa = ns['set_amplitude'](z, t)
        for idx in np.ndindex(*shp):
            s = '_%d_%d' % idx
            g.add('%s_gcf%s' % (api, s), ['a' + s, 'p' + s], shim.CE.lift(G[idx]))
            g.add('%s_gcf1%s' % (api, s), ['p' + s], shim.CE.lift(G1[idx]))
            g.add('%s_amp%s' % (api, s), ['zr' + s, 'zi' + s], A[idx])
            g.add('%s_arg%s' % (api, s), ['zr' + s, 'zi' + s], P[idx])
            g.add('%s_setamp%s' % (api, s), ['zr' + s, 'zi' + s, 'tr' + s, 'ti' + s], shim.CE.lift(Sa[idx]))
        g.add('%s_wavenumber' % api, ['lam'], ns['wavenumber'](shim.var('lam')))
    return shp


# ================================================================ routines
def trace_sgd(lits):
    ns = _common(shim.base_namespace())
    log = []
    ns.update(helper_stubs(lits))
    shim.load('odak/learn/wave/util.py', ['wavenumber'], ns)
    ns['propagate_beam'], _ = prop_stub('odak/learn/wave/classical.py', lits, log)
    # the tensor the routine creates and registers with its optimiser IS the free symbol phi: whatever in-place updates the
    # optimiser applied, its value after the loop is arbitrary (whichever local name holds it)
    phi = var('phi', (H0, W0), kind='rfld')
    owned = []
    t = ns['torch'].__dict__
    t['randn_like'] = lambda x, **k: phi
    optim = types.SimpleNamespace(Adam=lambda params, **k: (owned.extend(params), _Sink())[1])
    t['optim'] = optim
    t['nn'].__dict__['MSELoss'] = lambda **k: _Sink()
    epi, _, _, assigned = load_havoc('odak/learn/wave/classical.py', 'stochastic_gradient_descent', ns, lambda n, cur=None: var('v_' + n, (H0, W0)))
    lam, z, dx = shim.var('lam'), shim.var('z'), shim.var('dx')
    target = shim.sym('target', (H0, W0))
    holo, rec = epi(target, lam, z, dx, propagation_type=PTYPE, n_iteration=1, loss_function=None, learning_rate=0.1)
    if len(owned) != 1 or owned[0] is not phi:
        raise shim.TraceError('stochastic_gradient_descent: the optimiser owns something else than the phase variable')
    used = havoc_vars((holo, rec))
    if used: raise shim.TraceError('stochastic_gradient_descent returns values of the loop variables %s instead of recomputing them from the optimised phase' % [u[2:] for u in used])
    return [('t_sgd_holo', '(phi : rfld)', 'fld', coq(holo)), ('t_sgd_rec', '(phi : rfld)', 'fld', coq(rec))], {'loop_assigns': assigned}


def trace_gs_torch(lits):
    """roles from the data flow: `hol` is the loop variable the routine returns, `rec` the loop-carried variable its new value is
    computed from; the loop state of the model is the pair (hol, rec)"""
    ns = _common(shim.base_namespace())
    log = []
    ns.update(helper_stubs(lits))
    shim.load('odak/learn/wave/util.py', ['wavenumber'], ns)
    ns['propagate_beam'], _ = prop_stub('odak/learn/wave/classical.py', lits, log)
    epi, bod, ini, assigned = load_havoc('odak/learn/wave/classical.py', 'gerchberg_saxton', ns, lambda n, cur=None: var('v_' + n, (H0, W0)))
    lam, z, dx = shim.var('lam'), shim.var('z'), shim.var('dx')
    field = var('field', (H0, W0))
    h, r = epi(field, 1, z, dx, lam, propagation_type=PTYPE)
    out = bod(field, 1, z, dx, lam, propagation_type=PTYPE)
    start = ini(field, 1, z, dx, lam, propagation_type=PTYPE)
    if not (isinstance(h, Op) and h.op == 'var' and h.a[0].startswith('v_')):
        raise shim.TraceError('gerchberg_saxton: the returned hologram is not a loop variable')
    X = h.a[0]
    if [u for u in havoc_vars(r) if u != X]: raise shim.TraceError('gerchberg_saxton: the returned reconstruction uses loop variables other than the returned hologram')
    dep = [d for d in havoc_vars(out[X[2:]]) if d != X]
    if len(dep) != 1: raise shim.TraceError('gerchberg_saxton: the new hologram is computed from the loop variables %s (one carried reconstruction is modelled)' % [d[2:] for d in dep])
    Y = dep[0]
    if [d for d in havoc_vars(out[Y[2:]]) if d not in (X, Y)]: raise shim.TraceError('gerchberg_saxton: further loop state')
    m = {X: 'hol', Y: 'rec'}
    init_rec = start.get(Y[2:])
    if init_rec is None: raise shim.TraceError('gerchberg_saxton: the carried reconstruction is unbound before the loop')
    if start.get(X[2:]) is not None: raise shim.TraceError('gerchberg_saxton: the hologram is bound before the loop (the model starts it unbound)')
    args = '(field hol rec : fld)'
    return [('t_gst_epi_holo', args, 'fld', coq(rename(h, m))), ('t_gst_epi_rec', args, 'fld', coq(rename(r, m))),
            ('t_gst_body_holo', args, 'fld', coq(rename(out[X[2:]], m))), ('t_gst_body_rec', args, 'fld', coq(rename(out[Y[2:]], m))),
            ('t_gst_init_rec', args, 'fld', coq(_field_arg(init_rec, lits, 'field')))], {'loop_assigns': assigned, 'roles': {'hol': X[2:], 'rec': Y[2:]}}


def trace_gs_numpy(lits, h, w):
    """body and epilogue for an h x w input; returns also the window bounds the code used"""
    ns = _common(shim.base_namespace())
    log = []
    ns.update(helper_stubs(lits))
    shim.load('odak/wave/__init__.py', ['wavenumber'], ns)
    ns['propagate_beam'], _ = prop_stub('odak/wave/classical.py', lits, log)
    ns['zero_pad'] = lambda x, *a, **k: Op('padf', x.shape[0], x.shape[1], x, shape=(2 * x.shape[0], 2 * x.shape[1]), kind=x.kind)
    ns['add_random_phase'] = lambda x: var('H0', x.shape)
    ns['add_phase'] = lambda x, p: var('H0', x.shape)
    epi, bod, ini, assigned = load_havoc('odak/wave/classical.py', 'gerchberg_saxton', ns, lambda n, cur=None: var('v_' + n, (2 * h, 2 * w)))
    lam, z, dx = shim.var('lam'), shim.var('z'), shim.var('dx')
    field = var('field', (h, w))
    ho, re = epi(field, 1, z, dx, lam, propagation_type=PTYPE)
    out = bod(field, 1, z, dx, lam, propagation_type=PTYPE)
    X, m = single_state('gerchberg_saxton', (ho, re), out, 'H')
    ho, re, body = rename(ho, m), rename(re, m), rename(out[X], m)
    win = None
    if ho.op == 'slice': win = list(ho.a[:4])
    return ho, re, body, win, assigned


def gs_numpy_defs(lits, sizes):
    defs, wins = [], {}
    for (h, w) in sizes:
        ho, re, body, win, assigned = trace_gs_numpy(lits, h, w)
        tag = '%dx%d' % (h, w)
        defs += [('t_gsn_epi_holo_%s' % tag, '(field H : fld)', 'fld', coq(ho)), ('t_gsn_epi_rec_%s' % tag, '(field H : fld)', 'fld', coq(re)),
                 ('t_gsn_body_%s' % tag, '(field H : fld)', 'fld', coq(body))]
        wins[tag] = {'window': win, 'out_shape': list(ho.shape), 'rec_shape': list(re.shape)}
    return defs, wins


def gs_numpy_window(h, w):
    """the window bounds [r0, r1, c0, c1] and output shapes the current source uses for an h x w input"""
    lits = Lits()
    ho, re, body, win, _ = trace_gs_numpy(lits, h, w)
    return win, list(ho.shape), list(re.shape)


class _Fields:
    """np.asarray(list of fields): a stack of field terms"""
    def __init__(s, items): s.items = list(items)
    def astype(s, *a, **k): return s
    def __getitem__(s, i): return s.items[int(i)]
    def __len__(s): return len(s.items)


class _Planes:
    """np.zeros((L, H, W)): one slot per plane, filled by item assignment, summed over axis 0"""
    def __init__(s, n, shape): s.items = [None] * n; s.shape2 = tuple(shape)
    def __setitem__(s, i, v):
        if not isinstance(v, Op) or tuple(v.shape) != s.shape2: raise shim.TraceError('plane assignment of shape %r into %r' % (getattr(v, 'shape', None), s.shape2))
        s.items[int(i)] = v


def trace_gs3d(lits, h, w):
    """odak.wave.gerchberg_saxton_3d, two planes at distances z and ds (the context's two free reals), 'no constraint'"""
    ns = _common(shim.base_namespace())
    log = []
    ns.update(helper_stubs(lits))
    shim.load('odak/wave/__init__.py', ['wavenumber'], ns)
    ns['propagate_beam'], _ = prop_stub('odak/wave/classical.py', lits, log)
    ns['zero_pad'] = lambda x, *a, **k: Op('padf', x.shape[0], x.shape[1], x, shape=(2 * x.shape[0], 2 * x.shape[1]), kind=x.kind)
    ns['add_random_phase'] = lambda x: var('H0', x.shape)
    ns['add_phase'] = lambda x, p: var('H0', x.shape)
    amp1 = ns['calculate_amplitude']
    ns['calculate_amplitude'] = lambda x: _Fields([amp1(f) for f in x.items]) if isinstance(x, _Fields) else amp1(x)
    n = ns['np'].__dict__
    n['asarray'] = lambda x, *a, **k: _Fields(x) if isinstance(x, (list, tuple)) and all(isinstance(f, Op) for f in x) else shim.wrap(x)
    zeros0 = n['zeros']
    n['zeros'] = lambda shp, **k: _Planes(shp[0], shp[1:]) if isinstance(shp, tuple) and len(shp) == 3 else zeros0(shp, **k)
    def npsum(x, axis=None, **k):
        if isinstance(x, _Planes) and axis == 0 and all(i is not None for i in x.items): return Op('fsum', *x.items, shape=x.shape2)
        raise shim.TraceError('np.sum of %r over axis %r' % (type(x).__name__, axis))
    n['sum'] = npsum
    def npabs(x):
        if isinstance(x, Op) and x.kind == 'rfld': return Op('rabs_f', x, shape=x.shape, kind='rfld')
        raise shim.TraceError('np.abs of a complex field term')
    n['abs'] = npabs
    def make(nm, cur=None):
        if isinstance(cur, _Planes):                 # a per-plane buffer the loop fills slot by slot: arbitrary contents, same container
            p = _Planes(len(cur.items), cur.shape2)
            p.items = [var('v_%s_%d' % (nm, k), cur.shape2) for k in range(len(cur.items))]
            return p
        return var('v_' + nm, (2 * h, 2 * w))
    epi, bod, ini, assigned = load_havoc('odak/wave/classical.py', 'gerchberg_saxton_3d', ns, make)
    lam, dx = shim.var('lam'), shim.var('dx')
    fields = [var('f0', (h, w)), var('f1', (h, w))]
    dist = [shim.var('z'), shim.var('ds')]
    ho = epi(fields, 1, dist, dx, lam, propagation_type=PTYPE)
    out = bod(fields, 1, dist, dx, lam, propagation_type=PTYPE)
    X, m = single_state('gerchberg_saxton_3d', ho, out, 'H')
    return rename(ho, m), rename(out[X], m), assigned


def gs3d_defs(lits, sizes):
    defs, notes = [], {}
    for (h, w) in sizes:
        ho, body, assigned = trace_gs3d(lits, h, w)
        tag = '%dx%d' % (h, w)
        defs += [('t_gs3_epi_%s' % tag, '(f0 f1 H : fld)', 'fld', coq(ho)), ('t_gs3_body_%s' % tag, '(f0 f1 H : fld)', 'fld', coq(body))]
        notes[tag] = {'out_shape': list(ho.shape), 'loop_assigns': assigned}
    return defs, notes


def trace_multiplane_loop(lits):
    """one pass through the loop body of multiplane_hologram_optimizer.gradient_descent (default amplitude): the hologram
    it leaves behind - which gradient_descent returns after the loop - is generate_complex_field(ones, constrained phase)"""
    ns = _common(shim.base_namespace())
    ns.update(helper_stubs(lits))
    shim.load('odak/learn/wave/legacy.py', ['init_amplitude'], ns, cls='multiplane_hologram_optimizer')
    phi = var('phi', (H0, W0), kind='rfld')
    Hh = var('H', (H0, W0))
    me = types.SimpleNamespace(slm_resolution=[H0, W0], device='cpu', number_of_iterations=1, number_of_planes=2, optimizer=_Sink(), targets=_Sink(), mask=_Sink(),
                               phase='PHASE', offset='OFFSET', evaluate=lambda *a, **k: _Sink())
    ns['init_amplitude'](me, None)
    calls = []
    def dpc(p, o):
        if p != 'PHASE' or o != 'OFFSET': raise shim.TraceError('double_phase_constrain called with other variables than the optimiser\'s')
        calls.append(1); return phi
    me.double_phase_constrain = dpc
    me.model = lambda x, channel_id=None, depth_id=None: Op('MODEL', int(depth_id), x, shape=x.shape)
    epi, bod, ini, assigned = load_havoc('odak/learn/wave/legacy.py', 'gradient_descent', ns, lambda nm, cur=None: var('v_' + nm, (H0, W0)), cls='multiplane_hologram_optimizer')
    ret = epi(me)
    out = bod(me)
    if not calls: raise shim.TraceError('the loop does not constrain the phase')
    X, m = single_state('gradient_descent', ret, out, 'H')
    return [('t_mp_gd_ret', '(H : fld)', 'fld', coq(rename(ret, m))), ('t_mp_loop_holo', '(phi : rfld)', 'fld', coq(rename(out[X], m)))], {'loop_assigns': assigned}


BITS = (1, 3, 8)


def trace_multicolor(g, lits):
    """multi_color_hologram_optimizer.optimize with gradient_descent() replaced by free symbols"""
    defs = []
    notes = {}
    F = 2
    for bits in BITS:
        ns = _common(shim.base_namespace())
        with shim.int_casts_truncate():
            shim.load('odak/learn/tools/matrix.py', ['quantize'], ns)
            gd = shim.sym('g', (F, 2, 2))
            rec_args = []
            class _Prop:
                channel_power = 'CP'
                def reconstruct(s, x, **k):
                    if k: raise shim.TraceError('propagator.reconstruct called with %r' % (k,))
                    rec_args.append(x); return Op('RECON', var(lits.name(x, 'q'), np.asarray(x).shape, kind='rfld'))
                def get_laser_powers(s): return 'LP'
            calls = []
            me = types.SimpleNamespace(propagator=_Prop(), peak_amplitude=1.0, init_optimizer=lambda: calls.append('init'),
                                       gradient_descent=lambda **k: (calls.append(('gd', k)), gd)[1])
            shim.load('odak/learn/wave/optimizers.py', ['optimize'], ns, cls='multi_color_hologram_optimizer')
            out = ns['optimize'](me, number_of_iterations=1, weights=[1., 1., 1.], bits=bits)
        ph, rec = out[0], out[1]
        if out[2] != 'LP' or out[3] != 'CP': raise shim.TraceError('optimize returns other laser / channel powers than the propagator\'s')
        if [c for c in calls if c != 'init'][0][1].get('number_of_iterations') != 1: raise shim.TraceError('iteration count not passed on')
        if len(rec_args) != 1: raise shim.TraceError('%d reconstruct calls' % len(rec_args))
        qn = lits.name(ph, 'q')
        if not (isinstance(rec, Op) and rec.op == 'RECON' and rec.a[0].a[0] == qn):
            raise shim.TraceError('the returned intensities are not reconstruct(returned phases)')
        for idx in np.ndindex(*ph.shape):
            s = '_%d_%d_%d' % idx
            g.add('mc_phase_b%d%s' % (bits, s), ['g' + s], ph[idx])
        notes[bits] = {'frames': F}
    defs.append(('t_mc_rec', '(q : nat -> rfld)', 'Out', '(RECON q)'))
    return defs, notes


def trace_multiplane(lits):
    planes = 2
    ns = _common(shim.base_namespace())
    ns.update(helper_stubs(lits))
    Hh = var('H', (H0, W0))
    class Stack:
        def __init__(s, n): s.items = [None] * n
        def to(s, *a, **k): return s
        def detach(s): return s
        def clone(s): return s
        def __setitem__(s, i, v): s.items[int(i)] = v
    t = ns['torch'].__dict__
    t['zeros'] = lambda *a, **k: Stack((a[0] if isinstance(a[0], (tuple, list)) else a)[0])
    model_calls = []
    def model(x, channel_id=None, depth_id=None):
        if channel_id != 0: raise shim.TraceError('model called with channel %r' % (channel_id,))
        model_calls.append(depth_id)
        return Op('MODEL', int(depth_id), x, shape=x.shape)
    shim.load('odak/learn/wave/legacy.py', ['optimize', 'reconstruct'], ns, cls='multiplane_hologram_optimizer')
    me = types.SimpleNamespace(number_of_planes=planes, phase=shim.sym('ph', (H0, W0)), device='cpu', model=model,
                               gradient_descent=lambda: Hh)
    me.reconstruct = lambda a, p: ns['reconstruct'](me, a, p)
    ph, am, rec = ns['optimize'](me)
    if model_calls != list(range(planes)): raise shim.TraceError('planes reconstructed: %r' % (model_calls,))
    defs = [('t_mp_phase', '(H : fld)', 'rfld', coq(ph)), ('t_mp_amp', '(H : fld)', 'rfld', coq(am))]
    for p in range(planes):
        defs.append(('t_mp_rec_%d' % p, '(H : fld)', 'rfld', coq(rec.items[p])))
    return defs, {'planes': planes}


# ---------------------------------------------------------------- shift_w_double_phase, staged
def conv2d_same(x, k):
    """torch.nn.functional.conv2d(x[1,1,h,w], k[1,1,kh,kw], padding='same'): cross-correlation; for a side of
    length K the zero padding is (K - 1) // 2 in front and K - 1 - (K - 1) // 2 behind (validated numerically
    against torch on every run)."""
    x = np.asarray(x, dtype=object); k = np.asarray(k, dtype=object)
    if x.shape[:2] != (1, 1) or k.shape[:2] != (1, 1): raise shim.TraceError('conv2d: batch / channel sizes other than 1')
    h, w = x.shape[2:]; kh, kw = k.shape[2:]
    ph, pw = (kh - 1) // 2, (kw - 1) // 2
    out = np.empty((1, 1, h, w), dtype=object)
    for i in range(h):
        for j in range(w):
            acc = shim.const(0)
            for a in range(kh):
                for b in range(kw):
                    ii, jj = i + a - ph, j + b - pw
                    if 0 <= ii < h and 0 <= jj < w:
                        acc = acc + shim._lift(x[0, 0, ii, jj]) * shim._lift(k[0, 0, a, b])
            out[0, 0, i, j] = acc
    return shim.wrap(out)


def trace_swdp(g, lits, kernel_length=4, tag='blur'):
    """stage 0 (operator level): crop (propagate (pad hologram)); stage A: x global phase, blur;
    stage B: amplitude / max amplitude; stage C: zero-mean phase -+ offset on the checkerboard"""
    ns = _common(shim.base_namespace())
    log = []
    shim.load('odak/learn/wave/util.py', ['wavenumber', 'generate_complex_field'], ns)
    shim.load('odak/learn/tools/matrix.py', ['generate_2d_gaussian'], ns)
    ns['propagate_beam'], _ = prop_stub('odak/learn/wave/classical.py', lits, log)
    rec = {}
    def zero_pad(x, *a, **k):
        rec['holo'] = x
        return Op('PAD', _field_arg(x, lits, 'holo'), shape=tuple(2 * d for d in np.asarray(x).shape))
    sf = shim.csym('sf', (H0, W0))
    def crop_center(x, *a, **k):
        rec['stage0'] = Op('CROP', x, shape=(H0, W0)); return sf
    sa, sp, off = shim.sym('sa', (H0, W0)), shim.sym('sp', (H0, W0)), shim.sym('off', (H0, W0))
    def calculate_amplitude(x): rec['amp_arg'] = x; return sa
    def calculate_phase(x): rec['phase_arg'] = x; return sp
    ns.update({'zero_pad': zero_pad, 'crop_center': crop_center, 'calculate_amplitude': calculate_amplitude, 'calculate_phase': calculate_phase})
    t = ns['torch'].__dict__
    def arccos(x): rec['acos_arg'] = x; return off
    t['arccos'] = arccos
    real_mean = t['mean']
    def mean(x, *a, **k): rec['mean_arg'] = x; return real_mean(x, *a, **k)
    t['mean'] = mean
    mx = t['amax']
    def amax(x, dims=None, **k):
        if dims is not None and sorted(d % np.asarray(x).ndim for d in dims) != list(range(np.asarray(x).ndim)):
            raise shim.TraceError('amax over a subset of the dimensions')
        return mx(x)
    t['amax'] = amax
    fn = types.SimpleNamespace(conv2d=lambda x, k, padding=None, **kw: conv2d_same(x, k) if padding == 'same' and not kw else shim._raise('conv2d(%r, %r)' % (padding, kw)))
    t['nn'].__dict__['functional'] = fn
    shim.load('odak/learn/wave/classical.py', ['shift_w_double_phase'], ns, expose={'shift_w_double_phase': ['shift']})
    phi = shim.sym('phi', (H0, W0))
    ds, dx, lam = shim.var('ds'), shim.var('dx'), shim.var('lam')
    out = ns['shift_w_double_phase'](phi, ds, dx, lam, propagation_type=PTYPE, kernel_length=kernel_length, sigma=0.5)
    if out.shape != (H0, W0): raise shim.TraceError('output shape %s' % (out.shape,))
    if rec['amp_arg'] is not rec['phase_arg']: raise shim.TraceError('amplitude and phase are taken from different fields')
    if rec['mean_arg'] is not sp: raise shim.TraceError('the mean is not that of the shifted phase')
    shift = np.asarray(ns['__exposed__']['shift_w_double_phase.shift'], dtype=object).reshape(-1)
    if shift.size != 1: raise shim.TraceError('global phase factor is not a scalar')
    g.add('swdp_%s_shift' % tag, ['ds', 'lam'], shim.CE.lift(shift[0]))
    sfn = ['sfr_%d_%d' % ij for ij in np.ndindex(H0, W0)] + ['sfi_%d_%d' % ij for ij in np.ndindex(H0, W0)]
    san = shim.names('sa', (H0, W0)); spn = shim.names('sp', (H0, W0))
    holo = np.asarray(rec['holo'], dtype=object)
    A = np.asarray(rec['amp_arg'], dtype=object)
    B = np.asarray(rec['acos_arg'], dtype=object)
    for (i, j) in np.ndindex(H0, W0):
        s = '_%d_%d' % (i, j)
        g.add('swdp_%s_holo%s' % (tag, s), ['phi' + s], shim.CE.lift(holo[i, j]))
        g.add('swdp_%s_field%s' % (tag, s), sfn + ['ds', 'lam'], shim.CE.lift(A[i, j]))
        g.add('swdp_%s_namp%s' % (tag, s), san, B[i, j])
        g.add('swdp_%s_out%s' % (tag, s), spn + ['off' + s], out[i, j])
    g.add('swdp_%s_mean' % tag, spn, real_mean(sp))
    stage0 = rec['stage0']
    return [('t_swdp_%s_prop' % tag, '(holo : fld)', 'fld', coq(stage0))], {'kernel_length': kernel_length}


# ================================================================ everything
CTX = ('(PROP : bool -> bool -> bool -> nat -> R -> R -> R -> R -> fld -> fld) (PAD CROP : fld -> fld) '
       '(MODEL : nat -> fld -> fld) (Out : Type) (RECON : (nat -> rfld) -> Out) (ptype : nat) (lam z dx ds : R)')
HEADER = ('(* GENERATED on every run from the current sources of the hologram-synthesis routines (operator level).\n'
          '   Every definition takes the same context: the uninterpreted operators (propagate_beam with all its settings,\n'
          '   zero_pad / crop_center of shift_w_double_phase, the propagator model, propagator.reconstruct), the caller\'s\n'
          '   propagation type and the symbolic wavelength, distance, pixel pitch and depth shift. *)\n'
          'From Coq Require Import Reals Bool Arith.\nFrom Coquelicot Require Import Complex.\n'
          'From OdakV Require Import Base.RealAux Wave.Fields C07.Model.\nOpen Scope R_scope.\n')

GSN_SIZES = [(3, 4), (5, 3)]
ROUTINES = ['elementwise', 'wavenumber', 'sgd', 'gs_torch', 'gs_numpy', 'gs3d', 'multicolor', 'multiplane', 'swdp']


def trace():
    """returns (Gen with per-sample definitions, text of the operator-level file, operator-level definitions, notes, errors);
    a routine whose tracing fails is reported in `errors` and leaves its definitions out"""
    g = Gen(); lits = Lits(); notes = {}; errors = {}
    del K_USED[:]
    defs = []
    def attempt(name, f):
        try:
            r = f()
            if r is not None:
                d, n = r
                defs.extend(d); notes[name] = n
        except Exception as e:                      # fail-closed: the obligation of this routine is broken
            errors[name] = '%s: %s' % (type(e).__name__, e)
    attempt('elementwise', lambda: ([], list(elementwise(g))))
    attempt('sgd', lambda: trace_sgd(lits))
    attempt('gs_torch', lambda: trace_gs_torch(lits))
    attempt('gs_numpy', lambda: gs_numpy_defs(lits, GSN_SIZES))
    attempt('gs3d', lambda: gs3d_defs(lits, GSN_SIZES))
    attempt('multicolor', lambda: trace_multicolor(g, lits))
    def multiplane():
        d1, n1 = trace_multiplane(lits)
        d2, n2 = trace_multiplane_loop(lits)
        return d1 + d2, dict(n1, gradient_descent=n2)
    attempt('multiplane', multiplane)
    def swdp():
        d1, n1 = trace_swdp(g, lits, kernel_length=4, tag='blur')
        d2, n2 = trace_swdp(g, lits, kernel_length=0, tag='noblur')
        return d1 + d2, {'blur': n1, 'noblur': n2}
    attempt('swdp', swdp)
    def kdefs():
        if not K_USED: raise shim.TraceError('no propagate_beam call was traced')
        if len(K_USED) > K_SLOTS: raise shim.TraceError('%d different wavenumber expressions' % len(K_USED))
        for i in range(K_SLOTS):
            g.add('k_used_%d' % i, ['lam'], K_USED[min(i, len(K_USED) - 1)])
        return [], {'distinct': len(K_USED)}
    attempt('wavenumber', kdefs)
    out = [HEADER]
    for name, args, ty, term in defs:
        out.append('Definition %s %s %s : %s :=\n  %s.\n' % (name, CTX, args, ty, term))
    return g, '\n'.join(out), defs, notes, errors
