"""Tracing recipe for C14: ray constructors and sample-point generators (both APIs).

Everything is cut from the CURRENT sources under $ODAK_REPO and executed symbolically.  Three
recipe-local extensions of the shim (kept here, the shared shim is untouched):

* random numbers: `torch.rand(n)` returns fresh real variables (`u_k` for the first call of a
  function, `v_k` for the second) -- the statement is then proved for ALL draws in [0, 1);
* the NaN guard `s[s == 0] = nan` (the R model has no NaN): the masked assignment is not
  applied; its mask is recorded and emitted as a boolean definition `..._guard_i`, and the tie
  lemmas prove `guard = true <-> the two points coincide` and the property where it is false;
* python control flow on symbolic values (`if angles[0] == 0 and ...` of NumPy rotate_points):
  a path is chosen by a decision list, every decision is recorded and emitted as the boolean
  definition `..._pc` (path condition); all paths are traced (`paths()` enumerates them).
"""
import contextlib
import numpy as _np
from tracer import shim
from tracer.emit import Gen


class Local:
    """state of the recipe-local shim extensions for one traced call"""
    def __init__(s, decisions=()):
        s.decisions = list(decisions); s.taken = []; s.guards = []; s.nrand = 0; s.exhausted = False


CUR = [None]


@contextlib.contextmanager
def local(decisions=()):
    st = Local(decisions)
    old_bool, old_set, old_expand = shim.B.__bool__, shim.T.__setitem__, shim.T.expand
    CUR[0] = st

    def b_bool(s):
        if s.op == 'const':
            return s.a[0]
        if not st.decisions:
            st.exhausted = True
            raise shim.TraceError('undecided symbolic branch')
        d = st.decisions.pop(0)
        st.taken.append((s, d))
        return d

    def t_set(s, idx, v):
        if isinstance(idx, _np.ndarray) and idx.dtype == object and isinstance(v, float) and v != v:
            # s[mask] = nan : record the mask, leave the values (property is stated where the mask is false)
            st.guards.append(_np.asarray(idx).copy())
            return
        return old_set(s, idx, v)

    def t_expand(s, *r):
        a = _np.asarray(s)
        r = tuple(a.shape[i - (len(r) - a.ndim)] if x == -1 else x for i, x in enumerate(r))
        return shim.wrap(_np.broadcast_to(a, r).copy())

    shim.B.__bool__, shim.T.__setitem__, shim.T.expand = b_bool, t_set, t_expand
    try:
        yield st
    finally:
        shim.B.__bool__, shim.T.__setitem__, shim.T.expand = old_bool, old_set, old_expand
        CUR[0] = None


def _rand(*n, **k):
    st = CUR[0]
    n = n[0] if len(n) == 1 else n
    name = 'uvw'[st.nrand]; st.nrand += 1
    return shim.sym(name, (int(n),))


def _uniform(lo, hi, n):
    """np.random.uniform(lo, hi, n) = lo + (hi - lo) * (fresh draws in [0, 1)); draws named like torch.rand's"""
    st = CUR[0]
    name = 'uvw'[st.nrand]; st.nrand += 1
    return lo + (hi - lo) * shim.sym(name, (int(n),))


class _MGrid:
    def __getitem__(s, idx):
        return tuple(shim.wrap(x) for x in _np.mgrid[idx])


def _is_nan_marker(x):
    a = _np.asarray(x, dtype=object).reshape(-1)
    return len(a) > 0 and all(isinstance(e, shim.E) and e.op == 'var' and e.a[0] == 'NaN' for e in a)


def namespace():
    ns = shim.base_namespace()
    ns['torch'].__dict__['rand'] = _rand
    real_where = ns['torch'].__dict__['where']

    def where_(c, a=None, b=None):
        # x = torch.where(mask, full_like(x, nan), x) is the out-of-place spelling of x[mask] = nan:
        # record the mask as a guard, leave the values (the property is stated where the mask is false)
        st = CUR[0]
        if st is not None and a is not None and b is not None and _is_nan_marker(a):
            st.guards.append(_np.asarray(c, dtype=object).copy())
            return b
        return real_where(c, a, b)
    ns['torch'].__dict__['where'] = where_
    shim.WHERE_HOOK[0] = where_          # x.masked_fill(mask, nan) is a third spelling of the same guard
    np_ = ns['np'].__dict__
    np_['mgrid'] = _MGrid()
    np_['nan'] = float('nan')
    rnd = shim._NS('numpy.random'); rnd.__dict__['uniform'] = _uniform
    np_['random'] = rnd
    np_['empty'] = lambda s, **k: shim._full(s, shim.const(0))
    np_['vstack'] = lambda xs: shim.wrap(_np.concatenate([_np.atleast_2d(_np.asarray(x, dtype=object)) for x in xs], axis=0))
    return ns


def pc_expr(taken):
    """conjunction of the recorded decisions as one boolean expression"""
    r = shim.B('const', True)
    for c, d in taken:
        r = (r & (c if d else ~c)) if not (r.op == 'const' and r.a[0]) else (c if d else ~c)
    return r


def paths(fn):
    """depth-first enumeration of all decision lists of fn (each call re-executes fn)"""
    out, todo = [], [[]]
    while todo:
        dec = todo.pop()
        with local(dec) as st:
            try:
                res = fn()
            except shim.TraceError:
                if not st.exhausted:
                    raise
                todo.append(dec + [False]); todo.append(dec + [True]); continue
        out.append((dec, st, res))
    return sorted(out, key=lambda x: x[0])


A2, B2_, B3 = shim.names('a', (2, 3)), shim.names('b', (2, 3)), shim.names('b', (3, 3))
A1, B1 = shim.names('a', (3,)), shim.names('b', (3,))
ORG, TLT, CEN = shim.names('o', (3,)), shim.names('tl', (3,)), shim.names('c', (3,))
UV2, UV8 = shim.names('u', (2,)) + shim.names('v', (2,)), shim.names('u', (8,)) + shim.names('v', (8,))
SZ2, SZ3 = shim.names('sz', (2,)), shim.names('sz', (3,))
ANG = shim.names('an', (3,))
GRID_NO, BOX_NO, CIRC_NO, SPH_NO, GL_NO, GL_RAYS = [2, 3], [2, 2, 2], [2, 2], [2, 3], [2, 2], 2
CU_NO, CUR_NO = [2, 8], [2, 2]          # circular_uniform_sample: ring 1 with 4 points (exact float constants); random: 2 radii x 2 angles
UV22 = shim.names('u', (2,)) + shim.names('v', (2,))


def _guard(st, k=0):
    g = st.guards[k].reshape(-1)
    return [shim.B.lift(x) for x in g]


def trace():
    g = Gen()
    info = {}
    # ------------------------------------------------------------ PyTorch ray constructors
    ns = namespace()
    shim.load('odak/learn/tools/transformation.py', ['rotmatx', 'rotmaty', 'rotmatz', 'rotate_points'], ns)
    shim.load('odak/learn/raytracing/ray.py', ['create_ray_from_two_points', 'create_ray_from_all_pairs',
                                               'create_ray_from_point_w_luminous_angle', 'create_ray_from_grid_w_luminous_angle'], ns)
    with local() as st:
        ray = ns['create_ray_from_two_points'](shim.sym('a', (2, 3)), shim.sym('b', (2, 3)))
    assert ray.shape == (2, 2, 3) and len(st.guards) == 1
    for i in range(2):
        g.add('t_two_guard_%d' % i, A2 + B2_, _guard(st)[i])
        for k in range(3):
            g.add('t_two_o_%d_%d' % (i, k), A2 + B2_, ray[i, 0, k]); g.add('t_two_d_%d_%d' % (i, k), A2 + B2_, ray[i, 1, k])
    with local() as st:
        ray = ns['create_ray_from_all_pairs'](shim.sym('a', (2, 3)), shim.sym('b', (3, 3)))
    assert ray.shape == (6, 2, 3) and len(st.guards) == 1
    for r in range(6):
        g.add('t_ap_guard_%d' % r, A2 + B3, _guard(st)[r])
        for k in range(3):
            g.add('t_ap_o_%d_%d' % (r, k), A2 + B3, ray[r, 0, k]); g.add('t_ap_d_%d_%d' % (r, k), A2 + B3, ray[r, 1, k])
    with local() as st:
        ray = ns['create_ray_from_point_w_luminous_angle'](shim.sym('o', (3,)), 2, shim.sym('tl', (3,)), shim.var('lim'))
    assert ray.shape == (2, 2, 3) and st.nrand == 2
    args = ORG + TLT + ['lim'] + UV2
    for r in range(2):
        for k in range(3):
            g.add('t_pl_o_%d_%d' % (r, k), args, ray[r, 0, k]); g.add('t_pl_d_%d_%d' % (r, k), args, ray[r, 1, k])
    with local() as st:
        ray = ns['create_ray_from_grid_w_luminous_angle'](shim.sym('c', (3,)), [shim.var('sz_0'), shim.var('sz_1')], GL_NO,
                                                         shim.sym('tl', (3,)), GL_RAYS, shim.var('lim'))
    nr = GL_NO[0] * GL_NO[1] * GL_RAYS
    assert ray.shape == (nr, 2, 3) and st.nrand == 2
    args = CEN + SZ2 + TLT + ['lim'] + UV8
    for r in range(nr):
        for k in range(3):
            g.add('t_gl_o_%d_%d' % (r, k), args, ray[r, 0, k]); g.add('t_gl_d_%d_%d' % (r, k), args, ray[r, 1, k])
    # ------------------------------------------------------------ PyTorch grid_sample
    shim.load('odak/learn/tools/sample.py', ['grid_sample'], ns)
    with local() as st:
        s, *_ = ns['grid_sample'](GRID_NO, [shim.var('sz_0'), shim.var('sz_1')], list(shim.sym('c', (3,))), list(shim.sym('an', (3,))))
    assert s.shape == (6, 3)
    for r in range(6):
        for k in range(3):
            g.add('t_grid_%d_%d' % (r, k), SZ2 + CEN + ANG, s[r, k])
    # ------------------------------------------------------------ NumPy ray constructors
    ns2 = namespace()
    shim.load('odak/raytracing/ray.py', ['create_ray_from_two_points'], ns2)
    with local() as st:
        ray = ns2['create_ray_from_two_points'](shim.sym('a', (3,)), shim.sym('b', (3,)))
    assert ray.shape == (2, 3) and len(st.guards) == 1
    g.add('n_two_guard', A1 + B1, _guard(st)[0])
    for k in range(3):
        g.add('n_two_o_%d' % k, A1 + B1, ray[0, k]); g.add('n_two_d_%d' % k, A1 + B1, ray[1, k])
    with local() as st:
        ray = ns2['create_ray_from_two_points'](shim.sym('a', (2, 3)), shim.sym('b', (2, 3)))
    assert ray.shape == (2, 2, 3)
    for i in range(2):
        g.add('n_twob_guard_%d' % i, A2 + B2_, _guard(st)[i])
        for k in range(3):
            g.add('n_twob_o_%d_%d' % (i, k), A2 + B2_, ray[i, 0, k]); g.add('n_twob_d_%d_%d' % (i, k), A2 + B2_, ray[i, 1, k])
    # ------------------------------------------------------------ NumPy sample generators
    shim.load('odak/tools/transformation.py', ['rotmatx', 'rotmaty', 'rotmatz', 'rotate_points'], ns2)
    shim.load('odak/tools/sample.py', ['sphere_sample', 'sphere_sample_uniform', 'box_volume_sample', 'circular_sample',
                                      'circular_uniform_sample', 'circular_uniform_random_sample', 'grid_sample', 'batch_of_rays'], ns2)
    cen = lambda: list(shim.sym('c', (3,)))
    ang = lambda: list(shim.sym('an', (3,)))
    gens = [('n_grid', 6, SZ2 + CEN + ANG, lambda: ns2['grid_sample'](GRID_NO, [shim.var('sz_0'), shim.var('sz_1')], cen(), ang())),
            ('n_box', 8, SZ3 + CEN + ANG, lambda: ns2['box_volume_sample'](BOX_NO, [shim.var('sz_0'), shim.var('sz_1'), shim.var('sz_2')], cen(), ang())),
            ('n_circ', 4, ['rad'] + CEN + ANG, lambda: ns2['circular_sample'](CIRC_NO, shim.var('rad'), cen(), ang())),
            ('n_cu', 4, ['rad'] + CEN + ANG, lambda: ns2['circular_uniform_sample'](CU_NO, shim.var('rad'), cen(), ang())),
            ('n_cur', 4, ['rad'] + CEN + ANG + UV22, lambda: ns2['circular_uniform_random_sample'](CUR_NO, shim.var('rad'), cen(), ang()))]
    for name, npts, args, fn in gens:
        ps = paths(fn)
        info[name + '_paths'] = [d for d, _, _ in ps]
        # NumPy rotate_points short-cuts when all three angles are zero: paths [F] [T,F] [T,T,F] [T,T,T]
        assert [d for d, _, _ in ps] == [[False], [True, False], [True, True, False], [True, True, True]], info
        rot = ps[0][2]
        for d, st, res in ps[1:3]:                 # same code as the [F] path: identical expressions
            assert all(res[r, k] is rot[r, k] for r in range(npts) for k in range(3)), 'paths differ'
        for tag, (d, st, res) in (('', ps[0]), ('0', ps[3])):
            assert res.shape == (npts, 3), res.shape
            g.add('%s%s_pc' % (name, tag), ANG, pc_expr(st.taken))
            for r in range(npts):
                for k in range(3):
                    g.add('%s%s_%d_%d' % (name, tag, r, k), args, res[r, k])
    with local() as st:
        s = ns2['sphere_sample'](SPH_NO, shim.var('rad'), cen())
    assert s.shape == (6, 3)
    for r in range(6):
        for k in range(3):
            g.add('n_sph_%d_%d' % (r, k), ['rad'] + CEN, s[r, k])
    with local() as st:
        s = ns2['sphere_sample_uniform']([2, 2], shim.var('rad'), cen())
    assert s.shape == (4, 3)
    for r in range(4):
        for k in range(3):
            g.add('n_sphu_%d_%d' % (r, k), ['rad'] + CEN, s[r, k])
    with local() as st:
        rays = ns2['batch_of_rays'](shim.sym('a', (2, 3)), shim.sym('b', (2, 3)))
    assert rays.shape == (2, 2, 3) and len(st.guards) == 2
    for i in range(2):
        g.add('n_bat_guard_%d' % i, A2 + B2_, _guard(st, i)[0])
        for k in range(3):
            g.add('n_bat_o_%d_%d' % (i, k), A2 + B2_, rays[i, 0, k]); g.add('n_bat_d_%d_%d' % (i, k), A2 + B2_, rays[i, 1, k])
    # the documented broadcast paths of batch_of_rays: one entry point with n exits, n entries with one exit
    with local() as st:
        rays = ns2['batch_of_rays'](shim.sym('a', (3,)), shim.sym('b', (2, 3)))
    assert rays.shape == (2, 2, 3) and len(st.guards) == 2
    for i in range(2):
        g.add('n_bat1n_guard_%d' % i, A1 + B2_, _guard(st, i)[0])
        for k in range(3):
            g.add('n_bat1n_o_%d_%d' % (i, k), A1 + B2_, rays[i, 0, k]); g.add('n_bat1n_d_%d_%d' % (i, k), A1 + B2_, rays[i, 1, k])
    with local() as st:
        rays = ns2['batch_of_rays'](shim.sym('a', (2, 3)), shim.sym('b', (3,)))
    assert rays.shape == (2, 2, 3) and len(st.guards) == 2
    for i in range(2):
        g.add('n_batn1_guard_%d' % i, A2 + B1, _guard(st, i)[0])
        for k in range(3):
            g.add('n_batn1_o_%d_%d' % (i, k), A2 + B1, rays[i, 0, k]); g.add('n_batn1_d_%d_%d' % (i, k), A2 + B1, rays[i, 1, k])
    g.info = info
    return g


if __name__ == '__main__':
    g = trace()
    print(g.text())
