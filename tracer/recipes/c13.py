"""Tracing recipe for C13: rotation matrices, rotate_point(s), get_rotation_matrix, tilt_towards,
bring_plane_to_origin (both APIs).

NumPy's rotate_points branches on the VALUES of the angles (`if angles[0] == 0 and ...: return offset + points`).
Python control flow on symbolic values cannot be traced, so the recipe if-converts that statement from the
current source: guard (with `and` turned into `&`), the guarded body and the rest of the function are executed
separately on copies of the arguments and merged as `if guard then fast else general` (a Coq `if` in the
emitted definition).  If the source has no such statement the whole function is traced as it is.
"""
import ast, copy, os
import numpy as _np
from tracer import shim
from tracer.emit import Gen

MODES = ['XYZ', 'XZY', 'YXZ', 'ZXY', 'ZYX']
REVERSIBLE = ['XYZ', 'YXZ', 'ZXY', 'ZYX']
A1 = ['a']
A3 = shim.names('a', (3,))
P1 = shim.names('p', (3,))
P2 = shim.names('p', (2, 3))
O3 = shim.names('o', (3,))
F3 = shim.names('f', (3,))
L3 = shim.names('l', (3,))
K3 = shim.names('k', (3,))
NP = 'odak/tools/transformation.py'
TP = 'odak/learn/tools/transformation.py'
RP = 'odak/raytracing/primitives.py'


class _AndToAmp(ast.NodeTransformer):
    def visit_BoolOp(s, node):
        s.generic_visit(node)
        op = ast.BitAnd() if isinstance(node.op, ast.And) else ast.BitOr()
        r = node.values[0]
        for v in node.values[1:]:
            r = ast.BinOp(left=r, op=op, right=v)
        return r


def load_module_functions(relpath, ns, required):
    """exec EVERY top-level function definition of the file into ns (so that private helpers a function relies
    on are available); only the `required` ones must exist and compile."""
    path = os.path.join(shim.REPO, relpath)
    src = open(path).read()
    tree = ast.parse(src)
    # stdlib / sibling-module imports, private classes, namedtuples and constants the file defines at module level
    # (shim's fail-closed binder: what cannot be evaluated stays unbound and raises NameError when used)
    shim._bind_stdlib_imports(tree, path, ns)
    fnames = {n.name for n in tree.body if isinstance(n, ast.FunctionDef)}
    shim._bind_module_level(ast.parse(src), path, ns, reserved=fnames)
    found = set()
    for n in tree.body:
        if isinstance(n, ast.FunctionDef):
            n.decorator_list = []
            mod = ast.Module([n], []); ast.fix_missing_locations(mod)
            try:
                exec(compile(mod, path, 'exec'), ns)
                found.add(n.name)
            except Exception:
                if n.name in required:
                    raise
    missing = set(required) - found
    if missing:
        raise shim.TraceError('%s: function(s) %s not found' % (relpath, sorted(missing)))
    # once more for module-level objects that needed the functions themselves (e.g. a functools.partial of one)
    shim._bind_module_level(ast.parse(src), path, ns, reserved=fnames)
    return ns


def sym_all(it):
    """all(...) over python booleans and symbolic conditions (no short circuit on symbolic ones)"""
    r = None
    for x in it:
        if isinstance(x, (bool, _np.bool_)):
            if not x: return False
            continue
        x = x if isinstance(x, shim.B) else shim.B.lift(x)
        if x.op == 'const':
            if not x.a[0]: return False
            continue
        r = x if r is None else (r & x)
    return True if r is None else r


def sym_any(it):
    r = None
    for x in it:
        if isinstance(x, (bool, _np.bool_)):
            if x: return True
            continue
        x = x if isinstance(x, shim.B) else shim.B.lift(x)
        if x.op == 'const':
            if x.a[0]: return True
            continue
        r = x if r is None else (r | x)
    return False if r is None else r


def _ends_with_return(body):
    return bool(body) and isinstance(body[-1], ast.Return)


def if_convert(relpath, fname, ns):
    """Returns a python function with the semantics of <fname> in which the first top-level
    `if <test on values>: ...; return` is executed symbolically on both sides and merged."""
    path = os.path.join(shim.REPO, relpath)
    tree = ast.parse(open(path).read())
    fn = [n for n in tree.body if isinstance(n, ast.FunctionDef) and n.name == fname]
    if not fn:
        raise shim.TraceError('%s: function %s not found' % (relpath, fname))
    fn = fn[0]
    fn.decorator_list = []
    idx = [i for i, st in enumerate(fn.body) if isinstance(st, ast.If) and not st.orelse and _ends_with_return(st.body)]

    def build(name, body):
        f = copy.deepcopy(fn); f.name = name; f.body = body
        mod = ast.Module([f], []); ast.fix_missing_locations(mod)
        exec(compile(mod, path, 'exec'), ns)
        return ns[name]
    whole = build(fname + '__whole', copy.deepcopy(fn.body))
    if not idx:
        return whole, False
    i = idx[0]
    st = fn.body[i]
    pre = fn.body[:i]
    guard_ret = ast.Return(value=_AndToAmp().visit(copy.deepcopy(st.test)))
    guard = build(fname + '__guard', copy.deepcopy(pre) + [guard_ret])
    fast = build(fname + '__fast', copy.deepcopy(pre) + copy.deepcopy(st.body))
    general = build(fname + '__general', copy.deepcopy(pre) + copy.deepcopy(fn.body[i + 1:]))

    def cp(x):
        return x.copy() if isinstance(x, _np.ndarray) else (list(x) if isinstance(x, list) else x)

    def merged(*a, **k):
        g = guard(*[cp(x) for x in a], **{n: cp(v) for n, v in k.items()})
        g = shim.B.lift(g) if not isinstance(g, shim.B) else g
        if g.op == 'const':
            return (fast if g.a[0] else general)(*a, **k)
        r1 = fast(*[cp(x) for x in a], **{n: cp(v) for n, v in k.items()})
        r2 = general(*[cp(x) for x in a], **{n: cp(v) for n, v in k.items()})
        r1 = _np.asarray(r1, dtype=object); r2 = _np.asarray(r2, dtype=object)
        if r1.shape != r2.shape:
            raise shim.TraceError('%s: the two sides of the value test return different shapes %s / %s' % (fname, r1.shape, r2.shape))
        out = _np.empty(r1.shape, dtype=object)
        for ix in _np.ndindex(*r1.shape):
            out[ix] = shim.mk('ite', g, shim.E.lift(r1[ix]), shim.E.lift(r2[ix]))
        return shim.wrap(out)
    return merged, True


def _mat(g, name, args, m):
    m = _np.asarray(m, dtype=object)
    assert m.shape == (3, 3), m.shape
    for i in range(3):
        for j in range(3):
            g.add('%s_%d_%d' % (name, i, j), args, m[i, j])


def trace():
    g = Gen()
    info = {}
    # ------------------------------------------------------------------ NumPy API
    ns = shim.base_namespace({'all': sym_all, 'any': sym_any})
    load_module_functions(NP, ns, ['rotmatx', 'rotmaty', 'rotmatz', 'rotate_point', 'rotate_points', 'tilt_towards'])
    a = shim.var('a')
    for ax in 'xyz':
        _mat(g, 'n_rotmat' + ax, A1, ns['rotmat' + ax](a))
    ang = [shim.var(n) for n in A3]
    org = [shim.var(n) for n in O3]
    off = [shim.var(n) for n in F3]
    for m in MODES:
        r, rx, ry, rz = ns['rotate_point'](shim.sym('p', (3,)), angles=list(ang), mode=m, origin=list(org), offset=list(off))
        assert r.shape == (3,), r.shape
        for k in range(3):
            g.add('n_rp_%s_%d' % (m, k), P1 + A3 + O3 + F3, r[k])
        if m == 'XYZ':
            _mat(g, 'n_rp_rotx', A3, rx); _mat(g, 'n_rp_roty', A3, ry); _mat(g, 'n_rp_rotz', A3, rz)
    rps, converted = if_convert(NP, 'rotate_points', ns)
    info['numpy_rotate_points_if_converted'] = converted
    ns['rotate_points'] = rps
    for m in MODES:
        r = rps(shim.sym('p', (2, 3)), angles=list(ang), mode=m, origin=list(org), offset=list(off))
        assert r.shape == (2, 3), r.shape
        for i in range(2):
            for k in range(3):
                g.add('n_rps_%s_%d_%d' % (m, i, k), P2 + A3 + O3 + F3, r[i, k])
        # the function as it is, entered with literally zero angles
        z = ns['rotate_points__whole'](shim.sym('p', (2, 3)), angles=[0, 0, 0], mode=m, origin=list(org), offset=list(off))
        assert z.shape == (2, 3), z.shape
        for i in range(2):
            for k in range(3):
                g.add('n_rpz_%s_%d_%d' % (m, i, k), P2 + O3 + F3, z[i, k])
    loc = [shim.var(n) for n in L3]; look = [shim.var(n) for n in K3]
    t = ns['tilt_towards'](list(loc), list(look))
    assert len(t) == 3
    for k in range(3):
        g.add('n_tilt_%d' % k, L3 + K3, t[k])
    # bring_plane_to_origin calls rotate_points (if-converted above) with negated angles and the reversed mode
    keep = ns['rotate_points']
    load_module_functions(RP, ns, ['bring_plane_to_origin'])
    ns['rotate_points'] = keep
    cen = [shim.var('c_%d' % k) for k in range(3)]
    for m in REVERSIBLE:
        r = ns['bring_plane_to_origin'](shim.sym('p', (2, 3)), None, center=list(cen), angles=list(ang), mode=m)
        assert r.shape == (2, 3), r.shape
        for i in range(2):
            for k in range(3):
                g.add('n_bpo_%s_%d_%d' % (m, i, k), P2 + A3 + ['c_0', 'c_1', 'c_2'], r[i, k])
    # ------------------------------------------------------------------ PyTorch API
    ns2 = shim.base_namespace({'all': sym_all, 'any': sym_any})
    load_module_functions(TP, ns2, ['rotmatx', 'rotmaty', 'rotmatz', 'get_rotation_matrix', 'rotate_points', 'tilt_towards'])
    for ax in 'xyz':
        _mat(g, 't_rotmat' + ax, A1, ns2['rotmat' + ax](shim.sym('a', (1,)).reshape(1) if False else shim.wrap([shim.var('a')])))
    for m in MODES:
        _mat(g, 't_grm_' + m, A3, ns2['get_rotation_matrix'](shim.sym('a', (3,)).reshape(3, 1), tilt_order=m))
        r, rx, ry, rz = ns2['rotate_points'](shim.sym('p', (2, 3)), angles=shim.sym('a', (3,)), mode=m,
                                             origin=shim.sym('o', (3,)), offset=shim.sym('f', (3,)))
        assert r.shape == (2, 3), r.shape
        for i in range(2):
            for k in range(3):
                g.add('t_rps_%s_%d_%d' % (m, i, k), P2 + A3 + O3 + F3, r[i, k])
        if m == 'XYZ':
            _mat(g, 't_rps_rotx', A3, rx); _mat(g, 't_rps_roty', A3, ry); _mat(g, 't_rps_rotz', A3, rz)
    t = ns2['tilt_towards'](list(loc), list(look))
    assert len(t) == 3
    for k in range(3):
        g.add('t_tilt_%d' % k, L3 + K3, t[k])
    # ------------------------------------------------------------------ callers that forward to rotate_point(s)
    # which of their arguments goes to `origin`, which to `offset` is part of what is traced.  Every caller is
    # traced twice: with symbolic tilt and centre, and untilted at the origin (literal zeros), so that the tie can
    # state  caller(size, centre, tilt) = R(tilt) * caller(size, 0, 0) + centre  without knowing how the flat
    # samples are laid out.
    S2 = ['s_0', 's_1']; S3 = ['s_0', 's_1', 's_2']; C3 = ['c_0', 'c_1', 'c_2']
    size2 = [shim.var(n) for n in S2]; size3 = [shim.var(n) for n in S3]
    zero3 = [0., 0., 0.]
    ns['np'].__dict__.setdefault('mgrid', _np.mgrid)            # index grids are concrete integers
    load_module_functions('odak/tools/sample.py', ns, ['grid_sample', 'box_volume_sample'])
    ns['rotate_points'] = keep
    r = ns['grid_sample'](no=[2, 2], size=list(size2), center=list(cen), angles=list(ang))
    r0 = ns['grid_sample'](no=[2, 2], size=list(size2), center=list(zero3), angles=list(zero3))
    assert r.shape == (4, 3) and r0.shape == (4, 3), (r.shape, r0.shape)
    for i in range(4):
        for k in range(3):
            g.add('n_grid_%d_%d' % (i, k), S2 + C3 + A3, r[i, k]); g.add('n_grid0_%d_%d' % (i, k), S2, r0[i, k])
    r = ns['box_volume_sample'](no=[2, 1, 2], size=list(size3), center=list(cen), angles=list(ang))
    r0 = ns['box_volume_sample'](no=[2, 1, 2], size=list(size3), center=list(zero3), angles=list(zero3))
    assert r.shape == (4, 3) and r0.shape == (4, 3), (r.shape, r0.shape)
    for i in range(4):
        for k in range(3):
            g.add('n_box_%d_%d' % (i, k), S3 + C3 + A3, r[i, k]); g.add('n_box0_%d_%d' % (i, k), S3, r0[i, k])
    Q3 = ['q_0', 'q_1', 'q_2']
    r = ns['define_plane'](shim.sym('q', (3,)), angles=list(ang))
    r0 = ns['define_plane'](shim.wrap(list(zero3)), angles=list(zero3))
    assert r.shape == (3, 3) and r0.shape == (3, 3)
    for i in range(3):
        for k in range(3):
            g.add('n_plane_%d_%d' % (i, k), Q3 + A3, r[i, k]); g.add('n_plane0_%d_%d' % (i, k), [], r0[i, k])
    load_module_functions('odak/learn/tools/sample.py', ns2, ['grid_sample'])
    r, rx, ry, rz = ns2['grid_sample'](no=[2, 2], size=list(size2), center=list(cen), angles=list(ang))
    r0 = ns2['grid_sample'](no=[2, 2], size=list(size2), center=list(zero3), angles=list(zero3))[0]
    assert r.shape == (4, 3) and r0.shape == (4, 3), (r.shape, r0.shape)
    for i in range(4):
        for k in range(3):
            g.add('t_grid_%d_%d' % (i, k), S2 + C3 + A3, r[i, k]); g.add('t_grid0_%d_%d' % (i, k), S2, r0[i, k])
    _mat(g, 't_grid_rotx', A3, rx); _mat(g, 't_grid_roty', A3, ry); _mat(g, 't_grid_rotz', A3, rz)
    keep_t = ns2['rotate_points']
    load_module_functions('odak/learn/raytracing/primitives.py', ns2, ['define_plane'])
    ns2['rotate_points'] = keep_t
    r = ns2['define_plane'](shim.sym('q', (3,)), angles=shim.sym('a', (3,)))
    r0 = ns2['define_plane'](shim.wrap(list(zero3)), angles=shim.wrap(list(zero3)))
    assert r.shape == (3, 3) and r0.shape == (3, 3)
    for i in range(3):
        for k in range(3):
            g.add('t_plane_%d_%d' % (i, k), Q3 + A3, r[i, k]); g.add('t_plane0_%d_%d' % (i, k), [], r0[i, k])
    g.info = info
    return g
