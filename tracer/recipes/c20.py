"""Committed classification tables for the C20 AST -> mutation-IR translator (tracer/mutir.py).

Every library function / method name that odak calls is classified here.  A name that is in no
table is reported as `unclassified` in the evidence and treated conservatively (its result may be
any part of its arguments).  The tables are part of the trusted base of C20.
"""

# ------------------------------------------------------------------ module aliases
PREFIXES = [('np.', 'numpy.'), ('F.', 'torch.nn.functional.'), ('nn.', 'torch.nn.'), ('plt.', 'matplotlib.pyplot.')]


def normalise(d):
    for a, b in PREFIXES:
        if d.startswith(a):
            return b + d[len(a):]
    return d


# ------------------------------------------------------------------ attributes
SCALAR_ATTRS = {'shape', 'dtype', 'device', 'ndim', 'size', 'itemsize', 'nbytes', 'is_cuda', 'requires_grad', 'is_leaf', 'name',
                '__name__', '__class__', 'pi', 'e', 'inf', 'nan', 'newaxis', 'float32', 'float64', 'complex64', 'complex128',
                'int32', 'int64', 'uint8', 'uint16', 'bool', 'stem', 'suffix', 'returncode', 'st_size'}
VIEW_ATTRS = {'T', 'real', 'imag', 'mT', 'H', 'mH', 'data', 'flat', 'grad'}

# ------------------------------------------------------------------ builtins
BUILTIN_SCALAR = {'len', 'int', 'float', 'str', 'bool', 'complex', 'abs', 'round', 'pow', 'range', 'print', 'isinstance', 'issubclass',
                  'type', 'hasattr', 'callable', 'id', 'hash', 'repr', 'format', 'ord', 'chr', 'divmod', 'quit', 'exit', 'input',
                  'Exception', 'ValueError', 'TypeError', 'RuntimeError', 'NotImplementedError', 'KeyError', 'IndexError',
                  'AssertionError', 'ImportError', 'FileNotFoundError', 'exec', 'eval', 'bytes', 'bytearray', 'slice', 'super',
                  'any', 'all', 'open', 'object'}
BUILTIN_CONTAINER = {'list', 'tuple', 'dict', 'set', 'frozenset', 'sorted', 'reversed', 'zip', 'enumerate', 'map', 'filter', 'iter',
                     'OrderedDict'}
BUILTIN_ALIAS = {'min', 'max', 'sum'}            # may return one of their arguments / items
BUILTIN_LOAD = {'getattr', 'next', 'vars'}
BUILTIN_FRESH = set()

# ------------------------------------------------------------------ library functions
# the result may be the argument itself or a view sharing its memory
LIB_ALIAS = {
    # dtype constructors return their argument itself when it already has that dtype (NumPy 2.x: np.float32(a) is a)
    'numpy.float64', 'numpy.float32', 'numpy.float16', 'numpy.int64', 'numpy.int32', 'numpy.int16', 'numpy.int8', 'numpy.uint8', 'numpy.uint16',
    'numpy.uint32', 'numpy.uint64', 'numpy.complex64', 'numpy.complex128', 'numpy.bool_', 'numpy.frombuffer', 'numpy.einsum', 'numpy.histogram',
    'numpy.diff', 'torch.einsum', 'torch.meshgrid', 'torch.cartesian_prod', 'torch.nn.functional.relu', 'torch.nn.functional.leaky_relu',
    'torch.nn.functional.elu', 'torch.nn.functional.relu6', 'torch.nn.functional.silu', 'torch.nn.functional.gelu',
    'numpy.asarray', 'numpy.asanyarray', 'numpy.ascontiguousarray', 'numpy.squeeze', 'numpy.reshape', 'numpy.ravel',
    'numpy.transpose', 'numpy.swapaxes', 'numpy.moveaxis', 'numpy.rollaxis', 'numpy.expand_dims', 'numpy.real', 'numpy.imag',
    'numpy.atleast_1d', 'numpy.atleast_2d', 'numpy.atleast_3d', 'numpy.broadcast_to', 'numpy.fliplr', 'numpy.flipud', 'numpy.flip',
    'numpy.diagonal', 'numpy.asnumpy', 'numpy.rot90',
    'numpy.split', 'numpy.array_split', 'numpy.hsplit', 'numpy.vsplit',
    'torch.as_tensor', 'torch.from_numpy', 'torch.squeeze', 'torch.unsqueeze', 'torch.reshape', 'torch.flatten', 'torch.swapaxes',
    'torch.transpose', 'torch.permute', 'torch.real', 'torch.imag', 'torch.view_as_real', 'torch.view_as_complex', 'torch.unbind',
    'torch.split', 'torch.chunk', 'torch.narrow', 'torch.select', 'torch.conj', 'torch.broadcast_to', 'torch.atleast_1d',
    'torch.atleast_2d', 'torch.atleast_3d', 'torch.movedim', 'torch.moveaxis', 'torch.t', 'torch.diagonal', 'torch.ravel',
    'torch.nn.Parameter', 'torch.autograd.Variable', 'torch.tensor_split',
}
# new container keeping references to its arguments
LIB_CONTAINER = {'torch.nn.ModuleList', 'torch.nn.ParameterList', 'torch.nn.Sequential', 'torch.nn.ModuleDict', 'torch.optim.Adam',
                 'torch.optim.AdamW', 'torch.optim.SGD', 'torch.optim.LBFGS', 'torch.optim.lr_scheduler.StepLR',
                 'torch.optim.lr_scheduler.MultiStepLR', 'itertools.product', 'itertools.chain', 'collections.OrderedDict',
                 'tqdm.tqdm', 'tqdm', 'copy.copy', 'threading.Thread', 'dispy.JobCluster', 'queue.Queue'}
LIB_LOAD = set()
# fresh unless called with `copy=<not True>`, then a view / the argument itself
LIB_FRESH_UNLESS_COPY = {'numpy.array', 'numpy.nan_to_num'}
# np.nan_to_num(x, copy=False) additionally rewrites x in place
LIB_WRITE_UNLESS_COPY = {'numpy.nan_to_num'}
# arguments (by position) written in place
LIB_MUTATE = {'numpy.put': [0], 'numpy.fill_diagonal': [0], 'numpy.copyto': [0], 'numpy.place': [0], 'numpy.putmask': [0],
              'numpy.random.shuffle': [0], 'random.shuffle': [0], 'torch.nn.init.constant_': [0], 'torch.nn.init.normal_': [0],
              'torch.nn.init.uniform_': [0], 'torch.nn.init.xavier_uniform_': [0], 'torch.nn.init.xavier_normal_': [0],
              'torch.nn.init.kaiming_uniform_': [0], 'torch.nn.init.kaiming_normal_': [0], 'torch.nn.init.zeros_': [0],
              'torch.nn.init.ones_': [0], 'torch.nn.utils.clip_grad_norm_': [0]}
LIB_SCALAR = {'math.acos', 'math.asin', 'math.atan', 'math.atan2', 'math.ceil', 'math.floor', 'math.cos', 'math.sin', 'math.tan',
              'math.sqrt', 'math.exp', 'math.log', 'math.log2', 'math.log10', 'math.radians', 'math.degrees', 'math.pow',
              'math.fabs', 'math.isnan', 'math.isinf', 'math.isclose', 'math.hypot', 'math.pi',
              'os.path.basename', 'os.path.dirname', 'os.path.exists', 'os.path.expanduser', 'os.path.isfile', 'os.path.isdir',
              'os.path.realpath', 'os.path.abspath', 'os.path.join', 'os.path.splitext', 'os.makedirs', 'os.stat', 'os.remove',
              'os.listdir', 'os.getcwd', 'os.path.getsize', 'os.path.split', 'os.path.normpath',
              'pathlib.Path', 'shutil.copyfile', 'shutil.copy', 'shutil.rmtree', 'sys.exit', 'time.sleep', 'time.time',
              'logging.basicConfig', 'logging.debug', 'logging.info', 'logging.warning', 'logging.error', 'logging.getLogger',
              'torch.device', 'torch.manual_seed', 'torch.random.seed', 'torch.cuda.empty_cache', 'torch.cuda.is_available',
              'torch.is_tensor', 'torch.is_complex', 'torch.equal', 'torch.allclose', 'torch.is_floating_point', 'torch.get_default_dtype', 'numpy.array_equal', 'numpy.iscomplexobj', 'numpy.isrealobj', 'numpy.issubdtype', 'numpy.result_type', 'numpy.finfo', 'numpy.iinfo', 'torch.finfo', 'torch.iinfo', 'torch.no_grad', 'torch.enable_grad', 'torch.set_grad_enabled',
              'torch.save', 'torch.numel', 'numpy.allclose', 'numpy.isscalar', 'numpy.ndim', 'numpy.shape', 'numpy.size',
              'numpy.save', 'numpy.savetxt', 'numpy.random.seed', 'json.dump', 'json.dumps', 'cv2.imwrite',
              'subprocess.Popen', 'subprocess.run', 'subprocess.call', 'traceback.print_exc', 'struct.pack', 'struct.unpack',
              'socket.socket', 'glob.glob', 'sys.path.append', 'warnings.warn'}
# new arrays / tensors / objects that share nothing with the arguments (checked against the numpy / torch documentation)
LIB_FRESH = {
    'numpy.rint', 'numpy.trunc', 'numpy.fix', 'numpy.fabs', 'numpy.floor_divide', 'numpy.true_divide', 'numpy.reciprocal', 'numpy.negative',
    'numpy.exp2', 'numpy.expm1', 'numpy.log1p', 'numpy.cbrt', 'numpy.sinh', 'numpy.cosh', 'numpy.tanh', 'numpy.arctanh', 'numpy.arccosh',
    'numpy.isclose', 'numpy.equal', 'numpy.not_equal', 'numpy.less', 'numpy.greater', 'numpy.less_equal', 'numpy.greater_equal',
    'numpy.cumprod', 'numpy.nanmax', 'numpy.nanmin', 'numpy.nanmean', 'numpy.nansum', 'numpy.nanstd', 'numpy.percentile', 'numpy.quantile',
    'numpy.average', 'numpy.ptp', 'numpy.searchsorted', 'numpy.digitize', 'numpy.bincount', 'numpy.argwhere', 'numpy.flatnonzero',
    'numpy.select', 'numpy.heaviside', 'numpy.unwrap', 'numpy.vdot', 'numpy.inner', 'numpy.cov', 'numpy.corrcoef', 'numpy.logical_xor',
    'numpy.float_power', 'numpy.remainder', 'numpy.nanargmax', 'numpy.nanargmin', 'numpy.mgrid', 'numpy.ogrid', 'numpy.fft.rfft', 'numpy.fft.irfft',
    'numpy.fft.fftn', 'numpy.fft.ifftn', 'numpy.linalg.eig', 'numpy.linalg.eigh', 'numpy.linalg.svd', 'numpy.linalg.qr', 'numpy.cumulative_sum',
    'torch.trunc', 'torch.frac', 'torch.reciprocal', 'torch.neg', 'torch.negative', 'torch.absolute', 'torch.sinh', 'torch.cosh', 'torch.asinh',
    'torch.acosh', 'torch.atanh', 'torch.expm1', 'torch.log1p', 'torch.logsumexp', 'torch.cumprod', 'torch.nanmean', 'torch.nansum',
    'torch.quantile', 'torch.nanquantile', 'torch.aminmax', 'torch.ne', 'torch.lt', 'torch.gt', 'torch.le', 'torch.ge', 'torch.isclose',
    'torch.logical_xor', 'torch.count_nonzero', 'torch.nonzero', 'torch.argwhere', 'torch.searchsorted', 'torch.bucketize', 'torch.bincount',
    'torch.lerp', 'torch.addcmul', 'torch.addcdiv', 'torch.baddbmm', 'torch.addmm', 'torch.mv', 'torch.inner', 'torch.cdist', 'torch.dist',
    'torch.det', 'torch.inverse', 'torch.pinverse', 'torch.svd', 'torch.clamp_min', 'torch.clamp_max', 'torch.clip', 'torch.heaviside',
    'torch.fft.rfft', 'torch.fft.irfft', 'torch.fft.rfft2', 'torch.fft.irfft2', 'torch.diag', 'torch.diag_embed',
    'torch.tril', 'torch.triu', 'torch.flipud', 'torch.fliplr', 'torch.rot90', 'torch.vstack', 'torch.hstack', 'torch.dstack',
    'torch.column_stack', 'torch.mode', 'torch.kthvalue', 'torch.cummax', 'torch.cummin', 'torch.floor_divide', 'torch.true_divide',
    'torch.linalg.det', 'torch.linalg.svd', 'torch.linalg.eigh', 'torch.linalg.solve', 'torch.linalg.lstsq', 'torch.linalg.vector_norm',
    'torch.linalg.matrix_norm', 'torch.bitwise_and', 'torch.bitwise_or', 'torch.bitwise_not', 'torch.bitwise_xor', 'torch.take_along_dim',
    'torch.nn.functional.softplus', 'torch.nn.functional.tanh', 'torch.nn.functional.log_softmax',
    'torch.nn.functional.cosine_similarity', 'torch.nn.functional.pixel_shuffle', 'torch.nn.functional.conv3d', 'torch.nn.functional.adaptive_avg_pool2d',
    'torch.nn.functional.huber_loss', 'torch.nn.functional.smooth_l1_loss', 'torch.nn.functional.binary_cross_entropy', 'torch.nn.functional.cross_entropy',
    'torch.nn.functional.pad', 'torch.nn.functional.interpolate',
    'torch.nan_to_num', 'torch.clamp', 'numpy.conj', 'numpy.conjugate',
    'numpy.abs', 'numpy.absolute', 'numpy.all', 'numpy.any', 'numpy.amax', 'numpy.amin', 'numpy.angle', 'numpy.arange', 'numpy.arccos',
    'numpy.arcsin', 'numpy.arctan', 'numpy.arctan2', 'numpy.argsort', 'numpy.argmax', 'numpy.argmin', 'numpy.array', 'numpy.copy',
    'numpy.cos', 'numpy.cross', 'numpy.degrees', 'numpy.dot', 'numpy.empty', 'numpy.empty_like', 'numpy.exp', 'numpy.fft.fft',
    'numpy.fft.fft2', 'numpy.fft.fftshift', 'numpy.fft.ifft', 'numpy.fft.ifft2', 'numpy.fft.ifftshift', 'numpy.fft.fftfreq',
    'numpy.gradient', 'numpy.indices', 'numpy.insert', 'numpy.isnan', 'numpy.isinf', 'numpy.isfinite', 'numpy.linalg.inv',
    'numpy.linalg.lstsq', 'numpy.linalg.norm', 'numpy.linalg.pinv', 'numpy.linalg.det', 'numpy.linalg.solve', 'numpy.linspace',
    'numpy.max', 'numpy.min', 'numpy.mean', 'numpy.std', 'numpy.var', 'numpy.median', 'numpy.meshgrid', 'numpy.nonzero',
    'numpy.ones', 'numpy.ones_like', 'numpy.outer', 'numpy.pad', 'numpy.poly1d', 'numpy.polyfit', 'numpy.polyval', 'numpy.radians',
    'numpy.random.choice', 'numpy.random.random', 'numpy.random.uniform', 'numpy.random.rand', 'numpy.random.randn',
    'numpy.random.normal', 'numpy.random.randint', 'numpy.repeat', 'numpy.tile', 'numpy.roll', 'numpy.round', 'numpy.around',
    'numpy.sin', 'numpy.sqrt', 'numpy.square', 'numpy.subtract', 'numpy.add', 'numpy.multiply', 'numpy.divide', 'numpy.power',
    'numpy.sum', 'numpy.prod', 'numpy.cumsum', 'numpy.tan', 'numpy.vstack', 'numpy.hstack', 'numpy.stack', 'numpy.concatenate',
    'numpy.dstack', 'numpy.column_stack', 'numpy.where', 'numpy.zeros', 'numpy.zeros_like', 'numpy.full', 'numpy.full_like',
    'numpy.eye', 'numpy.identity', 'numpy.log', 'numpy.log2', 'numpy.log10', 'numpy.floor', 'numpy.ceil', 'numpy.clip',
    'numpy.sign', 'numpy.mod', 'numpy.fmod', 'numpy.maximum', 'numpy.minimum', 'numpy.matmul', 'numpy.tensordot',
    'numpy.kron', 'numpy.trace', 'numpy.unique', 'numpy.sort', 'numpy.interp', 'numpy.convolve', 
    'numpy.logical_and', 'numpy.logical_or', 'numpy.logical_not', 'numpy.count_nonzero', 'numpy.deg2rad', 'numpy.rad2deg',
    'numpy.arcsinh', 'numpy.sinc', 'numpy.hypot', 'numpy.load', 'numpy.loadtxt', 'numpy.fromfile',
    'numpy.trapz', 'numpy.append', 'numpy.delete', 'numpy.take', 'numpy.triu', 'numpy.tril',
    'torch.abs', 'torch.acos', 'torch.asin', 'torch.atan', 'torch.add', 'torch.all', 'torch.amax', 'torch.amin', 'torch.angle',
    'torch.any', 'torch.arange', 'torch.arccos', 'torch.arcsin', 'torch.argmin', 'torch.argmax', 'torch.atan2', 'torch.bmm',
    'torch.cat', 'torch.complex', 'torch.cos', 'torch.cross', 'torch.deg2rad', 'torch.dot', 'torch.empty', 'torch.empty_like',
    'torch.eq', 'torch.exp', 'torch.eye', 'torch.fft.fft', 'torch.fft.fft2', 'torch.fft.fftshift', 'torch.fft.ifft',
    'torch.fft.ifft2', 'torch.fft.ifftshift', 'torch.fft.fftn', 'torch.fft.ifftn', 'torch.fft.fftfreq', 'torch.flip', 'torch.floor',
    'torch.ceil', 'torch.fmod', 'torch.gather', 'torch.histc', 'torch.isnan', 'torch.isinf', 'torch.isfinite', 'torch.linalg.cross',
    'torch.linalg.norm', 'torch.linalg.inv', 'torch.linalg.pinv', 'torch.linspace', 'torch.load', 'torch.log', 'torch.log10',
    'torch.log2', 'torch.logical_and', 'torch.logical_or', 'torch.logical_not', 'torch.masked_select', 'torch.matmul', 'torch.max',
    'torch.mean', 'torch.median', 'torch.min', 'torch.mm', 'torch.mul', 'torch.div', 'torch.sub', 'torch.norm',
    'torch.ones', 'torch.ones_like', 'torch.pow', 'torch.rad2deg', 'torch.rand', 'torch.rand_like', 'torch.randn', 'torch.randn_like',
    'torch.randint', 'torch.randperm', 'torch.normal', 'torch.roll', 'torch.round', 'torch.sigmoid', 'torch.sin', 'torch.sqrt',
    'torch.rsqrt', 'torch.stack', 'torch.std', 'torch.subtract', 'torch.sum', 'torch.prod', 'torch.cumsum', 'torch.tan', 'torch.tanh',
    'torch.tensor', 'torch.var', 'torch.where', 'torch.zeros', 'torch.zeros_like', 'torch.full', 'torch.full_like', 'torch.sign',
    'torch.sgn', 'torch.exp2', 'torch.polar', 'torch.remainder', 'torch.maximum', 'torch.minimum', 'torch.outer',
    'torch.kron', 'torch.trace', 'torch.unique', 'torch.sort', 'torch.argsort', 'torch.topk', 'torch.softmax', 'torch.relu',
    'torch.erf', 'torch.sinc', 'torch.hypot', 'torch.square', 'torch.clone', 'torch.repeat_interleave', 'torch.tile', 'torch.index_select',
    'torch.nn.functional.conv2d', 'torch.nn.functional.conv1d', 'torch.nn.functional.conv_transpose2d', 'torch.nn.functional.avg_pool2d',
    'torch.nn.functional.max_pool2d', 'torch.nn.functional.softmax', 'torch.nn.functional.unfold', 'torch.nn.functional.fold',
    'torch.nn.functional.mse_loss', 'torch.nn.functional.l1_loss', 'torch.nn.functional.grid_sample', 'torch.nn.functional.sigmoid',
    'torch.nn.functional.normalize', 'torch.nn.functional.one_hot',
    'torch.nn.AvgPool2d', 'torch.nn.BatchNorm1d', 'torch.nn.BatchNorm2d', 'torch.nn.Conv2d', 'torch.nn.Conv1d', 'torch.nn.ConvTranspose2d',
    'torch.nn.Identity', 'torch.nn.L1Loss', 'torch.nn.LeakyReLU', 'torch.nn.Linear', 'torch.nn.MSELoss', 'torch.nn.MaxPool2d',
    'torch.nn.ReLU', 'torch.nn.ReflectionPad2d', 'torch.nn.Threshold', 'torch.nn.Unflatten', 'torch.nn.Upsample', 'torch.nn.Flatten',
    'torch.nn.Sigmoid', 'torch.nn.Tanh', 'torch.nn.GELU', 'torch.nn.Dropout', 'torch.nn.Softmax', 'torch.nn.PixelShuffle',
    'torch.nn.InstanceNorm2d', 'torch.nn.GroupNorm', 'torch.nn.LayerNorm', 'torch.nn.SiLU', 'torch.nn.ZeroPad2d', 'torch.nn.ReplicationPad2d',
    'json.load', 'json.loads', 'cv2.imread', 'cv2.resize', 'cv2.cvtColor', 'PIL.Image.open', 'Image.open', 'PIL.Image.fromarray',
    'copy.deepcopy', 'plyfile.PlyData', 'plyfile.PlyData.read', 'plyfile.PlyElement.describe', 'torchmetrics.functional.multiscale_structural_similarity_index_measure',
    'scipy.interpolate.interp1d', 'scipy.ndimage.zoom', 'finufft.nufft2d1', 'finufft.nufft2d2',
}
LIB_FRESH_PREFIXES = ('plotly.', 'matplotlib.', 'torchmetrics.', 'pycvvdp.', 'pyfvvdp.', 'bpy.', 'mathutils.', 'dispy.', 'socket.',
                      'threading.', 'queue.', 'traceback.', 'plyfile.', 'finufft.', 'scipy.', 'torch.utils.')
LIB_FRESH_KIND = {'json.load': None, 'json.loads': None, 'torch.load': None, 'numpy.meshgrid': 'container',
                  'copy.deepcopy': None, 'numpy.linalg.lstsq': 'container', 'torch.max': None, 'torch.min': None, 'torch.sort': None}

# ------------------------------------------------------------------ methods (receiver of unknown static type; by name)
METH_SCALAR = {'item', 'numel', 'dim', 'size', 'format', 'startswith', 'endswith', 'find', 'lower', 'upper',
               'strip', 'rstrip', 'lstrip', 'replace', 'join', 'encode', 'decode', 'is_cuda', 'isnumeric', 'isdigit', 'nelement',
               'element_size', 'get_device', 'is_floating_point', 'is_complex', 'write', 'close', 'read', 'readline', 'flush',
               'kill', 'wait', 'poll', 'communicate', 'start', 'print_exc', 'show', 'set_description', 'set_postfix', 'zero_grad',
               'backward', 'eval', 'train', 'sendall', 'recv', 'listen', 'bind', 'connect', 'accept', 'shutdown', 'exists', 'mkdir',
               '__len__', 'ndimension', 'any', 'all', 'isidentifier', 'tobytes', 'tostring'}
METH_FRESH = {'clone', 'copy', 'astype', 'tolist', 'repeat', 'max', 'min', 'sum', 'mean', 'std', 'var', 'prod', 'abs', 'sqrt', 'exp',
              'log', 'sin', 'cos', 'pow', 'clamp', 'clip', 'round', 'floor', 'ceil', 'argmax', 'argmin', 'nonzero', 'dot', 'matmul', 'mm',
              'cumsum', 'norm', 'rsqrt', 'flip', 'roll', 'tile', 'repeat_interleave', 'masked_fill', 'index_select',
              'gather', 'argsort', 'unique', 'inverse', 'pinverse', 'splitlines', 'readlines', 'amax', 'amin', 'angle',
              'deepcopy', 'rglob', 'glob', 'new_zeros', 'new_ones', 'new_tensor', 'new_empty', 'new_full', 'sigmoid', 'tanh',
              'softmax', 'relu', 'neg', 'sign', 'square', 'fmod', 'remainder', 'logical_and', 'logical_or', 'logical_not', 'eq', 'ne',
              'lt', 'gt', 'le', 'ge', 'isnan', 'masked_select', 'pad', 'trace', 'det', 'tobytes', 'nan_to_num', 'exp2', 'atan2',
              'acos', 'asin', 'atan', 'tan', 'log2', 'log10', 'lerp', 'cross', 'bmm', 'outer', 'fill_diagonal'}
METH_FRESH_KIND = {'tolist': None, 'copy': None, 'readlines': 'container', 'splitlines': 'container', 'sort': None}
# the result may be the receiver itself or a view of it
METH_ALIAS = {'type_as', 'conj', 'conjugate', 'split', 'byte', 'short', 'char', 'bfloat16',
              'reshape', 'view', 'squeeze', 'unsqueeze', 'permute', 'transpose', 'to', 'detach', 'float', 'double', 'half', 'long',
              'int', 'bool', 'cfloat', 'cdouble', 'contiguous', 'swapaxes', 'ravel', 'flatten', 'expand', 'expand_as', 'numpy', 'cpu',
              'cuda', 'type', 'view_as', 'narrow', 'unbind', 'chunk', 'select', 't', 'movedim', 'moveaxis', 'diagonal', 'reshape_as',
              'broadcast_to', 'unfold', 'as_strided', 'squeeze_', 'requires_grad_', 'real', 'imag', '__iter__', 'resolve_conj',
              'resolve_neg', 'coalesce', 'tensor_split', 'unflatten', 'share_memory_', 'pin_memory'}
METH_ARRAY_ONLY = {'reshape', 'view', 'squeeze', 'unsqueeze', 'permute', 'transpose', 'detach', 'float', 'double', 'contiguous',
                   'swapaxes', 'ravel', 'flatten', 'expand', 'expand_as', 'numpy', 'cpu', 'cuda', 'view_as', 'narrow', 'to'}
# the result is a part of the receiver
METH_LOAD = {'get', 'items', 'keys', 'values', 'pop', 'popitem', 'setdefault', 'parameters', 'named_parameters', 'state_dict', 'children',
             'modules', 'named_children', 'named_modules', 'buffers', '__getitem__', 'get_nowait'}
METH_LOAD_MUT = {'pop', 'popitem'}
# container updates that keep references to the arguments
METH_STORE = {'append', 'extend', 'insert', 'update', 'add', 'add_module', 'register_buffer', 'register_parameter', 'put',
              'put_nowait', 'add_param_group', '__setitem__', 'appendleft', 'load_state_dict'}
# the receiver's content is rewritten
METH_MUT = {'fill', 'itemset', 'sort_', 'reverse', 'clear', 'remove', 'resize', 'setflags', 'byteswap', 'partition', 'setfield',
            'fill_', 'zero_', 'copy_', 'set_', 'resize_', 'requires_grad_', 'sort'}
METH_NOT_INPLACE = {'__init__', '__call__', '__enter__', '__exit__'}
# what the receiver refers to is rewritten (an optimiser updates the tensors registered with it)
METH_DEEP_MUT = {'step'}

# attributes that hold torch.nn.Module objects / loss callables (set in the __init__ of odak classes): calling them
# returns newly computed tensors or (Identity, empty Sequential) the argument itself, not the module's own state.
# ASSUMPTION (listed in the evidence): the call does not write its argument.  That is false for activations built with
# inplace=True (odak's default LeakyReLU(0.2, inplace=True)); in odak these follow a convolution, so they write a fresh
# tensor - this is observed by the recipes of the model components, not proved.
MODULE_CALL_ATTRS = {'activation', 'conv', 'convolution', 'convolution0', 'convolution1', 'final_layer', 'forward', 'global_feature_1',
                     'global_feature_2', 'global_features_1', 'global_features_2', 'inc', 'l1', 'l2', 'l1_loss_fn', 'l2_loss_fn',
                     'l2_loss', 'loss', 'loss_func', 'loss_function', 'lpips', 'maxpool_conv', 'mlp', 'model', 'msssim', 'network',
                     'outc', 'pad_b', 'pad_h0', 'pad_l', 'pad_l0', 'psnr', 'ssim', 'spatial', 'spatial_gate', 'channel_gate',
                     'transformations_1', 'transformations_2', 'up', 'sv_kernel_generation', 'cvvdp', 'fvvdp', 'blur', 'predict',
                     'LearnedPerceptualImagePatchSimilarity', 'propagator', 'light_propagation', 'relu'}

# ------------------------------------------------------------------ parameter kinds the docstrings do not give
# function -> {parameter: (kind, justification)}
PARAM_KIND_OVERRIDES = {
    'odak.learn.perception.metameric_loss_uniform.MetamericLossUniform.calc_statsmaps': {
        'pooling_size': ('scalar', 'undocumented helper; __call__ passes self.pooling_size, documented in __init__ as '
                                   '"pooling_size : int"; `curr_pooling_size /= 2` therefore rebinds a number')},
}

# ------------------------------------------------------------------ functions the checker may reject
# Documented in-place updates: the docstring (quoted; the harness checks on every run that the quote is still
# in the source) says that the argument is updated.  A violation of C20 is only an UNdocumented change.
DOCUMENTED_IN_PLACE = {
    'odak.learn.tools.models.freeze': 'Model to be frozen, in other terms `requires_grad` to be set to `False`.',
    'odak.learn.tools.models.unfreeze': 'Model to unfreeze, in other terms `requires_grad` to be set to `True`.',
}
# Scripts that run inside Blender's own interpreter (`import bpy`, `from libblend import *`): they cannot be imported
# as part of odak, their arguments are Blender scene objects (not arrays / lists / dictionaries of the caller) and
# changing those objects is their purpose (set_rotation, set_location, assign_color, ...).  They are still translated
# and their verdicts are reported in the evidence; a rejection is not an alarm.
OUT_OF_SCOPE_FILES = {
    'odak/visualize/blender/libblend.py': 'Blender-side script: operates on bpy scene objects; not importable outside Blender',
    'odak/visualize/blender/server.py': 'Blender-side script: module-level queue of commands is its documented purpose',
}

# a call that cannot be resolved statically and whose NAME is one of these is treated as writing its arguments
# (harness/props/c20.py checks on every run that every rejected function's name is listed here)
MUTATING_NAMES = {'freeze', 'unfreeze', 'set_rotation', 'set_location', 'reflect_ray', 'clear_material', 'assign_color',
                  'assign_texture', 'create_plane_from_meshes', 'cylinder_between', 'run_in_main_thread', 'run', 'import_ply',
                  'create_plane'}
