"""Tracing recipe for C15: colour-space conversions (odak/learn/perception/color_conversion.py).

Every conversion is executed symbolically on a batch of 2 images of 1 x 2 pixels (shape [2, 3, 1, 2]):
the definition emitted for batch entry b, pixel j, channel c has the twelve input variables as
arguments, so that the tie lemmas can state "the output at (b, c, 0, j) is the per-pixel model
applied to the three channels of pixel (b, 0, j)" -- i.e. the formula AND the per-pixel / per-batch
independence.  The Lab functions are documented for single images [3 x m x n] and are traced at
[3, 1, 2].  The methods of display_color_hvs are traced with a symbolic 3 x 3 cone-response matrix
(`lms_tensor`) and a symbolic pseudo-inverse (contract: see C15/Model.v, Section LMS).
"""
from tracer import shim
from tracer.emit import Gen

FILE = 'odak/learn/perception/color_conversion.py'
NB, NW = 2, 2
XARGS = shim.names('x', (NB, 3, 1, NW))
LARGS = shim.names('x', (3, 1, NW))
TARGS = shim.names('tm', (3, 3))
PARGS = shim.names('tp', (3, 3))

PIXELWISE = [  # (function name, emitted prefix)
    ('rgb_2_ycrcb', 'ycc'), ('ycrcb_2_rgb', 'iycc'),
    ('rgb_to_linear_rgb', 'lin'), ('linear_rgb_to_rgb', 'enc'),
    ('linear_rgb_to_xyz', 'xyz'), ('xyz_to_linear_rgb', 'ixyz'),
    ('rgb_to_hsv', 'hsv'), ('hsv_to_rgb', 'ihsv'),
]


class _Self:
    device = 'cpu'


def trace():
    g = Gen()
    ns = shim.base_namespace()
    shim.load(FILE, [f for f, _ in PIXELWISE] + ['srgb_to_lab', 'lab_to_srgb'], ns)
    x = shim.sym('x', (NB, 3, 1, NW))
    for fn, pre in PIXELWISE:
        y = ns[fn](x.clone())
        assert y.shape == (NB, 3, 1, NW), (fn, y.shape)
        for b in range(NB):
            for c in range(3):
                for j in range(NW):
                    g.add('%s_%d_%d_%d' % (pre, b, c, j), XARGS, y[b, c, 0, j])
    # a single 3-D image is promoted to a batch of one: same entries
    x3 = shim.sym('x_0', (3, 1, NW))
    for fn, pre in PIXELWISE:
        y = ns[fn](x3.clone())
        assert y.shape == (1, 3, 1, NW), (fn, y.shape)
        for c in range(3):
            for j in range(NW):
                g.add('%s3_%d_%d' % (pre, c, j), XARGS, y[0, c, 0, j])
    # Lab (single image, channel first)
    xl = shim.sym('x', (3, 1, NW))
    for fn, pre in (('srgb_to_lab', 'lab'), ('lab_to_srgb', 'ilab')):
        y = ns[fn](xl.clone())
        assert y.shape == (3, 1, NW), (fn, y.shape)
        for c in range(3):
            for j in range(NW):
                g.add('%s_%d_%d' % (pre, c, j), LARGS, y[c, 0, j])
    # display_color_hvs: methods, symbolic cone-response matrix and pseudo-inverse
    ns2 = shim.base_namespace()
    shim.load(FILE, ['primaries_to_lms', 'lms_to_primaries', 'second_to_third_stage'], ns2, cls='display_color_hvs')
    me = _Self()
    tm = shim.sym('tm', (3, 3))
    me.lms_tensor = tm
    # every spelling of the pseudo-inverse of the cone-response matrix -- x.pinverse(), torch.pinverse(x),
    # torch.linalg.pinv(x), also on a cast / view / copy of it -- is the same uninterpreted 3 x 3 matrix tp;
    # the pseudo-inverse of anything else is refused
    tm_names = [[e.a[0] for e in row] for row in tm.tolist()]
    def pinv_of_lms(x, *a, **k):
        got = [[(e.a[0] if isinstance(e, shim.E) and e.op == 'var' else None) for e in row] for row in shim.wrap(x).tolist()] \
            if getattr(x, 'shape', None) == (3, 3) else None
        if got != tm_names:
            raise shim.TraceError('pseudo-inverse of something other than lms_tensor')
        return shim.sym('tp', (3, 3))
    tm.pinverse = lambda *a, **k: pinv_of_lms(tm)
    tm.pinv = tm.pinverse
    tdict = ns2['torch'].__dict__
    tdict['pinverse'] = pinv_of_lms
    tdict['linalg'].__dict__['pinv'] = pinv_of_lms
    # method spelling on a tensor that is not the tm object itself (view, clone): T.__getattr__ falls back to these
    shim._TORCH_FUNCS['pinverse'] = pinv_of_lms; shim._TORCH_FUNCS['pinv'] = pinv_of_lms
    shim._METHOD_FALLBACK_NAMES.update(['pinverse', 'pinv'])
    x = shim.sym('x', (NB, 3, 1, NW))
    y = ns2['primaries_to_lms'](me, x.clone())
    assert y.shape == (NB, 3, 1, NW)
    z = ns2['lms_to_primaries'](me, x.clone())
    assert z.shape == (NB, 3, 1, NW)
    w = ns2['second_to_third_stage'](me, x.clone())
    assert w.shape == (NB, 3, 1, NW)
    for b in range(NB):
        for c in range(3):
            for j in range(NW):
                g.add('p2l_%d_%d_%d' % (b, c, j), TARGS + XARGS, y[b, c, 0, j])
                g.add('l2p_%d_%d_%d' % (b, c, j), PARGS + XARGS, z[b, c, 0, j])
                g.add('third_%d_%d_%d' % (b, c, j), XARGS, w[b, c, 0, j])
    return g
