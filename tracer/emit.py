"""Emission of traced expressions as a Coq file, and the numeric self-check of the translator."""
import math
from tracer import shim

HEADER = ('(* GENERATED on every run by the tracer from the current /repo sources. Do not edit. *)\n'
          'From Coq Require Import Reals Bool.\nFrom OdakV Require Import Base.RealAux.\nOpen Scope R_scope.\n')


class Gen:
    def __init__(self):
        self.defs = []          # (name, argnames, expr, kind)
        self.by_name = {}

    def add(self, name, args, expr):
        if isinstance(expr, shim.CE):
            self.add(name + '_re', args, expr.re); self.add(name + '_im', args, expr.im); return
        if not isinstance(expr, (shim.E, shim.B)):
            expr = shim.E.lift(expr)
        fv = set(shim.free_vars(expr))
        extra = fv - set(args)
        if extra:
            raise shim.TraceError('definition %s has free variables %s outside its argument list' % (name, sorted(extra)))
        self.defs.append((name, list(args), expr))
        self.by_name[name] = (list(args), expr)

    def text(self):
        out = [HEADER]
        for name, args, e in self.defs:
            ty = 'bool' if isinstance(e, shim.B) else 'R'
            out.append('Definition %s %s: %s :=\n  %s.\n' % (name, ('(%s : R) ' % ' '.join(args)) if args else '', ty, shim.coq(e)))
        return '\n'.join(out)

    def evalf(self, name, env):
        args, e = self.by_name[name]
        return shim.evalf(e, env)

    def total_size(self):
        return sum(shim.size(e) for _, _, e in self.defs)


def close(a, b, rtol=1e-6, atol=1e-9):
    if isinstance(a, bool) or isinstance(b, bool):
        return bool(a) == bool(b)
    a, b = float(a), float(b)
    if math.isnan(a) or math.isnan(b):
        return math.isnan(a) and math.isnan(b)
    if math.isinf(a) or math.isinf(b):
        return a == b
    return abs(a - b) <= atol + rtol * max(abs(a), abs(b))
