"""Operator-term tracing: whole fields are symbolic terms; fft2 / ifft2 / fftshift / ifftshift /
zero_pad / crop_center are uninterpreted operators, `*` is the pointwise product, scalars scale.
Used to read the *pipeline structure* of odak's propagation functions from the current source and
emit it as a Coq term over the abstract operators of OdakV.Wave.Fields."""
import fractions
from tracer import shim

Fraction = fractions.Fraction


class FT:
    """field term"""
    __array_ufunc__ = None
    __array_priority__ = 10000
    _defers_scalars = True      # E * FT, CE * FT return NotImplemented so that FT.__rmul__ builds the scaled field

    def __init__(s, op, *a, shape=(4, 6)):
        s.op, s.a, s._shape = op, a, tuple(shape)

    # ---- structure queries the traced code makes
    @property
    def shape(s): return s._shape
    @property
    def device(s): return 'cpu'
    @property
    def dtype(s): return 'complex64'
    def to(s, *a, **k): return s
    def detach(s): return s
    def clone(s): return s
    def size(s, d=None): return s._shape if d is None else s._shape[d]
    def __len__(s): return s._shape[0]

    # ---- algebra
    @staticmethod
    def _is_one(o):
        if isinstance(o, shim.E): return o.is_const() and o.cval() == 1
        return isinstance(o, (int, float)) and o == 1

    def _scal(s, c):
        if FT._is_one(c): return s
        if isinstance(c, shim._np.ndarray) and len(c.shape) > 0 and int(shim._np.prod(c.shape)) > 1:
            return FT('fmul', lit(c), s, shape=s._shape)
        if isinstance(c, complex): c = shim.CE(c.real, c.imag)
        if isinstance(c, shim.T): c = shim._scalar(c)
        if not isinstance(c, (shim.E, shim.CE)): c = shim.E.lift(c)
        return FT('fscal', c, s, shape=s._shape)

    def __mul__(s, o):
        if isinstance(o, FT): return FT('fmul', s, o, shape=s._shape)
        return s._scal(o)

    def __rmul__(s, o):
        if isinstance(o, FT): return FT('fmul', o, s, shape=s._shape)
        return s._scal(o)

    def __pow__(s, n):
        raise shim.TraceError('power of a field term')

    def __truediv__(s, o):
        if isinstance(o, FT): raise shim.TraceError('field / field')
        if isinstance(o, complex): o = shim.CE(o.real, o.imag)
        if isinstance(o, shim.T): o = shim._scalar(o)
        return s._scal(1 / o if isinstance(o, (shim.E, shim.CE)) else 1 / shim.E.lift(o))

    def __add__(s, o):
        if isinstance(o, FT): return FT('fadd', s, o, shape=s._shape)
        raise shim.TraceError('field + non-field')
    __radd__ = __add__

    def __sub__(s, o):
        if isinstance(o, FT): return FT('fadd', s, FT('fscal', shim.const(-1), o, shape=o._shape), shape=s._shape)
        raise shim.TraceError('field - non-field')

    def __neg__(s): return FT('fscal', shim.const(-1), s, shape=s._shape)
    def __bool__(s): raise shim.TraceError('truth value of a field term')


_LITS = {}


def lit(arr):
    """an element-level array used as a whole field (e.g. a kernel computed inline)"""
    k = id(arr)
    if k not in _LITS:
        _LITS[k] = FT('lit', arr, shape=tuple(arr.shape))
    return _LITS[k]


def fvar(name, shape=(4, 6)):
    return FT('var', name, shape=shape)


def coq(t):
    """Coq term over the operators of OdakV.Wave.Fields (F Finv S Sinv PAD CROP are section variables)"""
    if isinstance(t, FT):
        if t.op == 'var': return t.a[0]
        if t.op == 'one': return 'fone'
        if t.op == 'lit': return 'LIT'
        if t.op == 'fscal':
            c = t.a[0]
            cs = shim.coq(c) if isinstance(c, shim.CE) else '(RtoC %s)' % shim.coq(c)
            return '(fscal %s %s)' % (cs, coq(t.a[1]))
        if t.op == 'kernel':          # kernel of (type, wavelength, distance): uninterpreted field-valued function
            return '(KER %s %s)' % (shim.coq(t.a[1]), shim.coq(t.a[2]))
        return '(%s %s)' % (t.op, ' '.join(coq(x) for x in t.a))
    raise shim.TraceError('emit: not a field term: %r' % (t,))


def _kw(op, a, k):
    # the contracts of Wave.Fields are those of the DEFAULT axes (fft2/ifft2: last two; shifts: all axes, applied
    # symmetrically); a call with explicit dims / norm / s is a different operator and is not modelled: fail closed
    raise shim.TraceError('%s called with explicit arguments %r %r (not modelled)' % (op, a, k))


class _FFT:
    @staticmethod
    def _f(x):
        if isinstance(x, shim._np.ndarray) and len(x.shape) > 0 and int(shim._np.prod(x.shape)) > 1: return lit(x)
        if not isinstance(x, FT): raise shim.TraceError('fft of a non-field value')
        return x
    fft2 = staticmethod(lambda x, *a, **k: FT('F', _FFT._f(x), shape=tuple(x.shape)) if not a and not k else _kw('fft2', a, k))
    ifft2 = staticmethod(lambda x, *a, **k: FT('Finv', _FFT._f(x), shape=tuple(x.shape)) if not a and not k else _kw('ifft2', a, k))
    fftshift = staticmethod(lambda x, *a, **k: FT('S', _FFT._f(x), shape=tuple(x.shape)) if not a and not k else _kw('fftshift', a, k))
    ifftshift = staticmethod(lambda x, *a, **k: FT('Sinv', _FFT._f(x), shape=tuple(x.shape)) if not a and not k else _kw('ifftshift', a, k))


def namespace(extra=None):
    """shim namespace where torch.fft / np.fft act on field terms; element-level functions still come
    from the real-valued shim (kernel formulas are traced separately, per pixel)."""
    ns = shim.base_namespace()
    t = ns['torch']; n = ns['np']
    t.__dict__['fft'] = _FFT
    n.__dict__['fft'] = _FFT
    ones_t = t.__dict__['ones']
    t.__dict__['ones'] = lambda *a, **k: FT('one', shape=tuple(a[0]) if len(a) == 1 and isinstance(a[0], (tuple, list)) else a)
    ns['zero_pad'] = lambda x, *a, **k: FT('PAD', x, shape=tuple(2 * d for d in x.shape))
    ns['crop_center'] = lambda x, *a, **k: FT('CROP', x, shape=tuple(d // 2 for d in x.shape))
    if extra: ns.update(extra)
    return ns
