"""Symbolic tracing of odak's own function bodies (layer B1 of DESIGN.md: the translator).

The function definitions are cut out of the *current* files under /repo (ast), compiled, and
executed in a namespace where `torch`, `np`/`numpy` and `math` are shims.  Shim tensors are numpy
object arrays (class T) whose entries are expression nodes E (reals), B (booleans) or CE (complex,
a pair of E).  Shapes are concrete (chosen by a recipe), values symbolic, so indexing, slicing,
broadcasting, reshapes and in-place item assignment are done by numpy itself.  Whatever the shim
does not know raises: the translator is fail-closed.

Emitters: Coq term over R (`coq`), numeric evaluation (`evalf`) for the translator self-check.
"""
import ast, fractions, math, os
import numpy as _np

Fraction = fractions.Fraction


class TraceError(Exception):
    pass


# =============================================================== expression nodes (hash-consed)
_TABLE = {}


class E:
    __slots__ = ('op', 'a', '_h')

    def __new__(cls, op, *a):
        key = (op, tuple(x if isinstance(x, (int, str, Fraction)) else id(x) for x in a))
        n = _TABLE.get(key)
        if n is None:
            n = object.__new__(cls)
            n.op, n.a, n._h = op, a, key
            _TABLE[key] = n
        return n

    # ---- construction helpers
    @staticmethod
    def lift(x):
        if isinstance(x, E):
            return x
        if isinstance(x, CE):
            raise TraceError('complex value where a real is expected')
        if isinstance(x, B):
            return E('ite', x, const(1), const(0))
        if isinstance(x, (bool, _np.bool_)):
            return const(int(x))
        if isinstance(x, (int, _np.integer)):
            return const(int(x))
        if isinstance(x, Fraction):
            return const(x)
        if isinstance(x, (float, _np.floating)):
            x = float(x)
            if not math.isfinite(x):
                raise TraceError('non-finite float constant %r' % x)
            return const(Fraction(repr(x)))      # exact rational of the shortest decimal repr
        if isinstance(x, _np.ndarray) and x.shape == ():
            return E.lift(x.item())
        if isinstance(x, _np.ndarray) and x.size == 1:
            return E.lift(x.reshape(-1)[0])
        raise TraceError('cannot lift %r to a real expression' % (type(x),))

    def is_const(s):
        return s.op == 'const'

    def cval(s):
        return s.a[0]

    # ---- arithmetic
    def _bin(s, o, op, rev=False):
        if isinstance(o, _np.ndarray) and o.shape != ():
            return NotImplemented
        if getattr(o, '_defers_scalars', False):        # e.g. a field term of tracer/opshim: its own reflected operator handles scalar (op) field
            return NotImplemented
        if isinstance(o, (CE, complex)):
            return NotImplemented if isinstance(o, CE) else getattr(CE.lift(s), {'+': '__add__', '-': '__sub__', '*': '__mul__', '/': '__truediv__'}[op] if not rev else {'+': '__radd__', '-': '__rsub__', '*': '__rmul__', '/': '__rtruediv__'}[op])(o)
        o = E.lift(o)
        x, y = (o, s) if rev else (s, o)
        return mk(op, x, y)

    def __add__(s, o): return s._bin(o, '+')
    def __radd__(s, o): return s._bin(o, '+', True)
    def __sub__(s, o): return s._bin(o, '-')
    def __rsub__(s, o): return s._bin(o, '-', True)
    def __mul__(s, o): return s._bin(o, '*')
    def __rmul__(s, o): return s._bin(o, '*', True)
    def __truediv__(s, o): return s._bin(o, '/')
    def __rtruediv__(s, o): return s._bin(o, '/', True)
    def __neg__(s): return mk('neg', s)
    def __pos__(s): return s
    def __abs__(s): return mk('abs', s)

    def __pow__(s, o):
        if isinstance(o, E) and o.is_const():
            o = o.cval()
        if isinstance(o, (_np.integer, _np.floating)):
            o = o.item()
        if isinstance(o, float) and o == 0.5 or o == Fraction(1, 2):
            return mk('sqrt', s)
        if isinstance(o, (int, float, Fraction)) and float(o).is_integer() and o >= 0:
            return mk('pow', s, int(o))
        if isinstance(o, (int, float, Fraction)) and float(o).is_integer() and o < 0:
            return mk('/', const(1), mk('pow', s, int(-o)))
        return mk('rpow', s, E.lift(o))

    def __rpow__(s, o):
        return mk('rpow', E.lift(o), s)

    def __mod__(s, o): return mk('fmod', s, E.lift(o))

    # ---- comparisons
    def __lt__(s, o): return cmp('lt', s, E.lift(o))
    def __gt__(s, o): return cmp('lt', E.lift(o), s)
    def __le__(s, o): return cmp('le', s, E.lift(o))
    def __ge__(s, o): return cmp('le', E.lift(o), s)
    def __eq__(s, o):
        if isinstance(o, (E, int, float, Fraction, _np.integer, _np.floating)):
            return cmp('eq', s, E.lift(o))
        return NotImplemented
    def __ne__(s, o):
        if isinstance(o, (E, int, float, Fraction, _np.integer, _np.floating)):
            return ~cmp('eq', s, E.lift(o))
        return NotImplemented
    __hash__ = object.__hash__

    def __bool__(s):
        if s.is_const():
            return bool(s.cval())
        raise TraceError('data-dependent control flow on a symbolic value')

    def __float__(s):
        if s.is_const():
            return float(s.cval())
        raise TraceError('float() of a symbolic value')

    def __int__(s):
        if s.is_const() and float(s.cval()).is_integer():
            return int(s.cval())
        raise TraceError('int() of a symbolic value')
    __index__ = __int__

    # ---- numpy ufunc protocol on object arrays: np.cos(arr) calls elem.cos()
    def cos(s): return mk('cos', s)
    def sin(s): return mk('sin', s)
    def tan(s): return mk('/', mk('sin', s), mk('cos', s))
    def sqrt(s): return mk('sqrt', s)
    def exp(s): return mk('exp', s)
    def log(s): return mk('ln', s)
    def arccos(s): return mk('acos', s)
    def arcsin(s): return mk('asin', s)
    def arctan(s): return mk('atan', s)
    def arctan2(s, o): return mk('atan2', s, E.lift(o))
    def radians(s): return s * (PI / 180)
    deg2rad = radians
    def degrees(s): return s * (180 / PI)
    rad2deg = degrees
    def floor(s): return mk('floor', s)
    def rint(s): return mk('round', s)
    def conjugate(s): return s
    def item(s): return s
    def tolist(s): return s
    def square(s): return mk('pow', s, 2)
    @property
    def real(s): return s
    @property
    def imag(s): return const(0)

    def __repr__(s):
        return 'E<%s>' % coq(s)[:80]


def const(v):
    if isinstance(v, Fraction) and v.denominator == 1:
        v = int(v.numerator)
    return E('const', v)


def var(name):
    return E('var', name)


PI = E('PI')


def mk(op, *a):
    """Smart constructor: exact constant folding and the unit laws x+0, x*1, x*0, x-0, x/1, 0/x."""
    if op in '+-*/' and len(a) == 2:
        x, y = a
        if x.is_const() and y.is_const():
            u, v = Fraction(x.cval()), Fraction(y.cval())
            if op == '+': return const(u + v)
            if op == '-': return const(u - v)
            if op == '*': return const(u * v)
            if op == '/' and v != 0: return const(u / v)
        if op == '+':
            if x.is_const() and x.cval() == 0: return y
            if y.is_const() and y.cval() == 0: return x
        if op == '-':
            if y.is_const() and y.cval() == 0: return x
            if x.is_const() and x.cval() == 0: return mk('neg', y)
        if op == '*':
            if x.is_const() and x.cval() == 0: return x
            if y.is_const() and y.cval() == 0: return y
            if x.is_const() and x.cval() == 1: return y
            if y.is_const() and y.cval() == 1: return x
        if op == '/':
            if y.is_const() and y.cval() == 1: return x
            if x.is_const() and x.cval() == 0 and not (y.is_const() and y.cval() == 0): return x   # 0/y = 0 in R (Coq: also for y = 0)
    if op == 'neg':
        (x,) = a
        if x.is_const(): return const(-Fraction(x.cval()))
        if x.op == 'neg': return x.a[0]
    if op == 'pow':
        x, n = a
        if n == 1: return x
        if n == 0: return const(1)
        if x.is_const(): return const(Fraction(x.cval()) ** n)
    if op == 'abs' and a[0].is_const():
        return const(abs(Fraction(a[0].cval())))
    if op == 'sqrt' and a[0].is_const() and a[0].cval() in (0, 1):
        return a[0]
    if op in ('cos',) and a[0].is_const() and a[0].cval() == 0:
        return const(1)
    if op in ('sin',) and a[0].is_const() and a[0].cval() == 0:
        return const(0)
    if op == 'exp' and a[0].is_const() and a[0].cval() == 0:
        return const(1)
    if op == 'ite':
        c, x, y = a
        if isinstance(c, B) and c.op == 'const':
            return x if c.a[0] else y
        if x is y:
            return x
    return E(op, *a)


class B:
    """boolean expression"""
    __slots__ = ('op', 'a')

    def __init__(s, op, *a): s.op, s.a = op, a

    @staticmethod
    def lift(x):
        if isinstance(x, B): return x
        if isinstance(x, (bool, _np.bool_)): return B('const', bool(x))
        if isinstance(x, E) and x.is_const(): return B('const', bool(x.cval()))
        raise TraceError('cannot lift %r to a boolean expression' % (type(x),))

    def __and__(s, o): return B('and', s, B.lift(o))
    __rand__ = __and__
    def __or__(s, o): return B('or', s, B.lift(o))
    __ror__ = __or__
    def __invert__(s): return B('not', s)
    def __eq__(s, o):
        if isinstance(o, (bool, _np.bool_)): return s if o else ~s
        if isinstance(o, B): return B('beq', s, o)
        return NotImplemented
    __hash__ = object.__hash__
    def __bool__(s):
        if s.op == 'const': return s.a[0]
        raise TraceError('data-dependent control flow on a symbolic condition')
    def logical_and(s, o): return s & o
    def logical_or(s, o): return s | o
    def logical_not(s): return ~s
    def __mul__(s, o): return E.lift(s) * o
    __rmul__ = __mul__


def cmp(op, x, y):
    if x.is_const() and y.is_const():
        u, v = Fraction(x.cval()), Fraction(y.cval())
        return B('const', {'lt': u < v, 'le': u <= v, 'eq': u == v}[op])
    return B(op, x, y)


class CE:
    """complex value: a pair of real expressions"""
    __slots__ = ('re', 'im')

    def __init__(s, re, im): s.re, s.im = E.lift(re), E.lift(im)

    @staticmethod
    def lift(x):
        if isinstance(x, CE): return x
        if isinstance(x, complex): return CE(x.real, x.imag)
        return CE(E.lift(x), const(0))

    def __add__(s, o): o = CE.lift(o); return CE(s.re + o.re, s.im + o.im)
    __radd__ = __add__
    def __sub__(s, o): o = CE.lift(o); return CE(s.re - o.re, s.im - o.im)
    def __rsub__(s, o): o = CE.lift(o); return CE(o.re - s.re, o.im - s.im)
    def __mul__(s, o):
        if isinstance(o, _np.ndarray) and o.shape != (): return NotImplemented
        if getattr(o, '_defers_scalars', False): return NotImplemented
        o = CE.lift(o); return CE(s.re * o.re - s.im * o.im, s.re * o.im + s.im * o.re)
    __rmul__ = __mul__
    def __truediv__(s, o):
        if isinstance(o, _np.ndarray) and o.shape != (): return NotImplemented
        o = CE.lift(o)
        if o.im.is_const() and o.im.cval() == 0:
            return CE(s.re / o.re, s.im / o.re)
        d = o.re * o.re + o.im * o.im
        return CE((s.re * o.re + s.im * o.im) / d, (s.im * o.re - s.re * o.im) / d)
    def __rtruediv__(s, o): return CE.lift(o) / s
    def __neg__(s): return CE(-s.re, -s.im)
    def __abs__(s): return mk('sqrt', s.re * s.re + s.im * s.im)
    def __pow__(s, n):
        if isinstance(n, int) and n >= 0:
            r = CE(1, 0)
            for _ in range(n): r = r * s
            return r
        raise TraceError('complex power')
    def conjugate(s): return CE(s.re, -s.im)
    conj = conjugate
    def exp(s):
        m = mk('exp', s.re)
        return CE(m * mk('cos', s.im), m * mk('sin', s.im))
    @property
    def real(s): return s.re
    @property
    def imag(s): return s.im
    def angle(s): return mk('atan2', s.im, s.re)
    def __bool__(s): raise TraceError('truth value of a complex symbolic value')
    __hash__ = object.__hash__


# =============================================================== emitters
def _q(v):
    if isinstance(v, int):
        return '%d' % v if v >= 0 else '(-%d)' % -v
    v = Fraction(v)
    if v.denominator == 1:
        return _q(int(v.numerator))
    return '(%s / %d)' % (_q(int(v.numerator)), v.denominator)


def coq(e):
    """Coq term over R (bool for B nodes).  Uses the helper names of OdakV.Base.RealAux."""
    if isinstance(e, B):
        if e.op == 'const': return 'true' if e.a[0] else 'false'
        if e.op == 'lt': return '(Rltb %s %s)' % (coq(e.a[0]), coq(e.a[1]))
        if e.op == 'le': return '(Rleb %s %s)' % (coq(e.a[0]), coq(e.a[1]))
        if e.op == 'eq': return '(Reqb %s %s)' % (coq(e.a[0]), coq(e.a[1]))
        if e.op == 'and': return '(andb %s %s)' % (coq(e.a[0]), coq(e.a[1]))
        if e.op == 'or': return '(orb %s %s)' % (coq(e.a[0]), coq(e.a[1]))
        if e.op == 'not': return '(negb %s)' % coq(e.a[0])
        if e.op == 'beq': return '(Bool.eqb %s %s)' % (coq(e.a[0]), coq(e.a[1]))
        raise TraceError('emit: unknown boolean op %s' % e.op)
    if isinstance(e, CE):
        return '(%s, %s)' % (coq(e.re), coq(e.im))
    e = E.lift(e)
    op, a = e.op, e.a
    if op == 'var': return a[0]
    if op == 'PI': return 'PI'
    if op == 'const': return _q(a[0])
    if op in '+-*/': return '(%s %s %s)' % (coq(a[0]), op, coq(a[1]))
    if op == 'neg': return '(- %s)' % coq(a[0])
    if op == 'pow': return '(%s ^ %d)' % (coq(a[0]), a[1])
    if op == 'abs': return '(Rabs %s)' % coq(a[0])
    if op == 'ite': return '(if %s then %s else %s)' % (coq(a[0]), coq(a[1]), coq(a[2]))
    if op in ('sqrt', 'cos', 'sin', 'exp', 'ln', 'atan', 'acos', 'asin'):
        return '(%s %s)' % (op, coq(a[0]))
    if op == 'atan2': return '(atan2 %s %s)' % (coq(a[0]), coq(a[1]))
    if op == 'rpow': return '(Rpower %s %s)' % (coq(a[0]), coq(a[1]))
    if op == 'floor': return '(Rfloor %s)' % coq(a[0])
    if op == 'trunc':                                 # added for C09: float -> int cast, truncation toward zero
        x = coq(a[0]); return '(if Rleb 0 %s then Rfloor %s else (- Rfloor (- %s)))' % (x, x, x)
    if op == 'round': return '(Rround %s)' % coq(a[0])
    if op == 'fmod': return '(Rfmod %s %s)' % (coq(a[0]), coq(a[1]))
    if op == 'min': return '(Rmin %s %s)' % (coq(a[0]), coq(a[1]))
    if op == 'max': return '(Rmax %s %s)' % (coq(a[0]), coq(a[1]))
    if op == 'uf':                                    # uninterpreted function symbol (oracle)
        return '(%s %s)' % (a[0], ' '.join(coq(x) for x in a[1:]))
    raise TraceError('emit: unknown op %s' % op)


def evalf(e, env):
    """Numeric (float64) value of an expression under env: name -> float."""
    memo = {}

    def ev(e):
        if isinstance(e, B):
            o = e.op
            if o == 'const': return e.a[0]
            if o == 'lt': return ev(e.a[0]) < ev(e.a[1])
            if o == 'le': return ev(e.a[0]) <= ev(e.a[1])
            if o == 'eq': return ev(e.a[0]) == ev(e.a[1])
            if o == 'and': return ev(e.a[0]) and ev(e.a[1])
            if o == 'or': return ev(e.a[0]) or ev(e.a[1])
            if o == 'not': return not ev(e.a[0])
            if o == 'beq': return ev(e.a[0]) == ev(e.a[1])
        if isinstance(e, CE):
            return complex(ev(e.re), ev(e.im))
        k = id(e)
        if k in memo: return memo[k]
        op, a = e.op, e.a
        if op == 'var': r = float(env[a[0]])
        elif op == 'PI': r = math.pi
        elif op == 'const': r = float(Fraction(a[0]))
        elif op == '+': r = ev(a[0]) + ev(a[1])
        elif op == '-': r = ev(a[0]) - ev(a[1])
        elif op == '*': r = ev(a[0]) * ev(a[1])
        elif op == '/':
            d = ev(a[1]); n = ev(a[0])
            r = n / d if d != 0 else (math.nan if n == 0 or n != n else math.copysign(math.inf, n) * (math.copysign(1, d)))
        elif op == 'neg': r = -ev(a[0])
        elif op == 'pow': r = ev(a[0]) ** a[1]
        elif op == 'abs': r = abs(ev(a[0]))
        elif op == 'ite': r = ev(a[1]) if ev(a[0]) else ev(a[2])
        elif op == 'sqrt':
            x = ev(a[0]); r = math.sqrt(x) if x >= 0 else math.nan
        elif op in ('cos', 'sin', 'exp', 'atan'): r = getattr(math, op)(ev(a[0]))
        elif op == 'ln':
            x = ev(a[0]); r = math.log(x) if x > 0 else math.nan
        elif op in ('acos', 'asin'):
            x = ev(a[0]); r = getattr(math, op)(x) if -1 <= x <= 1 else math.nan
        elif op == 'atan2': r = math.atan2(ev(a[0]), ev(a[1]))
        elif op == 'rpow': r = ev(a[0]) ** ev(a[1])
        elif op == 'floor': r = float(math.floor(ev(a[0])))
        elif op == 'trunc': r = float(math.trunc(ev(a[0])))
        elif op == 'round': r = float(_np.round(ev(a[0])))
        elif op == 'fmod':
            x, y = ev(a[0]), ev(a[1]); r = x - y * math.floor(x / y)
        elif op == 'min': r = min(ev(a[0]), ev(a[1]))
        elif op == 'max': r = max(ev(a[0]), ev(a[1]))
        elif op == 'uf': r = env[a[0]](*[ev(x) for x in a[1:]])
        else: raise TraceError('evalf: unknown op %s' % op)
        memo[k] = r
        return r
    return ev(e)


def size(e, seen=None):
    """number of distinct nodes"""
    seen = set() if seen is None else seen
    st = [e]
    while st:
        x = st.pop()
        if id(x) in seen or not isinstance(x, (E, B, CE)): continue
        seen.add(id(x))
        st.extend([x.re, x.im] if isinstance(x, CE) else [y for y in x.a if isinstance(y, (E, B, CE))])
    return len(seen)


def free_vars(e):
    out, seen, st = [], set(), [e]
    while st:
        x = st.pop()
        if id(x) in seen or not isinstance(x, (E, B, CE)): continue
        seen.add(id(x))
        if isinstance(x, E) and x.op == 'var': out.append(x.a[0])
        st.extend([x.re, x.im] if isinstance(x, CE) else [y for y in x.a if isinstance(y, (E, B, CE))])
    return sorted(set(out))


# =============================================================== tensors
class T(_np.ndarray):
    """numpy object array with the torch.Tensor / ndarray surface odak uses"""
    __array_priority__ = 100

    def any(s, *a, **k):
        """added for C11/C12: `(x > y).any()` on symbolic conditions is their disjunction (a B node)"""
        vals = list(_np.asarray(s).reshape(-1))
        if a or k or not vals or not all(isinstance(v, (B, bool, _np.bool_)) for v in vals):
            raise TraceError('any() of a non-boolean or reduced-axis symbolic tensor')
        r = B.lift(vals[0])
        for v in vals[1:]: r = r | B.lift(v)
        return r
    def unsqueeze(s, d): return wrap(_np.expand_dims(_np.asarray(s), d))
    def squeeze(s, d=None):
        a = _np.asarray(s)
        if d is None: return wrap(_np.squeeze(a))
        return wrap(_np.squeeze(a, d)) if a.shape[d] == 1 else s
    def to(s, *a, **k): return s
    def type(s, *a, **k): return s
    def float(s): return s
    def double(s): return s
    def cpu(s): return s
    def numpy(s): return s
    def contiguous(s): return s
    def requires_grad_(s, *a): return s
    def view(s, *a, **k):
        if len(a) == 1 and isinstance(a[0], type): return _np.ndarray.view(s, a[0])
        shape = a[0] if len(a) == 1 and isinstance(a[0], (tuple, list)) else a
        return wrap(_np.asarray(s).reshape(shape))
    def reshape(s, *a, **k):
        shape = a[0] if len(a) == 1 and isinstance(a[0], (tuple, list)) else a
        return wrap(_np.asarray(s).reshape(shape))
    def size(s, d=None): return tuple(s.shape) if d is None else s.shape[d]
    def dim(s): return s.ndim
    def numel(s): return int(_np.asarray(s).size)
    def permute(s, *d):
        d = d[0] if len(d) == 1 and isinstance(d[0], (tuple, list)) else d
        return wrap(_np.transpose(_np.asarray(s), d))
    def transpose(s, *d):
        # two integer arguments: torch's x.transpose(d0, d1) swaps two axes.  (numpy's x.transpose(0, 1) on a 2-D array would be the
        # identity permutation; nothing in the library writes that, and a wrong reading shows up in the numeric self-checks / ties)
        if len(d) == 2 and all(isinstance(x, int) for x in d):
            return wrap(_np.swapaxes(_np.asarray(s), d[0], d[1]))
        return wrap(_np.transpose(_np.asarray(s), *d))
    def new_zeros(s, *shape, **k): return _full(tuple(shape[0]) if len(shape) == 1 and not isinstance(shape[0], int) else tuple(shape), const(0))
    def new_ones(s, *shape, **k): return _full(tuple(shape[0]) if len(shape) == 1 and not isinstance(shape[0], int) else tuple(shape), const(1))
    def new_full(s, shape, v, **k): return _full(tuple(shape), _fill_value(v))
    def t(s): return wrap(_np.asarray(s).T) if s.ndim == 2 else s
    def movedim(s, a, b): return wrap(_np.moveaxis(_np.asarray(s), a, b))
    def swapaxes(s, a, b): return wrap(_np.swapaxes(_np.asarray(s), a, b))
    def all(s, axis=None, dim=None, keepdim=False, keepdims=False, **k): return _bool_reduce(s, axis if axis is not None else dim, True, keepdim or keepdims)
    def any(s, axis=None, dim=None, keepdim=False, keepdims=False, **k): return _bool_reduce(s, axis if axis is not None else dim, False, keepdim or keepdims)
    def _inplace(s, r):
        _np.asarray(s)[...] = _np.broadcast_to(_np.asarray(r, dtype=object), s.shape)
        return s
    def mul_(s, o): return s._inplace(s * o)
    def add_(s, o): return s._inplace(s + o)
    def sub_(s, o): return s._inplace(s - o)
    def div_(s, o): return s._inplace(s / o)
    def masked_fill(s, mask, value):
        # x.masked_fill(mask, v) = torch.where(mask, full_like(x, v), x); goes through the recipe's where hook if there is one
        fill = _full(tuple(s.shape), _fill_value(value)) if not isinstance(value, _np.ndarray) else value
        return (WHERE_HOOK[0] or _where)(mask, fill, s)
    def clone(s): return wrap(_np.asarray(s).copy())
    def copy(s, *a, **k): return wrap(_np.asarray(s).copy())
    def detach(s): return s
    def repeat(s, *r):
        r = r[0] if len(r) == 1 and isinstance(r[0], (tuple, list)) else r
        return wrap(_np.tile(_np.asarray(s), r))
    def expand(s, *r): return wrap(_np.broadcast_to(_np.asarray(s), r).copy())
    def flatten(s, start_dim=0, end_dim=-1): return _flatten_fn(s, start_dim, end_dim)      # torch semantics (was: always a full flatten)
    def unflatten(s, dim, sizes): return _Unflatten(dim, sizes)(s)
    def sum(s, axis=None, dim=None, keepdim=False, keepdims=False, **k):
        ax = axis if axis is not None else dim
        return _ret(_np.sum(_np.asarray(s), axis=ax, keepdims=keepdim or keepdims))
    def mean(s, axis=None, dim=None, keepdim=False, **k):
        ax = axis if axis is not None else dim
        a = _np.asarray(s)
        n = a.size if ax is None else (a.shape[ax] if isinstance(ax, int) else int(_np.prod([a.shape[i] for i in ax])))
        return _ret(_np.sum(a, axis=ax, keepdims=keepdim) / n)
    def abs(s): return _ew1(lambda e: abs(_lift(e)), s)
    def conj(s): return _ew1(lambda e: e.conjugate() if isinstance(e, CE) else e, s)
    def angle(s): return _ew1(lambda e: CE.lift(e).angle(), s)
    def item(s):
        a = _np.asarray(s)
        if a.size != 1: raise TraceError('item() of a non-scalar')
        return a.reshape(-1)[0]
    def tolist(s): return _np.asarray(s).tolist()
    def _cmp(s, o, f):
        a, b = _np.broadcast_arrays(_np.asarray(s, dtype=object), _np.asarray(o, dtype=object))
        return wrap(_np.vectorize(f, otypes=[object])(a, b))
    def __lt__(s, o): return s._cmp(o, lambda x, y: _lift(x) < y)
    def __le__(s, o): return s._cmp(o, lambda x, y: _lift(x) <= y)
    def __gt__(s, o): return s._cmp(o, lambda x, y: _lift(x) > y)
    def __ge__(s, o): return s._cmp(o, lambda x, y: _lift(x) >= y)
    def __eq__(s, o): return s._cmp(o, lambda x, y: _lift(x) == y)
    def __ne__(s, o): return s._cmp(o, lambda x, y: _lift(x) != y)
    def __and__(s, o): return s._cmp(o, lambda x, y: B.lift(x) & B.lift(y))
    def __or__(s, o): return s._cmp(o, lambda x, y: B.lift(x) | B.lift(y))
    def __invert__(s): return _ew1(lambda e: ~B.lift(e), s)
    def __pow__(s, o): return _ew1(lambda e: _lift(e) ** o, s)
    def __matmul__(s, o): return wrap(_matmul(s, o))      # torch `@`: batch broadcasting for > 2-D operands (np.dot below that)
    __hash__ = None
    def __getitem__(s, idx):
        if isinstance(idx, _np.ndarray) and idx.dtype == object:
            # added for C11/C12: x[mask] with a symbolic boolean mask of x's own shape gives an opaque
            # selection whose only observable is its emptiness (`sym_len(sel) > 0`), see MaskSel
            if idx.shape == s.shape and _np.asarray(idx).size > 0 and all(isinstance(m, B) for m in _np.asarray(idx).reshape(-1)):
                return MaskSel(list(_np.asarray(idx).reshape(-1)))
            raise TraceError('indexing with a symbolic mask (data-dependent shape)')
        if isinstance(idx, tuple) and any(isinstance(i, _np.ndarray) and i.dtype == object for i in idx):
            raise TraceError('indexing with a symbolic mask (data-dependent shape)')
        r = _np.ndarray.__getitem__(s, idx)
        return r
    def __setitem__(s, idx, v):
        if isinstance(idx, _np.ndarray) and idx.dtype == object:
            # added for C18: x[mask] = scalar with a symbolic boolean mask of x's own shape is the
            # elementwise choice  x_i := if mask_i then scalar else x_i  (no data-dependent shape)
            if idx.shape == s.shape and not isinstance(v, _np.ndarray) and not isinstance(v, (B, CE)) \
                    and all(isinstance(m, (B, bool, _np.bool_)) for m in _np.asarray(idx).reshape(-1)):
                val = _lift(v)
                flat_m = _np.asarray(idx).reshape(-1)
                for k, ix in enumerate(_np.ndindex(*s.shape)):
                    old = _np.ndarray.__getitem__(s, ix)
                    _np.ndarray.__setitem__(s, ix, mk('ite', B.lift(flat_m[k]), val, _lift(old)))
                return
            raise TraceError('assignment through a symbolic mask')
        if isinstance(v, _np.ndarray):
            v = _np.asarray(v, dtype=object)
        elif not isinstance(v, (E, B, CE)):
            v = _lift(v)
        _np.ndarray.__setitem__(s, idx, v)
    @property
    def T_(s): return wrap(_np.asarray(s).T)
    @property
    def device(s): return 'cpu'
    @property
    def dtype_(s): return 'float'
    @property
    def real(s): return _ew1(lambda e: e.re if isinstance(e, CE) else e, s)
    @property
    def imag(s): return _ew1(lambda e: e.im if isinstance(e, CE) else const(0), s)
    @property
    def requires_grad(s): return False
    def __bool__(s):
        a = _np.asarray(s)
        if a.size == 1: return bool(a.reshape(-1)[0])
        raise TraceError('truth value of an array')
    # ---- added for C15 (colour conversions): integer casts, clamp, max/min with indices
    def long(s): return _ew1(_trunc, s) if _INT_CAST_TRUNCATES[0] else s
    def int(s): return _ew1(_trunc, s) if _INT_CAST_TRUNCATES[0] else s
    def clamp(s, min=None, max=None, **k): return _clamp(s, min=min, max=max)
    def __getattr__(s, name):
        # x.sqrt(), x.exp(), x.pow(2), ... : tensor methods that torch also offers as functions of the same name
        if name in _METHOD_FALLBACK_NAMES and name in _TORCH_FUNCS:
            fn = _TORCH_FUNCS[name]
            return lambda *a, **k: fn(s, *a, **k)
        raise AttributeError("'T' object has no attribute %r" % name)
    def max(s, dim=None, keepdim=False, **k):
        if dim is None: return _minmax('max')(s)
        return _minmax_idx('max', s, dim, keepdim)
    def min(s, dim=None, keepdim=False, **k):
        if dim is None: return _minmax('min')(s)
        return _minmax_idx('min', s, dim, keepdim)


# ---- added for C09 (amplitude/phase helpers, SLM levels): float -> integer casts truncate toward zero.
# T.int()/T.long() were introduced (C15) as the identity, which is right only for values already known to
# be integers; recipes that need the cast itself trace inside `with int_casts_truncate():`.
_INT_CAST_TRUNCATES = [False]


class int_casts_truncate:
    def __enter__(s): s.old = _INT_CAST_TRUNCATES[0]; _INT_CAST_TRUNCATES[0] = True; return s
    def __exit__(s, *a): _INT_CAST_TRUNCATES[0] = s.old; return False


def _trunc(e):
    e = _lift(e)
    if isinstance(e, CE): raise TraceError('integer cast of a complex value')
    if e.is_const(): return const(math.trunc(Fraction(e.cval())))
    return mk('trunc', e)


def _np_int(x): return int(x)
_np_int._int_dtype = True


def _astype(s, dtype, *a, **k):
    if getattr(dtype, '_int_dtype', False) or dtype is int or dtype in ('int', 'int32', 'int64', 'long'):
        return _ew1(_trunc, s)
    if dtype is float or dtype in ('float', 'float32', 'float64', 'double') or getattr(dtype, '_float_dtype', False):
        return s
    raise TraceError('astype(%r) is not known to the tracing shim' % (dtype,))


class MaskSel:
    """added for C11/C12: the result of x[mask] for a symbolic boolean mask.  Its shape depends on data, so
    nothing can be done with it except asking whether it is empty: `sym_len(sel) > 0` is the
    disjunction of the mask entries (recipes pass `len = shim.sym_len`)."""
    def __init__(s, mask): s.__dict__['mask'] = mask
    def __len__(s): raise TraceError('len() of a symbolic mask selection (use shim.sym_len)')
    def __getattr__(s, k): raise TraceError('symbolic mask selection has no %s (data-dependent shape)' % k)


class _Count:
    def __init__(s, mask): s.mask = mask
    def _any(s):
        r = s.mask[0]
        for m in s.mask[1:]: r = r | m
        return r
    def __gt__(s, o):
        if isinstance(o, int) and o == 0: return s._any()
        raise TraceError('count of a symbolic mask compared with %r' % (o,))
    def __eq__(s, o):
        if isinstance(o, int) and o == 0: return ~s._any()
        raise TraceError('count of a symbolic mask compared with %r' % (o,))
    def __ne__(s, o):
        if isinstance(o, int) and o == 0: return s._any()
        raise TraceError('count of a symbolic mask compared with %r' % (o,))
    __hash__ = None
    def __bool__(s): raise TraceError('data-dependent control flow on a symbolic count')


def sym_len(x):
    return _Count(x.mask) if isinstance(x, MaskSel) else len(x)


WHERE_HOOK = [None]          # a recipe that interprets torch.where specially (NaN guards) registers its function here as well


def _fill_value(v):
    """added for C11/C12: a NaN fill value is the marker variable `NaN` (R has no NaN: definitions that use it
    take it as an explicit argument); infinities stay outside the model"""
    if isinstance(v, float) and v != v: return var('NaN')
    return _lift(v)


def _lift(x):
    return x if isinstance(x, (E, CE, B)) else (CE.lift(x) if isinstance(x, complex) else E.lift(x))


T.astype = _astype                                  # added for C09
T.atan2 = lambda s, o: _atan2(s, o)                 # added for C09 (tensor.atan2(other))


def wrap(a):
    if isinstance(a, T):
        return a
    if isinstance(a, (list, tuple)):
        a = _to_obj(a)
    a = _np.asarray(a)
    if a.dtype != object:
        o = _np.empty(a.shape, dtype=object)
        for idx in _np.ndindex(*a.shape):
            o[idx] = _lift(a[idx].item())
        a = o
    else:
        a = a.copy()
        for idx in _np.ndindex(*a.shape):
            if not isinstance(a[idx], (E, B, CE)):
                a[idx] = _lift(a[idx])
    return _np.ndarray.view(a, T)


def _to_obj(x):
    """nested lists/tuples (possibly holding 0-d/1-elt arrays and E) -> object ndarray"""
    if isinstance(x, _np.ndarray):
        return _np.asarray(x, dtype=object)
    if isinstance(x, (list, tuple)):
        parts = [_to_obj(y) for y in x]
        return _np.stack([_np.asarray(p, dtype=object) for p in parts], axis=0) if parts else _np.zeros((0,), dtype=object)
    o = _np.empty((), dtype=object); o[()] = _lift(x)
    return o


def _ret(r):
    return wrap(r) if isinstance(r, _np.ndarray) else r


def _ew1(f, x):
    if isinstance(x, _np.ndarray):
        return wrap(_np.vectorize(f, otypes=[object])(_np.asarray(x, dtype=object))) if x.size else wrap(x)
    return f(_lift(x))


def _ew2(f, x, y):
    if isinstance(x, _np.ndarray) or isinstance(y, _np.ndarray):
        a, b = _np.broadcast_arrays(_np.asarray(x, dtype=object), _np.asarray(y, dtype=object))
        return wrap(_np.vectorize(f, otypes=[object])(a, b))
    return f(_lift(x), _lift(y))


def sym(name, shape):
    """tensor of fresh real variables name_i_j..."""
    a = _np.empty(shape, dtype=object)
    for idx in _np.ndindex(*shape):
        a[idx] = var(name + ''.join('_%d' % i for i in idx))
    return _np.ndarray.view(a, T)


def csym(name, shape):
    a = _np.empty(shape, dtype=object)
    for idx in _np.ndindex(*shape):
        s = ''.join('_%d' % i for i in idx)
        a[idx] = CE(var(name + 'r' + s), var(name + 'i' + s))
    return _np.ndarray.view(a, T)


def names(name, shape):
    return [name + ''.join('_%d' % i for i in idx) for idx in _np.ndindex(*shape)]


# =============================================================== the torch / numpy / math shims
class _NS:
    def __init__(s, label): s.__dict__['_label'] = label
    def __getattr__(s, k):
        raise TraceError('%s.%s is not known to the tracing shim (fail-closed)' % (s.__dict__['_label'], k))


def _unary(opname):
    def f(x, *a, **k):
        return _ew1(lambda e: getattr(_lift(e), opname)() if hasattr(_lift(e), opname) else _raise('no %s on %r' % (opname, e)), x)
    return f


def _raise(msg):
    raise TraceError(msg)


def _full(shape, v):
    if isinstance(shape, int): shape = (shape,)
    a = _np.empty(tuple(shape), dtype=object)
    a.fill(v)
    return _np.ndarray.view(a, T)


def _shape_args(n):
    if len(n) == 1 and isinstance(n[0], (tuple, list, _np.ndarray)): return tuple(int(x) for x in n[0])
    return tuple(int(x) for x in n)


def _cross(a, b, dim=-1, axis=None, **k):
    if axis is not None: dim = axis
    a = _np.moveaxis(_np.asarray(a, dtype=object), dim, -1); b = _np.moveaxis(_np.asarray(b, dtype=object), dim, -1)
    a, b = _np.broadcast_arrays(a, b)
    r = _np.stack([a[..., 1] * b[..., 2] - a[..., 2] * b[..., 1],
                   a[..., 2] * b[..., 0] - a[..., 0] * b[..., 2],
                   a[..., 0] * b[..., 1] - a[..., 1] * b[..., 0]], axis=-1)
    return wrap(_np.moveaxis(r, -1, dim))


def _where(c, a=None, b=None):
    if a is None: raise TraceError('where() with one argument (data-dependent shape)')
    c0 = _np.asarray(c, dtype=object)
    a0 = _np.asarray(a, dtype=object) if isinstance(a, _np.ndarray) else _to_obj(a)
    b0 = _np.asarray(b, dtype=object) if isinstance(b, _np.ndarray) else _to_obj(b)
    c0, a0, b0 = _np.broadcast_arrays(c0, a0, b0)
    def f(cc, aa, bb):
        cc = B.lift(cc)
        if isinstance(aa, CE) or isinstance(bb, CE):
            aa, bb = CE.lift(aa), CE.lift(bb)
            return CE(mk('ite', cc, aa.re, bb.re), mk('ite', cc, aa.im, bb.im))
        return mk('ite', cc, _lift(aa), _lift(bb))
    r = _np.vectorize(f, otypes=[object])(c0, a0, b0)
    return wrap(r) if r.shape != () else r.item()


def _linspace(a, b, n, **k):
    a, b = _lift(a), _lift(b); n = int(n)
    if n == 1: return wrap([a])
    return wrap([a + (b - a) * Fraction(i, n - 1) for i in range(n)])


def _arange(*a, **k):
    return wrap(_np.arange(*[int(x) if float(x).is_integer() else x for x in a]))


def _meshgrid(*xs, indexing='ij'):
    r = _np.meshgrid(*[_np.asarray(x, dtype=object) for x in xs], indexing=indexing)
    return tuple(wrap(x) for x in r)


def _stack(xs, dim=0, axis=None, **k):
    if axis is not None: dim = axis
    return wrap(_np.stack([_np.asarray(x, dtype=object) if isinstance(x, _np.ndarray) else _to_obj(x) for x in xs], axis=dim))


def _cat(xs, dim=0, axis=None, **k):
    if axis is not None: dim = axis
    return wrap(_np.concatenate([_np.asarray(x, dtype=object) for x in xs], axis=dim))


def _sum(x, axis=None, dim=None, keepdim=False, keepdims=False, **k):
    ax = axis if axis is not None else dim
    return _ret(_np.sum(_np.asarray(x, dtype=object), axis=ax, keepdims=keepdim or keepdims))


def _mean(x, axis=None, dim=None, keepdim=False, **k):
    return wrap(x).mean(axis=axis, dim=dim, keepdim=keepdim)


def _minmax(op):
    def red(x, axis=None, dim=None, **k):
        a = _np.asarray(x, dtype=object)
        if all(isinstance(e, E) and e.is_const() for e in a.reshape(-1)):
            vals = [Fraction(e.cval()) for e in a.reshape(-1)]
            return const(max(vals) if op == 'max' else min(vals))
        ax = axis if axis is not None else dim
        def comb(u, v): return mk(op, _lift(u), _lift(v))
        if ax is None:
            r = None
            for e in a.reshape(-1): r = e if r is None else comb(r, e)
            return r
        return wrap(_np.frompyfunc(comb, 2, 1).reduce(a, axis=ax))
    return red


def _tensor(x, *a, **k):
    if isinstance(x, T): return x.clone()
    return wrap(x)


def _as_tensor(x, *a, **k):
    return x if isinstance(x, T) else wrap(x)


def _atan2(y, x): return _ew2(lambda u, v: mk('atan2', _lift(u), _lift(v)), y, x)


def _exp(x): return _ew1(lambda e: e.exp() if isinstance(e, (E, CE)) else _lift(e).exp(), x)


def _dot(a, b):
    return _ret(_np.dot(_np.asarray(a, dtype=object), _np.asarray(b, dtype=object)))


def _bmm(a, b):
    a = _np.asarray(a, dtype=object); b = _np.asarray(b, dtype=object)
    return wrap(_np.stack([_np.dot(a[i], b[i]) for i in range(a.shape[0])], axis=0))


def _clamp(x, min=None, max=None, **k):
    def f(e):
        e = _lift(e)
        if min is not None: e = mk('max', e, _lift(min))
        if max is not None: e = mk('min', e, _lift(max))
        return e
    return _ew1(f, x)


# ---- added for C15 (colour conversions) -------------------------------------------------------
def _minmax_idx(op, x, dim, keepdim=False):
    """torch `x.max(dim)` / `x.min(dim)`: (values, indices); the index is that of the FIRST extremal
    entry (torch's documented tie rule), expressed as a nest of `if` over strict comparisons with the
    running extremum."""
    a = _np.moveaxis(_np.asarray(x, dtype=object), dim, 0)
    n = a.shape[0]
    val = _np.empty(a.shape[1:], dtype=object); idx = _np.empty(a.shape[1:], dtype=object)
    for p in _np.ndindex(*a.shape[1:]):
        v = _lift(a[(0,) + p]); i = const(0)
        for k in range(1, n):
            e = _lift(a[(k,) + p])
            c = cmp('lt', v, e) if op == 'max' else cmp('lt', e, v)
            i = mk('ite', c, const(k), i)
            v = mk(op, v, e)
        val[p] = v; idx[p] = i
    if keepdim:
        val = _np.expand_dims(val, dim); idx = _np.expand_dims(idx, dim)
    return wrap(val), wrap(idx)


def _gather(x, dim, index, **k):
    """torch.gather with a symbolic index: `if idx = 0 then x[0] else if idx = 1 then x[1] ... else x[n-1]`
    (constant indices select directly)."""
    a = _np.moveaxis(_np.asarray(x, dtype=object), dim, 0)
    ix = _np.moveaxis(_np.asarray(index, dtype=object), dim, 0)
    if a.shape[1:] != ix.shape[1:]:
        raise TraceError('gather: index shape %r does not match input %r outside dim' % (ix.shape, a.shape))
    n = a.shape[0]
    out = _np.empty(ix.shape, dtype=object)
    for p in _np.ndindex(*ix.shape):
        i = _lift(ix[p]); q = p[1:]
        if i.is_const():
            j = int(i.cval())
            if not 0 <= j < n: raise TraceError('gather: constant index %d out of range' % j)
            out[p] = a[(j,) + q]; continue
        r = _lift(a[(n - 1,) + q])
        for j in range(n - 2, -1, -1):
            r = mk('ite', cmp('eq', i, const(j)), _lift(a[(j,) + q]), r)
        out[p] = r
    return wrap(_np.moveaxis(out, 0, dim))


def _matmul(a, b):
    """torch.matmul / np.matmul semantics (batch broadcasting), unlike np.dot for >2-D operands"""
    a = _np.asarray(a, dtype=object); b = _np.asarray(b, dtype=object)
    if a.ndim <= 2 and b.ndim <= 2:
        return _ret(_np.dot(a, b))
    return _ret(_np.matmul(a, b))


def _flatten_fn(x, start_dim=0, end_dim=-1):
    a = _np.asarray(x, dtype=object)
    nd = a.ndim; s = start_dim % nd; e = end_dim % nd
    return wrap(a.reshape(a.shape[:s] + (-1,) + a.shape[e + 1:]))


class _Unflatten:
    def __init__(s, dim, sizes): s.dim, s.sizes = dim, tuple(int(v) for v in sizes)
    def __call__(s, x):
        a = _np.asarray(x, dtype=object); d = s.dim % a.ndim
        return wrap(a.reshape(a.shape[:d] + s.sizes + a.shape[d + 1:]))


_TORCH_FUNCS = {}


class _TORCH_FUNCS_PROXY:
    """writes through to the namespace dict and remembers the callables for T.__getattr__"""
    def __init__(s, d): s.d = d
    def __setitem__(s, k, v):
        s.d[k] = v
        if callable(v): _TORCH_FUNCS.setdefault(k, v)
    def __getitem__(s, k): return s.d[k]
    def __contains__(s, k): return k in s.d
    def get(s, k, default=None): return s.d.get(k, default)
    def setdefault(s, k, v):
        if k not in s.d: s[k] = v
        return s.d[k]
    def update(s, o):
        for k, v in dict(o).items(): s[k] = v
_METHOD_FALLBACK_NAMES = {'cos', 'sin', 'tan', 'sqrt', 'log', 'floor', 'arccos', 'arcsin', 'arctan', 'acos', 'asin', 'atan', 'deg2rad', 'rad2deg', 'square', 'exp',
                          'atan2', 'arctan2', 'pow', 'log2', 'log10', 'ceil', 'sign', 'rsqrt', 'reciprocal', 'neg', 'nan_to_num', 'where', 'maximum', 'minimum', 'matmul', 'norm',
                          'mul', 'multiply', 'add', 'sub', 'subtract', 'div', 'divide', 'true_divide', 'mm', 'lt', 'gt', 'le', 'ge', 'eq', 'ne', 'logical_and', 'logical_or', 'logical_not',
                          'hypot', 'outer', 'prod', 'chunk', 'split', 'roll', 'flip', 'gather', 'unbind', 'cross', 'dot', 'broadcast_to'}


def _w(x):
    """operand of a function-spelled operator: field terms (tracer/opshim) keep their own operators"""
    return x if getattr(x, '_defers_scalars', False) else wrap(x)


def _out(res, k):
    """numpy's out= argument: the result is written into the given array (which is also what is returned)"""
    out = k.get('out')
    if out is None: return res
    if not isinstance(out, _np.ndarray): raise TraceError('out= is not an array')
    out[...] = res
    return out


def _bool_reduce(x, axis, conj, keepdims=False):
    """all / any of an array of symbolic (or concrete) truth values along an axis: the conjunction / disjunction of the entries"""
    a = _np.asarray(x if isinstance(x, _np.ndarray) else wrap(x), dtype=object)
    def fold(v):
        r = None
        for e in v:
            e = e if isinstance(e, B) else B.lift(e)
            r = e if r is None else ((r & e) if conj else (r | e))
        return r if r is not None else B('const', conj)
    if axis is None:
        return fold(a.reshape(-1))
    if isinstance(axis, (tuple, list)): raise TraceError('all/any over several axes')
    moved = _np.moveaxis(a, axis, -1)
    out = _np.empty(moved.shape[:-1], dtype=object)
    for ix in _np.ndindex(*out.shape): out[ix] = fold(moved[ix])
    if keepdims: out = _np.expand_dims(out, axis)
    return wrap(out) if out.shape != () else out[()]


def _obj(x):
    return _np.asarray(x if isinstance(x, _np.ndarray) else wrap(x), dtype=object)


def _structural(d, torch_like):
    """purely structural functions (no arithmetic): reshaping, stacking, axis moves; entries stay the symbolic values they are.
    Added so that clean-ups which merely re-spell the plumbing (np.expand_dims for [None], torch.movedim for permute, hstack for
    concatenate, ...) trace like the code they replace."""
    ax = 'dim' if torch_like else 'axis'
    d.setdefault('all', lambda x, axis=None, dim=None, **k: _bool_reduce(x, axis if axis is not None else dim, True, k.get('keepdim') or k.get('keepdims') or False))
    d.setdefault('any', lambda x, axis=None, dim=None, **k: _bool_reduce(x, axis if axis is not None else dim, False, k.get('keepdim') or k.get('keepdims') or False))
    d.setdefault('expand_dims', lambda x, axis: wrap(_np.expand_dims(_obj(x), axis)))
    d.setdefault('swapaxes', lambda x, a, b: wrap(_np.swapaxes(_obj(x), a, b)))
    d.setdefault('moveaxis', lambda x, a, b: wrap(_np.moveaxis(_obj(x), a, b)))
    d.setdefault('movedim', d['moveaxis'])
    d.setdefault('broadcast_to', lambda x, shape: wrap(_np.broadcast_to(_obj(x), tuple(shape)).copy()))
    d.setdefault('atleast_1d', lambda x: wrap(_np.atleast_1d(_obj(x))))
    d.setdefault('atleast_2d', lambda x: wrap(_np.atleast_2d(_obj(x))))
    d.setdefault('atleast_3d', lambda x: wrap(_np.atleast_3d(_obj(x))))
    d.setdefault('hstack', lambda xs: wrap(_np.hstack([_obj(x) for x in xs])))
    d.setdefault('vstack', lambda xs: wrap(_np.vstack([_obj(x) for x in xs])))
    d.setdefault('column_stack', lambda xs: wrap(_np.column_stack([_obj(x) for x in xs])))
    d.setdefault('concat', d.get('cat') or d.get('concatenate'))
    d.setdefault('ravel', lambda x: wrap(_obj(x).reshape(-1)))
    d.setdefault('full', lambda shape, fill_value, **k: _full(tuple(shape) if not isinstance(shape, int) else (shape,), _fill_value(fill_value)))
    d.setdefault('full_like', lambda x, fill_value, **k: _full(_np.shape(x), _fill_value(fill_value)))
    d.setdefault('empty_like', lambda x, **k: _full(_np.shape(x), const(0)))
    d.setdefault('empty', lambda *shape, **k: _full(tuple(shape[0]) if len(shape) == 1 and not isinstance(shape[0], int) else tuple(shape), const(0)))
    d.setdefault('outer', lambda a, b: wrap(_np.multiply.outer(_obj(a).reshape(-1), _obj(b).reshape(-1))))
    d.setdefault('reciprocal', lambda x: 1 / wrap(x))
    d.setdefault('hypot', lambda a, b: _ew1(lambda e: mk('sqrt', e), wrap(a) * wrap(a) + wrap(b) * wrap(b)))
    d.setdefault('prod', lambda x, axis=None, dim=None, **k: _ret(_np.prod(_obj(x), axis=axis if axis is not None else dim)))
    d.setdefault('split', lambda x, n, **k: [wrap(p) for p in (_np.split(_obj(x), n, axis=k.get(ax, 0)) if not torch_like else
                 _np.split(_obj(x), list(range(n, _obj(x).shape[k.get('dim', 0)], n)), axis=k.get('dim', 0)))])
    d.setdefault('chunk', lambda x, n, dim=0: [wrap(p) for p in _np.array_split(_obj(x), n, axis=dim)])


def make_torch():
    t = _NS('torch')
    d = _TORCH_FUNCS_PROXY(t.__dict__)
    for f in ['cos', 'sin', 'tan', 'sqrt', 'log', 'floor', 'arccos', 'arcsin', 'arctan', 'deg2rad', 'rad2deg', 'square']:
        d[f] = _unary(f)
    d['acos'], d['asin'], d['atan'] = d['arccos'], d['arcsin'], d['arctan']
    d['exp'] = _exp
    d['round'] = _unary('rint')
    d['abs'] = lambda x: _ew1(lambda e: abs(_lift(e)), x)
    d['atan2'] = d['arctan2'] = _atan2
    d['angle'] = lambda x: _ew1(lambda e: CE.lift(e).angle(), x)
    d['conj'] = lambda x: _ew1(lambda e: CE.lift(e).conjugate(), x)
    d['real'] = lambda x: wrap(x).real
    d['imag'] = lambda x: wrap(x).imag
    d['complex'] = lambda re, im: _ew2(lambda u, v: CE(u, v), re, im)
    d['pi'] = PI
    for n in ['float32', 'float64', 'complex64', 'complex128', 'int', 'int32', 'int64', 'bool', 'float', 'double', 'long']:
        d[n] = n
    d['tensor'] = _tensor
    d['as_tensor'] = _as_tensor
    d['from_numpy'] = _as_tensor
    d['Tensor'] = T
    d['is_tensor'] = lambda x: isinstance(x, T)
    d['is_complex'] = lambda x: any(isinstance(e, CE) for e in _np.asarray(x).reshape(-1))
    d['zeros'] = lambda *n, **k: _full(_shape_args(n), const(0))
    d['ones'] = lambda *n, **k: _full(_shape_args(n), const(1))
    d['zeros_like'] = lambda x, **k: const(0) if isinstance(x, (E, CE, int, float)) else _full(x.shape, const(0))
    d['ones_like'] = lambda x, **k: const(1) if isinstance(x, (E, CE, int, float)) else _full(x.shape, const(1))
    def _full_like(x, fill_value=None, **k):                                   # added for C11/C12; `fill_value` by keyword too (functools.partial(torch.full_like, fill_value=nan))
        if fill_value is None: raise TraceError('full_like without a fill value')
        return _full(x.shape, _fill_value(fill_value))
    def _full_(size, fill_value=None, **k):
        if fill_value is None: raise TraceError('full without a fill value')
        return _full(size, _fill_value(fill_value))
    d['full_like'] = _full_like
    d['full'] = _full_
    d['eye'] = lambda n, **k: wrap(_np.eye(n, dtype=int))
    d['stack'] = _stack
    d['cat'] = _cat
    d['mm'] = d['matmul'] = _dot
    d['bmm'] = _bmm
    d['dot'] = _dot
    d['einsum'] = lambda spec, *ops, **k: _ret(_np.einsum(spec, *[_np.asarray(o, dtype=object) for o in ops]))   # added for C11/C12
    d['mul'] = lambda a, b: a * b
    d['add'] = lambda a, b: a + b
    d['subtract'] = d['sub'] = lambda a, b: a - b
    d['div'] = lambda a, b: a / b
    d['sum'] = _sum
    d['mean'] = _mean
    d['amax'] = d['max'] = _minmax('max')
    d['amin'] = d['min'] = _minmax('min')
    d['cross'] = _cross
    la = _NS('torch.linalg'); la.__dict__['cross'] = _cross
    la.__dict__['norm'] = lambda x, dim=None, axis=None, keepdim=False, **k: _ew1(lambda e: mk('sqrt', e), _sum(wrap(x) * wrap(x), axis=dim if dim is not None else axis, keepdim=keepdim))
    d['linalg'] = la
    d['norm'] = la.__dict__['norm']
    d['lt'] = d['less'] = lambda a, b: wrap(a) < b
    d['gt'] = d['greater'] = lambda a, b: wrap(a) > b
    d['le'] = d['less_equal'] = lambda a, b: wrap(a) <= b
    d['ge'] = d['greater_equal'] = lambda a, b: wrap(a) >= b
    d['eq'] = lambda a, b: wrap(a) == b
    d['ne'] = d['not_equal'] = lambda a, b: wrap(a) != b
    d['neg'] = d['negative'] = lambda a: -wrap(a)
    d['true_divide'] = d['divide'] = lambda a, b, **k: _w(a) / _w(b)
    d['multiply'] = lambda a, b, **k: _out(_w(a) * _w(b), k)
    def _vector_norm(x, ord=2, dim=None, keepdim=False, **k):
        if ord not in (2, 2.0): raise TraceError('vector_norm with ord = %r is not supported' % (ord,))
        return la.__dict__['norm'](x, dim=dim, keepdim=keepdim)
    la.__dict__['vector_norm'] = _vector_norm
    d['linspace'] = _linspace
    d['arange'] = _arange
    d['meshgrid'] = _meshgrid
    d['where'] = _where
    d['clamp'] = _clamp
    d['nan_to_num'] = lambda x, **k: x          # identity on finite reals; non-finite values are outside the R model
    d['device'] = lambda *a: 'cpu'
    d['no_grad'] = _NoGrad
    d['squeeze'] = lambda x, d=None: wrap(x).squeeze(d)
    d['unsqueeze'] = lambda x, d: wrap(x).unsqueeze(d)
    d['transpose'] = lambda x, a, b: wrap(_np.swapaxes(_np.asarray(x), a, b))
    d['permute'] = lambda x, dims: wrap(x).permute(*dims)
    d['reshape'] = lambda x, s: wrap(x).reshape(s)
    d['flip'] = lambda x, dims: wrap(_np.flip(_np.asarray(x), axis=tuple(dims)))
    d['roll'] = lambda x, shifts, dims=None: wrap(_np.roll(_np.asarray(x), shifts, axis=dims))
    d['pow'] = lambda x, n: x ** n
    d['logical_and'] = lambda a, b: wrap(a) & wrap(b)
    d['logical_or'] = lambda a, b: wrap(a) | wrap(b)
    d['logical_not'] = lambda a: ~wrap(a)
    d['isnan'] = lambda x: _ew1(lambda e: B('const', False), x)
    d['manual_seed'] = lambda *a: None
    d['remainder'] = lambda a, b: _ew2(lambda u, v: mk('fmod', _lift(u), _lift(v)), a, b)  # added for C09 (same as %)
    d['minimum'] = lambda a, b: _ew2(lambda u, v: mk('min', _lift(u), _lift(v)), a, b)      # added for C09
    d['maximum'] = lambda a, b: _ew2(lambda u, v: mk('max', _lift(u), _lift(v)), a, b)      # added for C09
    # added for C18: log2 x = ln x / ln 2
    d['log2'] = lambda x: _ew1(lambda e: mk('/', mk('ln', _lift(e)), mk('ln', const(2))), x)
    # added for C15
    d['matmul'] = _matmul                       # identical to _dot for operands of at most 2 dimensions
    d['gather'] = _gather
    d['unbind'] = lambda x, dim=0: tuple(wrap(_np.take(_np.asarray(x, dtype=object), i, axis=dim)) for i in range(_np.asarray(x).shape[dim]))
    d['flatten'] = _flatten_fn
    nn = _NS('torch.nn'); nn.__dict__['Unflatten'] = _Unflatten
    d['nn'] = nn
    _structural(d, True)
    return t


class _NoGrad:
    def __enter__(s): return s
    def __exit__(s, *a): return False


def make_numpy():
    """numpy shim: real numpy for structure, object arrays for values."""
    n = _NS('numpy')
    d = n.__dict__
    for f in ['cos', 'sin', 'tan', 'sqrt', 'log', 'floor', 'arccos', 'arcsin', 'arctan', 'radians', 'deg2rad', 'degrees', 'rad2deg', 'square', 'rint']:
        d[f] = _unary(f)
    d['exp'] = _exp
    d['abs'] = d['absolute'] = lambda x: _ew1(lambda e: abs(_lift(e)), x)
    d['arctan2'] = _atan2
    d['angle'] = lambda x: _ew1(lambda e: CE.lift(e).angle(), x)
    d['conj'] = d['conjugate'] = lambda x: _ew1(lambda e: CE.lift(e).conjugate(), x)
    d['real'] = lambda x: wrap(x).real
    d['imag'] = lambda x: wrap(x).imag
    d['pi'] = PI
    for k in ['float32', 'float64', 'complex64', 'complex128']:
        d[k] = (lambda x=None, **kw: x)
    d['float32']._float_dtype = d['float64']._float_dtype = True      # (C09: T.astype(np.float64) is the identity)
    d['int64'] = d['int32'] = _np_int              # (C09: marked as integer dtypes for T.astype)
    d['minimum'] = lambda a, b: _ew2(lambda u, v: mk('min', _lift(u), _lift(v)), a, b)      # added for C09
    d['maximum'] = lambda a, b: _ew2(lambda u, v: mk('max', _lift(u), _lift(v)), a, b)      # added for C09
    d['mod'] = d['remainder'] = lambda a, b: _ew2(lambda u, v: mk('fmod', _lift(u), _lift(v)), a, b)   # added for C09 (same as %)
    d['ndarray'] = _np.ndarray
    d['array'] = lambda x, *a, **k: wrap(_np.array(x, dtype=object).copy() if isinstance(x, _np.ndarray) else x)
    d['asarray'] = lambda x, *a, **k: x if isinstance(x, T) else wrap(x)
    d['copy'] = lambda x: wrap(_np.asarray(x).copy())
    d['zeros'] = lambda s, **k: _full(s, const(0))
    d['ones'] = lambda s, **k: _full(s, const(1))
    d['zeros_like'] = lambda x, **k: _full(_np.shape(x), const(0))
    d['ones_like'] = lambda x, **k: _full(_np.shape(x), const(1))
    d['eye'] = lambda k, **kw: wrap(_np.eye(k, dtype=int))
    d['stack'] = _stack
    d['concatenate'] = _cat
    d['dot'] = _dot
    d['einsum'] = lambda spec, *ops, **k: _ret(_np.einsum(spec, *[_np.asarray(o, dtype=object) for o in ops]))   # added for C11/C12
    d['matmul'] = _dot
    d['cross'] = lambda a, b, axis=-1, **k: _cross(wrap(a), wrap(b), dim=axis)
    d['subtract'] = lambda a, b, **k: _out(_w(a) - _w(b), k)
    d['add'] = lambda a, b, **k: _out(_w(a) + _w(b), k)
    d['multiply'] = lambda a, b, **k: _out(_w(a) * _w(b), k)
    # function spellings of operators (a clean-up may write np.less(a, b) for a < b, np.logical_and(p, q) for p & q, ...)
    d['divide'] = d['true_divide'] = lambda a, b, **k: _out(_w(a) / _w(b), k)
    d['negative'] = lambda a: -wrap(a)
    d['less'] = lambda a, b: wrap(a) < b
    d['greater'] = lambda a, b: wrap(a) > b
    d['less_equal'] = lambda a, b: wrap(a) <= b
    d['greater_equal'] = lambda a, b: wrap(a) >= b
    d['equal'] = lambda a, b: wrap(a) == b
    d['not_equal'] = lambda a, b: wrap(a) != b
    d['logical_and'] = lambda a, b: wrap(a) & wrap(b)
    d['logical_or'] = lambda a, b: wrap(a) | wrap(b)
    d['logical_not'] = lambda a: ~wrap(a)
    d['iscomplexobj'] = lambda x: any(isinstance(e, (CE, complex)) for e in _np.asarray(x, dtype=object).reshape(-1))
    d['isrealobj'] = lambda x: not d['iscomplexobj'](x)
    d['asanyarray'] = d['ascontiguousarray'] = lambda x, *a, **k: x if isinstance(x, T) else wrap(x)
    d['sum'] = _sum
    d['mean'] = _mean
    d['amax'] = d['max'] = _minmax('max')
    d['amin'] = d['min'] = _minmax('min')
    d['linspace'] = _linspace
    d['arange'] = _arange
    d['meshgrid'] = lambda *xs, indexing='xy': _meshgrid(*xs, indexing=indexing)
    d['where'] = _where
    d['clip'] = lambda x, a, b: _clamp(x, a, b)
    d['nan_to_num'] = lambda x, **k: x
    d['reshape'] = lambda x, s: wrap(x).reshape(s)
    d['transpose'] = lambda x, *a: wrap(_np.transpose(_np.asarray(x), *a))
    d['repeat'] = lambda x, r, axis=None: wrap(_np.repeat(_np.asarray(x), r, axis=axis))
    d['tile'] = lambda x, r: wrap(_np.tile(_np.asarray(x), r))
    d['roll'] = lambda x, s, axis=None: wrap(_np.roll(_np.asarray(x), s, axis=axis))
    d['isnan'] = lambda x: _ew1(lambda e: B('const', False), x)
    d['shape'] = _np.shape
    d['newaxis'] = None
    d['power'] = lambda x, p: wrap(x) ** p
    d['linalg'] = _NS('numpy.linalg')
    d['linalg'].__dict__['norm'] = lambda x, axis=None, **k: _ew1(lambda e: mk('sqrt', e), _sum(wrap(x) * wrap(x), axis=axis))
    _structural(d, False)
    return n


def make_math():
    m = _NS('math')
    d = m.__dict__
    for f in ['cos', 'sin', 'tan', 'sqrt', 'exp']:
        d[f] = (lambda ff: (lambda x: getattr(_lift(_scalar(x)), ff)()))(f)
    d['log'] = lambda x: _lift(_scalar(x)).log()
    d['atan2'] = lambda y, x: mk('atan2', _lift(_scalar(y)), _lift(_scalar(x)))
    d['acos'] = lambda x: _lift(_scalar(x)).arccos()
    d['asin'] = lambda x: _lift(_scalar(x)).arcsin()
    d['atan'] = lambda x: _lift(_scalar(x)).arctan()
    d['radians'] = lambda x: _lift(_scalar(x)).radians()
    d['degrees'] = lambda x: _lift(_scalar(x)).degrees()
    d['pi'] = PI
    d['floor'] = math.floor
    def _prod(xs, start=1):
        r = start
        for x in xs: r = r * x
        return r
    d['prod'] = _prod
    d['hypot'] = lambda a, b: mk('sqrt', _lift(_scalar(a)) * _lift(_scalar(a)) + _lift(_scalar(b)) * _lift(_scalar(b)))
    d['isnan'] = lambda x: False if isinstance(x, (E, CE)) else math.isnan(x)
    d['ceil'] = math.ceil
    return m


def _scalar(x):
    if isinstance(x, _np.ndarray):
        x = _np.asarray(x)                      # class T overrides .size with torch's method
        if x.size != 1: raise TraceError('math function on a non-scalar')
        return x.reshape(-1)[0]
    return x


# =============================================================== loading function bodies from /repo
REPO = os.environ.get('ODAK_REPO', '/repo')


def base_namespace(extra=None):
    ns = {'torch': make_torch(), 'np': make_numpy(), 'numpy': None, 'math': make_math(),
          'len': len, 'range': range, 'int': _int, 'float': _float, 'abs': abs, 'type': type, 'isinstance': _isinstance,
          'list': list, 'tuple': tuple, 'print': lambda *a, **k: None, 'enumerate': enumerate, 'zip': zip,
          'max': max, 'min': min, 'sum': sum, 'str': str, 'bool': bool, 'Exception': Exception, 'ValueError': ValueError,
          'complex': complex, 'None': None, 'True': True, 'False': False, 'tqdm': lambda x, **k: x}
    ns['numpy'] = ns['np']
    if extra: ns.update(extra)
    return ns


def _int(x):
    if isinstance(x, (E, T)): return int(_scalar(x))
    return int(x)


def _float(x):
    if isinstance(x, E): return x            # float(symbol) keeps the symbol (python float() only changes representation)
    if isinstance(x, T): return _scalar(x)
    return float(x)


def _isinstance(x, t):
    return isinstance(x, t)


class _Expose(ast.NodeTransformer):
    """before every `return` of the function, record the named locals in __exposed__"""
    def __init__(s, fname, locs): s.fname, s.locs = fname, locs
    def visit_Return(s, node):
        stmts = []
        for l in s.locs:
            stmts.append(ast.parse("__exposed__[%r] = %s" % (s.fname + '.' + l, l)).body[0])
        return stmts + [node]
    def visit_FunctionDef(s, node):
        if node.name != s.fname: return node       # do not descend into nested defs of other names
        s.generic_visit(node); return node


_STDLIB_OK = {'itertools', 'operator', 'functools', 'collections'}


def binder(relpath, fname, cls=None):
    """a function (*args, **kwargs) -> {parameter name: value} following the signature the real `fname` of /repo/<relpath> has
    today, so that a stub standing in for it records its arguments by NAME whether the caller passes them by position or keyword"""
    tree = ast.parse(open(os.path.join(REPO, relpath)).read())
    body = tree.body if cls is None else [n for n in tree.body if isinstance(n, ast.ClassDef) and n.name == cls][0].body
    fn = [n for n in body if isinstance(n, ast.FunctionDef) and n.name == fname]
    if not fn: raise TraceError('%s: function %s not found' % (relpath, fname))
    names = [a.arg for a in fn[0].args.posonlyargs + fn[0].args.args]
    def bind(*a, **kw):
        if len(a) > len(names): raise TraceError('%s called with %d positional arguments (it takes %d)' % (fname, len(a), len(names)))
        d = dict(zip(names, a))
        dup = set(d) & set(kw)
        if dup: raise TraceError('%s: argument(s) %s given twice' % (fname, sorted(dup)))
        d.update(kw)
        return d
    return bind


def _bind_package_imports(tree, path, ns, depth=0):
    """`from .util import _helper` / `from ..perception.util import _plane_stack`: names a file imports from a sibling module of
    the package and the namespace lacks are bound from that module's source (functions, classes, constants), one level deep"""
    if depth > 1: return
    for n in tree.body:
        if not isinstance(n, ast.ImportFrom) or any(a.name == '*' for a in n.names): continue
        if n.level:
            base = os.path.dirname(path)
            for _ in range(n.level - 1): base = os.path.dirname(base)
            target = os.path.join(base, *(n.module.split('.') if n.module else []))
        elif (n.module or '').split('.')[0] == 'odak':
            target = os.path.join(REPO, *n.module.split('.'))
        else:
            continue
        cand = target + '.py' if os.path.isfile(target + '.py') else os.path.join(target, '__init__.py')
        if not os.path.isfile(cand): continue
        want = {a.name: (a.asname or a.name) for a in n.names if (a.asname or a.name) not in ns}
        if not want: continue
        try:
            sub = ast.parse(open(cand).read())
        except Exception:
            continue
        tmp = dict(ns)
        _bind_stdlib_imports(sub, cand, tmp, _packages=False)
        _bind_package_imports(sub, cand, tmp, depth + 1)
        _bind_module_level(sub, cand, tmp)
        for real, alias in want.items():
            if real in tmp and alias not in ns: ns[alias] = tmp[real]


def _bind_stdlib_imports(tree, path, ns, _packages=True):
    """plain standard-library helpers the file imports at module level (itertools.product for nested loops, operator.lt in a
    table, ...) are bound in the tracing namespace unless the name is bound already"""
    for n in tree.body:
        if isinstance(n, (ast.Import, ast.ImportFrom)):
            root = (n.module or '') if isinstance(n, ast.ImportFrom) else ''
            mods = [root] if isinstance(n, ast.ImportFrom) else [a.name for a in n.names]
            if all(m.split('.')[0] in _STDLIB_OK for m in mods) and not (isinstance(n, ast.ImportFrom) and n.level):
                bound = [(a.asname or a.name.split('.')[0]) for a in n.names]
                if any(b not in ns for b in bound):
                    mod = ast.Module([n], []); ast.fix_missing_locations(mod)
                    tmp = {}
                    try:
                        exec(compile(mod, path, 'exec'), tmp)
                        for b in bound:
                            if b in tmp: ns.setdefault(b, tmp[b])
                    except Exception:
                        pass
    if _packages:
        _bind_package_imports(tree, path, ns)


def _bind_module_level(tree, path, ns, reserved=()):
    """bind what else the file defines at module level and the namespace lacks: private helper functions, private classes and
    namedtuples, constants (tables, slice objects, functools.partial objects).  Definitions are tried in source order until no
    further one succeeds (they may depend on each other); one that cannot be evaluated under the shim stays unbound and raises
    NameError if it is ever needed (fail-closed).  Names the recipe or the shim already bound, and `reserved`, are left alone."""
    def names_of(n):
        if isinstance(n, (ast.FunctionDef, ast.ClassDef)): return [n.name]
        if isinstance(n, ast.Assign):
            out = []
            for t in n.targets:
                if isinstance(t, ast.Name): out.append(t.id)
                elif isinstance(t, (ast.Tuple, ast.List)) and all(isinstance(e, ast.Name) for e in t.elts): out += [e.id for e in t.elts]
                else: return None
            return out
        if isinstance(n, ast.AnnAssign) and isinstance(n.target, ast.Name) and n.value is not None: return [n.target.id]
        return None
    pending = []
    for n in tree.body:
        nm = names_of(n)
        if nm and not any(x in ns or x in reserved or x.startswith('__') for x in nm):
            pending.append(n)
    for _ in range(4):
        rest = []
        for n in pending:
            if isinstance(n, (ast.FunctionDef, ast.ClassDef)): n.decorator_list = [d for d in n.decorator_list if isinstance(n, ast.ClassDef)]
            mod = ast.Module([n], []); ast.fix_missing_locations(mod)
            try:
                exec(compile(mod, path, 'exec'), ns)
            except Exception:
                rest.append(n)
        if len(rest) == len(pending): break
        pending = rest
    return pending


def load(relpath, names_, ns, cls=None, expose=None):
    """exec the named top-level function definitions of /repo/<relpath> inside ns (defaults that
    call into torch/np at definition time are evaluated under the shim as well)."""
    path = os.path.join(REPO, relpath)
    src = open(path).read()
    tree = ast.parse(src)
    body = tree.body
    if cls is not None:
        body = [n for n in tree.body if isinstance(n, ast.ClassDef) and n.name == cls][0].body
    _bind_stdlib_imports(tree, path, ns)
    # module-level helpers, private classes and constants first: a requested function may use one in a default argument
    _bind_module_level(ast.parse(src), path, ns, reserved=set(names_) | ({cls} if cls else set()))
    found = set()
    for n in body:
        if isinstance(n, ast.FunctionDef) and n.name in names_:
            n.decorator_list = []
            if expose and n.name in expose:
                ns.setdefault('__exposed__', {})
                n = _Expose(n.name, expose[n.name]).visit(n)
            mod = ast.Module([n], [])
            ast.fix_missing_locations(mod)
            exec(compile(mod, path, 'exec'), ns)
            found.add(n.name)
    missing = set(names_) - found
    if missing:
        raise TraceError('%s: function(s) %s not found' % (relpath, sorted(missing)))
    # and once more for what needed the requested functions themselves (e.g. a functools.partial of one of them)
    _bind_module_level(ast.parse(src), path, ns, reserved=set(names_) | ({cls} if cls else set()))
    return ns


def load_all(relpath, ns, skip=()):
    """define EVERY top-level function (and private class / constant) of /repo/<relpath> inside ns (definitions only; nothing is
    run), so that private helpers a refactoring introduces resolve when the traced functions call them.  A definition that
    cannot be evaluated under the shim is skipped (it raises if it is ever needed: fail-closed)."""
    path = os.path.join(REPO, relpath)
    src = open(path).read()
    tree = ast.parse(src)
    _bind_stdlib_imports(tree, path, ns)
    before = set(ns)
    _bind_module_level(tree, path, ns, reserved=set(skip))
    done = [n.name for n in ast.parse(src).body if isinstance(n, ast.FunctionDef) and n.name in ns and n.name not in skip]
    # functions the namespace already had under the same name are redefined from the file, as before
    for n in ast.parse(src).body:
        if isinstance(n, ast.FunctionDef) and n.name not in skip and n.name in before:
            n.decorator_list = []
            mod = ast.Module([n], []); ast.fix_missing_locations(mod)
            try:
                exec(compile(mod, path, 'exec'), ns)
            except Exception:
                pass
    return done
