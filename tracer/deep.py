"""C05: from traced expression DAGs (tracer.shim.E) to the deep embedding `OdakV.C05.Model.expr`, and back
from the terms Coq prints (`report n e` evaluated by vm_compute) to numbers.

  to_prog(e, index)     a straight-line program (list of Coq `expr` terms; shared sub-DAGs become program variables)
  parse(text)           the value Coq printed (lists, pairs, constructor applications, Q literals) as nested tuples
  evalv(tree, env)      numeric value, vectorised over sample points (env: list of numpy arrays, one per variable)
  margin(cond, env)     how far a side condition is from failing (<= 0: fails), vectorised

Booleans are compiled away: `ite (c) x y` with a single comparison becomes `Ite a b x y` (= if a < b then x
else y); compound conditions (== and or not) become a 0/1 indicator expression tested against 1/2; exact over
the reals, also at equality.  min / max / abs / fmod /
trunc / round are expanded into Ite and Floor.  The translation is validated on every run by the numeric
self-check (the emitted term, parsed back and evaluated, reproduces the real function)."""
import math, re, sys
from fractions import Fraction
import numpy as np
from tracer import shim

sys.setrecursionlimit(100000)


# ===================================================================== E -> Coq text
def qtext(v):
    v = Fraction(v)
    n, d = v.numerator, v.denominator
    return '(%s # %d)' % (('(%d)' % n) if n < 0 else str(n), d)


def lconst_e(e, memo=None):
    """piecewise-constant traced expressions (indices, sector numbers): never given a program slot of their
    own, so that Coq's syntactic `lconst` still recognises them"""
    memo = {} if memo is None else memo
    k = id(e)
    if k in memo: return memo[k]
    op, a = e.op, e.a
    if op in ('const', 'PI', 'floor', 'trunc', 'round'): r = True
    elif op in ('+', '-', '*', '/', 'fmod', 'min', 'max'): r = lconst_e(a[0], memo) and lconst_e(a[1], memo)
    elif op == 'neg': r = lconst_e(a[0], memo)
    elif op == 'ite': r = lconst_e(a[1], memo) and lconst_e(a[2], memo)
    else: r = False
    memo[k] = r
    return r


class Emitter:
    """A traced DAG becomes a straight-line program (list of `expr`): every shared, non-trivial node and every
    operand the translation itself uses twice gets an instruction (program variable n+j), so text and terms
    stay linear in the size of the DAG.  The last instruction is the objective."""
    def __init__(self, index):
        self.index, self.n = index, len(index)           # variable name -> position
        self.memo = {}                                   # id(node) -> text
        self.instrs = []
        self.refs = {}
        self.keep = []                                   # keep nodes alive (ids are used as keys)
        self.lc = {}

    def count(self, e):
        st = [e]
        while st:
            x = st.pop()
            if isinstance(x, (shim.E, shim.B)):
                k = id(x)
                self.refs[k] = self.refs.get(k, 0) + 1
                if self.refs[k] == 1:
                    st.extend(y for y in x.a if isinstance(y, (shim.E, shim.B)))

    def slot(self, t):
        self.instrs.append(t)
        return '(Var %d)' % (self.n + len(self.instrs) - 1)

    def named(self, t, lc=False):
        """a term used more than once gets a program variable (unless piecewise constant or tiny)"""
        if len(t) <= 40 or lc:
            return t
        return self.slot(t)

    def term(self, e):
        e = shim.E.lift(e)
        k = id(e)
        if k in self.memo:
            return self.memo[k]
        t = self._term(e)
        if self.refs.get(k, 0) > 1:
            t = self.named(t, lconst_e(e, self.lc))
        self.memo[k] = t
        self.keep.append(e)
        return t

    def _term(self, e):
        op, a = e.op, e.a
        T = self.term
        L = lambda x: lconst_e(shim.E.lift(x), self.lc)
        if op == 'var':
            if a[0] == 'NaN':
                # the shim's marker for torch.full_like(x, nan): the value a routine returns to FLAG an input it cannot solve
                # (e.g. refract under total internal reflection).  C05 speaks about valid inputs only, where the selecting
                # `where` takes the other branch; the flagged branch is a constant there and contributes no gradient.
                return '(Cst 0)'
            if a[0] not in self.index:
                raise shim.TraceError('free variable %s is not a parameter of this entry point' % a[0])
            return '(Var %d)' % self.index[a[0]]
        if op == 'const': return '(Cst %s)' % qtext(a[0])
        if op == 'PI': return 'CPi'
        if op == '+': return '(Add %s %s)' % (T(a[0]), T(a[1]))
        if op == '-': return '(Sub %s %s)' % (T(a[0]), T(a[1]))
        if op == '*': return '(Mul %s %s)' % (T(a[0]), T(a[1]))
        if op == '/': return '(Div %s %s)' % (T(a[0]), T(a[1]))
        if op == 'neg': return '(Neg %s)' % T(a[0])
        if op == 'pow': return '(Pow %s %d)' % (T(a[0]), a[1])
        if op == 'abs': return '(Abs %s)' % T(a[0])
        if op in ('sqrt', 'sin', 'cos', 'exp', 'ln'):
            return '(%s %s)' % (op.capitalize(), T(a[0]))
        if op == 'atan': return '(Atan2 %s (Cst (1 # 1)))' % T(a[0])
        if op == 'atan2': return '(Atan2 %s %s)' % (T(a[0]), T(a[1]))
        if op in ('acos', 'asin') and not shim.free_vars(a[0]):      # a constant angle (e.g. of a fixed random draw): its float64 value
            v = shim.evalf(e, {})
            if not math.isfinite(v): raise shim.TraceError('constant %s outside its domain' % op)
            return '(Cst %s)' % qtext(Fraction(v))
        if op == 'rpow':
            if not a[1].is_const():
                raise shim.TraceError('power with a symbolic exponent')
            return '(Rpw %s %s)' % (T(a[0]), qtext(a[1].cval()))
        if op == 'floor': return '(Floor %s)' % T(a[0])
        if op == 'trunc':
            x = self.named(T(a[0]), L(a[0])); return '(Ite %s (Cst (0 # 1)) (Neg (Floor (Neg %s))) (Floor %s))' % (x, x, x)
        if op == 'round':
            return '(Floor (Add %s (Cst (1 # 2))))' % T(a[0])
        if op == 'fmod':
            x, y = self.named(T(a[0]), L(a[0])), self.named(T(a[1]), L(a[1])); return '(Sub %s (Mul %s (Floor (Div %s %s))))' % (x, y, x, y)
        if op == 'min':
            x, y = self.named(T(a[0]), L(a[0])), self.named(T(a[1]), L(a[1])); return '(Ite %s %s %s %s)' % (x, y, x, y)
        if op == 'max':
            x, y = self.named(T(a[0]), L(a[0])), self.named(T(a[1]), L(a[1])); return '(Ite %s %s %s %s)' % (x, y, y, x)
        if op == 'ite':
            return self.cite(a[0], T(a[1]), T(a[2]))
        raise shim.TraceError('deep embedding: unsupported operation %s' % op)

    def cite(self, c, X, Y):
        """text of `if c then X else Y`.  A single < or <= (possibly negated) becomes `Ite a b X Y` directly; a
        compound condition (==, and, or, ...) is compiled into a 0/1-valued indicator expression and tested
        against 1/2, so that neither branch is duplicated."""
        if not isinstance(c, shim.B):
            c = shim.B.lift(c)
        o, a = c.op, c.a
        if o == 'const': return X if a[0] else Y
        if o == 'lt': return '(Ite %s %s %s %s)' % (self.term(a[0]), self.term(a[1]), X, Y)
        if o == 'le': return '(Ite %s %s %s %s)' % (self.term(a[1]), self.term(a[0]), Y, X)
        if o == 'not' and isinstance(a[0], shim.B) and a[0].op in ('lt', 'le', 'const', 'not'):
            return self.cite(a[0], Y, X)
        return '(Ite (Cst (1 # 2)) %s %s %s)' % (self.ind(c), X, Y)

    def ind(self, c):
        """0/1 indicator of a boolean expression, as an `expr` (piecewise constant)"""
        if not isinstance(c, shim.B):
            c = shim.B.lift(c)
        o, a = c.op, c.a
        one, zero = '(Cst (1 # 1))', '(Cst (0 # 1))'
        L = lambda x: lconst_e(shim.E.lift(x), self.lc)
        if o == 'const': return one if a[0] else zero
        if o == 'lt': return '(Ite %s %s %s %s)' % (self.term(a[0]), self.term(a[1]), one, zero)
        if o == 'le': return '(Ite %s %s %s %s)' % (self.term(a[1]), self.term(a[0]), zero, one)
        if o == 'eq':
            p, q = self.named(self.term(a[0]), L(a[0])), self.named(self.term(a[1]), L(a[1]))
            return '(Ite %s %s %s (Ite %s %s %s %s))' % (p, q, zero, q, p, zero, one)
        if o == 'not': return '(Sub %s %s)' % (one, self.ind(a[0]))
        if o == 'and': return '(Mul %s %s)' % (self.ind(a[0]), self.ind(a[1]))
        if o == 'or': return '(Sub %s (Mul (Sub %s %s) (Sub %s %s)))' % (one, one, self.ind(a[0]), one, self.ind(a[1]))
        if o == 'beq':
            p, q = self.ind(a[0]), self.ind(a[1])         # indicators are piecewise constant: inlined
            return '(Add (Mul %s %s) (Mul (Sub %s %s) (Sub %s %s)))' % (p, q, one, p, one, q)
        raise shim.TraceError('deep embedding: unsupported boolean operation %s' % o)


def to_prog(e, index):
    """list of instruction texts for the traced scalar e (the last one is e itself)"""
    em = Emitter(index)
    root = shim.E.lift(e)
    em.count(root)
    t = em.term(root)
    if not (em.instrs and t == '(Var %d)' % (em.n + len(em.instrs) - 1)):
        em.instrs.append(t)
    return em.instrs


def prog_coq(name, instrs):
    return 'Definition %s : list expr :=\n  [ %s ].\n' % (name, ';\n    '.join(instrs))


# ===================================================================== Coq print -> trees
_TOK = re.compile(r'\s*(?:(0[xX][0-9a-fA-F]+(?:\.[0-9a-fA-F]*)?(?:[pP][+-]?\d+)?|\d+(?:\.\d+)?(?:[eE][+-]?\d+)?)|([A-Za-z_][A-Za-z_0-9\']*)|(.))')
ARITY = {'Var': 1, 'Cst': 1, 'CPi': 0, 'Add': 2, 'Sub': 2, 'Mul': 2, 'Div': 2, 'Neg': 1, 'Pow': 2, 'Sqrt': 1, 'Sin': 1,
         'Cos': 1, 'Exp': 1, 'Ln': 1, 'Atan2': 2, 'Rpw': 2, 'Abs': 1, 'Floor': 1, 'Ite': 4,
         'CNe': 2, 'CNz': 1, 'CPos': 1, 'CCut': 2, 'CNonInt': 1, 'Some': 1, 'None': 0, 'true': 0, 'false': 0}


def _num(txt):
    """Coq prints Q literals as integers, decimals (0.299) or hexadecimal fractions (0x0.4); all exact"""
    if txt[:2].lower() != '0x':
        return Fraction(txt)
    body, _, ex = txt[2:].lower().partition('p')
    ip, _, fp = body.partition('.')
    v = Fraction(int(ip or '0', 16)) + (Fraction(int(fp, 16), 16 ** len(fp)) if fp else 0)
    return v * Fraction(2) ** int(ex) if ex else v


def tokenize(s):
    s = re.sub(r'%[A-Za-z_]+', '', s)
    out = []
    for m in _TOK.finditer(s):
        if m.group(1) is not None: out.append(('n', _num(m.group(1))))
        elif m.group(2) is not None: out.append(('i', m.group(2)))
        elif m.group(3) is not None and not m.group(3).isspace(): out.append(('p', m.group(3)))
    return out


class _P:
    def __init__(s, toks): s.t, s.i = toks, 0
    def peek(s): return s.t[s.i] if s.i < len(s.t) else ('e', None)
    def next(s): x = s.peek(); s.i += 1; return x
    def expect(s, ch):
        x = s.next()
        if x != ('p', ch): raise ValueError('parse: expected %r, got %r at token %d' % (ch, x, s.i))

    def atom(s):
        k, v = s.peek()
        if k == 'n':
            s.next()
            if s.peek() == ('p', '#'):
                s.next(); d = s.next()[1]; return Fraction(v) / Fraction(d)
            return Fraction(v)
        if (k, v) == ('p', '-'):
            s.next(); x = s.atom()
            return -x
        if (k, v) == ('p', '('):
            s.next(); x = s.app()
            if s.peek() == ('p', ','):
                items = [x]
                while s.peek() == ('p', ','):
                    s.next(); items.append(s.app())
                x = ('pair',) + tuple(items)
            elif s.peek() == ('p', '#'):
                s.next(); d = s.atom(); x = Fraction(x) / Fraction(d)
            s.expect(')'); return x
        if (k, v) == ('p', '['):
            s.next(); items = []
            if s.peek() != ('p', ']'):
                items.append(s.app())
                while s.peek() == ('p', ';'):
                    s.next(); items.append(s.app())
            s.expect(']'); return ('list',) + tuple(items)
        if k == 'i':
            s.next()
            if v not in ARITY: raise ValueError('parse: unknown constructor %s' % v)
            if ARITY[v] == 0: return (v,)
            return ('ctor', v)
        raise ValueError('parse: unexpected token %r' % ((k, v),))

    def app(s):
        h = s.atom()
        if isinstance(h, tuple) and h[0] == 'ctor':
            name = h[1]
            args = [s.atom() for _ in range(ARITY[name])]
            return (name,) + tuple(args)
        if isinstance(h, Fraction) and s.peek() == ('p', '#'):
            s.next(); d = s.atom(); return Fraction(h) / Fraction(d)
        return h


def parse(text):
    p = _P(tokenize(text))
    r = p.app()
    if p.i != len(p.t): raise ValueError('parse: trailing tokens')
    return r


def tree_size(t):
    n, st = 0, [t]
    while st:
        x = st.pop()
        if isinstance(x, tuple):
            n += 1; st.extend(x[1:])
    return n


# ===================================================================== numeric evaluation (vectorised)
def _rfloor(x): return np.floor(x)


def evalv(t, env):
    """value of an `expr` tree; env[i] is a float64 array (one entry per sample point) or a float"""
    with np.errstate(all='ignore'):
        return _ev(t, env)


def _ev(t, env):
    h = t[0]
    if h == 'Var': return np.asarray(env[int(t[1])], dtype=np.float64)
    if h == 'Cst': return np.float64(float(t[1]))
    if h == 'CPi': return np.float64(math.pi)
    if h == 'Add': return _ev(t[1], env) + _ev(t[2], env)
    if h == 'Sub': return _ev(t[1], env) - _ev(t[2], env)
    if h == 'Mul': return _ev(t[1], env) * _ev(t[2], env)
    if h == 'Div': return _ev(t[1], env) / _ev(t[2], env)
    if h == 'Neg': return -_ev(t[1], env)
    if h == 'Pow': return _ev(t[1], env) ** int(t[2])
    if h == 'Sqrt': return np.sqrt(_ev(t[1], env))
    if h == 'Sin': return np.sin(_ev(t[1], env))
    if h == 'Cos': return np.cos(_ev(t[1], env))
    if h == 'Exp': return np.exp(_ev(t[1], env))
    if h == 'Ln': return np.log(_ev(t[1], env))
    if h == 'Atan2': return np.arctan2(_ev(t[1], env), _ev(t[2], env))
    if h == 'Rpw': return np.power(_ev(t[1], env), float(t[2]))
    if h == 'Abs': return np.abs(_ev(t[1], env))
    if h == 'Floor': return np.floor(_ev(t[1], env))
    if h == 'Ite': return np.where(_ev(t[1], env) < _ev(t[2], env), _ev(t[3], env), _ev(t[4], env))
    raise ValueError('evalv: unknown node %r' % (h,))


def lconst(t):
    h = t[0]
    if h in ('Cst', 'CPi', 'Floor'): return True
    if h in ('Add', 'Sub', 'Mul', 'Div'): return lconst(t[1]) and lconst(t[2])
    if h == 'Neg': return lconst(t[1])
    if h == 'Ite': return lconst(t[3]) and lconst(t[4])
    return False


def margin(c, env):
    """> 0 iff the side condition holds; the size says how far from failing it is (relative where sensible)"""
    with np.errstate(all='ignore'):
        h = c[0]
        if h == 'CNe':
            if lconst(c[1]) and lconst(c[2]): return np.float64(np.inf)
            a, b = _ev(c[1], env), _ev(c[2], env)
            return np.abs(a - b) / np.maximum(1e-30, np.maximum(np.abs(a), np.abs(b)))
        if h == 'CNz': return np.abs(_ev(c[1], env))
        if h == 'CPos': return _ev(c[1], env)
        if h == 'CCut':
            y, x = _ev(c[1], env), _ev(c[2], env)
            return np.maximum(x, np.abs(y))
        if h == 'CNonInt':
            if lconst(c[1]): return np.float64(np.inf)
            a = _ev(c[1], env)
            return np.minimum(a - np.floor(a), np.floor(a) + 1 - a)
    raise ValueError('margin: unknown condition %r' % (h,))


def show(t, depth=6):
    """short printable form of a tree (evidence samples)"""
    if isinstance(t, Fraction): return str(t)
    if not isinstance(t, tuple): return str(t)
    if depth == 0: return '...'
    return '(' + ' '.join([t[0]] + [show(x, depth - 1) for x in t[1:]]) + ')'


# ===================================================================== programs
class Program:
    """instruction trees of a traced objective together with what Coq computed for them"""
    def __init__(self, n, instr_texts, report):
        self.n, self.m = n, len(instr_texts)
        self.M = self.n + self.m
        self.instrs = [parse(t) for t in instr_texts]
        assert report[0] == 'list' and len(report) - 1 == self.m, 'report length'
        self.tangents = [r[1] for r in report[1:]]
        self.conds = [list(r[2][1:]) for r in report[1:]]

    def size(self):
        return sum(tree_size(t) for t in self.instrs), sum(tree_size(t) for t in self.tangents)

    def run(self, points):
        """points: array [P, n].  Returns (value [P], gradient [P, n], smallest side-condition margin [P],
        name of the tightest condition per point).  Forward mode: the tangent slot i+M of input i is seeded
        with the i-th unit vector; instruction j defines variable n+j and tangent n+j+M (theorem C05_ssa_correct)."""
        pts = np.asarray(points, dtype=np.float64)
        P, n, M = pts.shape[0], self.n, self.M
        env = [None] * (2 * M)
        eye = np.eye(n)
        for i in range(n):
            env[i] = pts[:, i:i + 1]
            env[M + i] = eye[i:i + 1, :]
        mm = np.full((P, 1), np.inf)
        which = np.full((P, 1), -1)
        labels = []
        with np.errstate(all='ignore'):
            for j in range(self.m):
                for c in self.conds[j]:
                    g = np.broadcast_to(margin(c, env), (P, 1))
                    g = np.where(np.isnan(g), -np.inf, g)
                    labels.append(c)
                    upd = g < mm
                    which = np.where(upd, len(labels) - 1, which)
                    mm = np.where(upd, g, mm)
                env[n + j] = np.broadcast_to(_ev(self.instrs[j], env), (P, 1))
                env[M + n + j] = np.broadcast_to(_ev(self.tangents[j], env), (P, n))
        return env[n + self.m - 1][:, 0], env[M + n + self.m - 1], mm[:, 0], [labels[k] if k >= 0 else None for k in which[:, 0]]

    def inline(self):
        """the objective as one tree (program variables substituted); only for small programs"""
        done = []
        def sub(t):
            if not isinstance(t, tuple): return t
            if t[0] == 'Var' and int(t[1]) >= self.n: return done[int(t[1]) - self.n]
            return (t[0],) + tuple(sub(x) for x in t[1:])
        for t in self.instrs:
            done.append(sub(t))
        return done[-1]


def coq_text(t):
    """a tree back as Coq text"""
    if isinstance(t, Fraction): return qtext(t)
    h = t[0]
    if h == 'Var': return '(Var %d)' % int(t[1])
    if h == 'Cst': return '(Cst %s)' % qtext(t[1])
    if h == 'CPi': return 'CPi'
    if h == 'Pow': return '(Pow %s %d)' % (coq_text(t[1]), int(t[2]))
    if h == 'Rpw': return '(Rpw %s %s)' % (coq_text(t[1]), qtext(t[2]))
    return '(%s %s)' % (h, ' '.join(coq_text(x) for x in t[1:]))
