"""AST -> mutation-IR translator for property C20 (see coq/theories/C20/Model.v for the IR).

Every function and method of odak/** is cut from the CURRENT source under $ODAK_REPO, put into SSA
form (assignments create new variables, joins and loop heads are `alias` statements), callee bodies
that can be resolved statically are inlined, and library calls are classified by the committed
tables of tracer/recipes/c20.py:

    fresh    : the result is a newly allocated object (arithmetic, np.array, clone, zeros, ...)
    alias    : the result may be the same object / a view of an argument (asarray, reshape, .T, ...)
    load     : the result may be a part of an argument (subscript, attribute, iteration, dict.get, ...)
    mutate   : augmented assignment on a non-scalar, item assignment, `*_` methods, out=, list/dict mutators
    store    : container update that keeps references to its arguments (append, x[i] = y, x.a = y)

The statements are tuples
    ('fresh', x) ('alias', x, [ys]) ('load', x, [ys]) ('mut', x) ('store', x, [ys]) ('if', A, B) ('loop', A)
with A, B lists of statements.  The translator is part of the trusted base of C20; it is cross-checked
on every run by the dynamic snapshot oracle (harness/props/c20.py).
"""
import ast, os, re, copy

MAX_DEPTH = 7
MAX_STMTS = 6000


# ------------------------------------------------------------------------------------------ program
class ClassInfo:
    def __init__(self, node, modname):
        self.node, self.modname, self.name = node, modname, node.name
        self.methods = {n.name: n for n in node.body if isinstance(n, ast.FunctionDef)}
        self.bases = node.bases


class ModuleInfo:
    def __init__(self, modname, path, is_pkg, tree):
        self.modname, self.path, self.is_pkg, self.tree = modname, path, is_pkg, tree
        self.funcs, self.classes, self.globals = {}, {}, set()
        self.global_values = {}    # module-level name -> value AST of its (single) assignment
        self.imports = {}          # local name -> ('ext', dotted) | ('mod', modname) | ('sym', modname, name)
        self.stars = []            # odak modules star-imported

    def package(self):
        return self.modname if self.is_pkg else self.modname.rsplit('.', 1)[0]


class Program:
    def __init__(self, repo):
        self.repo = repo
        self.modules = {}
        root = os.path.join(repo, 'odak')
        for dp, dn, fn in os.walk(root):
            dn[:] = sorted(d for d in dn if d != '__pycache__')
            for f in sorted(fn):
                if not f.endswith('.py'):
                    continue
                path = os.path.join(dp, f)
                rel = os.path.relpath(path, repo)[:-3].split(os.sep)
                is_pkg = rel[-1] == '__init__'
                if is_pkg:
                    rel = rel[:-1]
                modname = '.'.join(rel)
                try:
                    tree = ast.parse(open(path).read())
                except SyntaxError:
                    continue
                self.modules[modname] = ModuleInfo(modname, os.path.relpath(path, repo), is_pkg, tree)
        for m in self.modules.values():
            self._scan(m)
        self.by_name = {}
        for mn in sorted(self.modules):
            for fn in self.modules[mn].funcs.values():
                self.by_name.setdefault(fn.name, []).append((mn, fn))

    def _abs(self, m, level, name):
        if level == 0:
            return name
        base = m.package().split('.')
        if level > 1:
            base = base[:len(base) - (level - 1)]
        full = '.'.join(base + ([name] if name else []))
        if full.endswith('.__init__'):
            full = full[:-len('.__init__')]
        return full

    def _scan(self, m):
        def visit(body):
            for n in body:
                if isinstance(n, ast.FunctionDef):
                    m.funcs[n.name] = n
                elif isinstance(n, ast.ClassDef):
                    m.classes[n.name] = ClassInfo(n, m.modname)
                elif isinstance(n, ast.Import):
                    for a in n.names:
                        if a.name.split('.')[0] == 'odak':
                            if a.asname:
                                m.imports[a.asname] = ('mod', a.name)
                            else:
                                m.imports['odak'] = ('mod', 'odak')
                        else:
                            if a.asname:
                                m.imports[a.asname] = ('ext', a.name)
                            else:
                                m.imports[a.name.split('.')[0]] = ('ext', a.name.split('.')[0])
                elif isinstance(n, ast.ImportFrom):
                    tgt = self._abs(m, n.level, n.module or '')
                    odak = tgt.split('.')[0] == 'odak'
                    for a in n.names:
                        if a.name == '*':
                            if odak:
                                m.stars.append(tgt)
                            continue
                        nm = a.asname or a.name
                        if odak:
                            if tgt + '.' + a.name in self.modules:
                                m.imports[nm] = ('mod', tgt + '.' + a.name)
                            else:
                                m.imports[nm] = ('sym', tgt, a.name)
                        else:
                            m.imports[nm] = ('ext', tgt + '.' + a.name)
                elif isinstance(n, (ast.Assign, ast.AugAssign, ast.AnnAssign)):
                    tg = n.targets if isinstance(n, ast.Assign) else [n.target]
                    for t in tg:
                        for x in ast.walk(t):
                            if isinstance(x, ast.Name):
                                m.globals.add(x.id)
                                if isinstance(n, ast.Assign) and isinstance(t, ast.Name) and len(n.targets) == 1:
                                    m.global_values[x.id] = n.value if x.id not in m.global_values else None
                                else:
                                    m.global_values[x.id] = None
                elif isinstance(n, (ast.If, ast.Try)):
                    visit(n.body)
                    visit(getattr(n, 'orelse', []))
                    for h in getattr(n, 'handlers', []):
                        visit(h.body)
        visit(m.tree.body)

    def resolve(self, modname, name, seen=None):
        """-> ('func', mod, node) | ('class', ClassInfo) | ('mod', modname) | ('ext', dotted) | ('global', mod, name) | None"""
        seen = seen or set()
        if (modname, name) in seen or modname not in self.modules:
            return None
        seen.add((modname, name))
        m = self.modules[modname]
        if name in m.funcs:
            return ('func', modname, m.funcs[name])
        if name in m.classes:
            return ('class', m.classes[name])
        if name in m.imports:
            k = m.imports[name]
            if k[0] == 'ext':
                return k
            if k[0] == 'mod':
                return k
            r = self.resolve(k[1], k[2], seen)
            if r:
                return r
            if k[1] + '.' + k[2] in self.modules:
                return ('mod', k[1] + '.' + k[2])
            return None
        if m.is_pkg and modname + '.' + name in self.modules:
            return ('mod', modname + '.' + name)
        if name in m.globals:
            return ('global', modname, name)
        for s in m.stars:
            r = self.resolve(s, name, seen)
            if r:
                return r
        return None

    def resolve_expr(self, modname, e, local_names=()):
        """dotted expression rooted at a module-level name"""
        if isinstance(e, ast.Name):
            if e.id in local_names:
                return None
            return self.resolve(modname, e.id)
        if isinstance(e, ast.Attribute):
            b = self.resolve_expr(modname, e.value, local_names)
            if b is None:
                return None
            if b[0] == 'mod':
                return self.resolve(b[1], e.attr)
            if b[0] == 'ext':
                return ('ext', b[1] + '.' + e.attr)
        return None

    def functions(self):
        """every function and method definition: (qualname, modname, ClassInfo|None, node)"""
        out = []
        for mn in sorted(self.modules):
            m = self.modules[mn]
            for fn in m.funcs.values():
                out.append(('%s.%s' % (mn, fn.name), mn, None, fn))
            for c in m.classes.values():
                for fn in c.methods.values():
                    out.append(('%s.%s.%s' % (mn, c.name, fn.name), mn, c, fn))
        return out


# ------------------------------------------------------------------------------------------ kinds
def join_kind(a, b):
    return a if a == b else None


def doc_kinds(fn):
    """parameter kinds from the numpy-style docstring: `name : type` lines"""
    out = {}
    doc = ast.get_docstring(fn) or ''
    for line in doc.split('\n'):
        mm = re.match(r'^\s*([A-Za-z_][\w, ]*?)\s*:\s*(.+?)\s*$', line)
        if not mm:
            continue
        ty = mm.group(2).lower()
        if re.match(r'^(torch\.device|device|torch\.dtype|dtype|function|callable|str|string)\b', ty):
            k = 'scalar'
        elif re.search(r'tensor|ndarray|array|torch\.|numpy|complex field|field', ty):
            k = 'array'
        elif re.search(r'\blist\b|dict|tuple of|iterable', ty):
            k = 'container'
        elif re.match(r'^(int|float|str|string|bool|boolean|complex|double|integer|float or int|int or float|tuple)\b', ty):
            k = 'scalar'
        else:
            continue
        for nm in mm.group(1).split(','):
            out.setdefault(nm.strip(), k)
    return out


class Frame:
    def __init__(self, modname, cls, self_ns, fn, depth, stack):
        self.modname, self.cls, self.self_ns, self.fn, self.depth, self.stack = modname, cls, self_ns, fn, depth, stack
        self.env = {}
        self.local_funcs = {}
        self.ret = None
        self.ret_kind = 'unset'
        self.ret_elts = None
        self.is_closure = False
        self.local_imports = {}
        self.self_name = None


def is_private_helper(fn, cls):
    """module-level function whose name starts with a single underscore: not an entry point of the library"""
    return cls is None and fn.name.startswith('_') and not fn.name.startswith('__')


class Unsupported(Exception):
    pass


# ------------------------------------------------------------------------------------------ translator
class Translator:
    def __init__(self, program, tables):
        self.P, self.T = program, tables
        self._attr_classes = {}
        self._attr_kinds = {}
        self.reset()

    def reset(self):
        self.nvar = 0
        self.names = {}
        self.kinds = {}
        self.seeds = []
        self.seed_names = {}
        self.cur = []
        self.notes = set()
        self.unresolved = set()
        self.unclassified = set()
        self.libcalls = set()      # (dotted, npos, kwspec, class used)
        self.methcalls = set()     # (name, npos, kwspec, class used)
        self.probed = {}           # unknown library name -> class derived from the probe
        self.nstmts = 0
        self.selfattrs = {}        # ns -> {attr: var}
        self.lazy = set()          # attribute variables created by a read (not assigned by the code)
        self.vclass = {}           # var -> ClassInfo of the odak class it was constructed from
        self.tuple_elts = {}       # var of an (immutable) tuple display -> [(var|None, kind)] of its items

    # ---- variables and emission
    def var(self, name, kind=None):
        v = self.nvar
        self.nvar += 1
        self.names[v] = name
        self.kinds[v] = kind
        return v

    def emit(self, *s):
        self.cur.append(tuple(s))
        self.nstmts += 1

    def seed(self, key, kind=None):
        if key not in self.seed_names:
            v = self.var(key, kind)
            self.seed_names[key] = v
            self.seeds.append(v)
        return self.seed_names[key]

    def bind_new(self, name, src, kind=None, mode='alias'):
        """new variable holding the value `src` (var or None = fresh)"""
        if src is not None and kind is None:
            kind = self.kinds.get(src)
        v = self.var(name, kind)
        if src is None:
            self.emit('fresh', v)
        else:
            self.emit(mode, v, [src])
            if mode == 'alias' and src in self.vclass:
                self.vclass[v] = self.vclass[src]
        return v

    def block(self, f):
        """run f() collecting its statements into a fresh list"""
        saved = self.cur
        self.cur = []
        try:
            f()
            out = self.cur
        finally:
            self.cur = saved
        return out

    # ---- top level
    def translate(self, qual, modname, cls, fn):
        self.reset()
        fr = Frame(modname, cls, None, fn, 0, (qual,))
        self.enter_params(fr, fn, None, None, top=True)
        self.body(fn.body, fr)
        return {'name': qual, 'params': list(self.seeds), 'prog': self.cur, 'names': dict(self.names), 'nvars': self.nvar,
                'unresolved': sorted(self.unresolved), 'unclassified': sorted(self.unclassified), 'notes': sorted(self.notes),
                'libcalls': sorted(self.libcalls, key=repr), 'methcalls': sorted(self.methcalls, key=repr), 'probed': dict(self.probed),
                'nstmts': self.nstmts}

    def enter_params(self, fr, fn, args, kwargs, top=False, self_var=None):
        """bind the parameters of fn in frame fr.  top: parameters are seeds (objects of the caller).
        args: list of (var|None, kind); kwargs: dict name -> (var|None, kind)"""
        a = fn.args
        pos = list(a.posonlyargs) + list(a.args)
        dk = doc_kinds(fn)
        defaults = dict(zip([p.arg for p in pos[len(pos) - len(a.defaults):]], a.defaults))
        for p, d in zip(a.kwonlyargs, a.kw_defaults):
            if d is not None:
                defaults[p.arg] = d
        is_method = fr.cls is not None and not fr.is_closure and not any(isinstance(d, ast.Name) and d.id == 'staticmethod' for d in fn.decorator_list)
        names = [p.arg for p in pos]
        if is_method and names:
            fr.self_name = names[0]
            names = names[1:]
            if fr.self_ns is None:
                fr.self_ns = 'self'
        allnames = names + [p.arg for p in a.kwonlyargs]
        if top:
            over = self.T.PARAM_KIND_OVERRIDES.get(fr.stack[0], {})
            for n in allnames:
                d = defaults.get(n)
                k = over.get(n, (dk.get(n),))[0]
                if d is not None:
                    kd = self.const_kind(d)
                    if kd == 'scalar' and not (isinstance(d, ast.Constant) and d.value is None):
                        k = k or 'scalar'
                        if k != 'scalar' and isinstance(d, ast.Constant) and isinstance(d.value, (int, float)) and not isinstance(d.value, bool):
                            k = k       # documented as array, numeric default (e.g. aperture = 1.): stays array-kinded
                    elif kd == 'container':
                        k = 'container'
                fr.env[n] = self.seed('param:' + n, k)
            if a.vararg:
                fr.env[a.vararg.arg] = self.seed('param:*' + a.vararg.arg, 'container')
            if a.kwarg:
                fr.env[a.kwarg.arg] = self.seed('param:**' + a.kwarg.arg, 'container')
            return
        args = list(args)
        kwargs = dict(kwargs)
        extra = []
        for i, n in enumerate(names):
            if i < len(args):
                v, k = args[i]
            elif n in kwargs:
                v, k = kwargs.pop(n)
            elif n in defaults:
                v, k = self.default_value(fr, fn, n, defaults[n])
            else:
                v, k = None, None
            k = k or dk.get(n)
            fr.env[n] = self.bind_new('%d:%s' % (fr.depth, n), v, k)
        extra = args[len(names):]
        for p in a.kwonlyargs:
            n = p.arg
            if n in kwargs:
                v, k = kwargs.pop(n)
            elif n in defaults:
                v, k = self.default_value(fr, fn, n, defaults[n])
            else:
                v, k = None, None
            fr.env[n] = self.bind_new('%d:%s' % (fr.depth, n), v, k or dk.get(n))
        if a.vararg:
            c = self.bind_new('%d:*%s' % (fr.depth, a.vararg.arg), None, 'container')
            ys = [v for v, _ in extra if v is not None]
            if ys:
                self.emit('store', c, ys)
            fr.env[a.vararg.arg] = c
        if a.kwarg:
            c = self.bind_new('%d:**%s' % (fr.depth, a.kwarg.arg), None, 'container')
            ys = [v for v, _ in kwargs.values() if v is not None]
            if ys:
                self.emit('store', c, ys)
            fr.env[a.kwarg.arg] = c

    def const_kind(self, d):
        if isinstance(d, ast.Constant):
            return 'scalar'
        if isinstance(d, ast.UnaryOp) and isinstance(d.operand, ast.Constant):
            return 'scalar'
        if isinstance(d, ast.Tuple) and all(self.const_kind(e) == 'scalar' for e in d.elts):
            return 'scalar'
        if isinstance(d, (ast.List, ast.Dict, ast.Set)):
            return 'container'
        if isinstance(d, ast.Call) and isinstance(d.func, ast.Attribute) and d.func.attr in ('device', 'dtype'):
            return 'scalar'                     # torch.device('cpu'): immutable
        if isinstance(d, ast.Attribute) and d.attr in ('float32', 'float64', 'complex64', 'complex128', 'pi'):
            return 'scalar'
        return None

    def default_value(self, fr, fn, n, d):
        """the default-argument object of an inlined callee: created once at definition time, hence an
        object that exists before the call — a seed unless it is an immutable constant"""
        k = self.const_kind(d)
        if k == 'scalar':
            return None, 'scalar'
        return self.seed('default:%s.%s' % (fn.name, n), k), k

    # ---- statements
    def body(self, stmts, fr):
        for s in stmts:
            if self.nstmts > 4 * MAX_STMTS:
                self.notes.add('statement budget exhausted: remaining statements of a body skipped')
                raise Unsupported('statement budget exhausted')
            self.stmt(s, fr)

    def stmt(self, s, fr):
        m = getattr(self, 'st_' + type(s).__name__, None)
        if m is None:
            raise Unsupported('statement %s' % type(s).__name__)
        m(s, fr)

    def st_Pass(self, s, fr): pass
    def st_Break(self, s, fr): pass
    def st_Continue(self, s, fr): pass
    def st_Import(self, s, fr):
        # function-local import: the names shadow module-level ones inside this body
        for a in s.names:
            if a.name.split('.')[0] == 'odak':
                fr.local_imports[a.asname or 'odak'] = ('mod', a.name if a.asname else 'odak')
            else:
                fr.local_imports[a.asname or a.name.split('.')[0]] = ('ext', a.name if a.asname else a.name.split('.')[0])
            fr.env.pop(a.asname or a.name.split('.')[0], None)

    def st_ImportFrom(self, s, fr):
        m = self.P.modules[fr.modname]
        tgt = self.P._abs(m, s.level, s.module or '')
        odak = tgt.split('.')[0] == 'odak'
        for a in s.names:
            if a.name == '*':
                self.notes.add('function-local star import')
                continue
            nm = a.asname or a.name
            if odak:
                r = self.P.resolve(tgt, a.name) if tgt in self.P.modules else None
                if r is None and tgt + '.' + a.name in self.P.modules:
                    r = ('mod', tgt + '.' + a.name)
                if r is None:
                    self.notes.add('unresolved local import %s.%s' % (tgt, a.name))
                    continue
                fr.local_imports[nm] = r
            else:
                fr.local_imports[nm] = ('ext', tgt + '.' + a.name)
            fr.env.pop(nm, None)

    def resolve_in(self, fr, e):
        """resolve a dotted expression, function-local imports first"""
        root = e
        chain = []
        while isinstance(root, ast.Attribute):
            chain.append(root.attr)
            root = root.value
        if isinstance(root, ast.Name) and root.id in fr.local_imports and root.id not in fr.env:
            b = fr.local_imports[root.id]
            for attr in reversed(chain):
                if b is None:
                    return None
                if b[0] == 'mod':
                    b = self.P.resolve(b[1], attr)
                elif b[0] == 'ext':
                    b = ('ext', b[1] + '.' + attr)
                else:
                    return None
            return b
        return self.P.resolve_expr(fr.modname, e, fr.env)
    def st_Global(self, s, fr): self.notes.add('global statement')
    def st_Nonlocal(self, s, fr): self.notes.add('nonlocal statement')
    def st_ClassDef(self, s, fr): pass

    def st_FunctionDef(self, s, fr):
        fr.local_funcs[s.name] = s
        fr.env.pop(s.name, None)

    def st_Expr(self, s, fr):
        self.ev(s.value, fr)

    def st_Assert(self, s, fr):
        self.ev(s.test, fr)

    def st_Raise(self, s, fr):
        if s.exc is not None:
            self.ev(s.exc, fr)

    def st_Delete(self, s, fr):
        for t in s.targets:
            if isinstance(t, ast.Subscript):
                b, _ = self.ev(t.value, fr)
                self.ev(t.slice, fr)
                if b is not None:
                    self.emit('mut', b)
            elif isinstance(t, ast.Attribute):
                b, _ = self.ev(t.value, fr)
                if b is not None and not self.is_self(t.value, fr):
                    self.emit('mut', b)

    def st_Return(self, s, fr):
        if s.value is None:
            return
        v, k = self.ev(s.value, fr)
        elts = self.tuple_elts.get(v) if v is not None else None
        if fr.ret is None:
            fr.ret = self.var('%d:return' % fr.depth, k)
            fr.ret_kind = k
            fr.ret_elts = [self.var('%d:return[%d]' % (fr.depth, i), ek) for i, (_, ek) in enumerate(elts)] if elts is not None else None
        elif fr.ret_elts is not None and (elts is None or len(elts) != len(fr.ret_elts)):
            fr.ret_elts = False          # returns of different shapes: no per-position information
        if fr.ret_elts:
            for rv, (ev_, ek) in zip(fr.ret_elts, elts):
                self.kinds[rv] = join_kind(self.kinds.get(rv), ek)
                if ev_ is None:
                    self.emit('fresh', rv)
                else:
                    self.emit('alias', rv, [ev_])
        else:
            fr.ret_kind = join_kind(fr.ret_kind, k)
            self.kinds[fr.ret] = fr.ret_kind
        if v is None:
            self.emit('fresh', fr.ret)
        else:
            self.emit('alias', fr.ret, [v])

    def st_Assign(self, s, fr):
        if len(s.targets) == 1 and isinstance(s.targets[0], (ast.Tuple, ast.List)) and isinstance(s.value, (ast.Tuple, ast.List)) \
                and len(s.targets[0].elts) == len(s.value.elts) and not any(isinstance(e, ast.Starred) for e in s.targets[0].elts + s.value.elts):
            vals = [self.ev(e, fr) for e in s.value.elts]
            for t, (v, k) in zip(s.targets[0].elts, vals):
                self.assign(t, v, k, fr)
            return
        v, k = self.ev(s.value, fr)
        for t in s.targets:
            self.assign(t, v, k, fr, value_expr=s.value)

    def st_AnnAssign(self, s, fr):
        if s.value is not None:
            v, k = self.ev(s.value, fr)
            self.assign(s.target, v, k, fr)

    def assign(self, t, v, k, fr, value_expr=None, mode='alias'):
        if isinstance(t, ast.Name):
            fr.env[t.id] = self.bind_new('%d:%s' % (fr.depth, t.id), v, k, mode)
            fr.local_funcs.pop(t.id, None)
        elif isinstance(t, (ast.Tuple, ast.List)) and v is not None and v in self.tuple_elts and len(self.tuple_elts[v]) == len(t.elts) \
                and not any(isinstance(e, ast.Starred) for e in t.elts):
            for e, (ev_, ek) in zip(t.elts, self.tuple_elts[v]):
                self.assign(e, ev_ if ek != 'scalar' else None, ek, fr)
        elif isinstance(t, (ast.Tuple, ast.List)):
            for e in t.elts:
                if isinstance(e, ast.Starred):
                    e = e.value
                if v is None:
                    self.assign(e, None, None, fr)
                else:
                    self.assign(e, v, None, fr, mode='load')
        elif isinstance(t, ast.Starred):
            self.assign(t.value, v, k, fr, mode=mode)
        elif isinstance(t, ast.Attribute):
            if self.is_self(t.value, fr):
                key = (fr.self_ns, t.attr)
                nv = self.bind_new('%s.%s' % (fr.self_ns, t.attr), v, k, mode)
                self.selfattrs.setdefault(fr.self_ns, {})[t.attr] = nv
            else:
                b, _ = self.ev(t.value, fr)
                if b is not None:
                    self.emit('store', b, [v] if v is not None else [])
        elif isinstance(t, ast.Subscript):
            b, bk = self.ev(t.value, fr)
            self.ev(t.slice, fr)
            if b is not None:
                if v is None or k == 'scalar' or bk == 'array':
                    self.emit('mut', b)
                else:
                    self.emit('store', b, [v])
        else:
            raise Unsupported('assignment target %s' % type(t).__name__)

    def is_self(self, e, fr):
        return isinstance(e, ast.Name) and fr.self_name is not None and e.id == fr.self_name and e.id not in fr.env

    def st_AugAssign(self, s, fr):
        v, k = self.ev(s.value, fr)
        t = s.target
        if isinstance(t, ast.Name):
            cur, ck = self.ev(t, fr)
            if cur is None or ck == 'scalar':
                nk = 'scalar' if (ck == 'scalar' or cur is None) and k == 'scalar' else (None if k is None else k)
                fr.env[t.id] = self.bind_new('%d:%s' % (fr.depth, t.id), None, nk)
            else:
                self.emit('mut', cur)
        elif isinstance(t, ast.Attribute) and self.is_self(t.value, fr):
            cur, ck = self.ev(t, fr)
            if cur is None or ck == 'scalar':
                self.assign(t, None, None, fr)
            else:
                self.emit('mut', cur)
        elif isinstance(t, (ast.Subscript, ast.Attribute)):
            b, bk = self.ev(t.value, fr)
            if isinstance(t, ast.Subscript):
                self.ev(t.slice, fr)
            if b is not None:
                if bk == 'array':
                    self.emit('mut', b)
                else:
                    tmp = self.bind_new('%d:item' % fr.depth, b, None, 'load')
                    self.emit('mut', tmp)
                    self.emit('store', b, [tmp])
        else:
            raise Unsupported('augmented target')

    # ---- control flow with SSA joins
    def join(self, fr, env0, branches):
        """branches: list of (stmts, env).  Adds alias statements to the branch ends and sets fr.env."""
        names = []
        for _, e in branches:
            for n in e:
                if n not in names:
                    names.append(n)
        out = dict(env0)
        for n in names:
            vs = [e.get(n) for _, e in branches]
            if all(v == vs[0] for v in vs):
                if vs[0] is not None:
                    out[n] = vs[0]
                continue
            ks = [self.kinds.get(v) for v in vs if v is not None]
            k = ks[0] if ks and all(x == ks[0] for x in ks) else None
            nv = self.var('phi:%s' % n, k)
            self.phi_class(nv, vs)
            for (st, e), v in zip(branches, vs):
                if v is not None:
                    st.append(('alias', nv, [v]))
            out[n] = nv
        fr.env = out

    def phi_class(self, nv, vs):
        cs = [self.vclass.get(v) for v in vs if v is not None]
        if cs and cs[0] is not None and all(c is cs[0] for c in cs):
            self.vclass[nv] = cs[0]

    def join_attrs(self, attrs0, branches):
        """the same for the self-attribute tables: branches = list of (stmts, attrs snapshot)"""
        out = {}
        nss = []
        for _, a in branches:
            for ns in a:
                if ns not in nss:
                    nss.append(ns)
        for ns in nss:
            out[ns] = {}
            keys = []
            for _, a in branches:
                for kx in a.get(ns, {}):
                    if kx not in keys:
                        keys.append(kx)
            for kx in keys:
                vs = [a.get(ns, {}).get(kx) for _, a in branches]
                if all(v == vs[0] for v in vs):
                    out[ns][kx] = vs[0]
                    continue
                ks = [self.kinds.get(v) for v in vs if v is not None]
                k = ks[0] if ks and all(x == ks[0] for x in ks) else None
                nv = self.var('phi:%s.%s' % (ns, kx), k)
                self.phi_class(nv, vs)
                for (st, a), v in zip(branches, vs):
                    if v is not None:
                        st.append(('alias', nv, [v]))
                out[ns][kx] = nv
        self.selfattrs = out

    def snap_attrs(self):
        return {ns: dict(d) for ns, d in self.selfattrs.items()}

    def branch(self, fr, f):
        """run f in a copy of the current environment; returns (stmts, env, attrs)"""
        env0, at0 = dict(fr.env), self.snap_attrs()
        lf0 = dict(fr.local_funcs)
        st = self.block(f)
        res = (st, fr.env, self.snap_attrs())
        fr.env, self.selfattrs, fr.local_funcs = dict(env0), at0, lf0
        return res

    def alternatives(self, fr, fs):
        env0, at0 = dict(fr.env), self.snap_attrs()
        res = [self.branch(fr, f) for f in fs]
        self.join(fr, env0, [(st, e) for st, e, _ in res])
        self.join_attrs(at0, [(st, a) for st, _, a in res])
        return [st for st, _, _ in res]

    def st_If(self, s, fr):
        self.ev(s.test, fr)
        a, b = self.alternatives(fr, [lambda: self.body(s.body, fr), lambda: self.body(s.orelse, fr)])
        self.emit('if', a, b)

    def loop(self, fr, body_f):
        """SSA loop: names (and self attributes) rebound by the body get a loop-head variable"""
        env0, at0 = dict(fr.env), self.snap_attrs()
        # dry run to find what the body rebinds (discarded, including variable numbering)
        saved = (self.nvar, dict(self.names), dict(self.kinds), list(self.seeds), dict(self.seed_names), self.nstmts,
                 set(self.notes), set(self.unresolved), set(self.unclassified), fr.ret, fr.ret_kind, dict(fr.local_funcs))
        ok = True
        try:
            st, env1, at1 = self.branch(fr, body_f)
        except Unsupported:
            raise
        nseeds = list(self.seeds)
        changed = [n for n in env1 if env1.get(n) != env0.get(n)]
        changed_at = [(ns, kx) for ns in at1 for kx in at1[ns] if at1[ns][kx] != at0.get(ns, {}).get(kx)]
        new_seed_keys = [k for k in self.seed_names if k not in saved[4]]
        kinds1 = {n: self.kinds.get(env1[n]) for n in changed}
        classes1 = {n: self.vclass.get(env1[n]) for n in changed}
        classes1_at = {(ns, kx): self.vclass.get(at1[ns][kx]) for ns in at1 for kx in at1[ns]}
        (self.nvar, self.names, self.kinds, self.seeds, self.seed_names, self.nstmts, self.notes, self.unresolved,
         self.unclassified, fr.ret, fr.ret_kind, fr.local_funcs) = saved
        # seeds discovered inside the loop must exist before it
        for k in new_seed_keys:
            self.seed(k)
        heads, heads_at = {}, {}
        for n in changed:
            v0 = env0.get(n)
            h = self.var('loop:%s' % n, kinds1[n] if v0 is None or self.kinds.get(v0) == kinds1[n] else None)
            if v0 is not None:
                self.emit('alias', h, [v0])
                if v0 in self.vclass and classes1.get(n) is self.vclass[v0]:
                    self.vclass[h] = self.vclass[v0]
            heads[n] = h
            fr.env[n] = h
        for ns, kx in changed_at:
            v0 = at0.get(ns, {}).get(kx)
            h = self.var('loop:%s.%s' % (ns, kx), None)
            if v0 is not None:
                self.emit('alias', h, [v0])
                if v0 in self.vclass and classes1_at.get((ns, kx)) is self.vclass[v0]:
                    self.vclass[h] = self.vclass[v0]
            heads_at[(ns, kx)] = h
            self.selfattrs.setdefault(ns, {})[kx] = h
        envh, ath = dict(fr.env), self.snap_attrs()
        if fr.ret is None and any(True for _ in [0]):
            pass
        st, env2, at2 = self.branch(fr, body_f)
        for n, h in heads.items():
            v = env2.get(n)
            if v is not None and v != h:
                st.append(('alias', h, [v]))
        for (ns, kx), h in heads_at.items():
            v = at2.get(ns, {}).get(kx)
            if v is not None and v != h:
                st.append(('alias', h, [v]))
        # names bound only inside the body stay visible after the loop through their head variable
        fr.env, self.selfattrs = envh, ath
        for n in env2:
            if n not in fr.env:
                hv = self.var('loop:%s' % n, self.kinds.get(env2[n]))
                st.append(('alias', hv, [env2[n]]))
                fr.env[n] = hv
        for ns in at2:
            for kx in at2[ns]:
                if kx not in self.selfattrs.get(ns, {}):
                    hv = self.var('loop:%s.%s' % (ns, kx), None)
                    st.append(('alias', hv, [at2[ns][kx]]))
                    self.selfattrs.setdefault(ns, {})[kx] = hv
        self.emit('loop', st)

    def st_For(self, s, fr):
        it, ik = self.ev(s.iter, fr)
        scalar_iter = self.iter_scalar(s.iter, fr)

        def body():
            if it is None:
                self.assign_loopvar(s.target, None, 'scalar' if scalar_iter else None, fr, s.iter)
            else:
                self.assign_loopvar(s.target, it, None, fr, s.iter)
            self.body(s.body, fr)
        self.loop(fr, body)
        if s.orelse:
            self.body(s.orelse, fr)

    def assign_loopvar(self, t, it, k, fr, iter_expr):
        # enumerate(x): (index, item)
        if isinstance(iter_expr, ast.Call) and isinstance(iter_expr.func, ast.Name) and iter_expr.func.id == 'enumerate' \
                and isinstance(t, (ast.Tuple, ast.List)) and len(t.elts) == 2:
            self.assign(t.elts[0], None, 'scalar', fr)
            if it is None:
                self.assign(t.elts[1], None, None, fr)
            else:
                self.assign(t.elts[1], it, None, fr, mode='load')
            return
        if it is None:
            self.assign(t, None, k, fr)
        else:
            self.assign(t, it, None, fr, mode='load')

    def iter_scalar(self, e, fr):
        return isinstance(e, ast.Call) and isinstance(e.func, ast.Name) and e.func.id == 'range'

    def st_While(self, s, fr):
        def body():
            self.ev(s.test, fr)
            self.body(s.body, fr)
        self.loop(fr, body)
        if s.orelse:
            self.body(s.orelse, fr)

    def st_With(self, s, fr):
        for item in s.items:
            v, k = self.ev(item.context_expr, fr)
            if item.optional_vars is not None:
                self.assign(item.optional_vars, v, k, fr)
        self.body(s.body, fr)

    def st_Try(self, s, fr):
        env0, at0 = dict(fr.env), self.snap_attrs()
        self.body(s.body, fr)
        # a handler may run after any prefix of the body: names rebound by the body are joined with
        # their value before it
        env1 = dict(fr.env)
        for n in list(env1):
            if n in env0 and env0[n] != env1[n]:
                nv = self.var('phi:%s' % n, join_kind(self.kinds.get(env0[n]), self.kinds.get(env1[n])))
                self.emit('alias', nv, [env0[n], env1[n]])
                fr.env[n] = nv
        fs = []
        for h in s.handlers:
            def mk(h):
                def f():
                    if h.type is not None:
                        self.ev(h.type, fr)
                    if h.name:
                        fr.env[h.name] = self.bind_new('%d:%s' % (fr.depth, h.name), None, None)
                    self.body(h.body, fr)
                return f
            fs.append(mk(h))
        fs.append(lambda: self.body(s.orelse, fr))
        alts = self.alternatives(fr, fs)
        cur = alts[-1]
        for a in reversed(alts[:-1]):
            cur = [('if', a, cur)]
        self.cur.extend(cur)
        self.nstmts += 1
        if s.finalbody:
            self.body(s.finalbody, fr)

    # ---- expressions: ev returns (var|None, kind); None = a new / immutable value aliasing nothing
    def ev(self, e, fr):
        m = getattr(self, 'ex_' + type(e).__name__, None)
        if m is None:
            raise Unsupported('expression %s' % type(e).__name__)
        v, k = m(e, fr)
        if k == 'scalar':
            return None, 'scalar'        # immutable value: cannot be written, so what it aliases is irrelevant
        return v, k

    def ex_Constant(self, e, fr):
        return None, 'scalar'

    def ex_JoinedStr(self, e, fr):
        for v in e.values:
            if isinstance(v, ast.FormattedValue):
                self.ev(v.value, fr)
        return None, 'scalar'

    def ex_FormattedValue(self, e, fr):
        self.ev(e.value, fr)
        return None, 'scalar'

    def ex_Name(self, e, fr):
        if e.id in fr.env:
            v = fr.env[e.id]
            return v, self.kinds.get(v)
        if e.id in fr.local_funcs:
            return None, 'scalar'
        if fr.self_name is not None and e.id == fr.self_name:
            return self.self_object(fr), None
        r = fr.local_imports.get(e.id) or self.P.resolve(fr.modname, e.id)
        if r is None or r[0] in ('func', 'class', 'mod', 'ext'):
            return None, 'scalar'
        if r[0] == 'global':
            gv = self.P.modules[r[1]].global_values.get(r[2])
            if gv is not None and (self.const_kind(gv) == 'scalar' or self.is_namedtuple_type(gv)):
                return None, 'scalar'                 # module constant (number, string, tuple of those) or a namedtuple type: immutable
            v = self.seed('global:%s.%s' % (r[1], r[2]), None)
            return v, None
        return None, None

    def self_object(self, fr):
        """`self` used as a whole object: it reaches all its attribute values"""
        ns = fr.self_ns
        d = self.selfattrs.setdefault(ns, {})
        if '<object>' not in d:
            d['<object>'] = self.bind_new('%s<object>' % ns, None, None)
        o = d['<object>']
        ys = [v for kx, v in d.items() if kx != '<object>']
        if ys:
            self.emit('store', o, ys)
        return o

    def ex_Attribute(self, e, fr):
        if self.is_self(e.value, fr):
            d = self.selfattrs.setdefault(fr.self_ns, {})
            if e.attr not in d:
                # state owned by the object itself: not an argument of the call (see the report: limits)
                d[e.attr] = self.bind_new('%s.%s' % (fr.self_ns, e.attr), d.get('<object>'), None, 'load') if d.get('<object>') is not None \
                    else self.bind_new('%s.%s' % (fr.self_ns, e.attr), None, None)
                self.lazy.add(d[e.attr])
                ac = self.attr_class(fr.cls, e.attr) if fr.cls is not None else None
                if ac is not None:
                    self.vclass[d[e.attr]] = ac
                if fr.cls is not None and self.attr_kind(fr.cls, e.attr) == 'scalar':
                    self.kinds[d[e.attr]] = 'scalar'
            v = d[e.attr]
            return v, self.kinds.get(v)
        r = self.resolve_in(fr, e)
        if r is not None:
            if r[0] == 'global':
                return self.seed('global:%s.%s' % (r[1], r[2]), None), None
            return None, 'scalar'
        b, bk = self.ev(e.value, fr)
        if e.attr in self.T.SCALAR_ATTRS:
            return None, 'scalar'
        if b is None:
            return None, None
        if e.attr in self.T.VIEW_ATTRS:
            return self.bind_new('%d:view' % fr.depth, b, 'array', 'alias'), 'array'
        if b in self.vclass:
            if self.attr_kind(self.vclass[b], e.attr) == 'scalar':
                return None, 'scalar'
            nv = self.bind_new('%d:attr' % fr.depth, b, None, 'load')
            ac = self.attr_class(self.vclass[b], e.attr)
            if ac is not None:
                self.vclass[nv] = ac
            return nv, None
        return self.bind_new('%d:attr' % fr.depth, b, None, 'load'), None

    def ex_Subscript(self, e, fr):
        b, bk = self.ev(e.value, fr)
        self.ev(e.slice, fr)
        if isinstance(e.value, ast.Attribute) and e.value.attr == 'shape':
            return None, 'scalar'
        if b is None:
            return None, ('scalar' if bk == 'scalar' else None)
        if bk == 'array':
            return self.bind_new('%d:view' % fr.depth, b, 'array', 'alias'), 'array'
        return self.bind_new('%d:item' % fr.depth, b, None, 'load'), None

    def ex_Slice(self, e, fr):
        for x in (e.lower, e.upper, e.step):
            if x is not None:
                self.ev(x, fr)
        return None, 'scalar'

    def ex_Index(self, e, fr):      # py<3.9
        return self.ev(e.value, fr)

    def ex_Starred(self, e, fr):
        v, k = self.ev(e.value, fr)
        if v is None:
            return None, None
        return self.bind_new('%d:star' % fr.depth, v, None, 'load'), None

    def ex_BinOp(self, e, fr):
        a, ka = self.ev(e.left, fr)
        b, kb = self.ev(e.right, fr)
        if ka == 'scalar' and kb == 'scalar':
            return None, 'scalar'
        if isinstance(e.op, (ast.Add, ast.Mult)) and (ka == 'container' or kb == 'container'):
            # list concatenation / repetition: a new list holding the same items
            c = self.bind_new('%d:concat' % fr.depth, None, 'container')
            ys = [x for x in (a, b) if x is not None]
            if ys:
                self.emit('store', c, ys)
            return c, 'container'
        if ka == 'array' or kb == 'array':
            return None, 'array'
        if ka is None and kb is None and (a is not None or b is not None) and isinstance(e.op, ast.Add):
            # unknown operands: could be lists
            c = self.bind_new('%d:binop' % fr.depth, None, None)
            ys = [x for x in (a, b) if x is not None and self.kinds.get(x) != 'array']
            if ys:
                self.emit('store', c, ys)
            return c, None
        return None, None

    def ex_UnaryOp(self, e, fr):
        a, k = self.ev(e.operand, fr)
        if isinstance(e.op, ast.Not):
            return None, 'scalar'
        return None, k if k in ('scalar', 'array') else None

    def ex_Compare(self, e, fr):
        ks = [self.ev(e.left, fr)[1]] + [self.ev(c, fr)[1] for c in e.comparators]
        return None, 'scalar' if all(k == 'scalar' for k in ks) or any(isinstance(o, (ast.Is, ast.IsNot, ast.In, ast.NotIn)) for o in e.ops) else None

    def ex_BoolOp(self, e, fr):
        vs = [self.ev(v, fr) for v in e.values]
        ys = [v for v, _ in vs if v is not None]
        ks = [k for _, k in vs]
        k = ks[0] if all(x == ks[0] for x in ks) else None
        if not ys:
            return None, k
        nv = self.var('%d:boolop' % fr.depth, k)
        self.emit('alias', nv, ys)
        return nv, k

    def ex_IfExp(self, e, fr):
        self.ev(e.test, fr)
        a, ka = self.ev(e.body, fr)
        b, kb = self.ev(e.orelse, fr)
        ys = [v for v in (a, b) if v is not None]
        k = join_kind(ka, kb)
        if not ys:
            return None, k
        nv = self.var('%d:ifexp' % fr.depth, k)
        self.emit('alias', nv, ys)
        return nv, k

    def ex_NamedExpr(self, e, fr):
        v, k = self.ev(e.value, fr)
        self.assign(e.target, v, k, fr)
        return self.ev(e.target, fr)

    def ex_Lambda(self, e, fr):
        return None, 'scalar'

    def display(self, elts, fr, immutable=False):
        vs = [self.ev(x, fr) for x in elts]
        ys = [v for v, _ in vs if v is not None]
        if immutable and all(k == 'scalar' for _, k in vs):
            return None, 'scalar'
        c = self.bind_new('%d:display' % fr.depth, None, 'container')
        if ys:
            self.emit('store', c, ys)
        if immutable:
            self.tuple_elts[c] = vs
        return c, 'container'

    def ex_List(self, e, fr): return self.display(e.elts, fr)
    def ex_Set(self, e, fr): return self.display(e.elts, fr)
    def ex_Tuple(self, e, fr): return self.display(e.elts, fr, immutable=True)

    def ex_Dict(self, e, fr):
        return self.display([x for x in e.keys if x is not None] + list(e.values), fr)

    def comprehension(self, e, elts, fr):
        c = self.bind_new('%d:comprehension' % fr.depth, None, 'container')
        saved_env = dict(fr.env)

        def nest(gens):
            if not gens:
                ys = [v for v in (self.ev(x, fr)[0] for x in elts) if v is not None]
                if ys:
                    self.emit('store', c, ys)
                return
            g = gens[0]
            it, _ = self.ev(g.iter, fr)

            def body():
                self.assign_loopvar(g.target, it, 'scalar' if self.iter_scalar(g.iter, fr) else None, fr, g.iter)
                for cond in g.ifs:
                    self.ev(cond, fr)
                nest(gens[1:])
            self.loop(fr, body)
        nest(e.generators)
        fr.env = saved_env
        return c, 'container'

    def ex_ListComp(self, e, fr): return self.comprehension(e, [e.elt], fr)
    def ex_SetComp(self, e, fr): return self.comprehension(e, [e.elt], fr)
    def ex_GeneratorExp(self, e, fr): return self.comprehension(e, [e.elt], fr)
    def ex_DictComp(self, e, fr): return self.comprehension(e, [e.key, e.value], fr)

    # ---- calls
    @staticmethod
    def call_shape(e):
        """(number of positional arguments, ((keyword, literal source or None), ...)) of a call"""
        def lit(v):
            if isinstance(v, ast.Constant):
                return repr(v.value)
            if isinstance(v, ast.UnaryOp) and isinstance(v.op, ast.USub) and isinstance(v.operand, ast.Constant):
                return '-' + repr(v.operand.value)
            if isinstance(v, (ast.Tuple, ast.List)) and all(lit(x) is not None for x in v.elts):
                return ast.unparse(v)
            if isinstance(v, ast.Attribute):
                root = v
                while isinstance(root, ast.Attribute):
                    root = root.value
                if isinstance(root, ast.Name) and root.id in ('np', 'numpy', 'torch', 'math'):
                    return ast.unparse(v)
            return None
        return (sum(1 for a in e.args if not isinstance(a, ast.Starred)),
                tuple(sorted((kw.arg, lit(kw.value)) for kw in e.keywords if kw.arg is not None)))

    def ex_Call(self, e, fr):
        T = self.T
        args, kwargs, star = [], {}, []
        for a in e.args:
            if isinstance(a, ast.Starred):
                v, k = self.ev(a.value, fr)
                if v is not None:
                    star.append(self.bind_new('%d:star' % fr.depth, v, None, 'load'))
            else:
                args.append(self.ev(a, fr))
        for kw in e.keywords:
            v, k = self.ev(kw.value, fr)
            if kw.arg is None:
                if v is not None:
                    star.append(self.bind_new('%d:star' % fr.depth, v, None, 'load'))
            else:
                kwargs[kw.arg] = (v, k)
        allv = [v for v, _ in args if v is not None] + [v for v, _ in kwargs.values() if v is not None] + star
        f = e.func
        # out= : the named argument is written
        if 'out' in kwargs and kwargs['out'][0] is not None:
            self.emit('mut', kwargs['out'][0])
        inplace_kw = [kw for kw in e.keywords if kw.arg == 'inplace' and not (isinstance(kw.value, ast.Constant) and kw.value.value is False)]
        if inplace_kw and args and args[0][0] is not None and not (isinstance(f, ast.Attribute) and f.attr[:1].isupper()):
            self.emit('mut', args[0][0])
        # -- nested function defined in this body
        if isinstance(f, ast.Name) and f.id in fr.local_funcs and f.id not in fr.env:
            return self.inline(fr.local_funcs[f.id], fr.modname, None, None, args, kwargs, star, fr, closure=fr)
        # -- super().method(...)
        if isinstance(f, ast.Attribute) and isinstance(f.value, ast.Call) and isinstance(f.value.func, ast.Name) and f.value.func.id == 'super':
            if fr.cls is not None:
                for b in fr.cls.bases:
                    r = self.P.resolve_expr(fr.cls.modname, b)
                    if r and r[0] == 'class':
                        mth = self.find_method(r[1], f.attr)
                        if mth:
                            return self.inline(mth[1], mth[0].modname, mth[0], fr.self_ns, args, kwargs, star, fr)
            return None, None
        # -- self.method(...)
        if isinstance(f, ast.Attribute) and self.is_self(f.value, fr) and fr.cls is not None:
            mth = self.find_method(fr.cls, f.attr)
            if mth and f.attr not in self.selfattrs.get(fr.self_ns, {}):
                return self.inline(mth[1], mth[0].modname, mth[0], fr.self_ns, args, kwargs, star, fr)
            # self.<attribute>(...): the attribute holds a callable object (a module, a loss, a function)
            self.attr_class(fr.cls, f.attr)
            assigned = f.attr in self._attr_kinds.get((fr.cls.modname, fr.cls.name), {}) or f.attr in self.selfattrs.get(fr.self_ns, {})
            if assigned:
                cv, _ = self.ev(f, fr)
                if cv is not None and cv in self.vclass:
                    cm = self.find_method(self.vclass[cv], '__call__') or self.find_method(self.vclass[cv], 'forward')
                    if cm is not None:
                        return self.inline_on(cv, cm, args, kwargs, star, fr)
                return self.unresolved_call('.' + f.attr, cv, allv, fr)
        # -- statically resolvable names
        r = self.resolve_in(fr, f) if isinstance(f, (ast.Name, ast.Attribute)) else None
        if isinstance(f, ast.Name) and f.id in fr.env:
            r = None
        if r is not None:
            if r[0] == 'func':
                return self.inline(r[2], r[1], None, None, args, kwargs, star, fr)
            if r[0] == 'class':
                return self.construct(r[1], args, kwargs, star, fr)
            if r[0] == 'ext':
                return self.library_call(r[1], args, kwargs, allv, fr, e)
            if r[0] == 'global' and self.is_namedtuple_type(self.P.modules[r[1]].global_values.get(r[2])):
                # NT(a, b, c): a new immutable tuple holding its arguments
                c = self.bind_new('%d:namedtuple' % fr.depth, None, 'container')
                if allv:
                    self.emit('store', c, allv)
                if not kwargs and not star:
                    self.tuple_elts[c] = list(args)
                return c, 'container'
        if isinstance(f, ast.Name) and f.id not in fr.env:
            if r is None:
                return self.builtin_call(f.id, args, kwargs, allv, fr, e)
        # -- method call on a value / call of a callable value
        if isinstance(f, ast.Attribute):
            recv, rk = self.ev(f.value, fr)
            if recv is not None and recv in self.vclass:
                mth = self.find_method(self.vclass[recv], f.attr)
                if mth is not None:
                    return self.inline_on(recv, mth, args, kwargs, star, fr)
            return self.method_call(f.attr, recv, rk, args, kwargs, allv, fr, e)
        if isinstance(f, ast.Name) and f.id in fr.env and fr.env[f.id] in self.vclass:
            mth = self.find_method(self.vclass[fr.env[f.id]], '__call__') or self.find_method(self.vclass[fr.env[f.id]], 'forward')
            if mth is not None:
                return self.inline_on(fr.env[f.id], mth, args, kwargs, star, fr)
        cv, _ = self.ev(f, fr)
        return self.unresolved_call('<callable %s>' % (f.id if isinstance(f, ast.Name) else type(f).__name__), cv, allv, fr)

    def attr_class(self, cls, attr):
        """the odak class of self.<attr>, when every assignment `self.attr = ...` in the class (and its odak bases) is
        `None` or a constructor call of one odak class"""
        key = (cls.modname, cls.name)
        tab = self._attr_classes.get(key)
        if tab is None:
            tab = {}
            bad = set()
            akind = {}
            for fn in cls.methods.values():
                pk = self.param_kinds(fn)
                for n in ast.walk(fn):
                    if isinstance(n, ast.Assign):
                        for t in n.targets:
                            for tt in (t.elts if isinstance(t, (ast.Tuple, ast.List)) else [t]):
                                if isinstance(tt, ast.Attribute) and isinstance(tt.value, ast.Name) and tt.value.id == 'self':
                                    v = n.value
                                    k = None
                                    if not isinstance(t, (ast.Tuple, ast.List)):
                                        if self.const_kind(v) == 'scalar':
                                            k = 'scalar'
                                        elif isinstance(v, ast.Name) and pk.get(v.id) == 'scalar' and not self.rebound(fn, v.id):
                                            k = 'scalar'
                                    akind[tt.attr] = k if akind.get(tt.attr, k) == k else None
                    elif isinstance(n, (ast.AugAssign, ast.AnnAssign)) and isinstance(n.target, ast.Attribute):
                        akind[n.target.attr] = None
            self._attr_kinds[key] = akind
            for fn in cls.methods.values():
                for n in ast.walk(fn):
                    if isinstance(n, ast.Assign):
                        for t in n.targets:
                            for tt in (t.elts if isinstance(t, (ast.Tuple, ast.List)) else [t]):
                                if isinstance(tt, ast.Attribute) and isinstance(tt.value, ast.Name) and tt.value.id == 'self':
                                    v = n.value
                                    if isinstance(v, ast.Constant) and v.value is None and not isinstance(t, (ast.Tuple, ast.List)):
                                        continue
                                    c = None
                                    if isinstance(v, ast.Call) and isinstance(v.func, ast.Attribute) and v.func.attr in ('to', 'cuda', 'cpu') \
                                            and ast.dump(v.func.value) == ast.dump(tt).replace('Store()', 'Load()'):
                                        continue                      # self.a = self.a.to(device)
                                    if isinstance(v, ast.Call) and not isinstance(t, (ast.Tuple, ast.List)):
                                        r = self.P.resolve_expr(cls.modname, v.func)
                                        if r and r[0] == 'class':
                                            c = r[1]
                                    if c is None or (tt.attr in tab and tab[tt.attr] is not c):
                                        bad.add(tt.attr)
                                    else:
                                        tab[tt.attr] = c
                    elif isinstance(n, (ast.AugAssign, ast.AnnAssign)) and isinstance(n.target, ast.Attribute):
                        bad.add(n.target.attr)
            for b in bad:
                tab.pop(b, None)
            self._attr_classes[key] = tab
        return tab.get(attr)

    def attr_kind(self, cls, attr):
        self.attr_class(cls, attr)
        return self._attr_kinds.get((cls.modname, cls.name), {}).get(attr)

    def param_kinds(self, fn):
        a = fn.args
        pos = list(a.posonlyargs) + list(a.args)
        out = dict(doc_kinds(fn))
        defaults = dict(zip([p.arg for p in pos[len(pos) - len(a.defaults):]], a.defaults))
        for p, d in zip(a.kwonlyargs, a.kw_defaults):
            if d is not None:
                defaults[p.arg] = d
        for n, d in defaults.items():
            if self.const_kind(d) == 'scalar' and not (isinstance(d, ast.Constant) and d.value is None) and out.get(n) is None:
                out[n] = 'scalar'
        return {p.arg: out.get(p.arg) for p in pos + list(a.kwonlyargs)}

    def rebound(self, fn, name):
        for n in ast.walk(fn):
            if isinstance(n, ast.Name) and n.id == name and isinstance(n.ctx, ast.Store):
                return True
        return False

    def inline_on(self, recv, mth, args, kwargs, star, fr):
        """method of a receiver whose odak class is known: inlined with an attribute namespace of its own whose
        attributes are read from the receiver object; attributes it assigns are stored back into the receiver"""
        ns = 'recv%d<%s>' % (self.nvar, mth[0].name)
        self.selfattrs[ns] = {'<object>': recv}
        r = self.inline(mth[1], mth[0].modname, mth[0], ns, args, kwargs, star, fr)
        ys = [v for kx, v in self.selfattrs.get(ns, {}).items() if kx != '<object>' and self.kinds.get(v) != 'scalar' and v not in self.lazy]
        if ys:
            self.emit('store', recv, ys)
        return r

    @staticmethod
    def is_namedtuple_type(gv):
        return isinstance(gv, ast.Call) and (getattr(gv.func, 'id', None) == 'namedtuple' or getattr(gv.func, 'attr', None) in ('namedtuple', 'NamedTuple'))

    def apply_callable(self, fexpr, argvals, fr):
        """call of a function-valued expression (higher-order library functions): lambdas and resolvable odak
        functions are inlined; anything else is an unresolved callee"""
        if isinstance(fexpr, ast.Lambda):
            key = '<lambda:%d>' % fexpr.lineno
            if fr.depth >= MAX_DEPTH or key in fr.stack:
                return self.unresolved_call('<lambda>', None, [v for v, _ in argvals if v is not None], fr)
            nf = Frame(fr.modname, fr.cls, fr.self_ns, fr.fn, fr.depth + 1, fr.stack + (key,))
            nf.is_closure = True
            nf.env, nf.local_funcs, nf.local_imports, nf.self_name = dict(fr.env), dict(fr.local_funcs), dict(fr.local_imports), fr.self_name
            a = fexpr.args
            names = [p.arg for p in list(a.posonlyargs) + list(a.args)]
            for i, n in enumerate(names):
                v, k = argvals[i] if i < len(argvals) else (None, None)
                nf.env[n] = self.bind_new('%d:%s' % (nf.depth, n), v, k)
            return self.ev(fexpr.body, nf)
        allv = [v for v, _ in argvals if v is not None]
        if isinstance(fexpr, ast.Name) and fexpr.id in fr.local_funcs and fexpr.id not in fr.env:
            return self.inline(fr.local_funcs[fexpr.id], fr.modname, None, None, list(argvals), {}, [], fr, closure=fr)
        r = self.resolve_in(fr, fexpr) if isinstance(fexpr, (ast.Name, ast.Attribute)) and not (isinstance(fexpr, ast.Name) and fexpr.id in fr.env) else None
        if r is not None and r[0] == 'func':
            return self.inline(r[2], r[1], None, None, list(argvals), {}, [], fr)
        cv, _ = self.ev(fexpr, fr)
        return self.unresolved_call('<callable>', cv, allv, fr)

    def reduce_call(self, e, args, fr):
        """functools.reduce(f, iterable[, initial]):  acc = initial | first item;  for item: acc = f(acc, item)"""
        it = args[1][0]
        acc = self.var('%d:reduce' % fr.depth, None)
        if len(args) > 2:
            if args[2][0] is None:
                self.emit('fresh', acc)
            else:
                self.emit('alias', acc, [args[2][0]])
        elif it is None:
            self.emit('fresh', acc)
        else:
            self.emit('load', acc, [it])

        def body():
            item = self.bind_new('%d:item' % fr.depth, it, None, 'load') if it is not None else None
            v, k = self.apply_callable(e.args[0], [(acc, None), (item, None)], fr)
            if v is None:
                self.emit('fresh', acc)
            else:
                self.emit('alias', acc, [v])
        self.loop(fr, body)
        return acc, None

    def find_method(self, cls, name, seen=None):
        seen = seen or set()
        if cls.name in seen:
            return None
        seen.add(cls.name)
        if name in cls.methods:
            return cls, cls.methods[name]
        for b in cls.bases:
            r = self.P.resolve_expr(cls.modname, b)
            if r and r[0] == 'class':
                m = self.find_method(r[1], name, seen)
                if m:
                    return m
        return None

    def fresh_or(self, kind):
        return None, kind

    def container_of(self, ys, fr, label='container'):
        c = self.bind_new('%d:%s' % (fr.depth, label), None, 'container')
        if ys:
            self.emit('store', c, ys)
        return c, 'container'

    def builtin_call(self, name, args, kwargs, allv, fr, e):
        T = self.T
        if name in T.BUILTIN_SCALAR:
            return None, 'scalar'
        if name in T.BUILTIN_CONTAINER:
            if not allv:
                return self.container_of([], fr, name) if name in ('list', 'dict', 'set') else (None, None)
            return self.container_of(allv, fr, name)
        if name in T.BUILTIN_ALIAS:
            if not allv:
                ks = [k for _, k in args]
                return None, 'scalar' if ks and all(k == 'scalar' for k in ks) else None
            ks = [k for _, k in args]
            k = 'scalar' if all(x == 'scalar' for x in ks) else None
            nv = self.var('%d:%s' % (fr.depth, name), k)
            self.emit('load', nv, allv)
            return nv, k
        if name in T.BUILTIN_LOAD:
            if not allv:
                return None, None
            nv = self.var('%d:%s' % (fr.depth, name), None)
            self.emit('load', nv, allv)
            return nv, None
        if name in T.BUILTIN_FRESH:
            return None, None
        cands = self.P.by_name.get(name, [])
        if len(cands) == 1:
            # a name no import statement explains, but exactly one odak function has it (e.g. injected by a star import
            # the resolver does not follow): inline that one
            self.notes.add('resolved by unique name: %s -> %s' % (name, cands[0][0]))
            return self.inline(cands[0][1], cands[0][0], None, None, args, kwargs, [], fr)
        return self.unresolved_call(name, None, allv, fr)

    def alias_of(self, ys, fr, label, kind=None):
        nv = self.var('%d:%s' % (fr.depth, label), kind)
        self.emit('alias', nv, ys)
        return nv

    def library_call(self, dotted, args, kwargs, allv, fr, e):
        T = self.T
        dotted = T.normalise(dotted)
        npos, kwspec = self.call_shape(e)
        r = self.library_call_(dotted, args, kwargs, allv, fr, e, npos, kwspec)
        return r

    def copies_not(self, kwargs, e):
        """the call passes `copy=` with anything but the literal True"""
        for kw in e.keywords:
            if kw.arg == 'copy' and not (isinstance(kw.value, ast.Constant) and kw.value.value is True):
                return True
        return False

    def library_call_(self, dotted, args, kwargs, allv, fr, e, npos, kwspec):
        T = self.T
        rec = lambda cls: self.libcalls.add((dotted, npos, kwspec, cls))
        if dotted == 'functools.reduce' and len(e.args) >= 2 and not e.keywords and not any(isinstance(a, ast.Starred) for a in e.args):
            return self.reduce_call(e, args, fr)
        if dotted in T.LIB_WRITE_UNLESS_COPY and (self.copies_not(kwargs, e) or npos > 1):
            rec('write')
            if args and args[0][0] is not None:
                self.emit('mut', args[0][0])
            return (self.alias_of(allv, fr, dotted, 'array'), 'array') if allv else (None, 'array')
        if (dotted in T.LIB_FRESH or dotted in T.LIB_FRESH_UNLESS_COPY) and self.copies_not(kwargs, e):
            rec('alias')
            return (self.alias_of(allv, fr, dotted, 'array'), 'array') if allv else (None, 'array')
        if dotted in T.LIB_MUTATE:
            rec('write')
            for i in T.LIB_MUTATE[dotted]:
                if i < len(args) and args[i][0] is not None:
                    self.emit('mut', args[i][0])
            return (self.alias_of(allv, fr, dotted, None), None) if allv else (None, None)
        if dotted in T.LIB_SCALAR:
            rec('scalar')
            return None, 'scalar'
        if dotted in T.LIB_ALIAS:
            rec('alias')
            if not allv:
                return None, 'array'
            return self.alias_of(allv, fr, dotted, 'array'), 'array'
        if dotted in T.LIB_CONTAINER:
            rec('alias')
            return self.container_of(allv, fr, dotted)
        if dotted in T.LIB_LOAD:
            rec('alias')
            if not allv:
                return None, None
            nv = self.var('%d:%s' % (fr.depth, dotted), None)
            self.emit('load', nv, allv)
            return nv, None
        if dotted in T.LIB_FRESH or dotted in T.LIB_FRESH_UNLESS_COPY or any(dotted.startswith(p) for p in T.LIB_FRESH_PREFIXES):
            rec('fresh')
            return None, T.LIB_FRESH_KIND.get(dotted, 'array' if dotted.split('.')[0] in ('numpy', 'torch') else None)
        # a library function that is in no table: classified from an observation of the real function under this
        # call shape (harness/props/c20_probe.py), else conservatively: it may write its arguments and return parts of them
        cls = None
        last = dotted.rsplit('.', 1)[-1]
        if last.endswith('_') and not last.startswith('_'):
            cls = 'write'
        elif getattr(T, 'PROBE', None) is not None:
            cls = T.PROBE(dotted, npos, kwspec)
        self.probed[dotted] = cls or 'unprobed: treated as writing its arguments'
        self.unclassified.add(dotted)
        rec(cls or 'write')
        if cls == 'fresh':
            return None, 'array' if dotted.split('.')[0] in ('numpy', 'torch') else None
        if cls is None or cls == 'write':
            for v in allv:
                self.emit('mut', v)
        if not allv:
            return None, None
        nv = self.var('%d:%s' % (fr.depth, dotted), None)
        self.emit('load', nv, allv)
        return nv, None

    def method_call(self, name, recv, rk, args, kwargs, allv, fr, e):
        T = self.T
        argv = list(allv)
        npos, kwspec = self.call_shape(e)
        rec = lambda cls: self.methcalls.add((name, npos, kwspec, cls))
        inplace = name.endswith('_') and not name.startswith('_') and name not in T.METH_NOT_INPLACE
        if name in T.METH_SCALAR or (rk == 'scalar' and name not in T.METH_STORE and name not in T.METH_MUT and not inplace):
            rec('scalar' if name in T.METH_SCALAR else 'scalar-receiver')
            return None, 'scalar'
        if name in T.METH_STORE:
            rec('write')
            if recv is not None:
                self.emit('store', recv, argv)
            return None, None
        if name in T.METH_MUT or inplace:
            rec('write')
            if recv is not None:
                self.emit('mut', recv)
            return recv, rk
        if name in T.METH_DEEP_MUT:
            if recv is not None:
                tmp = self.bind_new('%d:%s' % (fr.depth, name), recv, None, 'load')
                self.emit('mut', tmp)
            return None, None
        if name in T.METH_FRESH:
            rec('alias' if (name == 'astype' and 'copy' in kwargs) or (name == 'copy' and rk != 'array') else 'fresh')
            if name == 'astype' and 'copy' in kwargs:
                return (self.alias_of([recv], fr, name, 'array'), 'array') if recv is not None else (None, 'array')
            if name == 'copy' and rk != 'array' and recv is not None:
                # shallow copy of a list / dict: a new container holding the same items
                return self.container_of([recv], fr, 'copy') if rk == 'container' else self.maybe_container([recv], fr, 'copy')
            return None, T.METH_FRESH_KIND.get(name, 'array' if rk == 'array' else None)
        if name in T.METH_ALIAS:
            rec('alias')
            k = (rk or 'array') if name in T.METH_ARRAY_ONLY else rk
            if recv is None:
                return None, k
            return self.alias_of([recv], fr, name, k), k
        if name in T.METH_LOAD:
            rec('write' if name in T.METH_LOAD_MUT or name == 'setdefault' else 'alias')
            ys = [v for v in [recv] if v is not None]
            if name in T.METH_LOAD_MUT and recv is not None:
                self.emit('mut', recv)
            if name in ('get', 'setdefault', 'pop'):
                ys += argv                                   # the default value may be returned
                if name == 'setdefault' and recv is not None:
                    self.emit('store', recv, argv)
            if not ys:
                return None, None
            nv = self.var('%d:%s' % (fr.depth, name), None)
            self.emit('load', nv, ys)
            return nv, None
        return self.unresolved_call('.' + name, recv, argv, fr)

    def maybe_container(self, ys, fr, label):
        c = self.bind_new('%d:%s' % (fr.depth, label), None, None)
        self.emit('store', c, ys)
        return c, None

    def unresolved_call(self, name, recv, argv, fr):
        """a callee that cannot be resolved statically (dynamic dispatch, callbacks, nn.Module.__call__).
        Policy (compositional): every odak function is checked against its own parameters, so a callee
        that is an odak function leaves its arguments alone unless its NAME is one of the functions the
        checker rejects (tables: MUTATING_NAMES), in which case the arguments are treated as written.
        The result may be, or may refer to, any argument or the receiver."""
        self.unresolved.add(name)
        base = name.lstrip('.')
        ys = ([recv] if recv is not None and not (name.startswith('.') and base in self.T.MODULE_CALL_ATTRS) else []) + list(argv)
        if base in self.T.MUTATING_NAMES:
            for v in argv:
                if self.kinds.get(v) != 'scalar':
                    self.emit('mut', v)
                    tmp = self.bind_new('%d:part' % fr.depth, v, None, 'load')
                    self.emit('mut', tmp)
        if not ys:
            return None, None
        nv = self.var('%d:call%s' % (fr.depth, name), None)
        self.emit('load', nv, ys)
        return nv, None

    def construct(self, cls, args, kwargs, star, fr):
        """ClassName(...): a new object; __init__ is inlined with a new attribute namespace"""
        allv = [v for v, _ in args if v is not None] + [v for v, _ in kwargs.values() if v is not None] + star
        init = self.find_method(cls, '__init__')
        ns = 'obj%d<%s>' % (self.nvar, cls.name)
        if init is not None and fr.depth < MAX_DEPTH and self.nstmts < MAX_STMTS and ('%s.%s' % (cls.name, '__init__')) not in fr.stack:
            self.inline(init[1], init[0].modname, init[0], ns, args, kwargs, star, fr)
            o = self.bind_new(ns, None, None)
            ys = [v for kx, v in self.selfattrs.get(ns, {}).items()]
            if ys:
                self.emit('store', o, ys)
            self.vclass[o] = cls
            return o, None
        o = self.bind_new(ns, None, None)
        if allv:
            self.emit('store', o, allv)
        self.vclass[o] = cls
        return o, None

    def inline(self, fn, modname, cls, self_ns, args, kwargs, star, fr, closure=None):
        key = '%s.%s' % (cls.name, fn.name) if cls is not None else '%s.%s' % (modname, fn.name)
        allv = [v for v, _ in args if v is not None] + [v for v, _ in kwargs.values() if v is not None] + star
        if fr.depth >= MAX_DEPTH or key in fr.stack or self.nstmts > MAX_STMTS or star:
            self.notes.add('not inlined: %s' % key)
            if is_private_helper(fn, cls):
                # a private helper is checked only where it is called: when it cannot be inlined (recursion, depth, star
                # arguments) it is taken to write everything it is given
                self.notes.add('private helper not inlined, treated as writing its arguments: %s' % key)
                for v in allv:
                    self.emit('mut', v)
                    self.emit('mut', self.bind_new('%d:part' % fr.depth, v, None, 'load'))
            return self.unresolved_call(fn.name, None, allv, fr)
        nf = Frame(modname, cls, self_ns, fn, fr.depth + 1, fr.stack + (key,))
        if closure is not None:
            nf.is_closure = True
            nf.env = dict(closure.env)
            nf.local_funcs = dict(closure.local_funcs)
            nf.local_imports = dict(closure.local_imports)
            nf.self_name, nf.self_ns, nf.cls = closure.self_name, closure.self_ns, closure.cls
        self.enter_params(nf, fn, args, kwargs)
        try:
            self.body(fn.body, nf)
        except Unsupported as ex:
            self.notes.add('callee %s partly translated: %s' % (key, ex))
            return self.unresolved_call(fn.name, None, allv, fr)
        if nf.ret is None:
            return None, 'scalar'
        if nf.ret_elts:
            self.tuple_elts[nf.ret] = [(rv, self.kinds.get(rv)) for rv in nf.ret_elts]
        return nf.ret, self.kinds.get(nf.ret)


# ------------------------------------------------------------------------------------------ output
def count(prog):
    n = 0
    for s in prog:
        n += 1
        if s[0] == 'if':
            n += count(s[1]) + count(s[2])
        elif s[0] == 'loop':
            n += count(s[1])
    return n


def coq_stmt(s):
    k = s[0]
    if k == 'fresh':
        return 'SFresh %d' % s[1]
    if k == 'mut':
        return 'SMut %d' % s[1]
    if k in ('alias', 'load', 'store'):
        return '%s %d [%s]' % ({'alias': 'SAlias', 'load': 'SLoad', 'store': 'SStore'}[k], s[1], '; '.join('%d' % y for y in s[2]))
    if k == 'if':
        return 'SIf (%s) (%s)' % (coq_block(s[1]), coq_block(s[2]))
    if k == 'loop':
        return 'SLoop (%s)' % coq_block(s[1])
    raise ValueError(k)


def coq_block(b):
    if not b:
        return 'SSkip'
    return 'seq [%s]' % '; '.join(coq_stmt(s) for s in b)


def mutated_vars(prog, out=None):
    out = [] if out is None else out
    for s in prog:
        if s[0] in ('mut', 'store'):
            out.append(s[1])
        elif s[0] == 'if':
            mutated_vars(s[1], out); mutated_vars(s[2], out)
        elif s[0] == 'loop':
            mutated_vars(s[1], out)
    return out


# taint inference (least sets closed under the rules the Coq checker `ok` validates) and the reference verdict
def flat(prog, out=None):
    out = [] if out is None else out
    for s in prog:
        if s[0] == 'if':
            flat(s[1], out); flat(s[2], out)
        elif s[0] == 'loop':
            flat(s[1], out)
        else:
            out.append(s)
    return out


def py_infer(params, prog):
    stm = flat(prog)
    own, tr = set(params), set(params)
    # reach: union of the connected components (over alias / load / store edges) that contain a seed
    parent = {}

    def find(x):
        while parent.get(x, x) != x:
            parent[x] = parent.get(parent[x], parent[x])
            x = parent[x]
        return x
    for s in stm:
        if s[0] in ('alias', 'load', 'store'):
            a = find(s[1])
            for y in s[2]:
                b = find(y)
                if a != b:
                    parent[b] = a
    roots = {find(p) for p in params}
    for s in stm:
        if s[0] in ('alias', 'load', 'store'):
            for v in [s[1]] + list(s[2]):
                if find(v) in roots:
                    tr.add(v)
    changed = True
    while changed:
        changed = False
        for s in stm:
            if s[1] in own:
                continue
            if (s[0] == 'alias' and any(y in own for y in s[2])) or (s[0] == 'load' and any(y in tr for y in s[2])):
                own.add(s[1]); tr.add(s[1]); changed = True
    return sorted(own), sorted(tr)


def py_check(params, prog):
    own, tr = py_infer(params, prog)
    own = set(own)
    bad = [s[1] for s in flat(prog) if s[0] in ('mut', 'store') and s[1] in own]
    return (not bad), bad


def coq_list(xs):
    return '[' + '; '.join('%d' % x for x in xs) + ']'


def gen_files(res, nparts=8):
    """Coq text: `nparts` files GenC20_k defining the functions, and the master GenC20 collecting them"""
    head = 'From Coq Require Import List NArith.\nFrom OdakV Require Import C20.Model.\nImport ListNotations.\nLocal Open Scope N_scope.\n'
    order = sorted(range(len(res)), key=lambda i: -res[i]['nstmts'])
    buckets = [[] for _ in range(nparts)]
    load = [0] * nparts
    for i in order:
        k = load.index(min(load))
        buckets[k].append(i)
        load[k] += res[i]['nstmts'] + 20
    parts = []
    for k, b in enumerate(buckets):
        lines = [head]
        for i in sorted(b):
            r = res[i]
            own, tr = py_infer(r['params'], r['prog'])
            lines.append('(* %s  (%s:%d) *)' % (r['name'], r['file'], r['line']))
            lines.append('Definition f_%d : fn := {| f_id := %d; f_params := %s; f_own := %s; f_reach := %s;\n  f_body := %s |}.'
                         % (i, i, coq_list(r['params']), coq_list(own), coq_list(tr), coq_block(r['prog'])))
        lines.append('Definition part_%d : list fn := [%s].' % (k, '; '.join('f_%d' % i for i in sorted(b))))
        parts.append(('GenC20_%d' % k, '\n'.join(lines) + '\n'))
    master = head + ''.join('From Run Require Import GenC20_%d.\n' % k for k in range(nparts))
    master += 'Definition all_fns : list fn := %s.\n' % ' ++ '.join('part_%d' % k for k in range(nparts))
    return parts, master


def translate_all(repo, tables):
    P = Program(repo)
    T = Translator(P, tables)
    out = []
    for qual, modname, cls, fn in P.functions():
        try:
            r = T.translate(qual, modname, cls, fn)
            r['error'] = None
        except Unsupported as ex:
            r = {'name': qual, 'params': [], 'prog': [], 'names': {}, 'nvars': 0, 'unresolved': [], 'unclassified': [],
                 'notes': [], 'nstmts': 0, 'error': str(ex), 'libcalls': [], 'methcalls': [], 'probed': {}}
        except RecursionError:
            r = {'name': qual, 'params': [], 'prog': [], 'names': {}, 'nvars': 0, 'unresolved': [], 'unclassified': [],
                 'notes': [], 'nstmts': 0, 'error': 'recursion', 'libcalls': [], 'methcalls': [], 'probed': {}}
        r['file'] = P.modules[modname].path
        r['private'] = is_private_helper(fn, cls)
        r['line'] = fn.lineno
        out.append(r)
    return out
