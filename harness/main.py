"""Entry point: ./check Cxx [--tier quick|thorough] [--replay path]"""
import argparse, importlib, json, os, sys, traceback
sys.path.insert(0, os.path.dirname(os.path.dirname(os.path.abspath(__file__))))
from harness import common


def main():
    import logging
    logging.disable(logging.WARNING)          # odak logs every kernel request at WARNING level
    ap = argparse.ArgumentParser()
    ap.add_argument('prop')
    ap.add_argument('--tier', default=None)
    ap.add_argument('--replay', default=None)
    a = ap.parse_args()
    tier = a.tier or os.environ.get('VERIF_TIER') or 'quick'          # the command line (MANIFEST quick_cmd / thorough_cmd) wins over the environment
    if tier not in ('quick', 'thorough'):
        tier = 'quick'
    try:
        seed = int(os.environ.get('VERIF_SEED') or '20260930')
    except ValueError:
        import zlib
        seed = zlib.crc32(os.environ['VERIF_SEED'].encode())          # any string is a seed

    mod = importlib.import_module('harness.props.%s' % a.prop.lower())
    ctx = common.Ctx(a.prop, tier, seed)
    if a.replay:
        rec = json.load(open(a.replay))
        rc = mod.replay(ctx, rec)
        sys.exit(rc)
    try:
        mod.run(ctx)
        rc = ctx.finish(getattr(mod, 'search', None))
    except Exception:
        # an internal error of the machinery is reported as a broken check, never as "held"
        traceback.print_exc()
        ctx.obligation('harness:internal-error', False, traceback.format_exc())
        rc = ctx.finish(None)
    sys.exit(rc)


if __name__ == '__main__':
    main()
