"""Shared machinery for the odak property checks (see DESIGN.md, section 2).

A check is `harness/props/cXX.py` exposing `run(ctx)`.  It uses a `Ctx` to
  * run the grep gate and make sure the hand-written Coq theories are built,
  * ask Coq for `Print Assumptions` of every property theorem (obligations),
  * compile files generated from /repo on this run (translator output, tie lemmas,
    correspondence case files evaluated by `vm_compute`),
  * count cases, record samples, report violations / known findings,
  * write evidence/<id>.json and replays/<id>/*.json and set the exit status.
"""
import fcntl, fractions, hashlib, json, math, os, random, re, shutil, subprocess, sys, time
from concurrent.futures import ThreadPoolExecutor

VERIF = os.path.dirname(os.path.dirname(os.path.abspath(__file__)))
REPO = os.environ.get('ODAK_REPO', '/repo')
COQ = os.path.join(VERIF, 'coq')
THEORIES = os.path.join(COQ, 'theories')
NCPU = int(os.environ.get('VERIF_JOBS', '16'))

# Axioms that the Coq standard library (or an installed library) itself declares and that
# DESIGN.md names in the trusted base.  A property theorem depending on anything else is not
# accepted as discharged.
ALLOWED_AXIOM_PREFIXES = (
    # Reals
    'ClassicalDedekindReals.sig_forall_dec', 'ClassicalDedekindReals.sig_not_dec',
    'FunctionalExtensionality.functional_extensionality_dep', 'functional_extensionality_dep',
    # classical logic / equality axioms of the standard library (reached through Coquelicot, Interval, Flocq, Program)
    'Classical_Prop.classic', 'Eqdep.Eq_rect_eq.eq_rect_eq', 'JMeq.JMeq_eq',
    'ProofIrrelevance.proof_irrelevance', 'ClassicalEpsilon.constructive_indefinite_description',
    'PropExtensionality.propositional_extensionality',
    # primitive integers / floats and their specification axioms (stdlib; used by Interval and the float models)
    'Uint63.', 'PrimInt63.', 'PrimFloat.', 'FloatAxioms.', 'FloatOps.', 'Sint63.', 'PArray.', 'Uint63Axioms.', 'CarryType.',
)
GATE_RE = re.compile(r'\b(Admitted|admit|Axiom|Axioms|Parameter|Parameters|Conjecture|Conjectures|'
                     r'Unset\s+Guard|bypass_check|type-in-type|impredicative-set|Admit\s+Obligations)\b|'
                     r'^\s*(Variable|Variables|Hypothesis|Hypotheses)\b')


def sh(cmd, timeout=600, cwd=None, env=None, inp=None):
    """Run a command (list or shell string); returns (rc, output).  rc=124 on timeout."""
    shell = isinstance(cmd, str)
    try:
        p = subprocess.run(cmd, shell=shell, cwd=cwd, env=env, input=inp, timeout=timeout,
                           stdout=subprocess.PIPE, stderr=subprocess.STDOUT, text=True)
        return p.returncode, p.stdout
    except subprocess.TimeoutExpired as e:
        out = e.stdout.decode() if isinstance(e.stdout, bytes) else (e.stdout or '')
        return 124, out + '\n[timeout after %ss]' % timeout


# ---------------------------------------------------------------- exact literals for Coq
def frac(x):
    """Exact rational value of a Python int/float/Fraction (floats are dyadic rationals)."""
    if isinstance(x, fractions.Fraction):
        return x
    if isinstance(x, bool):
        return fractions.Fraction(int(x))
    if isinstance(x, int):
        return fractions.Fraction(x)
    x = float(x)
    if not math.isfinite(x):
        raise ValueError('non-finite value has no rational literal: %r' % x)
    return fractions.Fraction(x)


def zlit(n):
    n = int(n)
    return '%d' % n if n >= 0 else '(%d)' % n


def qlit(x):
    f = frac(x)
    return '(%s # %d)' % (zlit(f.numerator), f.denominator)


def blit(b):
    return 'true' if b else 'false'


def listlit(items):
    return '[' + '; '.join(items) + ']'


def strlit(s):
    return '"' + s.replace('"', '""') + '"'


def hexf(x):
    return float(x).hex()


# ---------------------------------------------------------------- the context
class Ctx:
    def __init__(self, prop, tier, seed, level='proof'):
        self.prop, self.tier, self.seed, self.level = prop, tier, seed, level
        self.t0 = time.time()
        self.rng = random.Random(seed)
        self.build = os.path.join(VERIF, 'build', prop)
        # one run per property at a time (the build directory is per property): held until the process exits
        os.makedirs(os.path.join(VERIF, 'build'), exist_ok=True)
        self._runlock = open(os.path.join(VERIF, 'build', '.run_%s.lock' % prop), 'w')
        fcntl.flock(self._runlock, fcntl.LOCK_EX)
        self.t0 = time.time()
        shutil.rmtree(self.build, ignore_errors=True)
        os.makedirs(self.build, exist_ok=True)
        self.obligations = []          # (name, ok, detail)
        self.axioms = set()
        self.trusted = []
        self.assumptions = []
        self.evaluations = 0
        self.keys = set()
        self.dist = {}
        self.samples = []
        self.traces = 0
        self.programs = 0
        self.exhaustive = None
        self.rule = ''
        self.extra = {}
        self.viol = []                 # concrete violations not covered by an open finding
        self.known_hits = {}           # finding id -> text
        self.log_lines = []
        self.findings = [f for f in load_findings() if f.get('property') == prop]
        self.thorough = tier == 'thorough'

    # ------------------------------------------------------------ logging
    def log(self, *a):
        s = ' '.join(str(x) for x in a)
        self.log_lines.append(s)
        print('[%s %6.1fs] %s' % (self.prop, time.time() - self.t0, s), flush=True)

    # ------------------------------------------------------------ obligations
    def obligation(self, name, ok, detail=''):
        self.obligations.append((name, bool(ok), detail))
        if not ok:
            self.log('OBLIGATION FAILED: %s %s' % (name, detail[-600:] if detail else ''))
        return bool(ok)

    def broken(self):
        return [(n, d) for (n, ok, d) in self.obligations if not ok]

    def gate(self, dirs=None):
        """No Admitted/Axiom/... in the part of the development this property rests on (comments stripped):
        theories/Base, theories/Wave, the property's own directories (`dirs`, default [prop]) and the tie files
        whose name starts with one of those names.  (Every property's check gates its own files; together the
        checks cover all of coq/; tools/final_gate.py scans everything at once.)"""
        dirs = ['Base', 'Wave'] + list(dirs or [self.prop])
        bad = []
        for root, _, files in os.walk(COQ):
            rel = os.path.relpath(root, COQ).split(os.sep)
            for f in files:
                if not f.endswith('.v'):
                    continue
                if rel[0] == 'theories':
                    if len(rel) < 2 or rel[1] not in dirs:
                        continue
                elif rel[0] == 'tie':
                    if not any(f.startswith(d + '_') for d in dirs):
                        continue
                else:
                    continue
                p = os.path.join(root, f)
                bad += gate_scan(open(p).read(), os.path.relpath(p, VERIF))
        for pf in ['_CoqProject'] + ['_CoqProject.%s' % d for d in dirs]:
            pp = os.path.join(COQ, pf)
            if os.path.exists(pp) and re.search(r'type-in-type|impredicative-set|-vos|-noinit|bypass', open(pp).read()):
                bad.append('%s: forbidden flag' % pf)
        return self.obligation('gate:no-admitted-no-axioms(%s)' % ','.join(dirs), not bad, '; '.join(bad[:10]))

    def ensure_theories(self, targets=None, timeout=3000, extra_dirs=()):
        """(Re)build the hand-written development needed by this property; full .vo builds under a file
        lock.  Only theories/Base, theories/Wave, the directories of the targets and extra_dirs are put
        in the per-property project, so unrelated files cannot break this build."""
        os.makedirs(os.path.join(VERIF, 'build'), exist_ok=True)
        lock = open(os.path.join(VERIF, 'build', '.coq.lock'), 'w')
        fcntl.flock(lock, fcntl.LOCK_EX)
        try:
            dirs = []
            for t in (targets or []):
                parts = t.split('/')
                if len(parts) >= 3 and parts[1] not in dirs:
                    dirs.append(parts[1])
            dirs += [d for d in extra_dirs if d not in dirs]
            if not dirs:
                dirs = [self.prop]
            tag = dirs[0]
            rc, out = sh(['./mkproject.sh'] + dirs, cwd=COQ, timeout=120)
            if rc != 0:
                return self.obligation('coq:makefile', False, out)
            tg = ' '.join(targets) if targets else ''
            rc, out = sh('timeout %d make -f Makefile.%s -j%d %s 2>&1 | tail -40' % (timeout, tag, NCPU, tg), cwd=COQ, timeout=timeout + 30)
            ok = rc == 0 and 'Error' not in out
            return self.obligation('coq:build-theories', ok, out)
        finally:
            fcntl.flock(lock, fcntl.LOCK_UN)
            lock.close()

    def coq_args(self):
        return ['-Q', THEORIES, 'OdakV', '-Q', self.build, 'Run']

    def coqc(self, name, text, timeout=300):
        """Compile a generated file in the per-run build directory."""
        path = os.path.join(self.build, name + '.v')
        with open(path, 'w') as f:
            f.write(text)
        rc, out = sh(['timeout', str(timeout), 'coqc'] + self.coq_args() + [path], timeout=timeout + 20, cwd=self.build)
        if rc == 124:
            # a time-out says something about the machine's load, not about the proof: one more attempt with three times the budget
            self.log('coqc %s timed out after %ds; retrying once with %ds' % (name, timeout, 3 * timeout))
            rc, out = sh(['timeout', str(3 * timeout), 'coqc'] + self.coq_args() + [path], timeout=3 * timeout + 20, cwd=self.build)
        return rc == 0, out

    def coqc_many(self, files, timeout=300):
        """files: list of (name, text); compiled in parallel.  Returns list of (ok, out)."""
        with ThreadPoolExecutor(max_workers=NCPU) as ex:
            return list(ex.map(lambda nt: self.coqc(nt[0], nt[1], timeout), files))

    def theorems(self, module, names, allow_extra_axioms=()):
        """Each property theorem is an obligation: it must exist in the compiled module and
        depend only on axioms of the standard library that the trusted base names."""
        lines = ['Require Import %s.' % module]
        for n in names:
            lines.append('Goal True. idtac "@@THM %s". exact I. Qed.' % n)
            lines.append('Print Assumptions %s.' % n)
        lines.append('Goal True. idtac "@@END". exact I. Qed.')
        ok, out = self.coqc('Assumptions_' + module.replace('.', '_'), '\n'.join(lines) + '\n', timeout=600)
        blocks = re.split(r'@@THM (\S+)', out)
        seen = {}
        for i in range(1, len(blocks) - 1, 2):
            seen[blocks[i]] = blocks[i + 1].split('@@END')[0]
        for n in names:
            b = seen.get(n)
            if not ok or b is None:
                self.obligation('theorem:%s.%s' % (module, n), False, out[-800:])
                continue
            if 'Closed under the global context' in b:
                self.obligation('theorem:%s.%s' % (module, n), True)
                continue
            ax = [a for a in re.findall(r'^([A-Za-z_][\w.\']*)\s*:', b, flags=re.M) if a != 'Axioms']
            bad = [a for a in ax if not a.startswith(ALLOWED_AXIOM_PREFIXES) and a not in allow_extra_axioms]
            self.axioms.update(ax)
            self.obligation('theorem:%s.%s' % (module, n), not bad and bool(ax), 'non-stdlib axioms: %s' % bad if bad else '')
        if self.thorough and ok:
            self.coqchk(module)
        return ok

    def coqchk(self, module, budget=420):
        """thorough tier: the compiled property module is re-checked by Coq's independent checker.  First the whole closure
        (our files AND every library they load); its context summary must list only standard-library axioms and no type-in-type,
        unsafe fixpoint or assumed positivity.  Closures that contain Interval / Flocq take the checker more than an hour: when the
        budget runs out, our own modules (Base, Wave, the property's directory) are checked with the installed libraries admitted
        (-norec); the axioms of the theorems themselves are judged by Print Assumptions either way."""
        def summary(out):
            summ = out[out.find('CONTEXT SUMMARY'):] if 'CONTEXT SUMMARY' in out else ''
            sect, cur = {}, None
            for line in summ.split('\n'):
                m = re.match(r'^\* ([^:]+):\s*(.*)$', line.strip())
                if m:
                    cur = m.group(1); sect[cur] = [m.group(2)] if m.group(2) else []
                elif cur and line.strip():
                    sect[cur].append(line.strip())
            unsafe = {k: v for k, v in sect.items() if k != 'Axioms' and not k.startswith('Theory') and v and v != ['<none>']}
            return bool(summ), [a for a in sect.get('Axioms', []) if a != '<none>'], unsafe
        rc, out = sh(['timeout', str(budget), 'coqchk', '-silent', '-o', '-Q', THEORIES, 'OdakV', module], timeout=budget + 30, cwd=COQ)
        if rc != 124:
            has, ax, unsafe = summary(out)
            short = [a[4:] if a.startswith('Coq.') else a for a in ax]
            def allowed(a):
                return any(a.endswith(pref) or ('.' + pref) in ('.' + a) for pref in ALLOWED_AXIOM_PREFIXES) or \
                       any(a.startswith(root) for root in ('Numbers.Cyclic.Int63.', 'Floats.', 'Array.'))
            bad = [a for a in short if not allowed(a)]
            self.axioms.update(short)
            return self.obligation('coqchk:%s(independent re-check of the whole compiled closure; %d stdlib axioms)' % (module, len(ax)),
                                   rc == 0 and has and not bad and not unsafe, ('non-stdlib axioms: %s; ' % bad if bad else '') + ('unsafe: %s; ' % unsafe if unsafe else '') + out[-600:])
        own = []
        for d in ('Base', 'Wave', module.split('.')[1]):
            for f in sorted(os.listdir(os.path.join(THEORIES, d))) if os.path.isdir(os.path.join(THEORIES, d)) else []:
                if f.endswith('.vo'): own += ['-norec', 'OdakV.%s.%s' % (d, f[:-3])]
        rc, out = sh(['timeout', '1200', 'coqchk', '-silent', '-o', '-Q', THEORIES, 'OdakV'] + own, timeout=1230, cwd=COQ)
        has, ax, unsafe = summary(out)
        self.log('coqchk %s: the whole closure did not finish within %d s; own modules re-checked with the installed libraries admitted' % (module, budget))
        return self.obligation('coqchk-own-modules:%s(%d modules of Base, Wave and the property re-checked; installed libraries admitted because their re-check exceeds %d s)' % (module, len(own) // 2, budget),
                               rc == 0 and has and not unsafe, ('unsafe: %s; ' % unsafe if unsafe else '') + out[-600:])

    def compile_tie(self, gen_name, gen_text, stages, timeout=600):
        """B1: compile the freshly traced definitions, then the committed tie files (coq/tie/*.v) stage
        by stage (files of one stage in parallel).  Every file is an obligation; axioms printed by
        `Print Assumptions` inside them are collected and checked against the allowed list."""
        ok, out = self.coqc(gen_name, gen_text, timeout)
        self.obligation('translator-output-compiles:%s' % gen_name, ok, out[-1500:])
        if not ok:
            for st in stages:
                for f in st:
                    self.obligation('tie:%s' % f, False, 'not attempted: generated definitions do not compile')
            return False
        allok = True
        for st in stages:
            files = [(f, open(os.path.join(COQ, 'tie', f + '.v')).read()) for f in st]
            res = self.coqc_many(files, timeout) if allok else [(False, 'not attempted: an earlier tie stage failed')] * len(files)
            for (f, _), (ok, out) in zip(files, res):
                self.obligation('tie:%s' % f, ok, out[-2500:])
                allok = allok and ok
                if ok and 'Axioms:' in out:
                    ax = re.findall(r'^([A-Za-z_][\w.\']*)\s*$|^([A-Za-z_][\w.\']*)\s*:', out, flags=re.M)
                    ax = [a or b for a, b in ax if (a or b) not in ('Axioms',) and '.' in (a or b)]
                    bad = [a for a in ax if not a.startswith(ALLOWED_AXIOM_PREFIXES)]
                    self.axioms.update(a for a in ax if a.startswith(ALLOWED_AXIOM_PREFIXES))
                    if bad:
                        self.obligation('tie-axioms:%s' % f, False, 'non-stdlib axioms: %s' % bad)
        return allok

    # ------------------------------------------------------------ evaluating models in Coq
    def coq_eval(self, preamble, terms, label='cases', chunk=250, timeout=600):
        """Evaluate Coq terms by vm_compute (in parallel files); returns one whitespace-normalised
        string per term, or None for the terms of a file that did not compile."""
        files = []
        for k in range(0, len(terms), chunk):
            body = ['Set Printing Width 1000000.', 'Set Printing Depth 1000000.', preamble]
            for t in terms[k:k + chunk]:
                body.append('Eval vm_compute in (%s).' % t)
            files.append(('%s_%d' % (label, k // chunk), '\n'.join(body) + '\n'))
        res = self.coqc_many(files, timeout)
        out = []
        allok = True
        for (name, _), (ok, o), k in zip(files, res, range(0, len(terms), chunk)):
            n = len(terms[k:k + chunk])
            vals = parse_evals(o) if ok else []
            if not ok or len(vals) != n:
                allok = False
                self.obligation('coq-eval:%s' % name, False, o[-1500:])
                out += [None] * n
            else:
                out += vals
        if allok:
            self.obligation('coq-eval:%s(%d files)' % (label, len(files)), True)
        return out

    # ------------------------------------------------------------ coverage accounting
    def case(self, category, key=None, nontrivial=True, n=1):
        self.evaluations += n
        self.dist[category] = self.dist.get(category, 0) + n
        if nontrivial and key is not None:
            self.keys.add(hashlib.sha1(repr((category, key)).encode()).hexdigest())

    def sample(self, obj, limit=6):
        if len(self.samples) < limit:
            self.samples.append(obj)

    # ------------------------------------------------------------ violations and findings
    def violation(self, function, clause, inp, expected=None, observed=None, broken=None):
        rec = {'property': self.prop, 'function': function, 'clause': clause, 'input': inp,
               'expected': expected, 'observed': observed, 'broken': broken,
               'seed': self.seed, 'tier': self.tier}
        for f in self.findings:
            if f.get('status') == 'open' and finding_matches(f, rec):
                if f['id'] not in self.known_hits:
                    self.known_hits[f['id']] = f['what']
                return 'known'
        if len(self.viol) < 50:
            self.viol.append(rec)
        return 'violation'

    def finish(self, search=None):
        """Decide the verdict, write evidence and replays, print the protocol lines."""
        broken = self.broken()
        if broken and not self.viol and search is not None:
            self.log('obligation(s) broken without a concrete failing input; searching the implementation')
            try:
                search(self)
            except Exception as e:                       # the search is best effort
                self.log('search raised %r' % (e,))
        rdir = os.path.join(VERIF, 'replays', self.prop)
        lines = []
        nviol = 0
        if self.viol:
            os.makedirs(rdir, exist_ok=True)
            seen = set()
            for rec in self.viol:
                key = (rec['function'], rec['clause'])
                if key in seen:
                    continue
                seen.add(key)
                rec = dict(rec)
                rec['broken_obligations'] = [n for n, _ in broken]
                h = hashlib.sha1(json.dumps(rec, sort_keys=True, default=str).encode()).hexdigest()[:12]
                path = os.path.join(rdir, '%s.json' % h)
                json.dump(rec, open(path, 'w'), indent=1, default=str)
                lines.append('VIOLATION property=%s replay=%s' % (self.prop, path))
                self.log('violation: %s / %s input=%s expected=%s observed=%s' % (
                    rec['function'], rec['clause'], json.dumps(rec['input'], default=str)[:400],
                    str(rec['expected'])[:200], str(rec['observed'])[:200]))
                nviol += 1
        elif broken:
            os.makedirs(rdir, exist_ok=True)
            rec = {'property': self.prop, 'no_failing_input_found': True, 'seed': self.seed, 'tier': self.tier,
                   'broken_obligations': [{'name': n, 'detail': d[-2000:]} for n, d in broken]}
            h = hashlib.sha1(json.dumps(rec, sort_keys=True).encode()).hexdigest()[:12]
            path = os.path.join(rdir, 'broken_%s.json' % h)
            json.dump(rec, open(path, 'w'), indent=1)
            lines.append('VIOLATION property=%s replay=%s no-failing-input-found' % (self.prop, path))
            nviol = 1
        for fid, what in sorted(self.known_hits.items()):
            print('KNOWN-FINDING: property=%s %s [%s]' % (self.prop, what, fid), flush=True)
        self.write_evidence(nviol)
        for l in lines:
            print(l, flush=True)
        self.log('done: %d obligations (%d discharged), %d evaluations, %d distinct non-trivial, %d violations, %d known findings'
                 % (len(self.obligations), sum(1 for o in self.obligations if o[1]), self.evaluations, len(self.keys), nviol, len(self.known_hits)))
        return 1 if nviol else 0

    def write_evidence(self, nviol):
        nob = len(self.obligations)
        cov = {
            'obligations': nob,
            'discharged': sum(1 for o in self.obligations if o[1]),
            'obligation_names': [o[0] for o in self.obligations],
            'checker_cmd': 'cd /verif && ./check %s --tier %s   (coqc 8.16.1 over coq/theories and build/%s; Print Assumptions per theorem)' % (self.prop, self.tier, self.prop),
            'trusted_base': sorted(set(self.trusted)) + ['axiom (Coq stdlib, from Print Assumptions): ' + a for a in sorted(self.axioms)],
            'evaluations': self.evaluations,
            'distinct_nontrivial': len(self.keys),
            'rule': self.rule,
            'samples': self.samples if self.samples else [{'note': 'no case reached'}],
            'traces_validated_against_impl': self.traces,
            'programs': self.programs,
            'case_distribution': self.dist,
            'known_findings_hit': sorted(self.known_hits),
        }
        if self.exhaustive is not None:
            cov['exhaustive'] = bool(self.exhaustive)
        cov.update(self.extra)
        # the schema's vocabulary for `level`; 'partial' and the like belong into the free-text fields (MANIFEST level_claimed.text says PARTIAL)
        level = self.level if self.level in ('exploration', 'fault_enumeration', 'model_checking', 'proof', 'translation_validation', 'other') else 'proof'
        ev = {'property_id': self.prop, 'tier': self.tier, 'seed': self.seed, 'level': level,
              'coverage': cov, 'assumptions': list(self.assumptions) if self.assumptions else sorted(set(self.trusted)), 'wall_s': round(time.time() - self.t0, 2),
              'violations': nviol}
        # evidence/<id>.json is only ever written by runs against /repo itself; runs against another tree
        # (ODAK_REPO=..., used for seeded-change drills) leave their record in the build directory
        edir = os.path.join(VERIF, 'evidence') if os.path.realpath(REPO) == '/repo' else self.build
        os.makedirs(edir, exist_ok=True)
        with open(os.path.join(edir, '%s.json' % self.prop), 'w') as f:
            json.dump(ev, f, indent=1, default=str)


# ---------------------------------------------------------------- helpers
def strip_comments(src):
    out, depth, i = [], 0, 0
    while i < len(src):
        if src.startswith('(*', i):
            depth += 1; i += 2
        elif src.startswith('*)', i) and depth:
            depth -= 1; i += 2
        else:
            if not depth:
                out.append(src[i])
            elif src[i] == '\n':
                out.append('\n')
            i += 1
    return ''.join(out)


def gate_scan(text, label):
    """Forbidden vernacular outside comments.  Variable/Hypothesis are allowed inside a Section
    only (tracked by Section/End nesting)."""
    bad, depth = [], 0
    for ln, line in enumerate(strip_comments(text).split('\n'), 1):
        if re.match(r'^\s*Section\b', line):
            depth += 1
        if re.match(r'^\s*End\b', line) and depth:
            depth -= 1                      # modules also use End; over-decrement is harmless (clamped)
        for m in GATE_RE.finditer(line):
            w = m.group(0).strip()
            if re.match(r'(Variable|Variables|Hypothesis|Hypotheses|Context)$', w):
                if depth > 0:
                    continue
            bad.append('%s:%d:%s' % (label, ln, w))
    return bad


def parse_evals(out):
    """Values printed by `Eval vm_compute in t.` with a huge printing width: `     = v` / `     : T`."""
    vals = []
    cur = None
    for line in out.split('\n'):
        if line.startswith('     = '):
            cur = [line[7:]]
        elif line.startswith('     : ') and cur is not None:
            vals.append(re.sub(r'\s+', ' ', ' '.join(cur)).strip()); cur = None
        elif cur is not None:
            cur.append(line)
    return vals


def parse_z(s):
    """Parse a Coq Z / nat numeral possibly written `(-3)%Z` or `3%Z`."""
    m = re.search(r'-?\d+', s)
    return int(m.group(0)) if m else None


def parse_zlist(s):
    return [int(x) for x in re.findall(r'-?\d+', re.sub(r'%\w+', '', s))]


def load_findings():
    """known findings: /verif/known_findings.json plus /verif/findings/<id>.json (committed; read-only)"""
    out = []
    paths = [os.path.join(VERIF, 'known_findings.json')]
    fd = os.path.join(VERIF, 'findings')
    if os.path.isdir(fd):
        paths += [os.path.join(fd, f) for f in sorted(os.listdir(fd)) if f.endswith('.json')]
    for p in paths:
        if os.path.exists(p):
            out += json.load(open(p)).get('findings', [])
    return out


def finding_matches(f, rec):
    m = f.get('match', {})
    if m.get('function') and m['function'] != rec['function']:
        return False
    if m.get('clause') and m['clause'] != rec['clause']:
        return False
    when = m.get('when')
    if when:
        try:
            return bool(eval(when, {'__builtins__': {}}, {'inp': rec['input'], 'abs': abs, 'len': len, 'min': min, 'max': max, 'any': any, 'all': all, 'float': float, 'int': int, 'str': str, 'isinstance': isinstance, 'list': list, 'sum': sum}))
        except Exception:
            return False
    return True


def source_of(relpath, name, cls=None):
    """Text of a function (or method) definition in the current /repo working tree."""
    import ast
    src = open(os.path.join(REPO, relpath)).read()
    tree = ast.parse(src)
    body = tree.body
    if cls:
        body = [n for n in tree.body if isinstance(n, ast.ClassDef) and n.name == cls][0].body
    for n in body:
        if isinstance(n, ast.FunctionDef) and n.name == name:
            return ast.get_source_segment(src, n)
    raise KeyError('%s:%s not found' % (relpath, name))
