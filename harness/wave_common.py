"""Shared by the wave properties C01, C02, C03, C06: tracing + tie compilation, numeric validation of the
FFT / shift contracts assumed in OdakV.Wave.Fields, translator self-check, implementation runners."""
import math
import numpy as np
import torch
from tracer.recipes import wave as recipe
from tracer import emit, shim

K_TIES = ['Wave_TieK_as', 'Wave_TieK_tf', 'Wave_TieK_bl', 'Wave_TieK_nas', 'Wave_TieK_ntf', 'Wave_TieK_nbl']
TORCH_METHODS = ['Angular Spectrum', 'Bandlimited Angular Spectrum', 'Transfer Function Fresnel']
NUMPY_METHODS = ['Angular Spectrum', 'Bandlimited Angular Spectrum', 'Transfer Function Fresnel']


def lw():
    import odak.learn.wave as lw_
    return lw_


def nw():
    import odak.wave as nw_
    return nw_


# ---------------------------------------------------------------- B1: trace + tie
def trace_and_tie(ctx, need_pipes=True):
    """traces kernels and pipelines from the current /repo source, compiles them and the tie files"""
    g = None
    try:
        g, info = recipe.kernels()
        defs, disp = recipe.pipelines()
        ctx.programs += len(g.defs) + len(defs)
        ctx.obligation('translator:trace-wave(%d kernel definitions, %d pipeline terms)' % (len(g.defs), len(defs)), True)
        bad = [(f, d) for f, d in disp.items() if not (d['propagation_type'] == recipe.TYPE_OF[f] and d['distance_is_z'] and d['wavelength_is_lam'] and d['dx_is_dx'] and d['nu_nv'] == [4, 6])]
        ctx.obligation('translator:kernel-request-arguments(each method asks for its own kernel type with the caller\'s dx, wavelength, distance and the field\'s shape)', not bad, str(bad))
        dn = recipe.dispatchers()
        ctx.obligation('translator:dispatchers(get_propagation_kernel and odak.wave.propagate_beam return exactly what the builder / method of the requested type returns, called with the caller\'s arguments: %d types)' % len(dn), all(dn.values()), str({k: v for k, v in dn.items() if not v}))
        ctx.extra['traced_pipelines'] = {n: t for n, _, t in defs if n in ('t_custom', 't_beam_padcrop_angular_spectrum', 'n_transfer_function_fresnel', 'n_impulse_response_fresnel')}
    except Exception as e:
        ctx.obligation('translator:trace-wave', False, repr(e))
        return None
    okk = ctx.compile_tie('GenWaveK', g.text(), [K_TIES])
    okp = ctx.compile_tie('GenWaveP', recipe.pipes_text(defs), [['Wave_TieP']])
    try:
        pipeline_self_check(ctx)
    except Exception as e:
        ctx.obligation('translator-self-check:pipelines', False, repr(e))
    return g


def eval_term(t, env, fields):
    """numeric value of an operator-level term: fields maps variable names to complex arrays; env the scalar symbols;
    PAD / CROP use the offsets property C08 proves (start = (2n)/2 - n/2)"""
    from tracer import opshim
    def sc(c):
        v = shim.evalf(c, env)
        return v
    def ev(x):
        if x.op == 'var': return fields[x.a[0]]
        if x.op == 'one': return np.ones(x.shape, dtype=complex)
        if x.op == 'lit':
            a = np.asarray(x.a[0], dtype=object)
            return np.vectorize(lambda e: complex(shim.evalf(shim.CE.lift(e), env)), otypes=[complex])(a)
        if x.op == 'F': return np.fft.fft2(ev(x.a[0]))
        if x.op == 'Finv': return np.fft.ifft2(ev(x.a[0]))
        if x.op == 'S': return np.fft.fftshift(ev(x.a[0]), axes=(-2, -1))
        if x.op == 'Sinv': return np.fft.ifftshift(ev(x.a[0]), axes=(-2, -1))
        if x.op == 'fmul': return ev(x.a[0]) * ev(x.a[1])
        if x.op == 'fadd': return ev(x.a[0]) + ev(x.a[1])
        if x.op == 'fscal': return complex(sc(x.a[0])) * ev(x.a[1])
        if x.op == 'PAD':
            a = ev(x.a[0]); h, w = a.shape[-2:]
            out = np.zeros(a.shape[:-2] + (2 * h, 2 * w), dtype=complex)
            sh, sw = (2 * h) // 2 - h // 2, (2 * w) // 2 - w // 2
            out[..., sh:sh + h, sw:sw + w] = a
            return out
        if x.op == 'CROP':
            a = ev(x.a[0]); H, W = a.shape[-2:]; h, w = H // 2, W // 2
            qh, qw = H // 2 - h // 2, W // 2 - w // 2
            return a[..., qh:qh + h, qw:qw + w]
        raise shim.TraceError('eval_term: unknown operator %s' % x.op)
    return ev(t)


def pipeline_self_check(ctx):
    """the operator-level terms evaluated numerically (numpy FFTs, C08 offsets) equal the real propagation functions"""
    L = lw(); N = nw()
    rng = np.random.default_rng(ctx.seed + 5)
    bad = 0; n = 0
    T = recipe.TERMS
    lam, dx, z = 0.55, 1.3, 7.0
    k = 2 * math.pi / lam
    env = {'k': k, 'z': z, 'dx': dx, 'lam': lam}
    def rnd(shape): return rng.standard_normal(shape) + 1j * rng.standard_normal(shape)
    def cmp(name, got, want, tol):
        nonlocal bad, n
        n += 1
        want = to_np(want)
        e = float(np.abs(got - want).max() / max(1e-30, np.abs(want).max())) if got.shape == want.shape else float('inf')
        if not e <= tol:
            bad += 1; ctx.log('pipeline self-check mismatch', name, 'relative deviation', e, got.shape, want.shape)
    # torch custom and the padded / cropped beam
    u = rnd((4, 6)); K = rnd((4, 6)); A = rng.uniform(0.2, 1.0, (4, 6))
    if 't_custom' in T:
        cmp('t_custom', eval_term(T['t_custom'], env, {'u': u, 'K': K, 'A': A.astype(complex)}),
            L.custom(torch.tensor(u, dtype=torch.complex64), torch.tensor(K, dtype=torch.complex64), zero_padding=False, aperture=torch.tensor(A, dtype=torch.float32)), 2e-5)
    for f, typ in (('angular_spectrum', 'Angular Spectrum'), ('transfer_function_fresnel', 'Transfer Function Fresnel'), ('band_limited_angular_spectrum', 'Bandlimited Angular Spectrum')):
        for name, zp in (('t_beam_nopad_' + f, [False, False, False]), ('t_beam_padcrop_' + f, [True, False, True])):
            if name not in T: continue
            u5 = rnd((6, 8)) if zp[0] else u
            hh, ww = (12, 16) if zp[0] else (4, 6)
            Kr = L.get_propagation_kernel(nu=hh, nv=ww, dx=dx, wavelength=lam, distance=z, propagation_type=typ).numpy().astype(complex)
            Ar = rng.uniform(0.2, 1.0, (hh, ww))
            got = eval_term(T[name], env, {'u': u5, 'K': Kr, 'A': Ar.astype(complex)})
            want = L.propagate_beam(torch.tensor(u5, dtype=torch.complex64), k, z, dx, lam, propagation_type=typ, zero_padding=zp, aperture=torch.tensor(Ar, dtype=torch.float32))
            cmp(name, got, want, 2e-4)
    # NumPy pipelines on the traced 3 x 4 grid (their kernels are traced literals)
    un = rnd((recipe.NU, recipe.NV))
    for name, meth in (('n_angular_spectrum', 'Angular Spectrum'), ('n_band_limited_angular_spectrum', 'Bandlimited Angular Spectrum'),
                       ('n_transfer_function_fresnel', 'Transfer Function Fresnel'), ('n_impulse_response_fresnel', 'Impulse Response Fresnel'), ('n_fraunhofer', 'Fraunhofer')):
        if name in T:
            cmp(name, eval_term(T[name], env, {'u': un}), N.propagate_beam(un, k, z, dx, lam, meth), 1e-9)
    if 't_fraunhofer' in T:
        cmp('t_fraunhofer', eval_term(T['t_fraunhofer'], env, {'u': un}), L.propagate_beam(torch.tensor(un, dtype=torch.complex64), k, z, dx, lam, propagation_type='Fraunhofer', zero_padding=[False, False, False]), 2e-4)
    ctx.traces += n
    ctx.obligation('translator-self-check:pipelines(operator-level terms evaluated with numpy = real propagation functions on %d pipelines)' % n, bad == 0 and n >= 8, '%d mismatches of %d' % (bad, n))


def kernel_self_check(ctx, g):
    """traced per-pixel kernels evaluated numerically == the real kernel builders / numpy propagators"""
    L = lw(); N = nw()
    rng = ctx.rng
    bad = 0; n = 0
    for t in range(12):
        lam = rng.uniform(0.4, 0.7); dx = lam * rng.uniform(0.75, 6.0); z = rng.uniform(-40, 40) if t else 0.0
        env = {'dx': float(np.float32(dx)), 'lam': float(np.float32(lam)), 'z': float(np.float32(z))}
        for tag, fn in (('as', L.get_angular_spectrum_kernel), ('tf', L.get_transfer_function_fresnel_kernel), ('bl', L.get_band_limited_angular_spectrum_kernel)):
            H = fn(recipe.NU, recipe.NV, dx=env['dx'], wavelength=env['lam'], distance=env['z']).numpy()
            for i in range(recipe.NU):
                for j in range(recipe.NV):
                    re = g.evalf('%s_re_%d_%d' % (tag, i, j), env); im = g.evalf('%s_im_%d_%d' % (tag, i, j), env)
                    n += 1
                    # float32 phase of size |k z| carries an absolute error ~ 1e-7 |k z|
                    tol = 5e-4 + 4e-7 * abs(2 * math.pi / lam * z)
                    if not (abs(re - H[i, j].real) <= tol and abs(im - H[i, j].imag) <= tol):
                        if tag == 'bl' and abs(abs(H[i, j]) - math.hypot(re, im)) > 0.5:
                            # 0 against a unit phasor: the band-limit comparison itself was decided differently.  That is a knife edge
                            # only if the traced mask flips when its inputs move by a float32 rounding step
                            flips = set()
                            for s1 in (-3e-7, 0.0, 3e-7):
                                for s2 in (-3e-7, 0.0, 3e-7):
                                    e2 = dict(env, dx=env['dx'] * (1 + s1), z=env['z'] * (1 + s2))
                                    flips.add(round(math.hypot(g.evalf('bl_re_%d_%d' % (i, j), e2), g.evalf('bl_im_%d_%d' % (i, j), e2))))
                            if len(flips) > 1:
                                ctx.log('kernel self-check: band-limit comparison on a float32 knife edge at', tag, i, j, env, '(skipped)'); continue
                        bad += 1; ctx.log('kernel self-check mismatch', tag, i, j, (re, im), H[i, j], env)
        # numpy: recover the kernel through the propagator on a delta spectrum is indirect; compare through the formula's use:
        k = 2 * math.pi / lam
        envn = {'k': k, 'dx': dx, 'lam': lam, 'z': z}
        u = np.zeros((recipe.NU, recipe.NV), dtype=complex); u[0, 0] = 1.0      # flat spectrum: output spectrum = kernel
        for tag, meth in (('nas', 'Angular Spectrum'), ('nbl', 'Bandlimited Angular Spectrum')):
            r = N.propagate_beam(u, k, z, dx, lam, meth)
            Hn = np.fft.fftshift(np.fft.fft2(r))
            for i in range(recipe.NU):
                for j in range(recipe.NV):
                    re = g.evalf('%s_re_%d_%d' % (tag, i, j), envn); im = g.evalf('%s_im_%d_%d' % (tag, i, j), envn)
                    n += 1
                    if not (abs(re - Hn[i, j].real) <= 1e-7 and abs(im - Hn[i, j].imag) <= 1e-7):
                        bad += 1; ctx.log('numpy kernel self-check mismatch', tag, i, j, (re, im), Hn[i, j])
    ctx.traces += n
    ctx.obligation('translator-self-check:kernels(traced pixels = real kernel builders on %d values)' % n, bad == 0 and n > 0, '%d mismatches' % bad)


# ---------------------------------------------------------------- the concrete DFT instance
DFT_THEOREMS = ['dft_energy_conserved', 'dft_energy_le', 'dft_custom_compose', 'dft_custom_id', 'dft_custom_linear', 'dft_custom_zero',
                'dft_custom_mask_idem', 'dft_custom_second_pass_energy', 'dft_custom_shift', 'dft_steps_fold', 'dft_centered_energy_unit',
                'dft_centered_energy_le', 'dft_centered_compose', 'dft_centered_id', 'dft_centered_linear', 'dft_conv_centered_linear', 'dft_fraun_linear']


def dft_instance(ctx):
    """the contracts are PROVED for the concrete 2-D DFT (Wave/Dft1, Dft2) and the abstract theorems instantiated
    (Wave/DftInstance); what stays trusted is that fft2/ifft2/fftshift/ifftshift of the libraries compute F2/Finv2/S2/Sinv2
    (checked numerically in fft_contracts: identification_* residuals)."""
    ctx.ensure_theories(['theories/Wave/DftInstance.vo'])
    ctx.theorems('OdakV.Wave.Dft2', ['dft_contracts', 'dft_modulation'])
    ctx.theorems('OdakV.Wave.DftInstance', DFT_THEOREMS)


def _naive_dft2(u, sign):
    n, m = u.shape[-2:]
    wn = np.exp(sign * 2j * np.pi * np.outer(np.arange(n), np.arange(n)) / n)
    wm = np.exp(sign * 2j * np.pi * np.outer(np.arange(m), np.arange(m)) / m)
    return np.einsum('ki,...ij,jl->...kl', wn, u, wm)


# ---------------------------------------------------------------- contracts of the external FFT library
def fft_contracts(ctx):
    """the Section hypotheses of OdakV.Wave.Fields, checked numerically against torch.fft and numpy.fft"""
    rng = np.random.default_rng(ctx.seed)
    worst = {}
    def note(k, v): worst[k] = max(worst.get(k, 0.0), float(v))
    shapes = [(1, 1), (1, 5), (2, 2), (3, 4), (4, 3), (5, 5), (5, 7), (6, 6), (7, 8), (8, 8), (9, 16), (2, 3, 5, 6)]
    for shp in shapes:
        n, m = shp[-2], shp[-1]
        u = rng.standard_normal(shp) + 1j * rng.standard_normal(shp); v = rng.standard_normal(shp) + 1j * rng.standard_normal(shp)
        a = complex(rng.standard_normal(), rng.standard_normal())
        for lib in ('numpy', 'torch'):
            if lib == 'numpy':
                F, Fi, S, Si, roll = np.fft.fft2, np.fft.ifft2, (lambda x: np.fft.fftshift(x, axes=(-2, -1))), (lambda x: np.fft.ifftshift(x, axes=(-2, -1))), np.roll
                U, V = u, v; ab = np.abs
            else:
                F, Fi = torch.fft.fft2, torch.fft.ifft2
                S = lambda x: torch.fft.fftshift(x, dim=(-2, -1)); Si = lambda x: torch.fft.ifftshift(x, dim=(-2, -1))
                roll = lambda x, s, axis: torch.roll(x, s, dims=axis)
                U, V = torch.tensor(u), torch.tensor(v); ab = lambda x: x.abs().numpy()
            e = lambda x: float((ab(x) ** 2).sum())
            sc = max(1.0, float(ab(U).max()))
            note('Finv_F', ab(Fi(F(U)) - U).max() / sc); note('F_Finv', ab(F(Fi(U)) - U).max() / sc)
            # identification with the Coq definitions: F2 = sum u w^(ik) w^(jl) with w = exp(-2 pi i / n); Finv2 = conj / (n m);
            # S2 = roll by floor(n/2); Sinv2 = roll by n - floor(n/2)
            tn = (lambda x: x) if lib == 'numpy' else (lambda x: x.numpy())
            note('identification_F2', np.abs(tn(F(U)) - _naive_dft2(u, -1)).max() / (sc * n * m))
            note('identification_Finv2', np.abs(tn(Fi(U)) - _naive_dft2(u, +1) / (n * m)).max() / sc)
            note('identification_S2', np.abs(tn(S(U)) - np.roll(u, (n // 2, m // 2), axis=(-2, -1))).max())
            note('identification_Sinv2', np.abs(tn(Si(U)) - np.roll(u, (n - n // 2, m - m // 2), axis=(-2, -1))).max())
            note('parseval(N=n*m)', abs(e(F(U)) - n * m * e(U)) / (n * m * e(U)))
            note('F_linear', ab(F(a * U + V) - (a * F(U) + F(V))).max() / (sc * n * m))
            note('S_Sinv', ab(S(Si(U)) - U).max()); note('Sinv_S', ab(Si(S(U)) - U).max())
            note('S_energy', abs(e(S(U)) - e(U)) / e(U))
            note('S_mul', ab(S(U * V) - S(U) * S(V)).max()); note('Sinv_mul', ab(Si(U * V) - Si(U) * Si(V)).max())
            note('S_linear', ab(S(a * U + V) - (a * S(U) + S(V))).max())
            # modulation law: translation by (s,t) <-> phase ramp
            s, t = int(rng.integers(-3, 4)), int(rng.integers(-3, 4))
            ii = np.arange(n).reshape(n, 1); jj = np.arange(m).reshape(1, m)
            ramp = np.exp(-2j * np.pi * (s * ii / n + t * jj / m))
            R = ramp if lib == 'numpy' else torch.tensor(ramp)
            note('modulation', ab(F(roll(U, (s, t), (-2, -1))) - R * F(U)).max() / (sc * n * m))
            note('modulation_inv', ab(Fi(R * U) - roll(Fi(U), (s, t), (-2, -1))).max() / sc)
    ok = all(v <= 1e-9 for v in worst.values())
    ctx.extra['fft_contract_residuals'] = {k: float('%.3g' % v) for k, v in worst.items()}
    ctx.obligation('contract-validation:fft2/ifft2/fftshift/ifftshift of torch and numpy meet the Section hypotheses (12 shapes incl. odd, 1xk, batched)', ok, str(worst))
    ctx.trusted.append('FFT/shift contracts of OdakV.Wave.Fields: PROVED for the concrete 2-D DFT F2/Finv2/S2/Sinv2 (Wave/Dft2.dft_contracts, dft_modulation); trusted: that torch.fft / numpy.fft fft2, ifft2, fftshift, ifftshift compute F2, Finv2, S2, Sinv2 (validated numerically each run: identification_* residuals)')


# ---------------------------------------------------------------- implementation runners
def cfield(rng, shape, kind='random'):
    if kind == 'zero': return np.zeros(shape, dtype=complex)
    if kind == 'delta':
        u = np.zeros(shape, dtype=complex); u[tuple(s // 2 for s in shape)] = 1.0; return u
    if kind == 'const': return np.full(shape, 0.7 - 0.2j)
    return rng.standard_normal(shape) + 1j * rng.standard_normal(shape)


# complex dtypes only: the properties quantify over complex fields; real- or integer-typed arrays are outside what the functions document
DTYPES = {'torch': [None, 'c128', None, None, 'c128'], 'numpy': [None, 'c64', None, None, 'c64']}


def tol_key(inp):
    """which of a property's two tolerances applies: 'numpy' (double precision throughout) or 'torch' (single precision somewhere)"""
    return 'numpy' if (inp['api'] == 'numpy' and inp.get('dtype') != 'c64') else 'torch'


def single_precision(api, kind):
    """does the computation run in single precision for this input form?"""
    return (api == 'torch' and kind != 'c128') or (api == 'numpy' and kind == 'c64')


def typed(u, api, kind):
    """the same field handed over in another documented form: the property quantifies over fields, not over complex64 tensors"""
    if kind is None: return u
    if api == 'torch':
        if kind == 'c128': return torch.tensor(u, dtype=torch.complex128)
        if kind == 'real32': return torch.tensor(np.real(u), dtype=torch.float32)
        if kind == 'real64': return torch.tensor(np.real(u), dtype=torch.float64)
    else:
        if kind == 'c64': return np.asarray(u).astype(np.complex64)
        if kind == 'real': return np.ascontiguousarray(np.real(u))
        if kind == 'int': return np.round(3 * np.real(u)).astype(np.int64)
    raise ValueError(kind)


def t_prop(u, method, z, dx, lam, zero_padding=(False, False, False), aperture=1., kernel=None, scale=1, samples=(2, 2, 1, 1)):
    L = lw()
    k = 2 * math.pi / lam
    ut = u if isinstance(u, torch.Tensor) else torch.tensor(u, dtype=torch.complex64)
    return L.propagate_beam(ut, k, z, dx, lam, propagation_type=method, kernel=kernel, zero_padding=list(zero_padding), aperture=aperture, scale=scale, samples=list(samples))


def n_prop(u, method, z, dx, lam):
    N = nw()
    k = 2 * math.pi / lam
    return N.propagate_beam(u if isinstance(u, np.ndarray) else np.asarray(u, dtype=complex), k, z, dx, lam, method)


def energy(x):
    if isinstance(x, torch.Tensor): return float((x.abs().double() ** 2).sum())
    return float((np.abs(x) ** 2).sum())


def to_np(x):
    return x.detach().cpu().numpy() if isinstance(x, torch.Tensor) else np.asarray(x)


def sizes(ctx):
    base = [(1, 1), (1, 6), (2, 2), (3, 3), (4, 4), (5, 5), (5, 8), (6, 5), (7, 7), (8, 8), (9, 12), (16, 16), (17, 13)]
    if ctx.thorough: base += [(31, 32), (33, 33), (64, 64), (50, 21), (128, 96)]
    return base
