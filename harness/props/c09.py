"""C09 — amplitude/phase and complex representations of a field are interchangeable.

Proof: coq/theories/C09 (reference model over R: atan2 by cases, modulus, a cos p + i a sin p, remainder /
floor / truncation for the SLM levels; binary64 model of the level computation in PrimFloat).
Tie to /repo, re-checked on every run:
  B1  calculate_phase, calculate_amplitude, generate_complex_field, set_amplitude (both APIs), add_phase,
      produce_phase_only_slm_pattern (NumPy) and quantize (PyTorch) are cut from the current sources, executed
      symbolically (tracer/recipes/c09.py) and emitted as Coq definitions; coq/tie/C09_TieA.v proves them equal to
      the model for all reals, coq/tie/C09_TieProps.v states the property's clauses on the traced definitions.
      The translator is validated numerically against the real functions (self-check).
  B2  the binary64 level model is evaluated inside Coq (vm_compute) on the float64 phases of generated fields
      and compared exactly with hologram_digital of the real produce_phase_only_slm_pattern.
Direct oracles state every clause on the real implementation (both APIs) and give replayable failing inputs.
"""
import fractions, json, math
import numpy as np
import torch
from harness.common import hexf, zlit
from tracer.recipes import c09 as recipe
from tracer import emit

Fr = fractions.Fraction
PROPS = ['C09_rebuild', 'C09_amp_nonneg', 'C09_arg_range', 'C09_amp_gcf', 'C09_arg_gcf', 'C09_set_amp_keeps_phase',
         'C09_set_amp_amp', 'C09_set_amp_arg', 'C09_add_phase_amp', 'C09_add_phase_rotates', 'C09_slm_unit',
         'C09_slm_level_range', 'C09_slm_phase_error', 'C09_slm_clamp_noop', 'C09_quantize_range', 'C09_torch_slm_eq',
         'C09_slm_f_upper', 'C09_slm_f_sweep', 'C09_slm_f_unclamped_refuted', 'C09_slm_f_unclamped_partial', 'C09_instance']
EPS = {'complex128': 2.0 ** -52, 'complex64': 2.0 ** -23, 'float64': 2.0 ** -52, 'float32': 2.0 ** -23}
TINY = {'complex128': 5e-324, 'complex64': 1.5e-45, 'float64': 5e-324, 'float32': 1.5e-45}
RANGES = [2 * math.pi, math.pi, 6.28]
SHAPES = [(), (1,), (7,), (3, 5), (1, 4, 6), (2, 3, 2, 2), (0,), (16,)]


def api():
    import odak.wave as nw
    import odak.learn.wave as lw
    import odak.learn.tools as lt
    return nw, lw, lt


# ---------------------------------------------------------------- building inputs from JSON-able records
def cast_vals(vals, dtype):
    """the values as they will be stored in an array of this dtype (so that the record replays exactly);
    pairs (re, im) for complex dtypes, scalars for real ones"""
    c = (lambda v: float(np.float32(v))) if dtype in ('complex64', 'float32') else float
    if dtype.startswith('complex'):
        return [[c(a), c(b)] for a, b in vals]
    return [c(a) for a in vals]


def np_field(inp, key='vals', dkey='dtype'):
    a = np.array([complex(re, im) for re, im in inp[key]], dtype=getattr(np, inp[dkey]))
    return a.reshape(tuple(inp['shape']))


def t_field(inp, key='vals', dkey='dtype'):
    return torch.from_numpy(np_field(inp, key, dkey).copy())


def mods(vals):
    return np.array([math.hypot(a, b) for a, b in vals], dtype=float)


# ---------------------------------------------------------------- generators
def boundary_values(rng, dtype, r=None, bits=None):
    big, small = (1e30, 1e-30)
    out = [(0.0, 0.0), (-0.0, 0.0), (0.0, -0.0), (-0.0, -0.0),
           (1.0, 0.0), (1.0, -0.0), (-1.0, 0.0), (-1.0, -0.0), (-2.5, 0.0), (-2.5, -0.0), (0.0, 1.0), (0.0, -1.0), (-0.0, 3.0), (-0.0, -3.0),
           (big, big), (-big, small), (small, -small), (0.0, small), (-small, 0.0), (-big, -0.0), (big, -small), (small, big), (3.0, -4.0)]
    for e in (1e-20, 1e-17, 1e-12, 1e-8, 5e-324, 2.0 ** -53, 1e-300):
        out += [(1.0, -e), (1.0, e), (-1.0, -e), (-1.0, e), (-e, 1.0), (e, -1.0)]
    if dtype == 'complex128':
        out += [(1e300, 1e300), (-1e300, 1e-300), (1e-300, -1e-300), (5e-324, 0.0), (-5e-324, -5e-324), (1e200, -1e-200)]
    if r is not None:
        K = 2 ** min(bits, 20)
        for k in [0, 1, K // 2, K - 1, K, rng.randrange(K + 1), rng.randrange(K + 1)]:
            for d in (0.0, 1e-9, -1e-9):
                ph = k * r / K + d
                out.append((math.cos(ph), math.sin(ph)))
    return out


def gen_vals(rng, n, dtype, kind, r=None, bits=None):
    emax = 30 if dtype == 'complex64' else 150
    vals = []
    bv = boundary_values(rng, dtype, r, bits) if kind in ('boundary', 'mixed') else None
    for i in range(n):
        k = kind if kind != 'mixed' else rng.choice(['gauss', 'polar', 'boundary', 'unit'])
        if k == 'gauss':
            s = 10 ** rng.uniform(-3, 3); vals.append((rng.gauss(0, s), rng.gauss(0, s)))
        elif k == 'polar':
            m = 10 ** rng.uniform(-emax, emax); t = rng.uniform(-math.pi, math.pi); vals.append((m * math.cos(t), m * math.sin(t)))
        elif k == 'unit':
            t = rng.uniform(-math.pi, math.pi); vals.append((math.cos(t), math.sin(t)))
        else:
            vals.append(bv[rng.randrange(len(bv))] if n < len(bv) or kind == 'mixed' else bv[i % len(bv)])
    return cast_vals(vals, dtype)


def gen_shape(rng, kind):
    if kind == 'boundary':
        return rng.choice([(40,), (8, 5), (1, 5, 8), (2, 2, 2, 5)])
    return rng.choice(SHAPES)


def numel(shape):
    n = 1
    for s in shape: n *= s
    return n


def gen_bits_range(rng, kind):
    if kind == 'boundary':
        bits = rng.choice([1, 2, 8, 10, 12, 16, 24, 30]); r = rng.choice(RANGES)
    else:
        bits = rng.randint(1, 16); r = rng.choice(RANGES + [2 * math.pi * 0.515 / 0.532, rng.uniform(0.5, 7.0), rng.uniform(0.05, 0.5)])
    return bits, r


def gen_cases(ctx, n):
    """list of (oracle name, input record)"""
    rng = ctx.rng
    out = []
    for i in range(n):
        kind = ['mixed', 'boundary', 'gauss', 'polar', 'boundary', 'unit'][i % 6]
        dtype = 'complex128' if i % 3 != 2 else 'complex64'
        shape = gen_shape(rng, kind); m = numel(shape)
        base = {'dtype': dtype, 'shape': list(shape), 'kind': kind}
        # round trip, both APIs
        vals = gen_vals(rng, m, dtype, kind)
        for which in ('numpy', 'torch'):
            out.append(('roundtrip', dict(base, api=which, vals=vals)))
        out.append(('agree', dict(base, vals=vals, amp2=[abs(rng.gauss(0, 2)) for _ in range(m)])))
        # set_amplitude: real or complex amplitudes, also zero amplitudes
        akind = rng.choice(['real', 'complex', 'real'])
        emax = 25 if dtype == 'complex64' else 100
        sv = [v if math.hypot(*v) == 0 or 10.0 ** -emax < math.hypot(*v) < 10.0 ** emax else (1.0, -1.0) for v in vals]
        am = [(0.0, 0.0) if rng.random() < 0.1 else ((abs(rng.gauss(0, 3)) * 10 ** rng.choice([0, 0, 0, -20, 20]), 0.0) if akind == 'real' else (rng.gauss(0, 3), rng.gauss(0, 3))) for _ in range(m)]
        for which in ('numpy', 'torch'):
            out.append(('set_amplitude', dict(base, api=which, vals=cast_vals(sv, dtype), amps=cast_vals(am, dtype), akind=akind)))
        # add_phase (NumPy only)
        qk = rng.choice(['scalar', 'array'])
        q = [rng.uniform(-10, 10) for _ in range(m if qk == 'array' else 1)]
        out.append(('add_phase', dict(base, vals=cast_vals(sv, dtype), q=q, qkind=qk)))
        # SLM pattern (NumPy) and the PyTorch mapping
        bits, r = gen_bits_range(rng, kind)
        svals = gen_vals(rng, m, dtype, kind, r, bits)
        ill = None
        if i % 4 == 1: ill = {'scalar': rng.uniform(0.1, 3)}
        if i % 4 == 3: ill = {'array': [rng.uniform(0.0, 2) for _ in range(m)]}
        out.append(('slm', dict(base, vals=svals, r=r, bits=bits, illumination=ill)))
        out.append(('torch_slm', dict(base, vals=svals, r=r, bits=bits)))
        # quantize (PyTorch)
        lo = rng.choice([0.0, 0.0, -1.0, rng.uniform(-5, 5)]); hi = lo + rng.choice([1.0, 2 * math.pi, rng.uniform(0.1, 10)])
        fdt = 'float64' if dtype == 'complex128' else 'float32'
        lo, hi = cast_vals([lo, hi], fdt)
        xs = [lo, hi, lo + (hi - lo) * 0.5] + [lo + (hi - lo) * rng.random() for _ in range(max(0, m - 3))]
        K = 2 ** min(bits, 16)
        xs += [lo + (hi - lo) * k / K for k in (1, K // 2, K - 1)] + [float(np.nextafter(hi, lo))]
        xs = [min(max(x, lo), hi) for x in cast_vals(xs, fdt)]
        out.append(('quantize', {'dtype': fdt, 'xs': xs, 'lo': lo, 'hi': hi, 'bits': min(bits, 30), 'kind': kind, 'shape': [len(xs)]}))
    return out


# ---------------------------------------------------------------- direct oracles
def _finite(a):
    return bool(np.all(np.isfinite(a)))


def oracle_roundtrip(inp):
    """amplitude >= 0, phase in [-pi, pi], gcf(amplitude, phase) == field, phase in degrees"""
    nw, lw, lt = api()
    dt = inp['dtype']; eps = EPS[dt]; tol = 16 * eps
    vals = inp['vals']; shape = tuple(inp['shape']); mod = mods(vals).reshape(shape)
    ref = np.array([complex(a, b) for a, b in vals], dtype=np.complex128).reshape(shape)
    if inp['api'] == 'numpy':
        f = np_field(inp); f0 = f.copy()
        amp = nw.calculate_amplitude(f); ph = nw.calculate_phase(f); deg = nw.calculate_phase(f, deg=True)
        g = nw.generate_complex_field(amp, ph)
        same = f.tobytes() == f0.tobytes()
        realdt = amp.dtype.kind == 'f' and ph.dtype.kind == 'f'; cplx = np.iscomplexobj(g)
    else:
        f = t_field(inp); f0 = f.clone()
        amp_t = lw.calculate_amplitude(f); ph_t = lw.calculate_phase(f); deg_t = lw.calculate_phase(f, deg=True)
        g_t = lw.generate_complex_field(amp_t, ph_t)
        same = bool(torch.equal(torch.view_as_real(f), torch.view_as_real(f0)))
        realdt = (not amp_t.is_complex()) and (not ph_t.is_complex()); cplx = g_t.is_complex()
        amp, ph, deg, g = amp_t.numpy(), ph_t.numpy(), deg_t.numpy(), g_t.numpy()
    out = [('input_not_modified', same, True, same),
           ('shapes', tuple(amp.shape) == shape and tuple(ph.shape) == shape and tuple(g.shape) == shape, list(shape), [list(amp.shape), list(ph.shape), list(g.shape)]),
           ('real_amplitude_and_phase_complex_field', bool(realdt and cplx), True, [str(amp.dtype), str(ph.dtype), str(g.dtype)])]
    if not out[1][1]:
        return out
    amp = amp.astype(float); ph = ph.astype(float); deg = deg.astype(float); g = g.astype(np.complex128)
    out.append(('finite', _finite(amp) and _finite(ph) and _finite(g), 'finite', 'non-finite value'))
    out.append(('amplitude_nonneg', bool(np.all(amp >= 0)), '>= 0', float(amp.min()) if amp.size else 0))
    pimax = float(np.float32(np.pi)) if dt == 'complex64' else math.pi
    out.append(('phase_in_range', bool(np.all(np.abs(ph) <= pimax)), '|phase| <= pi', float(np.abs(ph).max()) if ph.size else 0))
    if amp.size and out[3][1]:
        e = np.abs(amp - mod) - (tol * mod + 2 * TINY[dt])
        out.append(('amplitude_is_modulus', bool(np.all(e <= 0)), '|amp - |z|| <= %g |z|' % tol, _worst(e, vals, amp)))
        pref = np.array([math.atan2(b, a) for a, b in vals]).reshape(shape)
        e = np.abs(ph - pref) - tol * math.pi
        out.append(('phase_is_atan2', bool(np.all(e <= 0)), '|phase - atan2(im, re)| <= %g' % (tol * math.pi), _worst(e, vals, ph)))
        e = np.abs(g - ref) - (tol * mod + 4 * TINY[dt])
        out.append(('rebuild', bool(np.all(e <= 0)), '|gcf(amp, phase) - z| <= %g |z|' % tol, _worst(e, vals, g)))
        e = np.abs(deg - ph * 180.0 / math.pi) - tol * 180
        out.append(('degrees', bool(np.all(e <= 0)), 'phase * 180 / pi', _worst(e, vals, deg)))
    return out


def _worst(e, vals, obs):
    i = int(np.argmax(e.reshape(-1)))
    o = obs.reshape(-1)[i]
    return {'index': i, 'sample': vals[i], 'observed': [float(o.real), float(o.imag)] if np.iscomplexobj(o) else float(o), 'excess': float(e.reshape(-1)[i])}


def oracle_set_amplitude(inp):
    """new amplitude is |a|; phase kept: |z| * new == |a| * z"""
    nw, lw, lt = api()
    dt = inp['dtype']; eps = EPS[dt]; tol = 32 * eps
    shape = tuple(inp['shape'])
    z = np.array([complex(a, b) for a, b in inp['vals']], dtype=np.complex128).reshape(shape)
    mz = mods(inp['vals']).reshape(shape); ma = mods(inp['amps']).reshape(shape)
    if inp['api'] == 'numpy':
        f = np_field(inp)
        a = np_field(inp, 'amps') if inp['akind'] == 'complex' else np_field(inp, 'amps').real.copy()
        new = nw.set_amplitude(f, a)
    else:
        f = t_field(inp)
        a = t_field(inp, 'amps') if inp['akind'] == 'complex' else t_field(inp, 'amps').real.clone()
        new = lw.set_amplitude(f, a).numpy()
    out = [('shapes', tuple(new.shape) == shape and np.iscomplexobj(new), list(shape), [list(new.shape), str(new.dtype)])]
    if not out[0][1] or not new.size:
        return out
    new = new.astype(np.complex128)
    out.append(('finite', _finite(new), 'finite', 'non-finite value'))
    e = np.abs(np.abs(new) - ma) - (tol * ma + 4 * TINY[dt])
    out.append(('new_amplitude', bool(np.all(e <= 0)), '|new| == |a|', _worst(e, inp['vals'], new)))
    e = np.abs(new * mz - ma * z) - (tol * ma * mz + 4 * TINY[dt])
    out.append(('phase_kept', bool(np.all(e <= 0)), '|z| * new == |a| * z', _worst(e, inp['vals'], new)))
    return out


def oracle_add_phase(inp):
    """NumPy add_phase: amplitude kept, field multiplied by exp(i q)"""
    nw, lw, lt = api()
    dt = inp['dtype']; eps = EPS[dt]; shape = tuple(inp['shape'])
    f = np_field(inp); f0 = f.copy()
    q = float(inp['q'][0]) if inp['qkind'] == 'scalar' else np.array(inp['q'], dtype=float).reshape(shape)
    new = nw.add_phase(f, q)
    out = [('shapes', tuple(new.shape) == shape and np.iscomplexobj(new), list(shape), [list(new.shape), str(new.dtype)]),
           ('input_not_modified', f.tobytes() == f0.tobytes(), True, False)]
    if not out[0][1] or not new.size:
        return out
    new = new.astype(np.complex128); mz = mods(inp['vals']).reshape(shape)
    z = np.array([complex(a, b) for a, b in inp['vals']], dtype=np.complex128).reshape(shape)
    tol = 32 * eps * (1 + np.abs(q))
    e = np.abs(np.abs(new) - mz) - (tol * mz + 4 * TINY[dt])
    out.append(('amplitude_kept', bool(np.all(e <= 0)), '|add_phase(z, q)| == |z|', _worst(e, inp['vals'], new)))
    e = np.abs(new - z * np.exp(1j * np.asarray(q, dtype=float))) - (tol * mz + 4 * TINY[dt])
    out.append(('rotated_by_q', bool(np.all(e <= 0)), 'z * exp(i q)', _worst(e, inp['vals'], new)))
    return out


def exact_scaled(p, r, bits):
    """(p mod r) / r * 2^bits as an exact rational (python's sign convention: result in [0, 2^bits))"""
    p, r = Fr(float(p)), Fr(float(r))
    m = p - r * math.floor(p / r)
    return m / r * 2 ** bits


def level_matches(level, s, bits, slack):
    """level == floor(s), or a cyclic neighbour when s is within slack of a level boundary"""
    K = 2 ** bits; fl = math.floor(s)
    if level == fl:
        return True
    fr = float(s - fl)
    if fr <= slack and level == (fl - 1) % K: return True
    if 1 - fr <= slack and level == (fl + 1) % K: return True
    return False


def oracle_slm(inp):
    """NumPy produce_phase_only_slm_pattern: unit amplitude, integer levels in [0, 2^bits), level = floor of the scaled phase"""
    nw, lw, lt = api()
    dt = inp['dtype']; eps = EPS[dt]; shape = tuple(inp['shape']); r = float(inp['r']); bits = int(inp['bits'])
    f = np_field(inp); f0 = f.copy()
    ill = inp.get('illumination'); A = None
    if ill and 'scalar' in ill: A = float(ill['scalar'])
    if ill and 'array' in ill: A = np.array(ill['array'], dtype=float).reshape(shape)
    pat, dig = nw.produce_phase_only_slm_pattern(f, r, bits=bits, illumination=A)
    pat = np.asarray(pat); dig = np.asarray(dig)
    out = [('input_not_modified', f.tobytes() == f0.tobytes(), True, False),
           ('shapes', tuple(pat.shape) == shape and tuple(dig.shape) == shape, list(shape), [list(pat.shape), list(dig.shape)]),
           ('integer_levels_complex_pattern', dig.dtype.kind in 'iu' and np.iscomplexobj(pat), 'integer levels, complex pattern', [str(dig.dtype), str(pat.dtype)])]
    if not (out[1][1] and out[2][1]) or not dig.size:
        return out
    K = 2 ** bits
    bad = np.flatnonzero((dig.reshape(-1) < 0) | (dig.reshape(-1) >= K))
    out.append(('levels_in_range', bad.size == 0, '0 <= level < %d' % K,
                None if bad.size == 0 else {'index': int(bad[0]), 'sample': inp['vals'][int(bad[0])], 'level': int(dig.reshape(-1)[bad[0]])}))
    pat = pat.astype(np.complex128); Aabs = np.abs(np.ones(shape) if A is None else np.broadcast_to(A, shape)).astype(float)
    tol = 16 * 2.0 ** -52
    e = np.abs(np.abs(pat) - Aabs) - tol * (1 + Aabs)
    out.append(('unit_amplitude', bool(np.all(e <= 0)), '|pattern| == 1 (illumination)', _worst(e, inp['vals'], pat)))
    want = (np.ones(shape) if A is None else np.broadcast_to(A, shape)) * np.exp(1j * dig.astype(float) * r / K)
    e = np.abs(pat - want) - tol * (1 + Aabs) * (1 + r)
    out.append(('pattern_phase_is_level', bool(np.all(e <= 0)), 'A exp(i level r / 2^bits)', _worst(e, inp['vals'], pat)))
    slack = 16 * eps * K                  # rounding of the scaled phase in level units; the remainder amplifies it by |phase| / r
    if slack < 0.25 and bad.size == 0:
        ph = np.asarray(nw.calculate_phase(f)).reshape(-1); rr = float(np.float32(r)) if dt == 'complex64' else r
        lv = dig.reshape(-1); wrong = None
        for i in range(lv.size):
            sl = slack * (1 + abs(float(ph[i])) / r)
            if sl >= 0.25: continue
            s = exact_scaled(ph[i], rr, bits)
            if not level_matches(int(lv[i]), s, bits, sl):
                wrong = {'index': i, 'sample': inp['vals'][i], 'phase': float(ph[i]), 'level': int(lv[i]), 'scaled_phase': float(s)}; break
        out.append(('level_is_floor_of_scaled_phase', wrong is None, 'floor((phase mod r) / r * 2^bits)', wrong))
    return out


def torch_slm_levels(f, r, bits):
    """the PyTorch phase-only SLM mapping, composed as odak.learn.wave.optimizers does:
    quantize(phase % range, bits = bits, limits = [0., range])"""
    nw, lw, lt = api()
    return lt.quantize(lw.calculate_phase(f) % r, bits=bits, limits=[0., r])


def oracle_torch_slm(inp):
    """PyTorch mapping: integer levels in [0, 2^bits), equal to the NumPy levels on the same input"""
    nw, lw, lt = api()
    dt = inp['dtype']; eps = EPS[dt]; shape = tuple(inp['shape']); r = float(inp['r']); bits = int(inp['bits'])
    f = t_field(inp)
    lev_t = torch_slm_levels(f, r, bits)
    out = [('shapes', tuple(lev_t.shape) == shape and not lev_t.is_floating_point() and not lev_t.is_complex(), list(shape), [list(lev_t.shape), str(lev_t.dtype)])]
    if not out[0][1] or not lev_t.numel():
        return out
    lev = lev_t.numpy().reshape(-1).astype(np.int64); K = 2 ** bits
    bad = np.flatnonzero((lev < 0) | (lev >= K))
    out.append(('levels_in_range', bad.size == 0, '0 <= level < %d' % K,
                None if bad.size == 0 else {'index': int(bad[0]), 'sample': inp['vals'][int(bad[0])], 'level': int(lev[bad[0]])}))
    _, dig = nw.produce_phase_only_slm_pattern(np_field(inp), r, bits=bits)
    dig = np.asarray(dig).reshape(-1).astype(np.int64)
    slack = 16 * eps * K
    if slack < 0.25 and bad.size == 0 and not ((dig < 0) | (dig >= K)).any():
        ph = np.asarray(nw.calculate_phase(np_field(inp))).reshape(-1); rr = float(np.float32(r)) if dt == 'complex64' else r
        wrong = None
        for i in range(lev.size):
            if lev[i] == dig[i]: continue
            sl = slack * (1 + abs(float(ph[i])) / r)
            if sl >= 0.25: continue
            s = exact_scaled(ph[i], rr, bits)
            if not (level_matches(int(lev[i]), s, bits, sl) and level_matches(int(dig[i]), s, bits, sl)):
                wrong = {'index': i, 'sample': inp['vals'][i], 'torch': int(lev[i]), 'numpy': int(dig[i])}; break
        out.append(('numpy_torch_levels_agree', wrong is None, 'same levels', wrong))
    return out


def oracle_quantize(inp):
    """PyTorch quantize: [lo, hi] -> integer levels in [0, 2^bits), level = floor((x - lo) / (hi - lo) * 2^bits), monotone"""
    nw, lw, lt = api()
    dt = inp['dtype']; eps = EPS[dt]; bits = int(inp['bits']); lo, hi = float(inp['lo']), float(inp['hi'])
    x = torch.tensor(inp['xs'], dtype=getattr(torch, dt)); x0 = x.clone()
    q = lt.quantize(x, bits=bits, limits=[lo, hi])
    out = [('shapes', tuple(q.shape) == tuple(x.shape) and not q.is_floating_point(), list(x.shape), [list(q.shape), str(q.dtype)]),
           ('input_not_modified', bool(torch.equal(x, x0)), True, False)]
    if not out[0][1]:
        return out
    lev = q.numpy().astype(np.int64); K = 2 ** bits
    bad = np.flatnonzero((lev < 0) | (lev >= K))
    out.append(('levels_in_range', bad.size == 0, '0 <= level < %d' % K, None if bad.size == 0 else {'index': int(bad[0]), 'x': inp['xs'][int(bad[0])], 'level': int(lev[bad[0]])}))
    slack = 16 * eps * K
    if slack < 0.25 and bad.size == 0:
        wrong = None
        for i, xv in enumerate(inp['xs']):
            s = (Fr(xv) - Fr(lo)) / (Fr(hi) - Fr(lo)) * K
            fl = min(math.floor(s), K - 1)
            ok = lev[i] == fl or (float(s - math.floor(s)) <= slack and lev[i] == fl - 1) or (1 - float(s - math.floor(s)) <= slack and lev[i] == min(fl + 1, K - 1))
            if not ok:
                wrong = {'index': i, 'x': xv, 'level': int(lev[i]), 'scaled': float(s)}; break
        out.append(('level_is_floor', wrong is None, 'floor((x - lo) / (hi - lo) * 2^bits)', wrong))
        order = np.argsort(np.array(inp['xs'], dtype=float), kind='stable')
        out.append(('monotone', bool(np.all(np.diff(lev[order]) >= 0)), 'non-decreasing in x', None))
    return out


def oracle_agree(inp):
    """NumPy and PyTorch helpers agree on the same input"""
    nw, lw, lt = api()
    dt = inp['dtype']; eps = EPS[dt]; shape = tuple(inp['shape']); tol = 16 * eps
    f = np_field(inp); ft = t_field(inp)
    mz = mods(inp['vals']).reshape(shape)
    an, at = nw.calculate_amplitude(f), lw.calculate_amplitude(ft).numpy()
    pn, pt = nw.calculate_phase(f), lw.calculate_phase(ft).numpy()
    out = [('dtypes', str(np.asarray(an).dtype) == str(at.dtype) and str(np.asarray(pn).dtype) == str(pt.dtype), 'same real dtype', [str(np.asarray(an).dtype), str(at.dtype)])]
    if not f.size:
        return out
    e = np.abs(np.asarray(an, float) - at.astype(float)) - (tol * mz + 2 * TINY[dt])
    out.append(('amplitude', bool(np.all(e <= 0)), 'equal within %g relative' % tol, _worst(e, inp['vals'], at)))
    e = np.abs(np.asarray(pn, float) - pt.astype(float)) - tol * math.pi
    out.append(('phase', bool(np.all(e <= 0)), 'equal within %g' % (tol * math.pi), _worst(e, inp['vals'], pt)))
    rdt = np.float64 if dt == 'complex128' else np.float32
    a2 = np.array(inp['amp2'], dtype=rdt).reshape(shape); p2 = np.asarray(pn, dtype=rdt)
    gn = nw.generate_complex_field(a2, p2); gt = lw.generate_complex_field(torch.from_numpy(a2.copy()), torch.from_numpy(p2.copy())).numpy()
    e = np.abs(gn.astype(np.complex128) - gt.astype(np.complex128)) - tol * a2.astype(float)
    out.append(('generate_complex_field', bool(np.all(e <= 0)) and str(gn.dtype) == str(gt.dtype), 'equal within %g relative, same dtype' % tol, _worst(e, inp['vals'], gt)))
    sn = nw.set_amplitude(f, a2); st = lw.set_amplitude(ft, torch.from_numpy(a2.copy())).numpy()
    e = np.abs(sn.astype(np.complex128) - st.astype(np.complex128)) - tol * a2.astype(float)
    out.append(('set_amplitude', bool(np.all(e <= 0)), 'equal within %g relative' % tol, _worst(e, inp['vals'], st)))
    return out


ORACLES = {'roundtrip': oracle_roundtrip, 'set_amplitude': oracle_set_amplitude, 'add_phase': oracle_add_phase,
           'slm': oracle_slm, 'torch_slm': oracle_torch_slm, 'quantize': oracle_quantize, 'agree': oracle_agree}
FUNCTION = {('roundtrip', 'numpy'): 'odak.wave.generate_complex_field', ('roundtrip', 'torch'): 'odak.learn.wave.generate_complex_field',
            ('set_amplitude', 'numpy'): 'odak.wave.set_amplitude', ('set_amplitude', 'torch'): 'odak.learn.wave.set_amplitude',
            ('add_phase', None): 'odak.wave.add_phase', ('slm', None): 'odak.wave.produce_phase_only_slm_pattern',
            ('torch_slm', None): 'odak.learn.tools.quantize(odak.learn.wave.calculate_phase(field) % range)', ('quantize', None): 'odak.learn.tools.quantize',
            ('agree', None): 'odak.wave/odak.learn.wave helpers'}


def apply_oracle(ctx, name, inp):
    try:
        with np.errstate(all='ignore'):
            res = ORACLES[name](inp)
    except Exception as e:
        res = [('no_exception', False, 'a result', repr(e))]
    bad = 0
    fn = FUNCTION.get((name, inp.get('api')))
    for clause, ok, exp, obs in res:
        if not ok:
            bad += 1
            ctx.violation(fn, clause, dict(inp, oracle=name), exp, obs)
    return bad, res


# ---------------------------------------------------------------- B1: translator self-check
def self_check(ctx, g):
    """traced terms evaluated numerically == the real functions (float64), on random and boundary samples"""
    nw, lw, lt = api()
    rng = ctx.rng; bad = 0; n = 0

    def chk(name, env, val, rt=1e-9, at=1e-12):
        nonlocal bad, n
        n += 1
        got = g.evalf(name, env)
        if not emit.close(got, val, rt, at):
            bad += 1; ctx.log('self-check mismatch', name, env, got, val)

    samples = [(rng.gauss(0, 2), rng.gauss(0, 2)) for _ in range(24)] + [(-1.0, 0.0), (0.0, 0.0), (0.0, -2.0), (3.0, 0.0), (-1.0, -1e-9), (1.0, -1e-3)]
    for k, (a, b) in enumerate(samples):
        z = np.array([complex(a, b)]); zt = torch.tensor([complex(a, b)], dtype=torch.complex128)
        env = {'zr_0': a, 'zi_0': b}
        chk('n_phase', env, nw.calculate_phase(z)[0]); chk('t_phase', env, lw.calculate_phase(zt)[0].item())
        chk('n_phase_deg', env, nw.calculate_phase(z, deg=True)[0]); chk('t_phase_deg', env, lw.calculate_phase(zt, deg=True)[0].item())
        chk('n_amp', env, nw.calculate_amplitude(z)[0]); chk('t_amp', env, lw.calculate_amplitude(zt)[0].item())
        am, ph = abs(rng.gauss(0, 2)), rng.uniform(-4, 4)
        gn = nw.generate_complex_field(np.array([am]), np.array([ph]))[0]; gt = lw.generate_complex_field(torch.tensor([am], dtype=torch.float64), torch.tensor([ph], dtype=torch.float64))[0]
        e2 = {'am_0': am, 'ph_0': ph}
        chk('n_gcf_re', e2, gn.real); chk('n_gcf_im', e2, gn.imag); chk('t_gcf_re', e2, gt.real.item()); chk('t_gcf_im', e2, gt.imag.item())
        c, d = rng.gauss(0, 2), rng.gauss(0, 2)
        e3 = dict(env, ar_0=c, ai_0=d)
        sn = nw.set_amplitude(z, np.array([complex(c, d)]))[0]; st = lw.set_amplitude(zt, torch.tensor([complex(c, d)], dtype=torch.complex128))[0]
        chk('n_setamp_re', e3, sn.real); chk('n_setamp_im', e3, sn.imag); chk('t_setamp_re', e3, st.real.item()); chk('t_setamp_im', e3, st.imag.item())
        q = rng.uniform(-6, 6); ap = nw.add_phase(z, q)[0]
        chk('n_addphase_re', dict(env, q_0=q), ap.real); chk('n_addphase_im', dict(env, q_0=q), ap.imag)
        if True:
            r = rng.choice(RANGES + [rng.uniform(0.5, 7)]); bits = rng.randint(1, 12)
            s = float(exact_scaled(nw.calculate_phase(z)[0], r, bits))
            if min(s - math.floor(s), math.ceil(s) - s) > 1e-6 or s == 0:       # away from level boundaries (float vs real model)
                pat, dig = nw.produce_phase_only_slm_pattern(z, r, bits=bits)
                e4 = dict(env, r=r, b=float(bits))
                chk('n_slm_level', e4, float(dig[0]), 0, 0); chk('n_slm_re', e4, pat[0].real); chk('n_slm_im', e4, pat[0].imag)
                il = rng.uniform(0.2, 2); pat2, dig2 = nw.produce_phase_only_slm_pattern(z, r, bits=bits, illumination=np.array([il]))
                chk('n_slm_ill_re', dict(e4, il_0=il), pat2[0].real); chk('n_slm_ill_im', dict(e4, il_0=il), pat2[0].imag); chk('n_slm_ill_level', e4, float(dig2[0]), 0, 0)
        lo = rng.uniform(-2, 2); hi = lo + rng.uniform(0.5, 7); x = lo + (hi - lo) * rng.random(); bits = rng.randint(1, 12)
        s = (x - lo) / (hi - lo) * 2 ** bits
        if min(s - math.floor(s), math.ceil(s) - s) > 1e-6:
            chk('t_quant', {'x_0': x, 'lo': lo, 'hi': hi, 'b': float(bits)}, float(lt.quantize(torch.tensor([x], dtype=torch.float64), bits=bits, limits=[lo, hi])[0].item()), 0, 0)
    ctx.traces += n
    ctx.obligation('translator-self-check(traced terms = real functions on %d values)' % n, bad == 0 and n > 0, '%d mismatches' % bad)


# ---------------------------------------------------------------- B2: binary64 level model executed inside Coq
def flit(x):
    """exact PrimFloat literal of a python float"""
    x = float(x)
    h = abs(x).hex() if x != 0 else '0x0p+0'
    neg = math.copysign(1.0, x) < 0
    return '(- %s)%%float' % h if neg else '%s%%float' % h


def float_model_correspondence(ctx, ncase):
    nw, lw, lt = api()
    rng = ctx.rng; terms = []; want = []; meta = []
    for c in range(ncase):
        kind = 'boundary' if c % 2 == 0 else 'mixed'
        bits = rng.choice([1, 4, 8, 10, 12, 16]) if c % 3 else rng.randint(1, 16)
        r = rng.choice(RANGES) if c % 4 else rng.uniform(0.5, 7.0)
        vals = gen_vals(rng, 20, 'complex128', kind, r, bits)
        f = np.array([complex(a, b) for a, b in vals])
        ph = nw.calculate_phase(f)
        _, dig = nw.produce_phase_only_slm_pattern(f, r, bits=bits)
        for i in range(len(vals)):
            terms.append('slm_level_f %s %s %s' % (flit(ph[i]), flit(r), zlit(bits)))
            want.append(int(dig[i])); meta.append((vals[i], float(ph[i]), r, bits))
    pre = 'From Coq Require Import Floats ZArith.\nFrom OdakV Require Import C09.Model.\nOpen Scope Z_scope.'
    got = ctx.coq_eval(pre, terms, label='slmfloat', chunk=200)
    bad = []
    for g_, w_, m_ in zip(got, want, meta):
        if g_ is None: continue
        v = int(g_.replace('(', '').replace(')', '').split('%')[0].strip())
        if v != w_: bad.append({'sample': m_[0], 'phase': m_[1], 'range': m_[2], 'bits': m_[3], 'coq_model': v, 'odak': w_})
        ctx.case('float-model/bits%d' % m_[3], ('fm', m_[1], m_[2], m_[3]))
    ctx.traces += len(terms)
    ctx.obligation('float-model-correspondence(binary64 slm_level_f in Coq == hologram_digital of odak on %d phases)' % len(terms),
                   not bad and None not in got, json.dumps(bad[:5]))
    if bad:
        ctx.sample({'float_model_mismatch': bad[0]})
    return bad


# ---------------------------------------------------------------- run / search / replay
def run(ctx):
    ctx.rule = ('complex fields of shapes (), (1,), (n,), (h,w), (1,h,w), 4-D and empty, complex128 and complex64, both APIs; value streams: '
                'gaussian, polar with magnitudes 1e-150..1e150 (1e-30..1e30 for complex64), unit circle, and a boundary stream (all +-0 '
                'combinations, negative reals with +-0 imaginary part, pure imaginary, 1e+-30, 1e+-300, smallest subnormal, phases just '
                'below/above 0 and +-pi (1 - 1e-20 i ...), phases on level boundaries k r / 2^bits); bits 1..16 (boundary: up to 30), ranges '
                '2 pi, pi, 6.28, wavelength-adjusted and random; amplitudes real/complex incl. 0 and 1e+-20; non-trivial = all value clauses '
                'evaluated on a non-empty array; distinct by (oracle, api, dtype, values, parameters)')
    ctx.trusted += ['tracer/shim.py + tracer/recipes/c09.py (translator; validated each run by the numeric self-check)',
                    'numpy/torch kernels (abs, angle/atan2, cos, sin, remainder, casts): modelled as exact real functions in B1; '
                    'binary64 remainder/division/product/truncation modelled exactly in B2 (PrimFloat); libm atan2/cos/sin rounding not modelled (oracles, tolerance 16 ulp)',
                    'array plumbing (broadcasting over shapes, dtypes, np.copy, optional save_image) is exercised by the direct oracles only',
                    'the PyTorch SLM mapping is the composition quantize(phase % r, bits, [0, r]) written in odak/learn/wave/optimizers.py; the oracle composes the real helpers the same way']
    ctx.assumptions += ['SLM range r > 0; bit depth 1..30 (levels are int32: at 31 bits the scaled value 2^31 of a wrapped phase overflows the cast before it can be saturated)', 'magnitudes whose modulus does not overflow the dtype']
    ctx.gate()
    ctx.ensure_theories(['theories/C09/Props.vo'])
    ctx.theorems('OdakV.C09.Props', PROPS)
    # B1
    try:
        g = recipe.trace()
        ctx.programs = len(g.defs)
        ctx.obligation('translator:trace(%d definitions, %d nodes)' % (len(g.defs), g.total_size()), True)
    except Exception as e:
        g = None
        ctx.obligation('translator:trace', False, repr(e))
    if g is not None:
        ctx.compile_tie('GenC09', g.text(), [['C09_TieA'], ['C09_TieProps']])
        try:
            self_check(ctx, g)
        except Exception as e:
            ctx.obligation('translator-self-check', False, repr(e))
        ctx.sample({'traced_definition': 'n_slm_level', 'coq': __import__('tracer.shim').shim.coq(g.by_name['n_slm_level'][1])[:500]})
    # B2
    try:
        float_model_correspondence(ctx, 300 if ctx.thorough else 25)
    except Exception as e:
        ctx.obligation('float-model-correspondence', False, repr(e))
    # direct oracles
    cases = gen_cases(ctx, 12000 if ctx.thorough else 300)
    for name, inp in cases:
        bad, res = apply_oracle(ctx, name, inp)
        key = (name, inp.get('api'), inp['dtype'], json.dumps(inp.get('vals', inp.get('xs'))), inp.get('r'), inp.get('bits'))
        ctx.case('%s/%s/%s/%s' % (name, inp.get('api', '-'), inp['dtype'], inp['kind']), key, nontrivial=len(res) >= 4)
        if len(ctx.samples) < 5 and name in ('slm', 'roundtrip') and numel(inp['shape']) > 0:
            ctx.sample({'oracle': name, 'api': inp.get('api'), 'dtype': inp['dtype'], 'shape': inp['shape'], 'first_values': inp['vals'][:3],
                        'r': inp.get('r'), 'bits': inp.get('bits'), 'clauses': [c for c, ok, _, _ in res if ok]})


def search(ctx):
    for name, inp in gen_cases(ctx, 2500):
        apply_oracle(ctx, name, inp)
        if len(ctx.viol) > 3:
            return


def replay(ctx, rec):
    if rec.get('no_failing_input_found'):
        print('replay names broken obligations only:', json.dumps(rec['broken_obligations'])[:3000]); return 1
    inp = dict(rec['input']); name = inp.pop('oracle')
    with np.errstate(all='ignore'):
        res = ORACLES[name](inp)
    for r in res:
        print(('FAIL ' if not r[1] else 'ok   ') + r[0], '' if r[1] else 'expected=%s observed=%s' % (r[2], r[3]))
    return 1 if [r for r in res if not r[1]] else 0
