"""C06 — the propagator forward model is history-independent and matches its documented model.

Proof: coq/theories/C06 (cache state machine: every cached kernel is the kernel of its own key, the output
of any operation in any reachable state equals what a fresh object returns; induction over arbitrary
interleavings of forward calls and reconstructions) + back_and_forth_net.
Tie B1 (every run): propagator.__call__ is traced from the current source on a stub object (cold and warm
cache, both propagator types) and proved to be crop(custom(pad u, kernel(lambda_c, z_d), aperture)) with the
aperture applied once (coq/tie/C06_Tie.v); `custom` itself is tied in Wave_TieP.
Tie B2 (every run): the state machine is executed inside Coq on the same operation sequences the real object
is driven through; generated-kernel bookkeeping after every operation and the (key, field) labelling of every
output are compared.  Direct oracles: every result equals a fresh object's result and the documented pipeline
computed independently with numpy.
"""
import itertools, json, math
import numpy as np
import torch
from harness.common import listlit, zlit, parse_zlist
from harness import wave_common as W
from tracer.recipes import c06 as recipe

PROPS = ['C06_history_independent', 'C06_prefix_irrelevant', 'C06_cached_kernel_is_own', 'C06_back_and_forth_net', 'C06_instance']
RES = [6, 5]
NCH, NDP = 2, 2
PRE = ('From Coq Require Import List ZArith Bool. Import ListNotations.\nFrom OdakV Require Import C06.Model.\n'
       'Definition keys : list key := [(0,0); (0,1); (1,0); (1,1)]%nat.\n'
       'Definition enc (b : list bool) : list Z := map (fun x : bool => if x then 1%Z else 0%Z) b.\n'
       'Definition obs (ops : list (op Z)) := map (fun p => (enc (fst p), snd p)) (run_obs Z Z (fun k => (Z.of_nat (fst k) * 10 + Z.of_nat (snd k))%Z) (fun h u => (h * 1000 + u)%Z) keys (init Z) ops).\n')


def make(cfg):
    from odak.learn.wave import propagator
    rng = np.random.default_rng(cfg['aseed'])
    ap = None
    if cfg['aperture'] == 'grey': ap = torch.tensor(rng.uniform(0.1, 1.0, RES), dtype=torch.float32)
    elif cfg['aperture'] == 'binary': ap = torch.tensor((rng.uniform(0, 1, RES) > 0.4) * 1.0, dtype=torch.float32)
    elif cfg['aperture'] == 'complex': ap = torch.tensor(rng.uniform(0.2, 1, RES) * np.exp(1j * rng.uniform(0, 6, RES)), dtype=torch.complex64)
    return propagator(resolution=list(RES), wavelengths=list(cfg['lams']), pixel_pitch=cfg['dx'], number_of_frames=cfg.get('frames', 1),
                      number_of_depth_layers=NDP, distances=list(cfg['zs']) if cfg.get('explicit_distances') else None,
                      volume_depth=cfg['zs'][1] - cfg['zs'][0], image_location_offset=(cfg['zs'][0] + cfg['zs'][1]) / 2,
                      propagation_type=cfg['method'], propagator_type=cfg['ptype'], back_and_forth_distance=cfg['zm'],
                      aperture=ap, aperture_samples=[2, 2, 1, 1])


def field(fid):
    rng = np.random.default_rng(1000 + fid)
    return torch.tensor(rng.standard_normal(RES) + 1j * rng.standard_normal(RES), dtype=torch.complex64)


def phases(fid, frames):
    rng = np.random.default_rng(5000 + fid)
    return torch.tensor(rng.uniform(0, 2 * math.pi, [frames] + RES), dtype=torch.float32)


def documented(cfg, p, u, c, d):
    """zero-pad, FFT, multiply ONCE by the kernel of (lambda_c, z_d) and ONCE by the aperture, inverse FFT, crop — in numpy"""
    from odak.learn.wave import get_propagation_kernel
    h, w = RES
    lam = cfg['lams'][c]; z = float(p.distances[d])
    def ker(dist):
        return get_propagation_kernel(nu=2 * h, nv=2 * w, dx=cfg['dx'], wavelength=lam, distance=dist, propagation_type=cfg['method'], samples=[2, 2, 1, 1], scale=1).numpy().astype(complex)
    if cfg['ptype'] == 'forward': K = ker(z)
    else: K = ker(cfg['zm']) * ker(-(cfg['zm'] + float(p.image_location_offset) - z))
    A = p.aperture.numpy().astype(complex)
    pad = np.zeros((2 * h, 2 * w), dtype=complex)
    sh, sw = (2 * h) // 2 - h // 2, (2 * w) // 2 - w // 2
    pad[sh:sh + h, sw:sw + w] = W.to_np(u)
    U = np.fft.fftshift(np.fft.fft2(pad)) * A * K
    out = np.fft.ifft2(np.fft.ifftshift(U))
    return out[sh:sh + h, sw:sw + w]


class Recorder:
    """wraps custom() and get_propagation_kernel() as the propagator module sees them and records, for every convolution the
    IMPLEMENTATION performs, the field it was given, the kernel it used and what it returned, and every kernel request"""
    def __init__(self):
        import odak.learn.wave.propagators as PM
        self.PM = PM; self.calls = []; self.requests = []
        self.orig = (PM.custom, PM.get_propagation_kernel)
        def custom(field, kernel, *a, **k):
            out = self.orig[0](field, kernel, *a, **k)
            self.calls.append((field.detach().clone(), kernel.detach().clone(), out.detach().clone()))
            return out
        import inspect
        sig = inspect.signature(self.orig[1])
        def gpk(*a, **k):
            b = sig.bind(*a, **k); b.apply_defaults()          # by parameter name, however the caller passed them
            self.requests.append((float(b.arguments.get('wavelength', float('nan'))), float(b.arguments.get('distance', float('nan')))))
            return self.orig[1](*a, **k)
        self.custom, self.gpk = custom, gpk
    def __enter__(self):
        self.PM.custom, self.PM.get_propagation_kernel = self.custom, self.gpk; return self
    def __exit__(self, *a):
        self.PM.custom, self.PM.get_propagation_kernel = self.orig


def crop(y):
    h, w = RES
    if tuple(y.shape[-2:]) == (h, w): return y
    sh, sw = (2 * h) // 2 - h // 2, (2 * w) // 2 - w // 2
    return y[..., sh:sh + h, sw:sw + w]


def dist(a, b):
    a = a.reshape(-1).to(torch.complex128); b = b.reshape(-1).to(torch.complex128)
    if a.shape != b.shape: return float('inf')
    e = float((a - b).abs().max()) / max(1e-30, float(b.abs().max()))
    return e if e == e else float('inf')


def close(a, b, tol):
    return dist(a, b) <= tol


def nearest(x, table, tol):
    """the entry of the table nearest to x, if within tol and strictly nearer than every other entry"""
    ds = sorted((dist(x, v), i) for i, (k, v) in enumerate(table.items()))
    if not ds or not ds[0][0] <= tol: return None
    return list(table.keys())[ds[0][1]]


def drive(cfg, ops):
    """run the op sequence on ONE object; after each op record generated flags, outputs, and (from the recorder) which kernel
    and which input field the implementation actually used to produce each output"""
    p = make(cfg)
    rec = []
    for o in ops:
        with Recorder() as R:
            if o[0] == 'call':
                _, d, c, fid = o
                y = p(field(fid), c, d)
                outs = [((d, c), ('f', fid), y)]
            else:
                fid = o[1]
                frames = cfg.get('frames', 1)
                if len(o) > 2 and o[2] == 'int':
                    # the other documented mode: amplitude profiles per colour primary given, intensities returned
                    r = p.reconstruct(phases(fid, frames), amplitude=amps(fid), get_complex=False)
                    outs = [((d, c), ('ri', fid, fr, c), r[fr, d, c]) for fr in range(frames) for d in range(NDP) for c in range(NCH)]
                else:
                    r = p.reconstruct(phases(fid, frames), get_complex=True)
                    outs = [((d, c), ('r', fid, fr, c), r[fr, d, c]) for fr in range(frames) for d in range(NDP) for c in range(NCH)]
        flags = [int(bool(p.generated_kernels[d, c])) for d in range(NDP) for c in range(NCH)]
        rec.append((flags, outs, R.calls, R.requests))
    return p, rec


def amps(fid):
    rng = np.random.default_rng(7000 + fid)
    return torch.tensor(rng.uniform(0.2, 1.0, [NCH] + RES), dtype=torch.float32)


def in_field(cfg, p, lab):
    """the field the documented reconstruct() hands to the forward model for output label lab"""
    if lab[0] == 'f': return field(lab[1])
    return recon_field(cfg, p, lab[1], lab[2], lab[3], with_amp=lab[0] == 'ri')


def as_output(lab, y):
    """what reconstruct() stores for a propagated field y"""
    return y.abs() ** 2 if lab[0] == 'ri' else y


def recon_field(cfg, p, fid, fr, c, with_amp=False):
    from odak.learn.wave import generate_complex_field
    ph = phases(fid, cfg.get('frames', 1))
    amp = amps(fid)[c] if with_amp else torch.ones(RES)
    return generate_complex_field(p.get_laser_powers()[fr][c] * amp, ph[fr] * p.phase_scale[c])


def check_sequence(ctx, cfg, ops):
    """returns (model_term, compare_fn)"""
    p, rec = drive(cfg, ops)
    viol = 0
    # direct oracle: every output equals a fresh object's output and the documented pipeline
    for (flags, outs, _calls, _reqs), o in zip(rec, ops):
        for (d, c), lab, y in outs:
            fresh = make(cfg)
            u = in_field(cfg, fresh, lab)
            yf = fresh(u, c, d)
            sc = max(1e-30, float(as_output(lab, yf).abs().max()))
            e1 = float((y - as_output(lab, yf)).abs().max()) / sc
            inp = {'cfg': cfg, 'ops': ops, 'at': [d, c, list(lab)]}
            if not e1 <= 1e-6:
                ctx.violation('odak.learn.wave.propagator', 'equals_fresh_object', inp, 'fresh propagator output', {'max_rel_diff': e1}); viol += 1
            doc = documented(cfg, fresh, u, c, d)
            e2 = float(np.abs(W.to_np(yf) - doc).max()) / max(1e-30, float(np.abs(doc).max()))
            if not e2 <= 5e-4:
                ctx.violation('odak.learn.wave.propagator', 'equals_documented_model', inp, 'pad, fft2, kernel(lambda_c, z_d) once, aperture once, ifft2, crop', {'max_rel_diff': e2}); viol += 1
    # 'back and forth' with a pure-phase kernel family (angular spectrum, Fresnel transfer function) = one forward propagation by the
    # net distance z_d - image_location_offset (C06_Tie.traced_back_and_forth_is_net; the phases are additive in z: Wave_TieK as_add / tf_add)
    if cfg['ptype'] == 'back and forth' and cfg['method'] in ('Angular Spectrum', 'Transfer Function Fresnel') and ops:
        baf = make(cfg)
        off = float(baf.image_location_offset)
        fwd = make(dict(cfg, ptype='forward', explicit_distances=True, zs=[float(z) - off for z in baf.distances]))
        fwd.image_location_offset = baf.image_location_offset
        u = field(7)
        for d in range(NDP):
            for c in range(NCH):
                a = baf(u, c, d); b = fwd(u, c, d)
                e3 = float((a - b).abs().max()) / max(1e-30, float(b.abs().max()))
                if not e3 <= 5e-3:
                    ctx.violation('odak.learn.wave.propagator', 'back_and_forth_is_net_distance', {'cfg': cfg, 'ops': ops, 'at': [d, c, ['f', 7]]}, 'forward propagator by z_d - image_location_offset', {'max_rel_diff': e3}); viol += 1
    # model term for Coq: same ops with integer field ids
    def fid_of(lab):
        return lab[1] if lab[0] == 'f' else 500 + lab[1] * 20 + lab[2] * 4 + lab[3]      # 'r' and 'ri' of one id differ by the amplitude profile only
    terms = []
    for o in ops:
        if o[0] == 'call':
            terms.append('Call Z (%d, %d)%%nat %d%%Z' % (o[1], o[2], o[3]))
        else:
            terms.append('Reconstruct Z %d %d %d (fun fr c => (%d + Z.of_nat fr * 4 + Z.of_nat c)%%Z)' % (cfg.get('frames', 1), NDP, NCH, 500 + o[1] * 20))
    # what the IMPLEMENTATION did, identified from the tensors it handled (not from the harness's labels): for each output, the
    # recorded convolution that produced it, the key whose kernel that convolution used and the field it was applied to
    fresh = make(cfg)
    ref_k = {}
    for d in range(NDP):
        for c in range(NCH):
            with Recorder() as R0:
                fresh(field(0), c, d)
            if R0.calls: ref_k[(d, c)] = R0.calls[-1][1]
    cand = {}
    for (flags, outs, calls, reqs) in rec:
        for (d, c), lab, y in outs:
            if tuple(lab) not in cand:
                cand[tuple(lab)] = in_field(cfg, fresh, lab)
    expected, observed_ok, unident = [], True, 0
    for flags, outs, calls, reqs in rec:
        row = []
        for (d, c), lab, y in outs:
            hit = [cl for cl in calls if close(as_output(lab, crop(cl[2])), y, 1e-6)]
            if float(y.abs().max()) == 0.0:
                # a channel whose laser power is 0 in this frame: zero field in, zero field out, nothing to identify
                row.append((d * 10 + c) * 1000 + fid_of(lab)); unident += 1; continue
            if not hit:
                observed_ok = False; row.append((d * 10 + c) * 1000 + fid_of(lab)); continue
            # (an all-zero output, e.g. a channel whose laser power is 0 in this frame, matches several convolutions: any of them may be the producer)
            ids = []
            for f_in, k_in, _ in hit:
                key = nearest(k_in, ref_k, 1e-5)
                fld = nearest(crop(f_in), cand, 1e-6)
                ids.append((key[0] * 10 + key[1] if key else 99) * 1000 + (fid_of(fld) if fld else 999))
            lab_id = (d * 10 + c) * 1000 + fid_of(lab)
            row.append(lab_id if lab_id in ids else ids[0])
        expected.append((flags, row))
    if not observed_ok: ctx.log('note: some outputs could not be matched to a recorded convolution (custom is not called through the propagator module); harness labels used for them')
    ctx.c06_observed = getattr(ctx, 'c06_observed', 0) + (sum(len(r) for _, r in expected) - unident) * (1 if observed_ok else 0)
    # kernel requests: a hit asks for no kernel; a miss asks for the channel's wavelength (and, forward, the layer's distance)
    seen = set()
    for (flags, outs, calls, reqs), o in zip(rec, ops):
        keys_o = [(o[1], o[2])] if o[0] == 'call' else [(d, c) for d in range(NDP) for c in range(NCH)]
        miss = [kk for kk in dict.fromkeys(keys_o) if kk not in seen]
        seen.update(keys_o)
        if not reqs and miss and not observed_ok: continue
        per = 1 if cfg['ptype'] == 'forward' else 2
        want = sorted(float(cfg['lams'][c]) for (d, c) in miss for _ in range(per))
        got = sorted(w for w, _ in reqs)
        okreq = len(got) == len(want) and all(abs(a - b) <= 1e-9 * abs(b) for a, b in zip(got, want))
        if okreq and cfg['ptype'] == 'forward':
            wd = sorted(float(fresh.distances[d]) for (d, c) in miss); gd = sorted(z for _, z in reqs)
            okreq = all(abs(a - b) <= 1e-6 * max(1.0, abs(b)) for a, b in zip(gd, wd))
        if not okreq:
            ctx.violation('odak.learn.wave.propagator', 'kernel_requests', {'cfg': cfg, 'ops': ops, 'at': list(o)}, 'kernels are requested exactly for the missing (depth, channel) keys, with that channel\'s wavelength and that layer\'s distance', {'requests': reqs, 'missing_keys': miss}); viol += 1
    return 'obs %s' % listlit(terms), expected, viol


def parse_obs(s):
    """Coq value [([1;0;..], [v; v]); ...] -> list of (flags, outs)"""
    out = []
    for part in s.strip()[1:-1].split(');'):
        if not part.strip(): continue
        a, b = part.split('],', 1)
        out.append((parse_zlist(a), parse_zlist(b)))
    return out


def gen_cfg(rng, i):
    method = ['Bandlimited Angular Spectrum', 'Angular Spectrum', 'Transfer Function Fresnel', 'Impulse Response Fresnel'][i % 4]
    lam = rng.uniform(0.4, 0.7)
    z = rng.uniform(2, 20)
    lam2 = lam * rng.uniform(1.1, 1.4)
    # the pitch respects dx >= lambda / sqrt 2 for BOTH wavelengths (otherwise the angular-spectrum kernels have NaN pixels)
    return {'method': method, 'ptype': ['forward', 'back and forth'][(i // 4) % 2], 'lams': [lam, lam2], 'dx': lam2 * rng.uniform(0.75, 4),
            'zs': [z, z + rng.uniform(1, 5)], 'zm': rng.uniform(5, 30), 'aperture': ['none', 'grey', 'binary', 'complex'][(i // 3) % 4],
            'aseed': rng.randrange(10 ** 6), 'frames': 1 + (i % 3 == 2), 'explicit_distances': i % 5 == 0}


def gen_ops(rng, n):
    ops = []
    for _ in range(n):
        if rng.random() < 0.25: ops.append(('recon', rng.randrange(3)) if rng.random() < 0.6 else ('recon', rng.randrange(3), 'int'))
        else: ops.append(('call', rng.randrange(NDP), rng.randrange(NCH), rng.randrange(6)))
    return ops


def run(ctx):
    ctx.rule = ('operation sequences (forward calls over 2 depths x 2 channels x 6 fields, reconstructions of 1-2 frames) on one '
                'propagator object per configuration (4 methods x forward / back-and-forth x none/grey/binary/complex aperture x '
                'explicit or linspace distances); thorough adds every sequence of <= 3 calls over the four keys; a case is one '
                '(configuration, sequence); all non-trivial; distinct by full description')
    ctx.trusted += ['tracer (opshim; recipes/c06.py stub object with 2 channels x 2 depths)', 'FFT/shift contracts (see C01)',
                    'kernels stored in complex64: equality with a fresh object is exact up to 1e-6, with the numpy pipeline up to 5e-4',
                    'reconstruct(): the loop structure is modelled (Model.loop_frames); amplitude/phase scaling of the input field is taken from the implementation']
    ctx.gate()
    ctx.ensure_theories(['theories/C06/Props.vo'])
    ctx.theorems('OdakV.C06.Props', PROPS)
    try:
        defs, notes = recipe.trace()
        ctx.programs += len(defs)
        ctx.obligation('translator:trace-propagator.__call__(%d terms; kernel requests %s)' % (len(defs), [n['kernel_requests_on_miss'] for n in notes]), True)
        ctx.compile_tie('GenC06', recipe.text(defs), [['C06_Tie']])
        ctx.sample({'traced': defs[0][0], 'term': defs[0][2]})
    except Exception as e:
        ctx.obligation('translator:trace-propagator.__call__', False, repr(e))
    W.trace_and_tie(ctx)
    W.dft_instance(ctx)
    W.fft_contracts(ctx)
    # B2 + oracles
    rng = ctx.rng
    seqs = []
    ncfg = 24 if ctx.thorough else 8
    for i in range(ncfg):
        cfg = gen_cfg(rng, i)
        seqs.append((cfg, gen_ops(rng, rng.randint(2, 7))))
    if ctx.thorough:
        cfg = gen_cfg(rng, 1); cfg['aperture'] = 'grey'
        keys = [(d, c) for d in range(NDP) for c in range(NCH)]
        for L in (1, 2, 3):
            for ks in itertools.product(keys, repeat=L):
                seqs.append((cfg, [('call', d, c, j) for j, (d, c) in enumerate(ks)]))
    terms, expect = [], []
    for cfg, ops in seqs:
        t, e, v = check_sequence(ctx, cfg, ops)
        terms.append(t); expect.append(e)
        ctx.case('%s/%s/%s/len%d' % (cfg['method'], cfg['ptype'], cfg['aperture'], len(ops)), json.dumps([cfg, ops]), n=sum(1 if o[0] == 'call' else cfg.get('frames', 1) * NDP * NCH for o in ops))
        if len(ctx.samples) < 4: ctx.sample({'cfg': cfg, 'ops': ops})
    vals = ctx.coq_eval(PRE, terms, label='machine', chunk=40)
    bad = 0
    for v, e, (cfg, ops) in zip(vals, expect, seqs):
        if v is None: continue
        got = parse_obs(v)
        ctx.traces += 1
        if got != [(list(f), list(o)) for f, o in e]:
            bad += 1
            if bad <= 3: ctx.log('state machine and implementation disagree on', ops, 'model', got, 'implementation', e)
    ctx.obligation('correspondence:cache-state-machine(model in Coq = implementation: generated flags, and for %d outputs the (key of the kernel used, field convolved) identified from the tensors the implementation handled, on %d sequences)' % (getattr(ctx, 'c06_observed', 0), len(seqs)), bad == 0 and getattr(ctx, 'c06_observed', 0) > 0, '%d disagreements' % bad)


def search(ctx):
    rng = ctx.rng
    for i in range(40):
        check_sequence(ctx, gen_cfg(rng, i), gen_ops(rng, 6))
        if len(ctx.viol) > 3: return


def replay(ctx, rec):
    if rec.get('no_failing_input_found'):
        print('replay names broken obligations only:', json.dumps(rec['broken_obligations'])[:3000]); return 1
    inp = rec['input']
    ops = [tuple(o) for o in inp['ops']]
    t, e, v = check_sequence(ctx, inp['cfg'], ops)
    for r in ctx.viol: print('FAIL', r['clause'], r['observed'])
    return 1 if ctx.viol else 0
