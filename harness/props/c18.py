"""C18 — foveation plumbing: pyramid padding, pooling-size maps, radially varying blur are well-formed.

Proof: coq/theories/C18 (Pad over Z for all h, w, n; Pool over R for all gaze/alpha/geometry/modes;
Blur: mip-chain sizes over Z, level selection and blend over Q, whole images under the contract
"interpolate is a convex average").
Tie to /repo, re-checked on every run:
  B1  the bodies of make_eccentricity_distance_maps, make_pooling_size_map_pixels/_lod and
      make_equi_pooling_size_map_pixels/_lod are cut from the current source, executed symbolically
      (tracer/recipes/c18.py) and proved equal to the model for all reals (coq/tie/C18_TieA/B/C/D.v, semantic equality prover coq/theories/C18/TieTac.v); the
      property's clauses are then proved about the traced code itself (coq/tie/C18_TieProps.v); the
      translator is validated numerically against the real functions.
  B2  pad_image_for_pyramid: the tuple handed to ReflectionPad2d, the output size / exception and (small
      shapes) every output element are compared with the model evaluated inside Coq, exhaustively over
      (h, w, n); RadiallyVaryingBlur.blur: the mip-chain sizes come from the model evaluated inside Coq,
      torch supplies the interpolation primitives (contract), and the per-pixel level selection + blend
      is evaluated inside Coq over exact rationals and compared there with the implementation's output.
Direct oracles state every clause on the real implementation and give the replayable failing input.
"""
import json, math
import numpy as np
import torch
import torch.nn.functional as F
from harness.common import zlit, qlit, listlit, parse_zlist
from tracer.recipes import c18 as recipe
from tracer import emit

PROPS = ['C18_pad_amount_least', 'C18_pad_any_border_multiple', 'C18_pad_any_border_keeps_origin', 'C18_pad_any_border_noop',
         'C18_pad_code_is_generic', 'C18_pad_multiple', 'C18_pad_keeps_origin', 'C18_pad_noop', 'C18_pad_values_from_input',
         'C18_pad_reflect_mode_iff', 'C18_pad_reflect_only_defined_iff', 'C18_pad_reflect_only_agrees', 'C18_pad_reflect_only_refuted',
         'C18_pad_legacy_tuple_refuted', 'C18_pad_legacy_width_never_padded',
         'C18_pool_nonneg', 'C18_pool_min_at_gaze', 'C18_ecc_well_defined', 'C18_gaze_on_grid', 'C18_lod_nonneg',
         'C18_lod_zero_at_gaze', 'C18_lod_monotone', 'C18_lod_arg_positive', 'C18_equi_nonneg', 'C18_equi_min_at_gaze',
         'C18_equi_well_defined', 'C18_equi_clamp_harmless', 'C18_mip_chain', 'C18_levels_partition', 'C18_blur_pixel_eq',
         'C18_blend_convex', 'C18_convex_in_range', 'C18_blur_range', 'C18_blur_const', 'C18_blur_shape', 'C18_blur_gaze',
         'C18_blur_near_gaze', 'C18_legacy_chain_refuted', 'C18_legacy_single_level_refuted', 'C18_legacy_mask_agrees',
         'C18_instance']
PRE = ('From Coq Require Import ZArith List QArith. Import ListNotations.\n'
       'From OdakV Require Import C18.Model.\n')
BLUR_TOL = 4e-6          # |model - implementation| per pixel, values in [0, 1] (float32 blend: a few ulp)
FN_PAD = 'odak.learn.perception.pad_image_for_pyramid'
FN_POOL = 'odak.learn.perception.foveation.make_pooling_size_map'
FN_BLUR = 'odak.learn.perception.RadiallyVaryingBlur.blur'


def mods():
    import odak.learn.perception.spatial_steerable_pyramid as ssp
    import odak.learn.perception.foveation as fov
    import odak.learn.perception.radially_varying_blur as rvb
    return ssp, fov, rvb


# ================================================================ pad: observation and oracles
def pad_image(h, w, c=1, b=1):
    n = b * c * h * w
    return (torch.arange(n, dtype=torch.float32) + 1.).reshape(b, c, h, w)


def observe_pad(h, w, n):
    """Run the real function on an image of distinct values and observe the padding BY ITS EFFECT: exception, output
    size, whether the original block sits at (0, 0), whether a fitting image comes back unchanged.  Which torch padding
    primitive was used (mode, tuple) is recorded as an auxiliary note only: every torch.nn padding module and
    torch.nn.functional.pad end in torch.nn.functional.pad, which is wrapped while the function runs."""
    ssp, _, _ = mods()
    rec = {'out': None, 'error': None, 'block_ok': None, 'unchanged': None, 'calls': []}
    real = torch.nn.functional.pad

    def spy(input, pad, mode='constant', value=None):
        rec['calls'].append((mode, [int(p) for p in pad]))
        return real(input, pad, mode=mode, value=value)
    x = pad_image(h, w)
    x0 = x.clone()
    torch.nn.functional.pad = spy
    try:
        y = ssp.pad_image_for_pyramid(x, n)
        rec['out'] = [int(y.shape[2]), int(y.shape[3])]
        rec['y'] = y
        rec['block_ok'] = bool(y.dim() == 4 and y.shape[2] >= h and y.shape[3] >= w and torch.equal(y[:, :, :h, :w], x0))
        rec['unchanged'] = bool(list(y.shape) == list(x0.shape) and torch.equal(y, x0))
    except Exception as e:
        rec['error'] = repr(e)[:160]
    finally:
        torch.nn.functional.pad = real
    return rec


def oracle_pad(inp):
    """every clause of the padding part of the property on the real function"""
    ssp, _, _ = mods()
    h, w, n, c, b = inp['h'], inp['w'], inp['n'], inp.get('c', 1), inp.get('b', 1)
    x = pad_image(h, w, c, b)
    x0 = x.clone()
    m = 2 ** n
    try:
        y = ssp.pad_image_for_pyramid(x, n)
    except Exception as e:
        return [('returns_an_image', False, 'an image with sides that are multiples of %d' % m, repr(e)[:200])]
    out = []
    H, W = int(y.shape[2]), int(y.shape[3])
    out.append(('batch_and_channels_kept', list(y.shape[:2]) == [b, c] and y.dim() == 4, [b, c], list(y.shape)))
    out.append(('height_multiple_of_2^n', H % m == 0, 'H %% %d == 0' % m, H))
    out.append(('width_multiple_of_2^n', W % m == 0, 'W %% %d == 0' % m, W))
    out.append(('least_multiple', h <= H < h + m and w <= W < w + m, [-(-h // m) * m, -(-w // m) * m], [H, W]))
    if H >= h and W >= w:
        same = bool(torch.equal(y[:, :, :h, :w], x0))
        out.append(('original_pixels_at_original_positions', same, 'out[..., :h, :w] == image',
                    None if same else {'out[0,0,0,:4]': y[0, 0, 0, :4].tolist(), 'image[0,0,0,:4]': x0[0, 0, 0, :4].tolist()}))
    else:
        out.append(('original_pixels_at_original_positions', False, 'output at least as large as the input', [H, W]))
    if h % m == 0 and w % m == 0:
        out.append(('fitting_image_unchanged', list(y.shape) == list(x0.shape) and bool(torch.equal(y, x0)), 'the input', list(y.shape)))
    out.append(('argument_unchanged', bool(torch.equal(x, x0)), True, False))
    return out


# ================================================================ pooling maps: oracles
def gaze_pixel_screen(g, H, W):
    return (int(round(g[1] * (H - 1))) if H > 1 else 0, int(round(g[0] * (W - 1))) if W > 1 else 0)


def nbhd_min(a, i, j, wrap=False):
    H, W = a.shape
    best = math.inf
    for di in (-1, 0, 1):
        for dj in (-1, 0, 1):
            ii, jj = i + di, j + dj
            if wrap: jj %= W
            if 0 <= ii < H and 0 <= jj < W:
                v = float(a[ii, jj])
                if v < best: best = v
    return best


def equi_nearest(g, H, W):
    yaw = np.linspace(-np.pi, np.pi, W); pitch = np.linspace(-np.pi / 2, np.pi / 2, H)
    Y, P = np.meshgrid(yaw, pitch)
    d = np.stack([np.sin(Y) * np.cos(P), np.sin(P), np.cos(Y) * np.cos(P)])
    v = np.array([math.sin(g[0]) * math.cos(g[1]), math.sin(g[1]), math.cos(g[0]) * math.cos(g[1])])
    dot = np.clip(np.tensordot(v, d, axes=1), -1, 1)
    k = int(np.argmax(dot))
    return k // W, k % W


def call_maps(inp):
    _, fov, _ = mods()
    H, W, g, alpha, mode = inp['H'], inp['W'], inp['gaze'], inp['alpha'], inp['mode']
    if inp.get('equi'):
        return (fov.make_equi_pooling_size_map_pixels(g, (H, W), alpha, mode), fov.make_equi_pooling_size_map_lod(g, (H, W), alpha, mode))
    return (fov.make_pooling_size_map_pixels(g, (H, W), alpha, inp['rw'], inp['rd'], mode),
            fov.make_pooling_size_map_lod(g, (H, W), alpha, inp['rw'], inp['rd'], mode))


def oracle_pool(inp):
    """pooling-size map (pixels and LOD): shape, finite, non-negative, smallest at the gaze point"""
    H, W, g = inp['H'], inp['W'], inp['gaze']
    try:
        pix, lod = call_maps(inp)
    except Exception as e:
        return [('returns_maps', False, 'two H x W maps', repr(e)[:200])]
    out = []
    for name, m in (('pixels', pix), ('lod', lod)):
        a = m.detach().numpy().astype(float)
        out.append(('%s_shape' % name, list(a.shape) == [H, W], [H, W], list(a.shape)))
        fin = bool(np.isfinite(a).all())
        out.append(('%s_finite' % name, fin, 'finite everywhere', None if fin else {'non_finite_at': np.argwhere(~np.isfinite(a))[:4].tolist(), 'values': [str(v) for v in a[~np.isfinite(a)][:4]]}))
        if not fin or list(a.shape) != [H, W]:
            continue
        out.append(('%s_non_negative' % name, bool((a >= 0).all()), '>= 0 everywhere', float(a.min())))
        if inp.get('check_min'):
            if inp.get('equi'):
                i, j = equi_nearest(g, H, W); near = nbhd_min(a, i, j, wrap=True)
            else:
                i, j = gaze_pixel_screen(g, H, W); near = nbhd_min(a, i, j)
            tol = 1e-3 * float(a.max() - a.min()) + 1e-6
            out.append(('%s_smallest_at_gaze' % name, near <= float(a.min()) + tol, 'minimum attained within one pixel of the gaze pixel %s' % ([i, j],),
                        {'near_gaze': near, 'global_min': float(a.min()), 'argmin': [int(v) for v in np.unravel_index(int(np.argmin(a)), a.shape)]}))
    return out


# ================================================================ blur: oracles
def make_image(inp):
    h, w, c, b, kind = inp['h'], inp['w'], inp.get('c', 1), inp.get('b', 1), inp['kind']
    if kind == 'const':
        return torch.full((b, c, h, w), float(inp.get('value', 0.5)), dtype=torch.float32)
    gen = torch.Generator().manual_seed(int(inp.get('seed', 0)))
    if kind == 'random':
        return torch.rand((b, c, h, w), generator=gen, dtype=torch.float32)
    if kind == 'binary':
        return (torch.rand((b, c, h, w), generator=gen) < 0.5).float()
    if kind == 'ramp':
        r = torch.linspace(0, 1, h * w).reshape(1, 1, h, w).repeat(b, c, 1, 1)
        return r * float(inp.get('scale', 1.0)) + float(inp.get('offset', 0.0))
    raise ValueError(kind)


def call_blur(inp, img, before_final=None):
    _, _, rvb = mods()
    kw = dict(alpha=inp['alpha'], real_image_width=inp.get('rw', 0.2), real_viewing_distance=inp.get('rd', 0.7), mode=inp['mode'], equi=bool(inp.get('equi')))
    if inp.get('warm'):
        # the same object was used before with another gaze, given as a list that the caller then edits in place:
        # the blur must still be the blur for the gaze it is handed now
        obj = rvb.RadiallyVaryingBlur()
        gaze = [float(g) for g in inp['warm']]
        obj.blur(img.clone(), centre=gaze, **kw)
        for k, g in enumerate(inp['gaze']):
            gaze[k] = float(g)
        if before_final: before_final()
        return obj.blur(img, centre=gaze, **kw)
    if before_final: before_final()
    return rvb.RadiallyVaryingBlur().blur(img, centre=tuple(inp['gaze']), **kw)


def lod_map_of(inp):
    _, fov, _ = mods()
    if inp.get('equi'):
        return fov.make_equi_pooling_size_map_lod(tuple(inp['gaze']), (inp['h'], inp['w']), inp['alpha'], inp['mode'])
    return fov.make_pooling_size_map_lod(tuple(inp['gaze']), (inp['h'], inp['w']), inp['alpha'], inp.get('rw', 0.2), inp.get('rd', 0.7), inp['mode'])


def oracle_blur(inp):
    """RadiallyVaryingBlur is an averaging operator: shape kept, constants kept, range kept, gaze pixel unblurred"""
    img = make_image(inp)
    img0 = img.clone()
    try:
        out_t = call_blur(inp, img)
    except Exception as e:
        return [('returns_an_image', False, 'an image of shape %s' % (list(img.shape),), repr(e)[:200])]
    res = []
    res.append(('shape_kept', list(out_t.shape) == list(img.shape), list(img.shape), list(out_t.shape)))
    if list(out_t.shape) != list(img.shape):
        return res
    o = out_t.detach().numpy().astype(float); x = img0.numpy().astype(float)
    fin = bool(np.isfinite(o).all())
    res.append(('finite', fin, 'finite', None if fin else 'non-finite values'))
    lo, hi = float(x.min()), float(x.max())
    eps = 2e-6 * max(1.0, abs(lo), abs(hi))
    if inp['kind'] == 'const':
        dev = float(np.abs(o - x).max())
        res.append(('constant_image_kept', dev <= eps, 'output == %r everywhere' % lo, {'max_deviation': dev, 'min': float(o.min()), 'max': float(o.max())}))
    res.append(('stays_in_input_range', float(o.min()) >= lo - eps and float(o.max()) <= hi + eps, [lo, hi], [float(o.min()), float(o.max())]))
    # the gaze pixel: deviation at most lod * (hi - lo); exactly unchanged where the LOD is 0
    try:
        lod = lod_map_of(inp).numpy().astype(float)
        h, w = inp['h'], inp['w']
        if inp.get('equi'):
            i, j = equi_nearest(inp['gaze'], h, w)
        else:
            i, j = gaze_pixel_screen(inp['gaze'], h, w)
        l = float(lod[i, j])
        if math.isfinite(l) and l < 1.0:
            dev = float(np.abs(o[:, :, i, j] - x[:, :, i, j]).max())
            res.append(('gaze_pixel_unblurred', dev <= l * (hi - lo) + eps, '|out - in| <= lod * range = %g at pixel %s' % (l * (hi - lo), [i, j]), dev))
    except Exception as e:
        res.append(('gaze_pixel_unblurred', False, 'a LOD map', repr(e)[:200]))
    res.append(('argument_unchanged', bool(torch.equal(img, img0)), True, False))
    # each image of a batch is blurred as it would be alone
    if inp.get('b', 1) > 1:
        one = call_blur(inp, img0[:1].clone()).numpy().astype(float)
        res.append(('batch_items_independent', float(np.abs(one - o[:1]).max()) <= eps, 'same result as a batch of one', float(np.abs(one - o[:1]).max())))
    return res


ORACLES = {'pad': oracle_pad, 'pool': oracle_pool, 'blur': oracle_blur}
FN = {'pad': FN_PAD, 'pool': FN_POOL, 'blur': FN_BLUR}


def apply_oracle(ctx, name, inp):
    try:
        res = ORACLES[name](inp)
    except Exception as e:
        res = [('oracle_ran', False, 'a verdict', repr(e)[:300])]
    bad = 0
    fn = FN[name] + ('[equi]' if inp.get('equi') and name == 'pool' else '')
    seen = ctx.__dict__.setdefault('_c18_reported', {})
    for clause, ok, exp, obs in res:
        if not ok:
            bad += 1
            if seen.get((fn, clause), 0) < 2:          # keep room in the report for every distinct clause
                if ctx.violation(fn, clause, dict(inp, oracle=name), exp, obs) == 'violation':
                    seen[(fn, clause)] = seen.get((fn, clause), 0) + 1
    return bad, res


# ================================================================ generators
def gen_gaze(rng, H, W, equi):
    r = rng.random()
    if equi:
        if r < 0.35:
            j, i = rng.randrange(W), rng.randrange(H)       # a pixel direction, as float32 linspace gives it
            return [float(torch.linspace(-torch.pi, torch.pi, W)[j]), float(torch.linspace(-torch.pi * 0.5, torch.pi * 0.5, H)[i])]
        if r < 0.5:
            return [rng.choice([-math.pi, 0.0, math.pi, math.pi / 2]), rng.choice([-math.pi / 2, 0.0, math.pi / 2])]
        return [rng.uniform(-math.pi, math.pi), rng.uniform(-math.pi / 2, math.pi / 2)]
    if r < 0.3:
        return [rng.randrange(W) / max(1, W - 1), rng.randrange(H) / max(1, H - 1)]      # a pixel centre
    if r < 0.45:
        return [rng.choice([0.0, 0.5, 1.0]), rng.choice([0.0, 0.5, 1.0])]
    return [rng.random(), rng.random()]


def gen_size(rng, big=48):
    r = rng.random()
    if r < 0.25:
        s = rng.randint(2, big); return s, s
    if r < 0.40:
        return rng.choice([(1, 1), (1, 2), (2, 1), (2, 2), (1, rng.randint(3, big)), (rng.randint(3, big), 1), (2, rng.randint(3, big)), (rng.randint(3, big), 2)])
    if r < 0.55:
        a = rng.randint(2, 12); k = rng.randint(2, 6)                 # elongated, both orientations
        return rng.choice([(a, min(a * k, 4 * big)), (min(a * k, 4 * big), a)])
    if r < 0.7:
        p = 2 ** rng.randint(1, 6); return rng.choice([(p, p), (p, 2 * p), (2 * p, p), (p + 1, p - 1 if p > 1 else 1), (p - 1 if p > 1 else 1, p + 1)])
    return rng.randint(2, big), rng.randint(2, big)


def gen_pool_case(rng, equi):
    H, W = gen_size(rng, 40)
    alpha = rng.choice([rng.uniform(0.01, 0.5), rng.uniform(0.01, 0.5), rng.uniform(0.5, 2.0)])
    mode = rng.choice(['quadratic', 'linear'])
    g = gen_gaze(rng, H, W, equi)
    inp = {'H': H, 'W': W, 'gaze': g, 'alpha': alpha, 'mode': mode, 'equi': equi}
    if not equi:
        inp['rw'] = rng.choice([0.2, 0.3, rng.uniform(0.05, 2.0)]); inp['rd'] = rng.choice([0.6, 0.7, rng.uniform(0.1, 2.0)])
    # the "smallest at the gaze" clause is compared where the geometry resolves the gaze: moderate field of
    # view, pooling radius below a full turn (alpha <= 0.5), at least 2 pixels per side, pixel spacing
    # well above float32 acos noise (5e-4 rad)
    if alpha <= 0.5 and H >= 2 and W >= 2:
        if equi:
            inp['check_min'] = (2 * math.pi / (W - 1) > 4e-3 and math.pi / (H - 1) > 4e-3)
        else:
            fovr = inp['rw'] / inp['rd']
            ar = max(H, W) / min(H, W)
            inp['check_min'] = fovr <= 1.5 and ar <= 4 and (inp['rw'] / max(W - 1, 1)) / inp['rd'] * (1 / (1 + fovr * fovr)) > 4e-3
    return inp


def gen_blur_case(rng, small=False):
    h, w = gen_size(rng, 20 if small else 48)
    equi = rng.random() < 0.3
    inp = {'h': h, 'w': w, 'c': rng.choice([1, 3]), 'b': rng.choice([1, 1, 2]), 'gaze': gen_gaze(rng, h, w, equi),
           'alpha': rng.choice([0.2, rng.uniform(0.05, 0.5), rng.uniform(0.5, 2.0)]), 'mode': rng.choice(['quadratic', 'linear']),
           'equi': equi, 'kind': rng.choice(['const', 'random', 'random', 'ramp', 'binary']), 'seed': rng.randrange(10 ** 6)}
    if not equi:
        inp['rw'] = rng.choice([0.2, rng.uniform(0.05, 2.0)]); inp['rd'] = rng.choice([0.7, rng.uniform(0.1, 2.0)])
    if inp['kind'] == 'const':
        inp['value'] = rng.choice([0.5, 1.0, 0.0, 0.25, rng.random()])
    if inp['kind'] == 'ramp':
        inp['scale'] = rng.choice([1.0, 2.0, 255.0]); inp['offset'] = rng.choice([0.0, -1.0, 10.0])
    if rng.random() < 0.3 and inp['kind'] != 'const':
        inp['warm'] = gen_gaze(rng, h, w, equi)              # object reused after an in-place edit of the caller's gaze list
    return inp


# ================================================================ B1: translator self-check
def self_check(ctx, g):
    _, fov, _ = mods()
    rng = ctx.rng
    H, W = recipe.H, recipe.W
    bad = n = 0
    for t in range(60):
        g0, g1 = rng.uniform(0.02, 0.98), rng.uniform(0.02, 0.98)
        alpha, rw, rd = rng.uniform(0.05, 0.5), rng.uniform(0.1, 1.0), rng.uniform(0.3, 1.5)
        for tag, mode in recipe.MODES.items():
            pix = fov.make_pooling_size_map_pixels([g0, g1], (H, W), alpha, rw, rd, mode).numpy().astype(float)
            lod = fov.make_pooling_size_map_lod([g0, g1], (H, W), alpha, rw, rd, mode).numpy().astype(float)
            ya, pa = rng.uniform(-3.0, 3.0), rng.uniform(-1.4, 1.4)
            epx = fov.make_equi_pooling_size_map_pixels([ya, pa], (H, W), alpha, mode).numpy().astype(float)
            eld = fov.make_equi_pooling_size_map_lod([ya, pa], (H, W), alpha, mode).numpy().astype(float)
            for i in range(H):
                for j in range(W):
                    p, l = recipe.eval_screen(g, tag, i, j, g0, g1, alpha, rw, rd)
                    ep, el = recipe.eval_equi(g, tag, i, j, ya, pa, alpha)
                    for name, a, b, scale in (('pix', p, pix[i, j], pix.max()), ('lod', l, lod[i, j], 1.0), ('epix', ep, epx[i, j], epx.max()), ('elod', el, eld[i, j], 1.0)):
                        n += 1
                        if not (abs(a - b) <= 5e-3 * max(abs(a), abs(b)) + 2e-3 * scale + 1e-6):
                            bad += 1
                            if bad <= 5: ctx.log('self-check mismatch', name, tag, (i, j), a, b)
    ctx.traces += n
    ctx.obligation('translator-self-check(traced terms = real functions on %d values)' % n, bad == 0 and n > 0, '%d mismatches' % bad)


# ================================================================ B2: pad correspondence
def pad_correspondence(ctx):
    """alarming: what the property fixes (image returned, output size, original block at (0,0), fitting image unchanged)
    against the model evaluated in Coq.  Auxiliary note (never alarming): whether the padding primitive, its tuple and
    the border content are the ones of the model (reflect / replicate with (0, dw, 0, dh))."""
    hi = 70 if ctx.thorough else 40
    cases = [(h, w, n) for n in range(0, 5) for h in range(1, hi + 1) for w in range(1, hi + 1)]
    terms = ['pad_summary %d %d %d' % c for c in cases]
    vals = ctx.coq_eval(PRE + 'Import Pad. Open Scope Z_scope.', terms, label='pad', chunk=500)
    mism = 0
    aux = {'cases_padded': 0, 'primitive_mode_and_tuple_as_model': 0, 'other_primitive': {}}
    for (h, w, n), v in zip(cases, vals):
        if v is None:
            continue
        o = observe_pad(h, w, n)
        needs = v.lstrip('( ').startswith('true')
        refl = 'true' in v.split(')', 1)[1]                      # second component: (reflect_ok, tuple)
        nums = parse_zlist(v)
        size, tup = nums[0:2], nums[2:6]
        ok = o['error'] is None and o['out'] == size and o['block_ok'] and (needs or o['unchanged'])
        ctx.case('pad-summary/n%d/%s' % (n, 'noop' if not needs else ('reflect' if refl else 'replicate')), ('ps', h, w, n), nontrivial=needs)
        ctx.traces += 1
        if needs:
            aux['cases_padded'] += 1
            want = ('reflect' if refl else 'replicate', tup)
            if len(o['calls']) == 1 and (o['calls'][0][0], o['calls'][0][1]) == want:
                aux['primitive_mode_and_tuple_as_model'] += 1
            else:
                k = json.dumps(o['calls'][:2]); aux['other_primitive'][k] = aux['other_primitive'].get(k, 0) + 1
        if not ok:
            mism += 1
            if mism <= 5:
                ctx.log('pad: model/implementation disagree h=%d w=%d n=%d model=%s impl=%s' % (h, w, n, v, {k: o[k] for k in ('out', 'error', 'block_ok', 'unchanged', 'calls')}))
        if len(ctx.samples) < 2 and needs and h != w:
            ctx.sample({'pad': [h, w, n], 'model(needs_pad, size, reflect, tuple)': v, 'implementation': {k: o[k] for k in ('out', 'block_ok', 'calls')}})
    aux['other_primitive'] = dict(list(aux['other_primitive'].items())[:5])
    ctx.obligation('correspondence:pad-size-origin-noop(model=implementation on %d cases)' % len(cases), mism == 0 and len(cases) > 0, '%d disagreements' % mism)
    # whole arrays: size and original block are compared (alarming); the border against the model's reflect/replicate
    # border is a note only (the property does not say what the added pixels contain)
    small = [(h, w, n) for n in (0, 1, 2, 3) for h in range(1, 10) for w in range(1, 10) if (h + 2 * w + n) % 3 != 0 or h == w]
    terms2, obs2 = [], []
    for h, w, n in small:
        rows = (np.arange(h * w) + 1).reshape(h, w)
        lit = listlit([listlit([zlit(v) for v in r]) for r in rows.tolist()])
        terms2.append('run_pad %d %d %d %s' % (h, w, n, lit))
        obs2.append(observe_pad(h, w, n))
    vals2 = ctx.coq_eval(PRE + 'Import Pad. Open Scope Z_scope.', terms2, label='padarr', chunk=120)
    bad2 = 0; border_same = 0
    for (h, w, n), v, o in zip(small, vals2, obs2):
        if v is None:
            continue
        nums = parse_zlist(v)
        H, W, flat = nums[0], nums[1], nums[2:]
        ok = o['error'] is None and [H, W] == o['out'] and len(flat) == H * W
        if ok:
            ym = np.array(flat).reshape(H, W); yi = o['y'][0, 0].numpy().astype(int)
            ok = bool((ym[:h, :w] == yi[:h, :w]).all())
            border_same += int(bool((ym == yi).all()))
        ctx.case('pad-array', ('pa', h, w, n)); ctx.traces += 1
        if not ok:
            bad2 += 1
            if bad2 <= 3: ctx.log('pad array: disagree h=%d w=%d n=%d model=%s impl=%s' % (h, w, n, v[:200], o.get('out')))
    ctx.obligation('correspondence:pad-arrays-size-and-original-block(%d)' % len(small), bad2 == 0, '%d disagreements' % bad2)
    aux['arrays_with_border_equal_to_model'] = '%d of %d' % (border_same, len(small))
    ctx.extra['pad_auxiliary_note(not alarming)'] = aux


# ================================================================ B2: blur correspondence
def build_levels(img1, sizes):
    """the model's chain: sizes from Coq; torch supplies area / bilinear interpolation (the contract)"""
    h, w = img1.shape[-2:]
    chain = [img1]
    for s in sizes[1:]:
        chain.append(F.interpolate(chain[-1], size=tuple(s), mode='area'))
    ups = [img1]
    for k in range(1, len(chain)):
        if k == len(chain) - 1:
            ups.append(chain[k] * torch.ones(img1.shape))
        else:
            ups.append(F.interpolate(chain[k], size=(h, w), mode='bilinear', align_corners=False))
    return chain, ups


def observed_blur(inp, img):
    """Run the real blur and record its own torch.nn.functional.interpolate calls (of the final call).  Returns
    (out, calls) with calls = [(input tensor, output tensor)] in call order."""
    calls = []
    real = torch.nn.functional.interpolate
    state = {'on': False}

    def spy(input, *a, **k):
        r = real(input, *a, **k)
        if state['on']:
            calls.append((input, r))
        return r
    torch.nn.functional.interpolate = spy
    try:
        out = call_blur(inp, img, before_final=lambda: state.update(on=True))
    finally:
        torch.nn.functional.interpolate = real
    return out, calls


def levels_from_calls(img, calls):
    """The implementation's own mip chain and full-size levels, identified by tensor identity: the chain follows the
    calls whose input is the previous level and whose output is not full size; level k's full-size version is reached
    by following the calls that start at chain[k] and produce full-size tensors.  None if the structure is not found."""
    full = tuple(img.shape[-2:])
    used = set()

    def nxt(t, want_full):
        for k, (a, r) in enumerate(calls):
            if k not in used and a is t and ((tuple(r.shape[-2:]) == full) == want_full or (t is img and not want_full)):
                used.add(k); return r
        return None
    chain = [img]
    while True:
        r = nxt(chain[-1], False)
        if r is None or len(chain) > 64:
            break
        chain.append(r)
    ups = [img]
    for k in range(1, len(chain)):
        t = nxt(chain[k], True)
        if t is None:
            if tuple(chain[k].shape[-2:]) == (1, 1) and k == len(chain) - 1:
                ups.append(chain[k] * torch.ones(img.shape)); continue
            return None
        while True:
            r = nxt(t, True)
            if r is None: break
            t = r
        ups.append(t)
    return chain, ups


def blur_correspondence(ctx):
    rng = ctx.rng
    ncase = 90 if ctx.thorough else 36
    cases = []
    fixed = [(8, 4), (64, 48), (2, 1), (1, 2), (1, 1), (16, 4), (4, 16), (1, 9), (9, 1), (5, 3), (3, 5), (2, 2), (7, 7), (12, 8)]
    while len(cases) < ncase:
        inp = gen_blur_case(rng, small=True)
        if len(cases) < len(fixed):
            inp['h'], inp['w'] = fixed[len(cases)]
            inp['gaze'] = gen_gaze(rng, inp['h'], inp['w'], inp['equi'])
        if inp['h'] * inp['w'] > 64 * 48:
            continue
        if inp['kind'] == 'ramp':
            inp['scale'], inp['offset'] = 1.0, 0.0
        if (inp['h'], inp['w']) == (1, 1) and len(cases) < len(fixed):
            # a one-level chain whose only pixel has LOD >= 1 (the coarsest level must take it)
            inp.update({'equi': False, 'alpha': 1.0, 'gaze': [1.0, 1.0], 'rw': 1.0, 'rd': 0.3, 'mode': 'quadratic', 'kind': 'const', 'value': 0.5})
        cases.append(inp)
    shapes = sorted({(c['h'], c['w']) for c in cases})
    vals = ctx.coq_eval(PRE + 'Import Blur. Open Scope Z_scope.', ['mip_sizes %d %d' % s for s in shapes], label='mipsizes', chunk=100)
    sizes = {}
    for s, v in zip(shapes, vals):
        if v is not None:
            z = parse_zlist(v); sizes[s] = [[z[k], z[k + 1]] for k in range(0, len(z), 2)]
    terms, meta = [], []
    contract_bad = 0; raised = 0; chain_bad = 0; levels_observed = 0
    for inp in cases:
        s = (inp['h'], inp['w'])
        if s not in sizes:
            continue
        img = make_image(inp)
        try:
            out, calls = observed_blur(inp, img)
            lod = lod_map_of(inp)
        except Exception as e:
            raised += 1
            ctx.log('blur correspondence: implementation raised on %s: %r' % (json.dumps(inp), e))
            continue
        if list(out.shape) != list(img.shape) or not bool(torch.isfinite(lod).all()):
            raised += 1
            ctx.log('blur correspondence: implementation returned shape %s / non-finite lod on %s' % (list(out.shape), json.dumps(inp)))
            continue
        b, c = rng.randrange(img.shape[0]), rng.randrange(img.shape[1])
        img1 = img[b:b + 1, c:c + 1]
        # the levels are the implementation's OWN interpolation results (so another interpolation mode that is
        # still a convex average does not alarm); their sizes must be the model's chain
        found = levels_from_calls(img, calls)
        if found is not None:
            chain_f, ups_f = found
            observed_sizes = [[int(t.shape[-2]), int(t.shape[-1])] for t in chain_f]
            if observed_sizes != sizes[s]:
                chain_bad += 1
                if chain_bad <= 4: ctx.log('blur: mip chain sizes differ on %dx%d: model %s implementation %s' % (s[0], s[1], sizes[s], observed_sizes))
                continue
            ups = [u[b:b + 1, c:c + 1] for u in ups_f]
            levels_observed += 1
        else:
            chain, ups = build_levels(img1, sizes[s])          # structure not recognised: the model's chain rebuilt with torch
        for a_t, r_t in calls:                      # observed contract: every interpolate call is a convex average
            for bb in range(a_t.shape[0]):
                for cc in range(a_t.shape[1]):
                    lo, hi = float(a_t[bb, cc].min()), float(a_t[bb, cc].max())
                    if float(r_t[bb, cc].min()) < lo - 1e-6 * max(1, abs(lo)) or float(r_t[bb, cc].max()) > hi + 1e-6 * max(1, abs(hi)):
                        contract_bad += 1
        npx = inp['h'] * inp['w']
        # large images: a random subset of pixels goes through Coq (all of them for small ones)
        idx = list(range(npx)) if npx <= 160 else sorted(rng.sample(range(npx), 160))
        lods = lod.reshape(-1)
        t = 'blur_check %s %s %s %s' % (
            listlit([qlit(float(lods[k])) for k in idx]),
            listlit([listlit([qlit(float(u.reshape(-1)[k])) for k in idx]) for u in ups]),
            listlit([qlit(float(out[b, c].reshape(-1)[k])) for k in idx]), qlit(BLUR_TOL))
        terms.append(t); meta.append((inp, len(ups), len(idx)))
    res = ctx.coq_eval(PRE + 'Import Blur. Open Scope Q_scope.', terms, label='blur', chunk=3, timeout=600)
    bad = 0
    for v, (inp, L, k) in zip(res, meta):
        ctx.case('blur-model/%s/%s/L%d' % ('equi' if inp['equi'] else 'screen', inp['kind'], L), ('bm', json.dumps(inp, sort_keys=True)), nontrivial=L > 1)
        ctx.traces += k
        if v is None:
            continue
        if v.strip() != 'true':
            bad += 1
            if bad <= 4: ctx.log('blur: model/implementation disagree on %s' % json.dumps(inp))
        if len(ctx.samples) < 4 and inp['h'] != inp['w']:
            ctx.sample({'blur_case': inp, 'levels': L, 'pixels_compared_in_coq': k, 'agree_within': BLUR_TOL, 'verdict': v})
    ctx.obligation('correspondence:blur(model evaluated in Coq = implementation, %d images, tol %g)' % (len(meta), BLUR_TOL),
                   bad == 0 and raised == 0 and len(meta) > 0, '%d disagreements, %d cases where the implementation raised' % (bad, raised))
    ctx.obligation('correspondence:mip-chain-sizes(model=implementation)', chain_bad == 0, '%d images with another chain' % chain_bad)
    ctx.obligation('contract:interpolate-is-a-convex-average(observed on every interpolate call of %d images)' % len(meta), contract_bad == 0, '%d calls left the range of their input' % contract_bad)
    ctx.extra['blur_levels_taken_from_the_implementation_own_interpolate_calls'] = '%d of %d images' % (levels_observed, len(meta))


# ================================================================ run
def run(ctx):
    ctx.rule = ('pad: every (h, w) up to the tier bound x n in 0..4 through model-in-Coq and implementation (tuple, size, exception), '
                'all elements for h, w < 10; pooling maps: sizes from a structured generator (square, non-square, 1- and 2-pixel sides, '
                'elongated, powers of two +-1), gaze uniform / corners / pixel centres (pixel directions and poles in equirectangular mode), '
                'alpha 0.01..2, geometry 0.05..2 x 0.1..2, both modes; blur: the same sizes with 1 or 3 channels, batch 1 or 2, constant / random / '
                'ramp / binary images; a case is non-trivial when padding was needed / more than one mip level was blended; distinct by full input')
    ctx.trusted += ['tracer/shim.py + tracer/recipes/c18.py (translator; validated each run by the numeric self-check; inner calls and acos are cut points checked by the recipe)',
                    'torch kernels (ReflectionPad2d, interpolate area/bilinear, acos, tan, log2, fmod): ReflectionPad2d is modelled (index arithmetic) and checked element-wise; interpolate enters the theorems through the convex-average contract (observed each run); float rounding is not modelled',
                    'harness/props/c18.py comparators and generators',
                    'lod_map caching / device moves inside RadiallyVaryingBlur are exercised by the oracles only (history independence belongs to C17)']
    ctx.assumptions += ['real-valued model of the pooling maps: the NaN/inf behaviour of float32 is covered by the oracles (finite clause), not by the theorems',
                        'pad_image_for_pyramid returns an image only when ReflectionPad2d accepts the amounts (side > 2^(n-1)); see the open finding']
    ctx.gate()
    ctx.ensure_theories(['theories/C18/Props.vo', 'theories/C18/TieTac.vo'])
    ctx.theorems('OdakV.C18.Props', PROPS)
    ctx.log('theorems checked')
    # ---- B1
    try:
        g = recipe.trace()
        ctx.programs = len(g.defs)
        ctx.obligation('translator:trace(%d definitions, %d nodes)' % (len(g.defs), g.total_size()), True)
    except Exception as e:
        g = None
        ctx.obligation('translator:trace', False, repr(e))
    if g is not None:
        ctx.compile_tie('GenC18', g.text(), [['C18_TieA', 'C18_TieD', 'C18_TieB', 'C18_TieC'], ['C18_TieProps']], timeout=600)
        try:
            self_check(ctx, g)
        except Exception as e:
            ctx.obligation('translator-self-check', False, repr(e))
        ctx.sample({'traced_definition': 'pix_q_0_1', 'coq': __import__('tracer.shim').shim.coq(g.by_name['pix_q_0_1'][1])[:500]})
    ctx.log('B1 done')
    # ---- B2
    pad_correspondence(ctx)
    ctx.log('pad correspondence done')
    blur_correspondence(ctx)
    ctx.log('blur correspondence done')
    # ---- direct oracles
    rng = ctx.rng
    n_or = 0
    hi = 70 if ctx.thorough else 34
    for n in range(0, 5):
        for h in range(1, hi + 1):
            for w in range(1, hi + 1):
                if not (ctx.thorough or w in (h, 1, 2, 2 ** n, 2 ** n + 1, hi) or (h + 3 * w + n) % 5 == 0):
                    continue
                inp = {'h': h, 'w': w, 'n': n, 'c': 1 + (h + w) % 3, 'b': 1 + (h * w) % 2}
                apply_oracle(ctx, 'pad', inp); n_or += 1
                ctx.case('oracle/pad/n%d' % n, ('op', h, w, n), nontrivial=(h % 2 ** n != 0 or w % 2 ** n != 0))
    for h, w, n in [(100, 37, 5), (129, 255, 7), (1080, 1920, 5), (65, 64, 6), (64, 64, 6), (600, 2, 1)]:
        apply_oracle(ctx, 'pad', {'h': h, 'w': w, 'n': n, 'c': 1, 'b': 1}); n_or += 1
        ctx.case('oracle/pad/large', ('op', h, w, n))
    ctx.log('pad oracles done')
    npool = 4000 if ctx.thorough else 1200
    for k in range(npool):
        inp = gen_pool_case(rng, equi=(k % 3 == 0))
        bad, res = apply_oracle(ctx, 'pool', inp); n_or += 1
        ctx.case('oracle/pool/%s/%s%s' % ('equi' if inp['equi'] else 'screen', inp['mode'], '/min' if inp.get('check_min') else ''),
                 ('pool', json.dumps(inp, sort_keys=True)), nontrivial=bool(inp.get('check_min')))
        if k == 1: ctx.sample({'pool_case': inp, 'clauses': [r[0] for r in res]})
    ctx.log('pool oracles done')
    nblur = 3000 if ctx.thorough else 700
    for k in range(nblur):
        inp = gen_blur_case(rng)
        bad, res = apply_oracle(ctx, 'blur', inp); n_or += 1
        ctx.case('oracle/blur/%s/%s/b%dc%d' % ('equi' if inp['equi'] else 'screen', inp['kind'], inp['b'], inp['c']),
                 ('blur', json.dumps(inp, sort_keys=True)), nontrivial=max(inp['h'], inp['w']) > 1)
    ctx.exhaustive = True
    ctx.extra['exhaustive_domain'] = 'pad (model in Coq vs implementation): every (h, w) in [1,%d]^2, n in 0..4' % (70 if ctx.thorough else 40)
    ctx.extra['oracle_calls'] = n_or


def search(ctx):
    """Obligations broke without a failing input from run(): look further out on the implementation."""
    rng = ctx.rng
    for n in range(0, 6):
        for h in list(range(1, 40)) + [63, 64, 65, 100]:
            for w in (h, h + 1, 2 * h + 1, 1, 37):
                apply_oracle(ctx, 'pad', {'h': h, 'w': w, 'n': n, 'c': 1, 'b': 1})
    if len(ctx.viol) > 3:
        return
    for k in range(1500):
        apply_oracle(ctx, 'pool', gen_pool_case(rng, equi=(k % 2 == 0)))
        if k % 3 == 0:
            apply_oracle(ctx, 'blur', gen_blur_case(rng))
        if len(ctx.viol) > 3:
            return


def replay(ctx, rec):
    if rec.get('no_failing_input_found'):
        print('replay names broken obligations only:', json.dumps(rec['broken_obligations'])[:3000]); return 1
    inp = dict(rec['input']); name = inp.pop('oracle')
    res = ORACLES[name](inp)
    for r in res:
        print(('FAIL ' if not r[1] else 'ok   ') + r[0], '' if r[1] else 'expected=%s observed=%s' % (r[2], r[3]))
    return 1 if [r for r in res if not r[1]] else 0
