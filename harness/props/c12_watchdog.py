"""Watchdog for calls into odak that may not return (C12; also used by C11 for `refract`).

A persistent worker process imports a harness module once and serves `fn(*args)` requests over a pipe
(JSON lines).  The parent waits for the answer; when the limit expires the worker is killed and a fresh one is
started for the next call, so the harness itself can never hang on the code under test.

The limit is on the CPU time the worker has consumed for the call (utime + stime from /proc/<pid>/stat), not on
wall-clock time: a loaded machine slows the worker down without making it use more CPU, so load cannot raise an
alarm, while a loop that does not end keeps burning CPU and is caught as soon as it has used `timeout` CPU
seconds.  A generous wall-clock cap (default 30 x the CPU limit, at least 900 s) is the backstop for a call
that blocks without using CPU.

    g = Guard('harness.props.c12', timeout=10)  # 10 CPU seconds per call
    kind, value = g.call('w_refract', inp)      # kind in {'ok', 'exc', 'timeout'}
"""
import json, os, select, subprocess, sys, time

VERIF = os.path.dirname(os.path.dirname(os.path.dirname(os.path.abspath(__file__))))

WORKER = r'''
import sys, os, json, importlib, warnings
warnings.filterwarnings('ignore')
proto = os.fdopen(os.dup(1), 'w')          # private protocol channel
dn = os.open(os.devnull, os.O_WRONLY); os.dup2(dn, 1); os.dup2(dn, 2)   # library chatter (tqdm, prints) is dropped
mod = importlib.import_module(sys.argv[1])
proto.write('ready\n'); proto.flush()
for line in sys.stdin:
    req = json.loads(line)
    try:
        res = {'ok': getattr(mod, req['fn'])(*req['args'])}
    except BaseException as e:
        res = {'exc': repr(e)}
    proto.write(json.dumps(res, default=str) + '\n'); proto.flush()
'''


_TICK = float(os.sysconf('SC_CLK_TCK'))


def cpu_seconds(pid):
    """CPU time (user + system, all threads) consumed so far by the process, or None if it is gone"""
    try:
        with open('/proc/%d/stat' % pid) as f:
            rest = f.read().rsplit(')', 1)[1].split()
        return (int(rest[11]) + int(rest[12])) / _TICK
    except Exception:
        return None


class Guard:
    def __init__(self, module, timeout=10.0, start_timeout=900.0, max_timeouts=4, wall_cap=None):
        self.module, self.timeout, self.start_timeout = module, timeout, start_timeout
        self.wall_cap = wall_cap
        self.max_timeouts, self.timeouts, self.calls, self.p = max_timeouts, 0, 0, None
        self.cpu_used = 0.0

    def _start(self):
        env = dict(os.environ)
        self.p = subprocess.Popen([sys.executable, '-u', '-c', WORKER, self.module], stdin=subprocess.PIPE, stdout=subprocess.PIPE,
                                  stderr=subprocess.DEVNULL, cwd=VERIF, env=env, text=True, bufsize=1)
        line = self._readline(self.start_timeout)
        if line is None or line.strip() != 'ready':
            self.close()
            raise RuntimeError('watchdog worker for %s did not start (%r)' % (self.module, line))

    def _readline(self, wall, cpu=None):
        """one line from the worker, or None when the limit expires / the worker died.  `cpu`: limit on the CPU
        seconds the worker may consume from now on; `wall`: wall-clock backstop."""
        fd = self.p.stdout.fileno()
        end = time.time() + wall
        cpu0 = cpu_seconds(self.p.pid) if cpu is not None else None
        buf = getattr(self, '_buf', b'')
        self.expired_by = None
        while True:
            if b'\n' in buf:
                line, _, rest = buf.partition(b'\n')
                self._buf = rest
                return line.decode()
            left = end - time.time()
            if left <= 0:
                self._buf = buf; self.expired_by = 'wall-clock cap %.0f s' % wall
                return None
            if cpu0 is not None:
                now = cpu_seconds(self.p.pid)
                if now is not None:
                    self.last_cpu = now - cpu0
                    if self.last_cpu >= cpu:
                        self._buf = buf; self.expired_by = '%.1f CPU s' % self.last_cpu
                        return None
            r, _, _ = select.select([fd], [], [], min(left, 0.25))
            if not r:
                continue
            chunk = os.read(fd, 1 << 16)
            if not chunk:
                self._buf = b''
                return None
            buf += chunk

    def exhausted(self):
        return self.timeouts >= self.max_timeouts

    def call(self, fn, *args, timeout=None):
        """('ok', value) | ('exc', text) | ('timeout', text).  `timeout`: CPU seconds allowed for this call.  After
        `max_timeouts` expiries no further call is made (each costs the limit plus a restart) and ('timeout', 0) is
        returned at once."""
        if self.exhausted():
            return 'timeout', 0
        if self.p is None or self.p.poll() is not None:
            self._buf = b''
            self._start()
        self.calls += 1
        t = self.timeout if timeout is None else timeout
        try:
            self.p.stdin.write(json.dumps({'fn': fn, 'args': list(args)}) + '\n'); self.p.stdin.flush()
        except (BrokenPipeError, OSError):
            self.close()
            return 'exc', 'worker pipe closed'
        self.last_cpu = 0.0
        line = self._readline(self.wall_cap if self.wall_cap is not None else max(900.0, 30 * t), cpu=t)
        self.cpu_used += self.last_cpu
        if line is None:
            died = self.p.poll() is not None
            why = self.expired_by
            self.close()
            if died or why is None:
                return 'exc', 'worker process died'
            self.timeouts += 1
            return 'timeout', 'limit %g CPU s, stopped after %s' % (t, why)
        res = json.loads(line)
        return ('ok', res['ok']) if 'ok' in res else ('exc', res['exc'])

    def close(self):
        if self.p is not None:
            try:
                self.p.kill(); self.p.wait(timeout=10)
            except Exception:
                pass
            for f in (self.p.stdin, self.p.stdout):
                try: f.close()
                except Exception: pass
        self.p = None
        self._buf = b''

    def __del__(self):
        self.close()
