"""Watchdog for calls into odak that may not return (C12; also used by C11 for `refract`).

A persistent worker process imports a harness module once and serves `fn(*args)` requests over a pipe
(JSON lines).  The parent waits for the answer with a timeout; when it expires the worker is killed and a
fresh one is started for the next call, so the harness itself can never hang on the code under test.

    g = Guard('harness.props.c12', timeout=10)
    kind, value = g.call('w_refract', inp)      # kind in {'ok', 'exc', 'timeout'}
"""
import json, os, select, subprocess, sys, time

VERIF = os.path.dirname(os.path.dirname(os.path.dirname(os.path.abspath(__file__))))

WORKER = r'''
import sys, os, json, importlib, warnings
warnings.filterwarnings('ignore')
proto = os.fdopen(os.dup(1), 'w')          # private protocol channel
dn = os.open(os.devnull, os.O_WRONLY); os.dup2(dn, 1); os.dup2(dn, 2)   # library chatter (tqdm, prints) is dropped
mod = importlib.import_module(sys.argv[1])
proto.write('ready\n'); proto.flush()
for line in sys.stdin:
    req = json.loads(line)
    try:
        res = {'ok': getattr(mod, req['fn'])(*req['args'])}
    except BaseException as e:
        res = {'exc': repr(e)}
    proto.write(json.dumps(res, default=str) + '\n'); proto.flush()
'''


class Guard:
    def __init__(self, module, timeout=10.0, start_timeout=120.0, max_timeouts=4):
        self.module, self.timeout, self.start_timeout = module, timeout, start_timeout
        self.max_timeouts, self.timeouts, self.calls, self.p = max_timeouts, 0, 0, None

    def _start(self):
        env = dict(os.environ)
        self.p = subprocess.Popen([sys.executable, '-u', '-c', WORKER, self.module], stdin=subprocess.PIPE, stdout=subprocess.PIPE,
                                  stderr=subprocess.DEVNULL, cwd=VERIF, env=env, text=True, bufsize=1)
        line = self._readline(self.start_timeout)
        if line is None or line.strip() != 'ready':
            self.close()
            raise RuntimeError('watchdog worker for %s did not start (%r)' % (self.module, line))

    def _readline(self, timeout):
        """one line from the worker, or None when the timeout expires / the worker died"""
        fd = self.p.stdout.fileno()
        end = time.time() + timeout
        buf = getattr(self, '_buf', b'')
        while True:
            if b'\n' in buf:
                line, _, rest = buf.partition(b'\n')
                self._buf = rest
                return line.decode()
            left = end - time.time()
            if left <= 0:
                self._buf = buf
                return None
            r, _, _ = select.select([fd], [], [], left)
            if not r:
                continue
            chunk = os.read(fd, 1 << 16)
            if not chunk:
                self._buf = b''
                return None
            buf += chunk

    def exhausted(self):
        return self.timeouts >= self.max_timeouts

    def call(self, fn, *args, timeout=None):
        """('ok', value) | ('exc', text) | ('timeout', seconds).  After `max_timeouts` expiries no further call is made
        (each costs the timeout plus a restart) and ('timeout', 0) is returned at once."""
        if self.exhausted():
            return 'timeout', 0
        if self.p is None or self.p.poll() is not None:
            self._buf = b''
            self._start()
        self.calls += 1
        t = self.timeout if timeout is None else timeout
        try:
            self.p.stdin.write(json.dumps({'fn': fn, 'args': list(args)}) + '\n'); self.p.stdin.flush()
        except (BrokenPipeError, OSError):
            self.close()
            return 'exc', 'worker pipe closed'
        line = self._readline(t)
        if line is None:
            died = self.p.poll() is not None
            self.close()
            if died:
                return 'exc', 'worker process died'
            self.timeouts += 1
            return 'timeout', t
        res = json.loads(line)
        return ('ok', res['ok']) if 'ok' in res else ('exc', res['exc'])

    def close(self):
        if self.p is not None:
            try:
                self.p.kill(); self.p.wait(timeout=10)
            except Exception:
                pass
            for f in (self.p.stdin, self.p.stdout):
                try: f.close()
                except Exception: pass
        self.p = None
        self._buf = b''

    def __del__(self):
        self.close()
