"""Deep, bit-exact snapshots of Python values (arrays, tensors, lists, dicts, objects) for the C20 oracles."""
import importlib, inspect, random, sys, types
import numpy as np
import torch

MAX_DEPTH = 6


def snap(x, depth=0, seen=None):
    """A hashable-free, comparable structure capturing the value bit for bit."""
    seen = seen if seen is not None else set()
    if x is None or isinstance(x, (bool, int, str, bytes)):
        return ('s', type(x).__name__, repr(x))
    if isinstance(x, float):
        return ('f', x.hex())
    if isinstance(x, complex):
        return ('c', x.real.hex(), x.imag.hex())
    if isinstance(x, np.ndarray):
        if x.dtype == object:
            return ('ndo', x.shape, [snap(v, depth + 1, seen) for v in x.reshape(-1).tolist()])
        return ('nd', x.dtype.str, x.shape, np.ascontiguousarray(x).tobytes())
    if isinstance(x, np.generic):
        return ('ng', x.dtype.str, x.tobytes())
    if isinstance(x, torch.Tensor):
        y = x.detach()
        if y.is_conj():
            y = y.resolve_conj()
        y = y.cpu().contiguous()
        if y.is_complex():
            y = torch.view_as_real(y).contiguous()
        try:
            b = y.numpy().tobytes()
        except Exception:
            b = repr(y.tolist())
        return ('t', str(x.dtype), tuple(x.shape), str(x.device), bool(x.requires_grad), b)
    if id(x) in seen or depth > MAX_DEPTH:
        return ('ref', type(x).__name__)
    if isinstance(x, (list, tuple)):
        seen = seen | {id(x)}
        return (type(x).__name__, [snap(v, depth + 1, seen) for v in x])
    if isinstance(x, dict):
        seen = seen | {id(x)}
        return ('dict', [(repr(k), snap(v, depth + 1, seen)) for k, v in x.items()])
    if isinstance(x, (set, frozenset)):
        return ('set', sorted(repr(v) for v in x))
    if isinstance(x, (torch.device, torch.dtype, torch.Size, np.dtype, type, types.FunctionType, types.BuiltinFunctionType, types.MethodType, types.ModuleType)):
        return ('imm', repr(x) if not isinstance(x, (types.FunctionType, types.MethodType)) else getattr(x, '__qualname__', 'fn'))
    if isinstance(x, torch.nn.Module):
        seen = seen | {id(x)}
        return ('module', type(x).__name__, bool(x.training), [(k, snap(v, depth + 1, seen)) for k, v in x.state_dict().items()],
                [(n, bool(p.requires_grad)) for n, p in x.named_parameters()])
    if hasattr(x, '__dict__') and (type(x).__module__ or '').startswith('odak'):
        seen = seen | {id(x)}
        return ('obj', type(x).__name__, [(k, snap(v, depth + 1, seen)) for k, v in sorted(vars(x).items(), key=lambda kv: kv[0])])
    return ('foreign', type(x).__module__, type(x).__name__)        # e.g. subprocess.Popen, file objects: identity only


def diff(a, b, path=''):
    """first difference between two snapshots, as a readable path (None if equal)"""
    if type(a) != type(b):
        return '%s: %s -> %s' % (path or '<value>', _short(a), _short(b))
    if isinstance(a, (tuple, list)):
        if len(a) != len(b):
            return '%s: length %d -> %d' % (path or '<value>', len(a), len(b))
        if a and a[0] in ('nd', 't') and isinstance(a[0], str):
            if a != b:
                return '%s: %s' % (path or '<value>', _array_diff(a, b))
            return None
        for i, (x, y) in enumerate(zip(a, b)):
            d = diff(x, y, '%s[%s]' % (path, _label(a, i)))
            if d:
                return d
        return None
    if a != b:
        return '%s: %s -> %s' % (path or '<value>', _short(a), _short(b))
    return None


def _label(a, i):
    return i


def _short(x):
    s = repr(x)
    return s if len(s) < 80 else s[:77] + '...'


def _array_diff(a, b):
    if a[0] == 'nd':
        if a[1:3] != b[1:3]:
            return 'array dtype/shape %s%s -> %s%s' % (a[1], a[2], b[1], b[2])
        x = np.frombuffer(a[3], dtype=np.dtype(a[1])).reshape(a[2]) if a[2] != () else np.frombuffer(a[3], dtype=np.dtype(a[1]))
        y = np.frombuffer(b[3], dtype=np.dtype(b[1])).reshape(b[2]) if b[2] != () else np.frombuffer(b[3], dtype=np.dtype(b[1]))
        idx = np.argwhere(~((x == y) | ((x != x) & (y != y))))
        if len(idx):
            i = tuple(int(v) for v in idx[0])
            return 'array element %s: %r -> %r (%d of %d elements differ)' % (list(i), x[i].item(), y[i].item(), len(idx), x.size)
        return 'array bytes differ'
    if a[1:4] != b[1:4]:
        return 'tensor dtype/shape/device %s -> %s' % (a[1:4], b[1:4])
    if a[4] != b[4]:
        return 'tensor requires_grad %s -> %s' % (a[4], b[4])
    n = sum(1 for p, q in zip(a[5], b[5]) if p != q) if isinstance(a[5], bytes) else -1
    return 'tensor data differ (%d bytes of %d)' % (n, len(a[5]))


def resolve(dotted):
    """import the longest module prefix of a dotted name and walk the rest by getattr"""
    parts = dotted.split('.')
    for k in range(len(parts), 0, -1):
        try:
            obj = importlib.import_module('.'.join(parts[:k]))
        except Exception:
            continue
        for p in parts[k:]:
            obj = getattr(obj, p)
        return obj
    raise ImportError(dotted)


def reseed(seed=12345):
    random.seed(seed)
    np.random.seed(seed % (2 ** 31))
    torch.manual_seed(seed)


_DEFAULTS = None


def all_defaults():
    """{qualified name: function} for every function / method defined in an imported odak module"""
    global _DEFAULTS
    if _DEFAULTS is not None:
        return _DEFAULTS
    out = {}
    import odak                                            # noqa: F401  (imports the sub-packages)
    for sub in ('odak.learn', 'odak.learn.wave', 'odak.learn.tools', 'odak.learn.raytracing', 'odak.learn.perception', 'odak.learn.models',
                'odak.learn.lensless', 'odak.tools', 'odak.wave', 'odak.raytracing', 'odak.measurement', 'odak.jones', 'odak.fit', 'odak.catalog'):
        try:
            importlib.import_module(sub)
        except Exception:
            pass
    for mn, mod in list(sys.modules.items()):
        if not (mn == 'odak' or mn.startswith('odak.')) or mod is None:
            continue
        for name, obj in list(vars(mod).items()):
            if inspect.isfunction(obj) and (obj.__module__ or '').startswith('odak'):
                out['%s.%s' % (obj.__module__, obj.__qualname__)] = obj
            elif inspect.isclass(obj) and (obj.__module__ or '').startswith('odak'):
                for mname, meth in list(vars(obj).items()):
                    if inspect.isfunction(meth):
                        out['%s.%s' % (obj.__module__, meth.__qualname__)] = meth
    _DEFAULTS = out
    return out


def snap_defaults():
    return {q: snap((f.__defaults__, f.__kwdefaults__)) for q, f in all_defaults().items() if f.__defaults__ or f.__kwdefaults__}
