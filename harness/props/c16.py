"""C16 — depth-plane slicing partitions the image exactly.

Proof: coq/theories/C16 (any quantiser with range 0..n-1 gives exactly one plane per pixel; the
quantiser's range over R and in IEEE binary32 (Flocq); half-open/closed intervals over sorted
positions; targets sum / all-in-focus = image; defocus keeps in-focus pixels; single plane).

Tie to /repo, re-checked on every run:
  B1  set_targets, get_targets and add_defocus_blur of both classes (conv2d with the Gaussian kernel as an
      uninterpreted operator; 1 channel x 2 and 3 planes, 3 channels x 2 planes, and a path with an empty
      plane) and slice_rgbd_targets are cut from the current source, executed symbolically at 2x2x{1,3} with a
      symbolic multiplier, and coq/tie/C16_Tie*.v prove for all reals, for WHATEVER quantiser expression the
      code uses: the quantised depth is an integer in 0..n-1 on [0,1]; mask_i = (q == i); target, focus,
      defocus targets and what get_targets returns equal the model; the property restated on the traced terms.
  B2  the implementation is observed (both classes, naive and defocus with multipliers 1, 2, 1/2, 4; slicer);
      the executable model is run inside Coq on the OBSERVED plane numbers and masks, targets (divided by the
      multiplier), all-in-focus target and returned depth are compared EXACTLY (image values are k/256);
      the observed plane numbers must be integers in 0..n-1 between the binary32 round-down and round-up of
      fl32(depth*(n-1)) (Flocq), agreement with round-half-even is recorded as information only; the slicer's
      masks are compared exactly with the binary32 interval model.  Depth maps contain 0, 1, k/(n-1),
      k/(n-1) +- 0.5/(n-1) and their +-1, +-2 ulp neighbours.
Meaning of `multiplier` (documented by the code: "multiplier to multiply with targets"): add_defocus_blur returns
multiplier * (planes), so an in-focus pixel of target i is multiplier * image; the all-in-focus target is the
image itself for every multiplier; scheme='naive' does not apply the multiplier (only observed with 1.0).
Direct oracles state every clause of the property on the real implementation.
"""
import ast, fractions, json, math, re
import numpy as np
import torch
from harness.common import zlit, listlit

PROPS = ['C16_masks_partition', 'C16_masks_partition_real_valued', 'C16_integer_part_quantisers_in_range', 'C16_set_targets_any_quantiser',
         'C16_depth_out_range', 'C16_exec_from_observed_plane_numbers', 'C16_masks_disjoint', 'C16_round_range', 'C16_round_range_float32',
         'C16_float32_quantiser_spec', 'C16_masks_sum_one', 'C16_targets_sum', 'C16_focus_is_image',
         'C16_set_targets_float32', 'C16_set_targets_real', 'C16_intervals_partition',
         'C16_intervals_partition_float32', 'C16_slice_targets_sum', 'C16_defocus_keeps_focus',
         'C16_single_plane_real', 'C16_single_plane_float32', 'C16_single_plane_slice', 'C16_single_plane_defocus',
         'C16_exec_masks_partition', 'C16_exec_focus_is_image', 'C16_exec_slice_partition',
         'C16_focus_legacy_channel_sum', 'C16_focus_legacy_refuted', 'C16_focus_legacy_one_channel',
         'C16_quantisers_differ', 'C16_instance']
PRE = ('From Coq Require Import ZArith List. Import ListNotations. Open Scope Z_scope.\n'
       'From OdakV Require Import C16.Model.')
CLASSES = ('multiplane_loss', 'perceptual_multiplane_loss')
F32 = np.float32


def api():
    import odak.learn.wave.loss as wl
    import odak.learn.perception.util as pu
    return wl, pu


def make_loss(cls, image, depth, n, scheme, blur_size=5, blur_ratio=0.25, multiplier=1.0):
    wl, _ = api()
    kw = dict(number_of_planes=n, scheme=scheme, target_blur_size=blur_size, blur_ratio=blur_ratio, multiplier=multiplier)
    if cls == 'perceptual_multiplane_loss':
        kw['additional_loss_weights'] = {}
    return getattr(wl, cls)(image, depth, **kw)


# ---------------------------------------------------------------- exact literals
def dy(x):
    """float -> Coq dyadic literal (m, e) with x = m * 2^e exactly"""
    f = fractions.Fraction(float(x))
    k = f.denominator.bit_length() - 1
    assert f.denominator == 1 << k
    return '(%s, %s)' % (zlit(f.numerator), zlit(-k))


def pylit(s):
    """Coq list/tuple/bool/int printout -> python object"""
    s = re.sub(r'%\w+', '', s).replace(';', ',').replace('true', 'True').replace('false', 'False')
    return ast.literal_eval(s)


def as_int_grid(t, scale=256):
    """tensor -> nested list of exact Fractions*scale reduced to int where integral (else the Fraction as str)"""
    a = np.asarray(t.detach().cpu().numpy(), dtype=np.float64)
    out = np.empty(a.shape, dtype=object)
    for idx in np.ndindex(*a.shape):
        v = a[idx]
        if not math.isfinite(v):
            out[idx] = 'nonfinite:%r' % v
        else:
            f = fractions.Fraction(float(v)) * scale
            out[idx] = int(f) if f.denominator == 1 else str(f)
    return out.tolist()


# ---------------------------------------------------------------- generators
def f32_next(x, up):
    return F32(np.nextafter(F32(x), F32(2.0) if up else F32(-1.0)))


def boundary_depths(n):
    """0, 1, k/(n-1), k/(n-1) +- 0.5/(n-1) and their float32 neighbours, all inside [0, 1]"""
    vals = {F32(0.0), F32(1.0)}
    if n >= 2:
        for k in range(n):
            for off in (0.0, 0.5, -0.5):
                b = (k + off) / (n - 1)
                if 0.0 <= b <= 1.0:
                    c = F32(b)
                    for v in (c, f32_next(c, True), f32_next(c, False), f32_next(f32_next(c, True), True), f32_next(f32_next(c, False), False)):
                        if 0.0 <= float(v) <= 1.0:
                            vals.add(F32(v))
    return sorted(vals)


def gen_depth(rng, n, P, mode):
    """P float32 depth values in [0, 1]"""
    b = boundary_depths(n)
    out = []
    for k in range(P):
        r = rng.random()
        if mode == 'boundary' or (mode == 'mixed' and r < 0.5):
            out.append(F32(b[rng.randrange(len(b))]))
        elif r < 0.6:
            out.append(F32(rng.choice([0.0, 1.0, 0.5, 0.25, 0.75])))
        else:
            out.append(F32(rng.random()))
    return [F32(min(1.0, max(0.0, float(v)))) for v in out]


def gen_image_int(rng, C, P):
    """integers 0..256 (pixel value k/256), with zeros and ones mixed in"""
    return [[rng.choice([0, 0, 256, rng.randint(1, 255), rng.randint(1, 255), rng.randint(1, 255)]) for _ in range(P)] for _ in range(C)]


def gen_positions(rng, N, kind):
    """N+1 sorted plane positions spanning [0, 1]"""
    if kind == 'linspace':
        return [float(x) for x in np.linspace(0.0, 1.0, N + 1)]
    if kind == 'dyadic':
        inner = sorted(rng.randint(1, 63) / 64.0 for _ in range(N - 1))
        return [0.0] + inner + [1.0]
    if kind == 'repeated':                       # non-strictly sorted: empty planes
        inner = sorted(rng.choice([0.0, 0.25, 0.5, 0.5, 0.75, 1.0]) for _ in range(N - 1))
        return [0.0] + inner + [1.0]
    inner = sorted(rng.random() for _ in range(N - 1))
    return [0.0] + inner + [1.0]


def slice_boundary_depths(pos):
    vals = {F32(0.0), F32(1.0)}
    for p in pos:
        c = F32(p)
        for v in (c, f32_next(c, True), f32_next(c, False)):
            if 0.0 <= float(v) <= 1.0:
                vals.add(F32(v))
    return sorted(vals)


SHAPES = [(1, 1), (1, 3), (3, 1), (2, 2), (2, 3), (3, 4), (4, 4), (5, 3)]


# ---------------------------------------------------------------- direct oracles (the property on the code)
def oracle_multiplane(inp):
    """inp: cls, scheme, n, C, H, W, image (C x H x W floats in [0,1]), depth (H x W floats in [0,1]),
    blur_size, blur_ratio.  Every clause of the property for the multiplane target builders."""
    cls, n, C, H, W = inp['cls'], inp['n'], inp['C'], inp['H'], inp['W']
    img = torch.tensor(inp['image'], dtype=torch.float32).reshape(C, H, W)
    dep = torch.tensor(inp['depth'], dtype=torch.float32).reshape(H, W)
    img0, dep0 = img.clone(), dep.clone()
    if inp.get('prior'):
        # the caller has already built another loss object from the SAME image and depth tensors
        make_loss(inp['prior'], img, dep, n, 'naive', inp.get('blur_size', 5), inp.get('blur_ratio', 0.25)).get_targets()
    mult = float(inp.get('multiplier', 1.0))
    # `multiplier` scales the targets (add_defocus_blur: `targets * multiplier`); the all-in-focus target is the
    # image itself.  scale = what an in-focus pixel of the returned targets is, relative to the image.
    scale = mult if inp['scheme'] == 'defocus' else 1.0
    L = make_loss(cls, img, dep, n, inp['scheme'], inp.get('blur_size', 5), inp.get('blur_ratio', 0.25), mult)
    targets, focus, dnorm = L.get_targets()
    masks = L.masks.detach().clone()
    out = []
    out.append(('shapes', list(targets.shape) == [n, C, H, W] and list(masks.shape) == [n, C, H, W] and list(focus.shape) == [C, H, W],
                [[n, C, H, W], [n, C, H, W], [C, H, W]], [list(targets.shape), list(masks.shape), list(focus.shape)]))
    if not out[-1][1]:
        return out
    binary = bool(((masks == 0) | (masks == 1)).all())
    out.append(('masks_binary', binary, '0/1', sorted(set(masks.reshape(-1).tolist()))[:6]))
    cover = masks.sum(0)
    out.append(('masks_disjoint_and_cover', bool((cover == 1).all()), 'every pixel in exactly one plane',
                {'planes_per_pixel': cover[0].reshape(-1).tolist()[:16]}))
    out.append(('masks_same_for_all_channels', bool((masks == masks[:, :1]).all()), True, False))
    q = L.target_depth.detach().reshape(-1)
    inrange = bool(((q >= 0) & (q <= max(n - 1, 0)) & (q == torch.round(q))).all())
    out.append(('plane_index_in_range', inrange, '0..%d' % (n - 1), q.tolist()[:16]))
    agree = all(bool(((q == i).reshape(H, W) == (masks[i, 0] == 1)).all()) for i in range(n))
    out.append(('mask_is_plane_index', agree, True, agree))
    infocus = (targets * masks).sum(0)
    out.append(('in_focus_targets_sum_to_image', bool((infocus == img0 * scale).all()), 'sum_i targets_i*mask_i == multiplier*image, channel by channel',
                {'max_abs_err': float((infocus - img0 * scale).abs().max()), 'multiplier': mult}))
    div = 1 if n == 1 else n - 1
    out.append(('returned_depth_is_plane_number_over_n_minus_1', bool(torch.equal(dnorm, L.target_depth.detach() / div)) and bool(((dnorm >= 0) & (dnorm <= 1)).all()),
                'plane number / max(1, n-1), in [0, 1]', dnorm.reshape(-1).tolist()[:8]))
    out.append(('focus_target_is_image', bool((focus == img0).all()), 'all-in-focus target == image, channel by channel',
                {'max_abs_err': float((focus - img0).abs().max()), 'focus[0][:4]': focus[0].reshape(-1).tolist()[:4], 'image[0][:4]': img0[0].reshape(-1).tolist()[:4]}))
    per_plane = bool(((targets * masks) == img0.unsqueeze(0) * masks * scale).all())
    out.append(('in_focus_pixels_unchanged', per_plane, 'targets_i*mask_i == multiplier*image*mask_i',
                {'max_abs_err': float(((targets * masks) - img0.unsqueeze(0) * masks * scale).abs().max()), 'multiplier': mult}))
    if inp['scheme'] == 'naive':
        out.append(('targets_sum_to_image', bool((targets.sum(0) == img0).all()), 'sum_i targets_i == image',
                    {'max_abs_err': float((targets.sum(0) - img0).abs().max())}))
        out.append(('target_is_image_times_mask', bool((targets == img0.unsqueeze(0) * masks).all()), True, False))
    else:
        Ln = make_loss(cls, img0.clone(), dep0.clone(), n, 'naive', inp.get('blur_size', 5), inp.get('blur_ratio', 0.25))
        tn, fn, _ = Ln.get_targets()
        same = bool(((targets * masks) == tn * scale).all()) and bool((Ln.masks == masks).all()) and bool((fn == focus).all())
        out.append(('defocus_keeps_in_focus_pixels', same, 'blurred targets restricted to their own plane == unblurred targets', same))
        out.append(('defocus_finite', bool(torch.isfinite(targets).all()), True, False))
    if n == 1:
        out.append(('single_plane_reproduces_image', bool((targets[0] == img0 * scale).all()), 'targets[0] == multiplier*image',
                    {'max_abs_err': float((targets[0] - img0 * scale).abs().max()), 'multiplier': mult}))
    out.append(('caller_tensors_unchanged', bool(torch.equal(img, img0)) and bool(torch.equal(dep, dep0)), 'image and depth as passed in',
                {'image_changed': not bool(torch.equal(img, img0)), 'depth_changed': not bool(torch.equal(dep, dep0))}))
    return out


def oracle_slice(inp):
    """inp: C, H, W, image, depth, positions (N+1 sorted floats spanning the depth range), pos_kind list|tensor"""
    _, pu = api()
    C, H, W = inp['C'], inp['H'], inp['W']
    img = torch.tensor(inp['image'], dtype=torch.float32).reshape(C, H, W)
    dep = torch.tensor(inp['depth'], dtype=torch.float32).reshape(H, W)
    pos = inp['positions']
    N = len(pos) - 1
    img0 = img.clone()
    p = torch.tensor(pos, dtype=torch.float64) if inp.get('pos_kind') == 'tensor' else list(pos)
    targets, masks = pu.slice_rgbd_targets(img, dep, p)
    out = []
    out.append(('shapes', list(targets.shape) == [N, C, H, W] and list(masks.shape) == [N, C, H, W], [N, C, H, W], [list(targets.shape), list(masks.shape)]))
    if not out[-1][1]:
        return out
    out.append(('masks_binary', bool(((masks == 0) | (masks == 1)).all()), '0/1', sorted(set(masks.reshape(-1).tolist()))[:6]))
    cover = masks.sum(0)
    out.append(('masks_disjoint_and_cover', bool((cover == 1).all()), 'every pixel in exactly one plane',
                {'planes_per_pixel': cover[0].reshape(-1).tolist()[:16], 'depth': dep.reshape(-1).tolist()[:16]}))
    out.append(('masks_same_for_all_channels', bool((masks == masks[:, :1]).all()), True, False))
    out.append(('targets_sum_to_image', bool((targets.sum(0) == img0).all()), 'sum_i targets_i == image',
                {'max_abs_err': float((targets.sum(0) - img0).abs().max())}))
    out.append(('target_is_image_times_mask', bool((targets == img0.unsqueeze(0) * masks).all()), True, False))
    if N == 1:
        out.append(('single_plane_reproduces_image', bool((targets[0] == img0).all()), 'targets[0] == image', False))
    return out


def oracle_delta_kernel(inp):
    """contract of the model's `blur 0 f = f`: the nsigma = 0 kernel of generate_2d_gaussian, normalised as
    add_defocus_blur does, is the one-hot kernel and conv2d(.., padding='same') with it is the identity"""
    from odak.learn.tools import generate_2d_gaussian
    k = inp['blur_size']
    out = []
    for ns in ([0., 0.], [0, 0]):
        ker = generate_2d_gaussian([k, k], list(ns))
        ker = ker / torch.sum(ker)
        want = torch.zeros(k, k); want[k // 2, k // 2] = 1.0
        out.append(('sigma0_kernel_is_delta', bool((ker == want).all()), 'one-hot at the centre', {'centre': float(ker[k // 2, k // 2]), 'sum_off_centre': float((ker - want).abs().sum())}))
        g = torch.Generator().manual_seed(int(inp.get('seed', 0)))
        x = torch.rand(1, 1, inp.get('H', 4), inp.get('W', 5), generator=g)
        y = torch.nn.functional.conv2d(x, ker.unsqueeze(0).unsqueeze(0), padding='same')
        out.append(('conv_with_delta_is_identity', bool((x == y).all()), True, float((x - y).abs().max())))
    return out


ORACLES = {'multiplane': oracle_multiplane, 'slice': oracle_slice, 'delta_kernel': oracle_delta_kernel}
FN = {'multiplane': lambda i: 'odak.learn.wave.%s' % i['cls'], 'slice': lambda i: 'odak.learn.perception.util.slice_rgbd_targets',
      'delta_kernel': lambda i: 'odak.learn.wave.multiplane_loss.add_defocus_blur'}


def apply_oracle(ctx, name, inp):
    try:
        res = ORACLES[name](inp)
    except Exception as e:
        res = [('no_exception', False, 'a result', repr(e)[:300])]
    bad = 0
    for clause, ok, exp, obs in res:
        if not ok:
            bad += 1
            ctx.violation(FN[name](inp), clause, dict(inp, oracle=name), exp, obs)
    return bad, res


def gen_oracle_case(rng, kind, big=False):
    """one JSON-able oracle input"""
    C = rng.choice([1, 3])
    H, W = rng.choice(SHAPES + ([(7, 9), (12, 10)] if big else []))
    P = H * W
    image = [[rng.choice([0.0, 0.0, 1.0, float(F32(rng.random())), float(F32(rng.random())), float(F32(rng.random()) * F32(1e-3))]) for _ in range(P)] for _ in range(C)]
    if kind == 'slice':
        N = rng.choice([1, 1, 2, 3, 4, 5, 6, 8])
        pos = gen_positions(rng, N, rng.choice(['linspace', 'dyadic', 'random', 'repeated']))
        b = slice_boundary_depths(pos)
        depth = [float(b[rng.randrange(len(b))]) if rng.random() < 0.5 else float(F32(rng.random())) for _ in range(P)]
        return {'C': C, 'H': H, 'W': W, 'image': image, 'depth': depth, 'positions': pos, 'pos_kind': rng.choice(['list', 'tensor'])}
    n = rng.choice([1, 1, 2, 3, 4, 5, 6, 6, 7, 9, 12, 33])
    depth = [float(v) for v in gen_depth(rng, n, P, rng.choice(['boundary', 'mixed', 'mixed', 'random']))]
    case = {'cls': rng.choice(CLASSES), 'scheme': rng.choice(['naive', 'defocus']), 'n': n, 'C': C, 'H': H, 'W': W,
            'image': image, 'depth': depth, 'blur_size': rng.choice([3, 5, 10]), 'blur_ratio': rng.choice([0.25, 0.5, 1.0])}
    if case['scheme'] == 'defocus':
        # the property is silent about `multiplier` for scheme='naive' (the code does not apply it there), so it is varied
        # only where the code documents it: the defocus targets are multiplier * (blurred planes)
        case['multiplier'] = rng.choice([1.0, 1.0, 2.0, 0.5, 1.5, 0.75, 3.0])
    if rng.random() < 0.35:
        case['prior'] = rng.choice(CLASSES)          # a second loss object built from the same tensors
    return case


# ---------------------------------------------------------------- B2: model executed inside Coq
def observe_set_targets(cls, n, C, H, W, img_int, depth, scheme, mult=1.0):
    """what the implementation hands out through get_targets() / .masks / .target_depth.  With
    scheme='defocus' the targets are scaled by `multiplier` (a power of two here, so dividing is exact)
    and restricted to their own masks: theorem defocus_keeps_focus says this is the unblurred target."""
    img = (torch.tensor(img_int, dtype=torch.float32) / 256.0).reshape(C, H, W)
    dep = torch.tensor(np.array(depth, dtype=np.float32)).reshape(H, W)
    L = make_loss(cls, img, dep, n, scheme, multiplier=mult)
    targets, focus, dout = L.get_targets()
    masks = L.masks.detach()
    if scheme == 'defocus':
        targets = targets * masks / mult
    q = L.target_depth.detach()
    div = 1 if n == 1 else n - 1
    return {'quant': as_int_grid(q.reshape(-1), 1),
            'masks': [[as_int_grid(masks[i, ch].reshape(-1), 1) for ch in range(C)] for i in range(n)],
            'targets': [[as_int_grid(targets[i, ch].reshape(-1)) for ch in range(C)] for i in range(n)],
            'focus': [as_int_grid(focus[ch].reshape(-1)) for ch in range(C)],
            'depth_out_ok': bool(torch.equal(dout, q / div))}


def observe_slice(C, H, W, img_int, depth, pos, pos_kind):
    _, pu = api()
    img = (torch.tensor(img_int, dtype=torch.float32) / 256.0).reshape(C, H, W)
    dep = torch.tensor(np.array(depth, dtype=np.float32)).reshape(H, W)
    p = torch.tensor(pos, dtype=torch.float64) if pos_kind == 'tensor' else list(pos)
    targets, masks = pu.slice_rgbd_targets(img, dep, p)
    N = len(pos) - 1
    return {'masks': [[as_int_grid(masks[i, ch].reshape(-1), 1) for ch in range(C)] for i in range(N)],
            'targets': [[as_int_grid(targets[i, ch].reshape(-1)) for ch in range(C)] for i in range(N)]}


def zl(rows):
    return listlit([listlit([zlit(v) for v in r]) for r in rows])


def correspondence(ctx):
    """B2.  The implementation is observed first; the model is then run inside Coq on the same image and on the
    OBSERVED plane numbers (so the comparison of masks / targets / focus does not depend on which rounding the
    code uses), and separately the observed plane numbers are compared with the binary32 neighbours of
    fl32(depth * (n-1)) computed by Flocq."""
    rng = ctx.rng
    cases, terms = [], []
    nmax = 10 if ctx.thorough else 6
    reps = 10 if ctx.thorough else 3
    for n in list(range(1, nmax + 1)) + ([17, 33, 100] if ctx.thorough else [17]):
        for cls in CLASSES:
            for rep in range(reps):
                C = 1 if (rep + n) % 2 == 0 else 3
                H, W = SHAPES[(n + rep * 3 + (cls == CLASSES[0])) % len(SHAPES)]
                # every boundary value of this n appears at least once over the repetitions
                b = boundary_depths(n)
                P = max(H * W, 1)
                depth = gen_depth(rng, n, P, 'boundary' if rep % 2 == 0 else 'mixed')
                if rep == 0 and cls == CLASSES[0]:
                    H, W = 1, len(b); P = len(b); depth = list(b)       # the complete boundary set
                img_int = gen_image_int(rng, C, P)
                scheme = 'naive' if rep % 2 == 0 else 'defocus'
                mult = rng.choice([1.0, 2.0, 0.5, 4.0]) if scheme == 'defocus' else 1.0
                depth = [float(d) for d in depth]
                try:
                    o = observe_set_targets(cls, n, C, H, W, img_int, depth, scheme, mult)
                except Exception as e:
                    o = {'exception': repr(e)[:300]}
                qs = o.get('quant')
                usable = qs is not None and all(isinstance(q, int) for q in qs)
                cases.append(('set', cls, n, C, H, W, img_int, depth, (scheme, mult), o, usable))
                terms.append('(exec_quant_bounds %d %s, exec_from_quant %d %s %s)' % (
                    n, listlit([dy(d) for d in depth]), n, listlit([zlit(q) for q in qs]) if usable else '[]', zl(img_int)))
    for N in range(1, nmax + 1):
        for kind in ('linspace', 'dyadic', 'random', 'repeated'):
            for pk in ('list', 'tensor'):
                pos = gen_positions(rng, N, kind)
                b = slice_boundary_depths(pos)
                C = 1 if (N + len(kind)) % 2 == 0 else 3
                H, W = (1, len(b)) if pk == 'list' else SHAPES[(N + len(kind)) % len(SHAPES)]
                P = H * W
                depth = list(b) if pk == 'list' else [b[rng.randrange(len(b))] if rng.random() < 0.6 else F32(rng.random()) for _ in range(P)]
                img_int = gen_image_int(rng, C, P)
                depth = [float(d) for d in depth]
                try:
                    o = observe_slice(C, H, W, img_int, depth, pos, pk)
                except Exception as e:
                    o = {'exception': repr(e)[:300]}
                cases.append(('slice', None, N, C, H, W, img_int, depth, (pos, pk), o, True))
                terms.append('exec_slice %s %s %s' % (listlit([dy(p) for p in pos]), listlit([dy(d) for d in depth]), zl(img_int)))
    vals = ctx.coq_eval(PRE, terms, label='planes', chunk=max(4, len(terms) // 14 + 1))
    mism = qbad = 0
    qtotal = qexact = 0
    for v, c in zip(vals, cases):
        kind, cls, n, C, H, W, img_int, depth, extra, o, usable = c
        if v is None:
            continue
        model = pylit(v)
        ok, what = False, o
        if 'exception' not in o:
            if kind == 'set':
                bounds, (mm, mt, mf) = model
                qs = o['quant']
                if usable:
                    ok = (all(o['masks'][i][ch] == [int(b) for b in mm[i]] for i in range(n) for ch in range(C)) and
                          o['targets'] == [[list(x) for x in pl] for pl in mt] and o['focus'] == [list(x) for x in mf] and o['depth_out_ok'])
                    near = [lo <= q <= hi and 0 <= q <= n - 1 for q, (lo, ne, hi) in zip(qs, bounds)]
                    qtotal += len(qs); qexact += sum(1 for q, (lo, ne, hi) in zip(qs, bounds) if q == ne)
                    if not all(near):
                        qbad += 1
                        if qbad <= 3:
                            ctx.log('plane number is not an integer neighbour of fl32(depth*(n-1)): %s n=%d depth=%s observed=%s [down, nearest-even, up]=%s' % (
                                cls, n, [float(d).hex() for d in depth][:8], qs[:8], [list(t) for t in bounds][:8]))
                what = {'plane_numbers': qs, 'model_focus': mf, 'impl_focus': o['focus'], 'depth_out_ok': o['depth_out_ok'], 'scheme_multiplier': extra}
            else:
                pos, pk = extra
                mm, mt = model
                ok = (all(o['masks'][i][ch] == [int(b) for b in mm[i]] for i in range(n) for ch in range(C)) and
                      o['targets'] == [[list(x) for x in pl] for pl in mt])
                what = {'model_masks': mm, 'impl_masks': [m[0] for m in o['masks']], 'positions': pos}
        ctx.traces += 1
        ctx.case('b2/%s/%s/%s' % (kind, cls or extra[1], 'n=%d' % n), (kind, cls, n, C, H, W, str(depth), str(img_int), str(extra)), nontrivial=True)
        if not ok:
            mism += 1
            if mism <= 4:
                ctx.log('model/implementation disagree: %s %s n=%d C=%d %dx%d depth=%s %s' % (kind, cls, n, C, H, W, [float(d).hex() for d in depth][:8], json.dumps(what, default=str)[:600]))
        if len(ctx.samples) < 3 and kind == 'set' and n in (4, 6) and ok:
            ctx.sample({'kind': kind, 'cls': cls, 'n': n, 'scheme_multiplier': extra, 'depth_hex': [float(d).hex() for d in depth][:10],
                        'observed_plane_number': o['quant'][:10], 'binary32 [down, nearest-even, up]': [list(t) for t in model[0]][:10]})
        if len(ctx.samples) < 5 and kind == 'slice' and n == 3:
            ctx.sample({'kind': kind, 'positions': extra[0], 'depth_hex': [float(d).hex() for d in depth][:8], 'model_masks': [[int(b) for b in r][:8] for r in model[0]]})
    allv = all(v is not None for v in vals)
    ctx.obligation('correspondence:masks/targets/focus/depth_out = model(observed plane numbers), slicer = binary32 interval model (%d cases, exact)' % len(cases), mism == 0 and allv, '%d disagreements' % mism)
    ctx.obligation('correspondence:plane number is an integer in 0..n-1 adjacent to fl32(depth*(n-1)) (Flocq binary32)', qbad == 0 and allv, '%d cases' % qbad)
    # informative only (the property holds for any rounding): how often the code agrees with round-half-even
    ctx.extra['plane_numbers_equal_to_binary32_round_half_even'] = '%d of %d' % (qexact, qtotal)
    if qexact != qtotal:
        ctx.log('note: %d of %d plane numbers differ from round-half-even of fl32(depth*(n-1)) (allowed: any nearest/adjacent integer)' % (qtotal - qexact, qtotal))


# ---------------------------------------------------------------- B1: translation validation
def tie(ctx):
    try:
        from tracer.recipes import c16 as recipe
        g = recipe.trace()
        ctx.programs = len(g.defs)
        ctx.obligation('translator:trace(%d definitions, %d nodes)' % (len(g.defs), g.total_size()), True)
    except Exception as e:
        ctx.obligation('translator:trace', False, repr(e)[:1500])
        return
    ctx.compile_tie('GenC16', g.text(), [recipe.TIE_STAGE1, recipe.TIE_STAGE2])
    bad, n = recipe.self_check(g, ctx.rng, make_loss, api()[1].slice_rgbd_targets, log=ctx.log)
    ctx.traces += n
    ctx.obligation('translator-self-check(traced terms = real functions on %d values)' % n, bad == 0 and n > 0, '%d mismatches' % bad)
    from tracer import shim
    ctx.sample({'traced_definition': recipe.SAMPLE_DEF, 'coq': shim.coq(g.by_name[recipe.SAMPLE_DEF][1])[:300]})


def run(ctx):
    ctx.rule = ('images with 1 or 3 channels over sizes 1x1..5x3 (oracles up to 12x10), planes n = 1..6 (17; thorough: ..10, 33, 100), '
                'depth maps in [0,1] drawn from the boundary set {0, 1, k/(n-1), k/(n-1) +- 0.5/(n-1)} with their float32 '
                'neighbours (+-1, +-2 ulp) mixed with random values; slicer positions linspace / dyadic / random / repeated, depth on '
                'the positions and their neighbours; both loss classes, naive and defocus; a case is non-trivial when the '
                'implementation returned targets that were compared; distinct by the full input')
    ctx.trusted += ['harness/props/c16.py readers and comparators; torch elementwise ops (mul, round, where, comparisons, conv2d) are external and observed',
                    'Flocq BinarySingleNaN (Bmult, Bnearbyint, Bleb, Bltb) as the meaning of float32 arithmetic',
                    'conv2d with the normalised Gaussian is an operator in the model and an uninterpreted operator `blur k p` in the trace; its only contract (sigma 0 = delta kernel = identity) is checked numerically each run',
                    'add_defocus_blur is traced along two guard paths (every `sum(plane) > 0` guard true; plane 1 of 3 empty), guards emitted and tied to the model; other guard patterns are covered by the model theorem, B2 and the oracles',
                    'the tie is generic in the quantiser (any integer-part expression with range 0..n-1); which integer a tie x.5 goes to is not part of the property: B2 only requires an integer between round-down and round-up of fl32(depth*(n-1))',
                    'tracer/shim.py + tracer/recipes/c16.py (translator; validated each run by the numeric self-check)']
    ctx.assumptions += ['images are non-negative (the `sum(plane) > 0` guard of add_defocus_blur is harmless only then)',
                        'depth values are finite float32 in [0, 1]; number of planes <= 2^24',
                        'multiplier: in-focus pixels of the defocus targets are multiplier * image, focus_target is the image; scheme naive is exercised with multiplier 1 only (the code ignores it there)',
                        'plane positions are sorted and span the depth range']
    ctx.gate()
    ctx.ensure_theories(['theories/C16/Props.vo'])
    ctx.theorems('OdakV.C16.Props', PROPS)
    tie(ctx)
    correspondence(ctx)
    # contract of the blur operator
    for k in (3, 5, 11):
        bad, res = apply_oracle(ctx, 'delta_kernel', {'blur_size': k, 'seed': ctx.rng.randrange(1 << 30)})
        ctx.case('oracle/delta_kernel', ('dk', k))
    ctx.obligation('contract:sigma0-kernel-is-delta(blur 0 f = f)', not any(v['function'].endswith('add_defocus_blur') for v in ctx.viol), 'see violations')
    # direct oracles
    nor = 4000 if ctx.thorough else 300
    for k in range(nor):
        kind = 'slice' if k % 3 == 2 else 'multiplane'
        inp = gen_oracle_case(ctx.rng, kind, big=(k % 10 == 0))
        bad, res = apply_oracle(ctx, kind, inp)
        tag = ('%s/%s/n=%s' % (inp['cls'], inp['scheme'], inp['n'])) if kind == 'multiplane' else 'slice/N=%d/%s' % (len(inp['positions']) - 1, inp['pos_kind'])
        ctx.case('oracle/' + tag, (kind, json.dumps(inp, sort_keys=True)), nontrivial=len(res) >= 5)
        if k < 2:
            ctx.sample({'oracle': kind, 'n': inp.get('n'), 'C': inp['C'], 'H': inp['H'], 'W': inp['W'], 'depth': inp['depth'][:6], 'clauses': [r[0] for r in res]})
    ctx.extra['oracle_calls'] = nor


def search(ctx):
    for k in range(1500):
        kind = 'slice' if k % 3 == 2 else 'multiplane'
        apply_oracle(ctx, kind, gen_oracle_case(ctx.rng, kind, big=(k % 7 == 0)))
        if len(ctx.viol) > 3:
            return


def replay(ctx, rec):
    if rec.get('no_failing_input_found'):
        print('replay names broken obligations only:', json.dumps(rec['broken_obligations'])[:3000]); return 1
    inp = dict(rec['input']); name = inp.pop('oracle')
    res = ORACLES[name](inp)
    for r in res:
        print(('FAIL ' if not r[1] else 'ok   ') + r[0], '' if r[1] else 'expected=%s observed=%s' % (r[2], r[3]))
    return 1 if [r for r in res if not r[1]] else 0
