"""C07 — hologram optimisers return a displayable hologram and its true reconstruction.

Proof: coq/theories/C07 (skeletons with the optimiser, loss, RNG and forward model as ARBITRARY Section variables:
unit amplitude of generate_complex_field(1, phase); returned reconstruction = forward model of the RETURNED hologram
for stochastic gradient descent, both Gerchberg-Saxton routines (the NumPy one on the padded grid with the repaired
crop window: crop o pad = id for every size), the quantised multi-colour optimiser (phases in [0, 2 pi) on the 2^bits
grid) and the multiplane optimiser; checkerboard double-phase encoding, unit-modulus global phase for either sign of
the shift, bounded output; refutation + partial theorems for the two repaired defects).
Tie B1 (every run): the statements AFTER the optimisation loop of each routine, and the loop bodies of both
Gerchberg-Saxton routines, are cut from the current source, executed symbolically with the loop result as free
symbols (tracer/recipes/c07.py) and proved equal to the model (coq/tie/C07_Tie*.v); the element-wise helpers, the
quantisation chain and shift_w_double_phase are traced per sample and proved equal to the model for all reals;
translator self-check against the real functions.  Tie B2: the crop window of the NumPy routine is evaluated in Coq
for every size 1..N and compared with the window the traced source uses and with the shapes the implementation returns.
Routines: learn.wave gerchberg_saxton, stochastic_gradient_descent, shift_w_double_phase, point_wise (oracle only: finite, resolution),
multi_color / multiplane optimisers; wave gerchberg_saxton, gerchberg_saxton_3d (body + epilogue tied for 'no constraint').
Direct oracles: finite, resolution, |h| = 1 where the routine advertises phase-only output, phase range / grid, re-propagation of the returned hologram with the same
settings (a fresh propagator object for the class-based optimisers), double-phase reference in float64.
"""
import json, math, types
import numpy as np
import torch
from harness.common import parse_zlist
from tracer.recipes import c07 as recipe
from tracer import shim

PROPS = ['C07_gcf_unit', 'C07_sgd_consistent', 'C07_sgd_unit', 'C07_gs_torch_consistent', 'C07_gs_torch_h0_irrelevant',
         'C07_gs_torch_loop_reconstruction_is_constrained', 'C07_gs_numpy_consistent', 'C07_gs_numpy_unit',
         'C07_gs_numpy_resolution', 'C07_gs3d_resolution', 'C07_gs3d_sum_of_phasors', 'C07_gs3d_finite', 'C07_gs3d_single_plane_unit', 'C07_crop_inverts_pad', 'C07_window_has_input_size',
         'C07_gs_numpy_legacy_window_refuted', 'C07_gs_numpy_legacy_window_odd', 'C07_gs_numpy_legacy_window_partial',
         'C07_quant_level', 'C07_quant_range', 'C07_quant_grid', 'C07_quant_error', 'C07_quant_idempotent',
         'C07_multicolor_consistent', 'C07_multicolor_displayable', 'C07_multiplane_consistent', 'C07_multiplane_unit',
         'C07_dpe_checkerboard', 'C07_dpe_encodes', 'C07_dpe_finite', 'C07_global_phase_unit',
         'C07_global_phase_arg_in_float_range', 'C07_legacy_global_phase_refuted', 'C07_legacy_global_phase_overflows',
         'C07_legacy_global_phase_partial', 'C07_instance']
TIES = ['C07_TieE', 'C07_TieSGD', 'C07_TieGST', 'C07_TieGSN', 'C07_TieGS3', 'C07_TieMC', 'C07_TieMP', 'C07_TieSWDP']
T_METHODS = ['Angular Spectrum', 'Bandlimited Angular Spectrum', 'Transfer Function Fresnel']
N_METHODS = ['Angular Spectrum', 'Bandlimited Angular Spectrum', 'Transfer Function Fresnel', 'Impulse Response Fresnel']
TWO_PI = 2 * math.pi


def lw():
    import odak.learn.wave as m
    return m


def nw():
    import odak.wave as m
    return m


def tnp(x):
    return x.detach().cpu().numpy() if isinstance(x, torch.Tensor) else np.asarray(x)


def finite(x):
    return bool(np.isfinite(tnp(x)).all())


def rel(a, b):
    a, b = tnp(a), tnp(b)
    if a.shape != b.shape: return float('inf')
    if not (np.isfinite(a).all() and np.isfinite(b).all()): return float('inf')
    return float(np.abs(a - b).max()) / max(float(np.abs(b).max()), 1e-30)


def image(seed, shape, kind):
    rng = np.random.default_rng(seed)
    if kind == 'zeros': return np.zeros(shape)
    if kind == 'ones': return np.ones(shape)
    if kind == 'delta':
        u = np.zeros(shape); u[tuple(s // 2 for s in shape)] = 1.0; return u
    if kind == 'checker':
        return (np.indices(shape).sum(axis=0) % 2).astype(float)
    return rng.uniform(0.0, 1.0, shape)


# ================================================================ oracles: each returns [(function, clause, ok, expected, observed)]
def oracle_gs_torch(inp):
    L = lw(); fn = 'odak.learn.wave.gerchberg_saxton'
    shape = tuple(inp['shape'])
    amp = image(inp['fseed'], shape, inp.get('kind', 'random'))
    ph = np.random.default_rng(inp['fseed'] + 1).uniform(-math.pi, math.pi, shape) if inp.get('complex_target') else np.zeros(shape)
    field = torch.tensor(amp * np.exp(1j * ph), dtype=torch.complex64)
    try:
        h, r = L.gerchberg_saxton(field, inp['n'], inp['z'], inp['dx'], inp['lam'], propagation_type=inp['method'])
    except Exception as e:
        return [(fn, 'returns', False, 'a (hologram, reconstruction) pair', repr(e)[:200])]
    out = [(fn, 'finite', finite(h) and finite(r), True, [finite(h), finite(r)]),
           (fn, 'resolution', list(h.shape) == list(shape) and list(r.shape) == list(shape), list(shape), [list(h.shape), list(r.shape)])]
    r2 = L.propagate_beam(h, TWO_PI / inp['lam'], inp['z'], inp['dx'], inp['lam'], inp['method'])
    e = rel(r, r2)
    out.append((fn, 'reconstruction_is_propagated_hologram', e <= 1e-5, 'propagate_beam(returned hologram, 2 pi / lambda, distance, dx, lambda, type)', {'max_rel_diff': e}))
    return out


def np_pad(u):
    h, w = u.shape
    o = np.zeros((2 * h, 2 * w), dtype=complex)
    o[h - h // 2:h - h // 2 + h, w - w // 2:w - w // 2 + w] = u
    return o


def np_crop(u, h, w):
    return u[h - h // 2:h - h // 2 + h, w - w // 2:w - w // 2 + w]


def oracle_gs_numpy(inp):
    N = nw(); fn = 'odak.wave.gerchberg_saxton'
    shape = tuple(inp['shape'])
    amp = image(inp['fseed'], shape, inp.get('kind', 'random'))
    field = amp.astype(complex)
    ip = None
    if inp.get('initial_phase'):
        ip = np.random.default_rng(inp['fseed'] + 7).uniform(0, TWO_PI, shape)
    np.random.seed(inp['seed'])
    try:
        h, r = N.gerchberg_saxton(field, inp['n'], inp['z'], inp['dx'], inp['lam'], propagation_type=inp['method'], initial_phase=ip)
    except Exception as e:
        return [(fn, 'returns', False, 'a (hologram, reconstruction) pair', repr(e)[:200])]
    out = [(fn, 'finite', finite(h) and finite(r), True, [finite(h), finite(r)]),
           (fn, 'resolution', list(h.shape) == list(shape) and list(r.shape) == list(shape), list(shape), [list(h.shape), list(r.shape)])]
    if list(h.shape) != list(shape) or not finite(h):
        return out
    dev = float(np.abs(np.abs(h) - 1).max())
    out.append((fn, 'unit_amplitude', dev <= 1e-9, '|hologram| = 1', {'max_dev': dev}))
    r2 = np_crop(N.propagate_beam(np_pad(h), TWO_PI / inp['lam'], inp['z'], inp['dx'], inp['lam'], inp['method']), *shape)
    e = rel(r, r2)
    out.append((fn, 'reconstruction_is_propagated_hologram', e <= 1e-9, 'crop(propagate_beam(zero_pad(returned hologram), ...))', {'max_rel_diff': e}))
    return out


def oracle_gs3d(inp):
    """odak.wave.gerchberg_saxton_3d returns the hologram only (documented as a complex hologram: a sum of one unit-amplitude layer per
    plane): the clauses that apply are finite, input resolution, modulus <= number of planes, and unit amplitude for a single plane"""
    N = nw(); fn = 'odak.wave.gerchberg_saxton_3d'
    L, h, w = inp['shape']
    fields = np.stack([image(inp['fseed'] + d, (h, w), inp.get('kind', 'random')) for d in range(L)]).astype(complex)
    ip = np.random.default_rng(inp['fseed'] + 7).uniform(0, TWO_PI, (h, w)) if inp.get('initial_phase') else None
    np.random.seed(inp['seed'])
    try:
        ho = N.gerchberg_saxton_3d(fields, inp['n'], list(inp['distances']), inp['dx'], inp['lam'], propagation_type=inp['method'], initial_phase=ip,
                                   target_type=inp['target_type'], coefficients=inp.get('coefficients'))
    except Exception as e:
        return [(fn, 'returns', False, 'a hologram', repr(e)[:200])]
    out = [(fn, 'finite', finite(ho), True, finite(ho)), (fn, 'resolution', list(ho.shape) == [h, w], [h, w], list(ho.shape))]
    if not finite(ho) or list(ho.shape) != [h, w]: return out
    a = np.abs(ho).astype(np.float64)
    out.append((fn, 'modulus_at_most_number_of_planes', float(a.max()) <= L + 1e-4, '|hologram| <= %d' % L, {'max': float(a.max())}))
    if L == 1:
        dev = float(np.abs(a - 1).max())
        out.append((fn, 'unit_amplitude', dev <= 1e-5, '|hologram| = 1 (single plane)', {'max_dev': dev}))
    return out


def oracle_point_wise(inp):
    """odak.learn.wave.point_wise returns a COMPLEX hologram (not phase-only) and no reconstruction: the clauses that apply are
    finite and input resolution"""
    L = lw(); fn = 'odak.learn.wave.point_wise'
    shape = tuple(inp['shape'])
    target = torch.tensor(image(inp['fseed'], shape, inp.get('kind', 'random')), dtype=torch.float32)
    try:
        ho = L.point_wise(target, inp['lam'], inp['z'], inp['dx'], torch.device('cpu'), lens_size=inp.get('lens_size', 401))
    except Exception as e:
        return [(fn, 'returns', False, 'a hologram', repr(e)[:200])]
    return [(fn, 'finite', finite(ho), True, finite(ho)),
            (fn, 'resolution', list(ho.shape) == list(shape) and ho.is_complex(), [list(shape), 'complex'], [list(ho.shape), str(ho.dtype)])]


def oracle_sgd(inp):
    L = lw(); fn = 'odak.learn.wave.stochastic_gradient_descent'
    shape = tuple(inp['shape'])
    target = torch.tensor(image(inp['fseed'], shape, inp.get('kind', 'random')), dtype=torch.float32)
    torch.manual_seed(inp['seed'])
    try:
        h, r = L.stochastic_gradient_descent(target, inp['lam'], inp['z'], inp['dx'], propagation_type=inp['method'], n_iteration=inp['n'],
                                             learning_rate=inp.get('lr', 0.1))
    except Exception as e:
        return [(fn, 'returns', False, 'a (hologram, reconstruction) pair', repr(e)[:200])]
    h, r = h.detach(), r.detach()
    out = [(fn, 'finite', finite(h) and finite(r), True, [finite(h), finite(r)]),
           (fn, 'resolution', list(h.shape) == list(shape) and list(r.shape) == list(shape), list(shape), [list(h.shape), list(r.shape)])]
    dev = float((h.abs().double() - 1).abs().max())
    out.append((fn, 'unit_amplitude', dev <= 1e-5, '|hologram| = 1', {'max_dev': dev}))
    r2 = L.propagate_beam(h, TWO_PI / inp['lam'], inp['z'], inp['dx'], inp['lam'], inp['method'], zero_padding=[True, False, True])
    e = rel(r, r2)
    out.append((fn, 'reconstruction_is_propagated_hologram', e <= 1e-5, 'propagate_beam(returned hologram, ..., zero_padding=[True, False, True])', {'max_rel_diff': e}))
    return out


def mc_make(inp, channel_power=None):
    L = lw()
    return L.propagator(resolution=list(inp['res']), wavelengths=list(inp['lams']), pixel_pitch=inp['dx'], number_of_frames=inp['frames'],
                        number_of_depth_layers=inp['depths'], volume_depth=inp['volume_depth'], image_location_offset=inp['location'],
                        propagation_type=inp['prop_method'], propagator_type=inp['ptype'], back_and_forth_distance=inp['zm'],
                        laser_channel_power=channel_power, method=inp['method'])


def oracle_multicolor(inp):
    L = lw(); fn = 'odak.learn.wave.multi_color_hologram_optimizer.optimize'
    res = list(inp['res']); F, D, C = inp['frames'], inp['depths'], len(inp['lams'])
    targets = torch.tensor(np.random.default_rng(inp['fseed']).uniform(0, 1, [D, C] + res), dtype=torch.float32)
    if inp.get('kind') == 'zeros': targets = targets * 0
    try:
        prop = mc_make(inp)
        opt = L.multi_color_hologram_optimizer(wavelengths=list(inp['lams']), resolution=res, targets=targets, propagator=prop, number_of_frames=F,
                                               number_of_depth_layers=D, learning_rate=inp.get('lr', 2e-2), learning_rate_floor=inp.get('lr_floor', 5e-3),
                                               double_phase=inp['double_phase'], method=inp['method'])
        torch.manual_seed(inp['seed'])            # the constructor reseeds torch from the OS: make the start phases replayable
        opt.init_phase()
        if inp.get('offset_value') is not None:   # boundary stream: phases just below / at / above a multiple of 2 pi
            with torch.no_grad():
                opt.offset[:] = inp['offset_value']
                if inp.get('phase_value') is not None: opt.phase[:] = inp['phase_value']
        ret = opt.optimize(number_of_iterations=inp['n'], weights=list(inp.get('weights', [1., 1., 1.])), bits=inp['bits'])
    except Exception as e:
        return [(fn, 'returns', False, 'phases, intensities, ...', repr(e)[:200])]
    ph, rec, lp, cp = ret[0], ret[1], ret[2], ret[3]
    out = [(fn, 'finite', finite(ph) and finite(rec), True, [finite(ph), finite(rec)]),
           (fn, 'resolution', list(ph.shape) == [F] + res and list(rec.shape) == [F, D, C] + res, [[F] + res, [F, D, C] + res], [list(ph.shape), list(rec.shape)])]
    if not finite(ph): return out
    p = tnp(ph).astype(np.float64)
    lo, hi = float(p.min()), float(p.max())
    out.append((fn, 'phase_in_0_2pi', lo >= 0.0 and hi < TWO_PI, '0 <= phase < 2 pi', {'min': lo, 'max': hi}))
    lev = p / TWO_PI * 2 ** inp['bits']
    offgrid = float(np.abs(lev - np.round(lev)).max())
    lv = np.round(lev)
    out.append((fn, 'phase_on_grid', bool(offgrid <= 1e-3 and lv.min() >= 0 and lv.max() <= 2 ** inp['bits'] - 1), 'phase = k * 2 pi / 2^bits, 0 <= k < 2^bits',
                {'max_distance_from_grid_in_levels': offgrid, 'min_level': float(lv.min()), 'max_level': float(lv.max())}))
    # re-propagation with a FRESH propagator object that holds the returned channel powers
    fresh = mc_make(inp, channel_power=cp.detach().clone())
    ref = torch.zeros_like(rec)
    powers = fresh.get_laser_powers()
    ones = torch.ones(res)
    for f in range(F):
        for d in range(D):
            for c in range(C):
                holo = L.generate_complex_field(powers[f][c].detach() * ones, ph[f])
                ref[f, d, c] = fresh(holo, c, d).abs() ** 2
    e = rel(rec, ref)
    out.append((fn, 'reconstruction_is_propagated_hologram', e <= 1e-5, '|propagator(generate_complex_field(laser power, returned phase), channel, depth)|^2 on a fresh propagator', {'max_rel_diff': e}))
    e2 = rel(lp, powers)
    out.append((fn, 'laser_powers_returned', e2 <= 1e-6, 'laser powers of the returned channel powers', {'max_rel_diff': e2}))
    return out


def oracle_multiplane(inp):
    L = lw(); fn = 'odak.learn.wave.multiplane_hologram_optimizer.optimize'
    res = list(inp['res']); P = inp['planes']
    targets = torch.tensor(np.random.default_rng(inp['fseed']).uniform(0, 1, [P] + res), dtype=torch.float32)
    try:
        opt = L.multiplane_hologram_optimizer(wavelength=inp['lam'], image_location=inp['location'], image_spacing=inp['spacing'], slm_pixel_pitch=inp['dx'],
                                              slm_resolution=res, targets=targets, propagation_type=inp['prop_method'], propagator_type=inp['ptype'],
                                              number_of_iterations=inp['n'], learning_rate=inp.get('lr', 0.1), number_of_planes=P, zero_mode_distance=inp['zm'])
        torch.manual_seed(inp['seed'])            # the constructor reseeds torch from the OS
        opt.init_phase(None); opt.init_optimizer()
        ph, am, rec = opt.optimize()
    except Exception as e:
        return [(fn, 'returns', False, 'phase, amplitude, intensities', repr(e)[:200])]
    out = [(fn, 'finite', finite(ph) and finite(am) and finite(rec), True, [finite(ph), finite(am), finite(rec)]),
           (fn, 'resolution', list(ph.shape) == res and list(am.shape) == res and list(rec.shape) == [P] + res, [res, res, [P] + res], [list(ph.shape), list(am.shape), list(rec.shape)])]
    dev = float((am.double() - 1).abs().max())
    out.append((fn, 'unit_amplitude', dev <= 1e-5, 'amplitude = 1 (phase-only hologram)', {'max_dev': dev}))
    fresh = L.propagator(resolution=res, wavelengths=[inp['lam']], pixel_pitch=inp['dx'], number_of_frames=1, number_of_depth_layers=P,
                         volume_depth=P * inp['spacing'], image_location_offset=inp['location'], propagation_type=inp['prop_method'],
                         propagator_type=inp['ptype'], back_and_forth_distance=inp['zm'])
    holo = L.generate_complex_field(am, ph)
    ref = torch.stack([fresh(holo, 0, p).abs() ** 2 for p in range(P)])
    e = rel(rec, ref)
    out.append((fn, 'reconstruction_is_propagated_hologram', e <= 1e-5, '|propagator(generate_complex_field(returned amplitude, returned phase), 0, plane)|^2 on a fresh propagator', {'max_rel_diff': e}))
    return out


def blur_same(x, k):
    """cross-correlation with zero padding (K - 1) // 2 in front (torch's padding = 'same'), plain loops, float64"""
    h, w = x.shape; kh, kw = k.shape
    ph, pw = (kh - 1) // 2, (kw - 1) // 2
    out = np.zeros_like(x)
    for i in range(h):
        for j in range(w):
            acc = 0.0
            for a in range(kh):
                for b in range(kw):
                    ii, jj = i + a - ph, j + b - pw
                    if 0 <= ii < h and 0 <= jj < w: acc += x[ii, jj] * k[a, b]
            out[i, j] = acc
    return out


def swdp_reference(phase, amplitude, inp):
    """the documented pipeline in float64, starting from the implementation's own propagated field"""
    import odak.learn.tools as LT
    L = lw()
    holo = L.generate_complex_field(amplitude, phase)
    sf = LT.crop_center(L.propagate_beam(LT.zero_pad(holo), TWO_PI / inp['lam'], inp['ds'], inp['dx'], inp['lam'], inp['method']))
    sf = tnp(sf).astype(np.complex128)
    x = sf * np.exp(-1j * TWO_PI * inp['ds'] / inp['lam'])
    kl, sg = inp['kernel_length'], inp['sigma']
    if kl > 0 and sg > 0:
        g = np.linspace(-kl / 2., kl / 2., kl)
        X, Y = np.meshgrid(g, g, indexing='ij')
        ker = 1. / (2 * math.pi * sg * sg) * np.exp(-(X ** 2 / (2 * sg ** 2) + Y ** 2 / (2 * sg ** 2)))
        x = blur_same(x.real, ker) + 1j * blur_same(x.imag, ker)
    a = np.abs(x); amax = a.max()
    sp = np.angle(x)
    cond = {'amax': float(amax), 'branch_margin': float((math.pi - np.abs(sp)).min()), 'min_amp_ratio': float(a.min() / amax) if amax > 0 else 0.0}
    pzm = sp - sp.mean()
    off = np.arccos(np.clip(a / amax, 0, 1)) if amax > 0 else np.zeros_like(a)
    par = np.indices(a.shape).sum(axis=0) % 2
    return np.where(par == 0, pzm - off, pzm + off), cond


def oracle_swdp(inp):
    L = lw(); fn = 'odak.learn.wave.shift_w_double_phase'
    shape = tuple(inp['shape'])
    rng = np.random.default_rng(inp['fseed'])
    phase = torch.tensor(rng.uniform(0, TWO_PI, shape), dtype=torch.float32)
    amplitude = None
    if inp.get('amplitude') == 'random': amplitude = torch.tensor(rng.uniform(0.2, 1.0, shape), dtype=torch.float32)
    try:
        out_ = L.shift_w_double_phase(phase, inp['ds'], inp['dx'], inp['lam'], propagation_type=inp['method'], kernel_length=inp['kernel_length'],
                                      sigma=inp['sigma'], amplitude=amplitude)
    except Exception as e:
        return [(fn, 'returns', False, 'a phase-only hologram', repr(e)[:200])]
    ref, cond = swdp_reference(phase, torch.ones_like(phase) if amplitude is None else amplitude, inp)
    out = [(fn, 'resolution', list(out_.shape) == list(shape), list(shape), list(out_.shape))]
    if cond['amax'] <= 1e-30:
        # the propagated field vanishes identically (e.g. an all-zero band-limit mask): amplitude / max amplitude is 0/0 and there is
        # nothing to encode; outside the conditioned domain of the finiteness clause (see notes/C07_report.md, limits)
        out.append((fn, 'ill_conditioned_reference_skipped', True, None, cond))
        return out
    out.append((fn, 'finite', finite(out_), True, finite(out_)))
    if not finite(out_) or list(out_.shape) != list(shape): return out
    well = cond['amax'] > 1e-6 and cond['branch_margin'] > 2e-3 and abs(TWO_PI * inp['ds'] / inp['lam']) < 2e3
    if well:
        d = float(np.abs(tnp(out_).astype(np.float64) - ref).max())
        out.append((fn, 'double_phase_checkerboard_of_shifted_field', d <= 5e-3, 'zero-mean phase -+ arccos(amplitude / max) of crop(propagate(pad(hologram))) * exp(-i 2 pi ds / lambda), blurred', {'max_abs_diff': d, 'conditioning': cond}))
    else:
        out.append((fn, 'ill_conditioned_reference_skipped', True, None, cond))
    return out


ORACLES = {'gs_torch': oracle_gs_torch, 'gs_numpy': oracle_gs_numpy, 'gs3d': oracle_gs3d, 'point_wise': oracle_point_wise, 'sgd': oracle_sgd, 'multicolor': oracle_multicolor,
           'multiplane': oracle_multiplane, 'swdp': oracle_swdp}


def apply_oracle(ctx, name, inp, count=True):
    res = ORACLES[name](inp)
    bad = 0
    nontrivial = not any(c == 'ill_conditioned_reference_skipped' for _, c, _, _, _ in res)
    for fn, clause, ok, exp, obs in res:
        if not ok:
            bad += 1
            if not hasattr(ctx, '_c07_reported'): ctx._c07_reported = {}
            seen = ctx._c07_reported
            k = '%s/%s' % (fn, clause)
            seen[k] = seen.get(k, 0) + 1
            if seen[k] <= 3:                      # the harness keeps at most 50 records: do not let one clause crowd out the others
                ctx.violation(fn, clause, dict(inp, oracle=name), exp, bool(obs) if isinstance(obs, np.bool_) else obs)
    if count:
        ctx.case('%s/%s' % (name, inp.get('cat', '')), json.dumps(inp, sort_keys=True), nontrivial=nontrivial, n=len(res))
    return bad


# ================================================================ generators
def optics(rng):
    """normalised units (as in C01-C03): wavelength ~ 0.5, pitch >= 0.8 lambda, |k z| moderate for float32"""
    lam = rng.uniform(0.4, 0.7)
    return lam, lam * rng.uniform(0.8, 4.0), rng.choice([-1, 1]) * rng.uniform(2.0, 40.0)


def shapes(ctx):
    base = [(6, 6), (7, 7), (8, 8), (6, 7), (7, 6), (8, 7), (5, 8), (7, 8)]
    if ctx.thorough: base += [(1, 5), (2, 5), (3, 6), (9, 9), (12, 11), (16, 16), (17, 13), (31, 32), (33, 33)]
    return base


def gen_cases(ctx):
    rng = ctx.rng
    cases = []
    shp = shapes(ctx)
    rep = 60 if ctx.thorough else 5
    for r in range(rep):
        for i, s in enumerate(shp):
            lam, dx, z = optics(rng)
            n = [1, 2, 3][(i + r) % 3]
            cases.append(('gs_torch', {'cat': 'structured', 'shape': list(s), 'fseed': rng.randrange(10 ** 6), 'n': n, 'z': z, 'dx': dx, 'lam': lam,
                                       'method': T_METHODS[(i + r) % 3], 'complex_target': bool(i % 2)}))
            lam, dx, z = optics(rng)
            cases.append(('gs_numpy', {'cat': 'structured', 'shape': list(s), 'fseed': rng.randrange(10 ** 6), 'seed': rng.randrange(10 ** 6), 'n': [1, 2, 3][(i + r + 1) % 3],
                                       'z': z, 'dx': dx, 'lam': lam, 'method': N_METHODS[(i + r) % 4], 'initial_phase': i % 3 == 2}))
            lam, dx, z = optics(rng)
            L = 1 + (i + r) % 3
            dc = (i + r) % 4 == 1
            cases.append(('gs3d', {'cat': 'structured', 'shape': [L] + list(s), 'fseed': rng.randrange(10 ** 6), 'seed': rng.randrange(10 ** 6), 'n': [1, 2, 3][(i + r) % 3],
                                   'distances': [z + 1.5 * d for d in range(L)], 'dx': dx, 'lam': lam, 'method': N_METHODS[(i + r + 1) % 4], 'initial_phase': i % 3 == 1,
                                   'target_type': 'double constraint' if dc else 'no constraint', 'coefficients': [rng.uniform(0.6, 1.2), rng.uniform(0.1, 0.9), rng.uniform(0.05, 0.5)] if dc else None}))
            lam, dx, z = optics(rng)
            cases.append(('point_wise', {'cat': 'structured', 'shape': list(s), 'fseed': rng.randrange(10 ** 6), 'z': z, 'dx': dx, 'lam': lam, 'lens_size': [401, 3, 5, 2][(i + r) % 4],
                                         'kind': ['random', 'delta', 'checker', 'random'][(i + r) % 4]}))
            lam, dx, z = optics(rng)
            cases.append(('sgd', {'cat': 'structured', 'shape': list(s), 'fseed': rng.randrange(10 ** 6), 'seed': rng.randrange(10 ** 6), 'n': [1, 2, 3][(i + r + 2) % 3],
                                  'z': z, 'dx': dx, 'lam': lam, 'method': T_METHODS[(i + r + 1) % 3], 'lr': rng.choice([0.1, 0.01, 1.0])}))
            lam, dx, z = optics(rng)
            cases.append(('swdp', {'cat': 'structured', 'shape': list(s), 'fseed': rng.randrange(10 ** 6), 'ds': rng.choice([-1, 1]) * rng.uniform(0.3, 30.0), 'dx': dx, 'lam': lam,
                                   'method': T_METHODS[(i + r + 2) % 3], 'kernel_length': [4, 3, 0, 5][(i + r) % 4], 'sigma': [0.5, 1.0, 0.5, 0.0][(i // 2 + r) % 4],
                                   'amplitude': 'random' if i % 4 == 3 else None}))
            lam, dx, z = optics(rng)
            cases.append(('multiplane', {'cat': 'structured', 'res': list(s), 'fseed': rng.randrange(10 ** 6), 'seed': rng.randrange(10 ** 6), 'n': [1, 2, 3][(i + r) % 3], 'planes': 1 + (i + r) % 3,
                                         'lam': lam, 'dx': dx, 'location': rng.choice([-1, 1]) * rng.uniform(0.0, 10.0), 'spacing': rng.uniform(0.5, 3.0), 'zm': rng.uniform(5.0, 30.0),
                                         'prop_method': T_METHODS[(i + r) % 3], 'ptype': ['back and forth', 'forward'][(i + r) % 2]}))
    # multi-colour: >= 32 px per side
    mres = [(33, 36), (32, 32), (36, 33)] + ([(40, 35), (47, 33)] if ctx.thorough else [])
    nmc = 240 if ctx.thorough else 24
    for i in range(nmc):
        lam = rng.uniform(0.4, 0.5)
        C = [3, 1, 2][i % 3]
        cases.append(('multicolor', {'cat': 'structured', 'res': list(mres[i % len(mres)]), 'fseed': rng.randrange(10 ** 6), 'seed': rng.randrange(10 ** 6), 'n': [1, 2, 3][i % 3],
                                     'bits': [8, 1, 4, 2, 6, 3, 5, 7][i % 8], 'lams': [lam * (1 + 0.2 * c) for c in range(C)], 'dx': lam * rng.uniform(1.5, 4.0),
                                     'frames': [3, 1, 2][(i // 2) % 3], 'depths': 1 + i % 2, 'volume_depth': rng.uniform(1.0, 4.0), 'location': rng.choice([-1, 1]) * rng.uniform(2.0, 10.0),
                                     'zm': rng.uniform(5.0, 30.0), 'prop_method': T_METHODS[i % 3], 'ptype': ['forward', 'back and forth'][i % 2],
                                     'method': ['multi-color', 'conventional'][(i // 2) % 2], 'double_phase': i % 3 != 1}))
    # ---------------- boundary stream
    lam, dx = 0.5, 1.2
    # odd sizes / tiny grids, zero distance, degenerate targets (PyTorch: odak's zero_pad / crop_center read a last side < 5 as a channel axis, so widths start at 5)
    for s in [(7, 7), (5, 6), (3, 3)] + ([(1, 1), (2, 2), (9, 4), (11, 11)] if ctx.thorough else []):
        st = [s[0], max(s[1], 5)]
        for kind in ('zeros', 'delta') + (('ones', 'checker') if ctx.thorough else ()):
            cases.append(('gs_numpy', {'cat': 'boundary', 'shape': list(s), 'fseed': 1, 'seed': 2, 'n': 1, 'z': 10.0, 'dx': dx, 'lam': lam, 'method': 'Angular Spectrum', 'kind': kind}))
            cases.append(('gs_torch', {'cat': 'boundary', 'shape': st, 'fseed': 1, 'n': 1, 'z': -10.0, 'dx': dx, 'lam': lam, 'method': 'Transfer Function Fresnel', 'kind': kind}))
            cases.append(('sgd', {'cat': 'boundary', 'shape': st, 'fseed': 1, 'seed': 3, 'n': 1, 'z': 10.0, 'dx': dx, 'lam': lam, 'method': 'Bandlimited Angular Spectrum', 'kind': kind}))
        cases.append(('gs3d', {'cat': 'boundary', 'shape': [2] + list(s), 'fseed': 4, 'seed': 5, 'n': 1, 'distances': [0.0, -8.0], 'dx': dx, 'lam': lam, 'method': 'Angular Spectrum',
                               'target_type': 'no constraint', 'coefficients': None, 'kind': 'delta'}))
        cases.append(('gs3d', {'cat': 'boundary', 'shape': [1] + list(s), 'fseed': 4, 'seed': 5, 'n': 2, 'distances': [6.0], 'dx': dx, 'lam': lam, 'method': 'Transfer Function Fresnel',
                               'target_type': 'double constraint', 'coefficients': [1.0, 0.5, 0.1], 'kind': 'zeros'}))
        cases.append(('point_wise', {'cat': 'boundary', 'shape': st, 'fseed': 4, 'z': -10.0, 'dx': dx, 'lam': lam, 'kind': 'zeros'}))
        cases.append(('gs_numpy', {'cat': 'boundary', 'shape': list(s), 'fseed': 4, 'seed': 5, 'n': 2, 'z': 0.0, 'dx': dx, 'lam': lam, 'method': 'Transfer Function Fresnel'}))
        cases.append(('gs_torch', {'cat': 'boundary', 'shape': st, 'fseed': 4, 'n': 2, 'z': 0.0, 'dx': dx, 'lam': lam, 'method': 'Angular Spectrum'}))
    # depth shifts of either sign, from a fraction of a wavelength to thousands of wavelengths (physical units as well)
    for ds, l, d in [(0.0, 0.5, 1.2), (-0.01, 0.5, 1.2), (7.0, 0.5, 1.2), (-7.0, 0.5, 1.2), (-8.0, 0.55, 1.0), (45.0, 0.5, 1.5), (-45.0, 0.5, 1.5),
                     (1e-3, 515e-9, 8e-6), (-1e-3, 515e-9, 8e-6), (-1e-5, 639e-9, 3.74e-6), (5e-2, 473e-9, 8e-6), (-5e-2, 473e-9, 8e-6)]:
        for s in [(6, 6), (7, 8)]:
            cases.append(('swdp', {'cat': 'boundary', 'shape': list(s), 'fseed': rng.randrange(10 ** 6), 'ds': ds, 'dx': d, 'lam': l, 'method': 'Transfer Function Fresnel' if s[0] == 6 else 'Angular Spectrum',
                                   'kernel_length': 4, 'sigma': 0.5, 'amplitude': None}))
    # quantiser: phases just below zero (wrap to 2 pi in float32), at zero, just above; every bit depth 1..8
    for b in range(1, 9):
        ov = [1e-9, 0.0, -1e-9, 2.0 ** -24, 3e-8, -TWO_PI, 1e-4][b % 7]
        cases.append(('multicolor', {'cat': 'boundary', 'res': [32, 33], 'fseed': b, 'seed': b, 'n': 1, 'bits': b, 'lams': [0.5], 'dx': 1.5, 'frames': 1, 'depths': 1, 'volume_depth': 1.0,
                                     'location': 5.0, 'zm': 10.0, 'prop_method': 'Bandlimited Angular Spectrum', 'ptype': 'forward', 'method': 'conventional', 'double_phase': False,
                                     'lr': 0.0, 'lr_floor': 0.0, 'offset_value': ov, 'phase_value': 0.0}))
    return cases


# ================================================================ translator self-check
def self_check(ctx, g):
    """traced per-sample definitions, evaluated numerically, against the real functions"""
    L = lw(); N = nw()
    import odak.learn.tools as LT
    rng = np.random.default_rng(ctx.seed)
    bad = 0; n = 0
    def cmp(a, b, tol, what):
        nonlocal bad, n
        n += 1
        if not (abs(a - b) <= tol * max(1.0, abs(b))):
            bad += 1
            if bad <= 5: ctx.log('self-check mismatch', what, a, b)
    if 't_gcf_0_0_re' in g.by_name:
        for t in range(20):
            a, p = rng.uniform(0, 3), rng.uniform(-7, 7)
            zr, zi, tr, ti = rng.standard_normal(4)
            if t == 0: zr, zi = 0.0, 0.0
            for api, tol in (('t', 2e-6), ('n', 1e-12)):
                if api == 't':
                    G = L.generate_complex_field(torch.tensor([a]), torch.tensor([p]))[0]; G = complex(G)
                    z = torch.tensor([complex(zr, zi)], dtype=torch.complex64); tt = torch.tensor([complex(tr, ti)], dtype=torch.complex64)
                    A = float(L.calculate_amplitude(z)[0]); P = float(L.calculate_phase(z)[0]); S = complex(L.set_amplitude(z, tt)[0])
                    z64 = complex(z[0]); t64 = complex(tt[0])
                else:
                    G = complex(N.generate_complex_field(np.array([a]), np.array([p]))[0])
                    z = np.array([complex(zr, zi)]); tt = np.array([complex(tr, ti)])
                    A = float(N.calculate_amplitude(z)[0]); P = float(N.calculate_phase(z)[0]); S = complex(N.set_amplitude(z, tt)[0])
                    z64 = complex(zr, zi); t64 = complex(tr, ti)
                s = '_%d_%d' % (t % 2, t % 3)
                a_ = float(np.float32(a)) if api == 't' else a; p_ = float(np.float32(p)) if api == 't' else p
                cmp(g.evalf('%s_gcf%s_re' % (api, s), {'a' + s: a_, 'p' + s: p_}), G.real, tol, 'gcf')
                cmp(g.evalf('%s_gcf%s_im' % (api, s), {'a' + s: a_, 'p' + s: p_}), G.imag, tol, 'gcf')
                env = {'zr' + s: z64.real, 'zi' + s: z64.imag, 'tr' + s: t64.real, 'ti' + s: t64.imag}
                cmp(g.evalf('%s_amp%s' % (api, s), env), A, tol, 'amp'); cmp(g.evalf('%s_arg%s' % (api, s), env), P, tol, 'arg')
                cmp(g.evalf('%s_setamp%s_re' % (api, s), env), S.real, tol, 'setamp'); cmp(g.evalf('%s_setamp%s_im' % (api, s), env), S.imag, tol, 'setamp')
    # quantisation chain: inputs away from the level boundaries (float32 and reals may pick neighbouring levels there)
    for b in recipe.BITS:
        if 'mc_phase_b%d_0_0_0' % b not in g.by_name: continue
        for t in range(24):
            k = int(rng.integers(0, 2 ** b)); m = int(rng.integers(-3, 4))
            x = (k + 0.5 + rng.uniform(-0.3, 0.3)) * TWO_PI / 2 ** b + TWO_PI * m
            x32 = float(np.float32(x))
            # the real optimize() of the current source, run on a stand-in object whose gradient_descent() returns x
            me = types.SimpleNamespace(init_optimizer=lambda: None, gradient_descent=lambda **k: torch.tensor([[[x32]]]), peak_amplitude=1.0,
                                       propagator=types.SimpleNamespace(reconstruct=lambda q: q, get_laser_powers=lambda: None, channel_power=None))
            real = float(L.multi_color_hologram_optimizer.optimize(me, number_of_iterations=1, bits=b)[0].reshape(-1)[0])
            cmp(g.evalf('mc_phase_b%d_0_0_0' % b, {'g_0_0_0': x32}), real, 2e-6, 'quantised phase b=%d x=%r' % (b, x32))
    # shift_w_double_phase: stages A, B, C composed numerically on the 3 x 4 trace grid against the real function
    H0, W0 = recipe.H0, recipe.W0
    for tag, kl in (('blur', 4), ('noblur', 0)):
        if 'swdp_%s_out_0_0' % tag not in g.by_name: continue
        for t in range(4):
            lam = rng.uniform(0.4, 0.7); dx = lam * rng.uniform(1.0, 3.0); ds = float(rng.choice([-1, 1]) * rng.uniform(0.3, 8.0))
            ph = torch.tensor(rng.uniform(0, TWO_PI, (H0, W0)), dtype=torch.float32)
            method = T_METHODS[t % 3]
            holo = L.generate_complex_field(torch.ones_like(ph), ph)
            sf = tnp(LT.crop_center(L.propagate_beam(LT.zero_pad(holo), TWO_PI / lam, ds, dx, lam, method))).astype(np.complex128)
            env = {'ds': ds, 'lam': lam}
            for (i, j) in np.ndindex(H0, W0):
                env['sfr_%d_%d' % (i, j)] = sf[i, j].real; env['sfi_%d_%d' % (i, j)] = sf[i, j].imag
            A = np.array([[complex(g.evalf('swdp_%s_field_%d_%d_re' % (tag, i, j), env), g.evalf('swdp_%s_field_%d_%d_im' % (tag, i, j), env)) for j in range(W0)] for i in range(H0)])
            sa, sp = np.abs(A), np.angle(A)
            if (math.pi - np.abs(sp)).min() < 2e-3: continue
            ea = {'sa_%d_%d' % ij: sa[ij] for ij in np.ndindex(H0, W0)}; ep = {'sp_%d_%d' % ij: sp[ij] for ij in np.ndindex(H0, W0)}
            real = tnp(L.shift_w_double_phase(ph, ds, dx, lam, propagation_type=method, kernel_length=kl, sigma=0.5)).astype(np.float64)
            for (i, j) in np.ndindex(H0, W0):
                off = math.acos(min(1.0, g.evalf('swdp_%s_namp_%d_%d' % (tag, i, j), ea)))
                o = g.evalf('swdp_%s_out_%d_%d' % (tag, i, j), dict(ep, **{'off_%d_%d' % (i, j): off}))
                if np.isfinite(real[i, j]): cmp(o, real[i, j], 3e-3, 'swdp %s pixel %d %d' % (tag, i, j))
                else:
                    n += 1; bad += 1
    ctx.traces += n
    ctx.obligation('translator-self-check(traced per-sample terms = real functions on %d values)' % n, bad == 0 and n > 0, '%d mismatches' % bad)


# ================================================================ B2: crop window of the NumPy routine
def window_correspondence(ctx):
    N = nw()
    sizes = list(range(1, 41 if ctx.thorough else 17))
    terms = ['(window %d, window %d)' % (h, w) for h in sizes for w in (sizes[(h * 5) % len(sizes)], h)]
    pairs = [(h, w) for h in sizes for w in (sizes[(h * 5) % len(sizes)], h)]
    vals = ctx.coq_eval('From OdakV Require Import C07.Model.', terms, label='window', chunk=200)
    bad = 0; n = 0
    for (h, w), v in zip(pairs, vals):
        if v is None: continue
        model = parse_zlist(v)                       # r0 r1 c0 c1
        try:
            win, hs, rs = recipe.gs_numpy_window(h, w)
        except Exception as e:
            win, hs, rs = ('trace failed: %s' % e), None, None
        n += 1
        ok = win == model and hs == [h, w] and rs == [h, w]
        try:
            ho3, _, _ = recipe.trace_gs3d(recipe.Lits(), h, w)
            win3 = list(ho3.a[:4]) if ho3.op == 'slice' else None
        except Exception as e:
            win3 = 'trace failed: %s' % e
        if win3 != model:
            ok = False; win = {'gerchberg_saxton': win, 'gerchberg_saxton_3d': win3}
        if ok and h * w <= 144:
            try:
                np.random.seed(0)
                ho, re = N.gerchberg_saxton(np.ones((h, w), dtype=complex), 1, 5.0, 1.2, 0.5, propagation_type='Angular Spectrum')
                h3 = N.gerchberg_saxton_3d(np.ones((2, h, w), dtype=complex), 1, [5.0, 6.0], 1.2, 0.5, propagation_type='Angular Spectrum')
                ok = list(ho.shape) == [h, w] and list(re.shape) == [h, w] and list(h3.shape) == [h, w]
                if not ok: win = 'implementation returned shapes %s %s' % (ho.shape, re.shape)
            except Exception as e:
                ok = False; win = 'implementation raised %r' % (e,)
        if not ok:
            bad += 1
            if bad <= 4: ctx.log('crop window: size', (h, w), 'model', model, 'source', win, hs, rs)
    ctx.traces += n
    ctx.obligation('correspondence:gs-numpy-crop-window(model evaluated in Coq = window used by the traced gerchberg_saxton and gerchberg_saxton_3d = implementation shapes, %d sizes 1..%d incl. odd)' % (n, sizes[-1]),
                   bad == 0 and n > 0, '%d disagreements' % bad)
    ctx.exhaustive = False


# ================================================================ run
def run(ctx):
    ctx.rule = ('a case is one call of one routine: (routine, resolution incl. odd sides, target kind, optics in normalised and physical units, +- distance / depth shift, '
                'method, iterations 1..3, seeds, bit depth 1..8); structured stream + boundary stream (zero / delta targets, zero distance, shifts from 0 to thousands of '
                'wavelengths of either sign, phases at and just below a multiple of 2 pi); evaluations count the clauses checked; distinct by full input')
    ctx.trusted += ['tracer (tracer/shim.py, tracer/recipes/c07.py): loop havoc (every variable the loop assigns, plus the tensor registered with the optimiser, becomes a free symbol), '
                    'propagate_beam / propagator model / zero_pad / crop_center / reconstruct as uninterpreted operators that record all their arguments',
                    'torch.nn.functional.conv2d(padding="same") contract used by the tracer (cross-correlation, (K-1)//2 leading zeros): validated numerically each run',
                    'odak.tools.zero_pad places an h x w array at h - h//2 of a 2h x 2w array (tied in C08)',
                    'float32 arithmetic of the implementation is outside the real-number model: unit amplitude 1e-5, re-propagation 1e-5 relative, double-phase reference 5e-3 rad']
    ctx.assumptions += ['the optimisation loop only changes the variables it assigns and the tensors registered with its optimiser (checked syntactically by the tracer)',
                        'float32 remainder may return exactly 2 pi(float32) for a tiny negative phase; the real-number model cannot; the boundary stream exercises it on the implementation']
    ctx.gate()
    ctx.ensure_theories(['theories/C07/Props.vo'])
    ctx.theorems('OdakV.C07.Props', PROPS)
    g = None
    try:
        g, textp, defs, notes, errors = recipe.trace()
        ctx.programs += len(g.defs) + len(defs)
        for r in recipe.ROUTINES:
            ctx.obligation('translator:trace-%s' % r, r not in errors, errors.get(r, ''))
        ctx.extra['traced'] = {n: t for n, _, _, t in defs if n in ('t_sgd_rec', 't_gst_body_rec', 't_gsn_body_5x3', 't_gsn_epi_rec_5x3', 't_gs3_body_5x3', 't_mp_rec_1', 't_mp_loop_holo', 't_swdp_blur_prop')}
        ctx.extra['trace_notes'] = json.loads(json.dumps(notes, default=str))
        ctx.compile_tie('GenC07', g.text(), [])
        ctx.compile_tie('GenC07P', textp, [TIES])
        ctx.sample({'traced': 't_gsn_body_5x3', 'term': [t for n, _, _, t in defs if n == 't_gsn_body_5x3'][:1]})
    except Exception as e:
        ctx.obligation('translator:trace', False, repr(e))
    if g is not None:
        try:
            self_check(ctx, g)
        except Exception as e:
            ctx.obligation('translator-self-check', False, repr(e))
    window_correspondence(ctx)
    # direct oracles
    cases = gen_cases(ctx)
    for name, inp in cases:
        apply_oracle(ctx, name, inp)
        if len(ctx.samples) < 6 and inp['cat'] == 'structured' and name not in [s.get('oracle') for s in ctx.samples if isinstance(s, dict)]:
            ctx.sample(dict(inp, oracle=name))
    ctx.log('oracles: %d cases' % len(cases))


def search(ctx):
    """hunt for a failing input: odd sizes, negative shifts, wrapped phases"""
    rng = ctx.rng
    for i in range(30):
        lam, dx, z = optics(rng)
        s = [rng.choice([3, 5, 7, 9, 6, 8]), rng.choice([5, 7, 9, 6, 8])]
        apply_oracle(ctx, 'gs_numpy', {'cat': 'search', 'shape': s, 'fseed': i, 'seed': i, 'n': 1 + i % 3, 'z': z, 'dx': dx, 'lam': lam, 'method': N_METHODS[i % 4]}, count=False)
        apply_oracle(ctx, 'swdp', {'cat': 'search', 'shape': s, 'fseed': i, 'ds': -rng.uniform(5.0, 2000.0) * lam * (1 if i % 2 else -1), 'dx': dx, 'lam': lam,
                                   'method': T_METHODS[2 * (i % 2)], 'kernel_length': 4, 'sigma': 0.5, 'amplitude': None}, count=False)
        apply_oracle(ctx, 'gs3d', {'cat': 'search', 'shape': [1 + i % 3] + s, 'fseed': i, 'seed': i, 'n': 1 + i % 2, 'distances': [z, z + 1.0, z + 2.0][:1 + i % 3], 'dx': dx, 'lam': lam,
                                   'method': N_METHODS[i % 4], 'target_type': ['no constraint', 'double constraint'][i % 2], 'coefficients': [1.0, 0.5, 0.1]}, count=False)
        apply_oracle(ctx, 'point_wise', {'cat': 'search', 'shape': s, 'fseed': i, 'z': z, 'dx': dx, 'lam': lam}, count=False)
        apply_oracle(ctx, 'gs_torch', {'cat': 'search', 'shape': s, 'fseed': i, 'n': 1 + i % 3, 'z': z, 'dx': dx, 'lam': lam, 'method': T_METHODS[i % 3]}, count=False)
        apply_oracle(ctx, 'sgd', {'cat': 'search', 'shape': s, 'fseed': i, 'seed': i, 'n': 1 + i % 3, 'z': z, 'dx': dx, 'lam': lam, 'method': T_METHODS[i % 3]}, count=False)
        apply_oracle(ctx, 'multiplane', {'cat': 'search', 'res': s, 'fseed': i, 'seed': i, 'n': 1 + i % 2, 'planes': 1 + i % 3, 'lam': lam, 'dx': dx, 'location': z / 4, 'spacing': 1.0,
                                         'zm': 12.0, 'prop_method': T_METHODS[i % 3], 'ptype': ['back and forth', 'forward'][i % 2]}, count=False)
        if i < 8:
            apply_oracle(ctx, 'multicolor', {'cat': 'search', 'res': [33, 34], 'fseed': i, 'seed': i, 'n': 1, 'bits': 1 + i, 'lams': [0.5], 'dx': 1.5, 'frames': 1, 'depths': 1, 'volume_depth': 1.0,
                                             'location': 5.0, 'zm': 10.0, 'prop_method': T_METHODS[i % 3], 'ptype': 'forward', 'method': 'conventional', 'double_phase': False,
                                             'lr': 0.0, 'lr_floor': 0.0, 'offset_value': [1e-9, 3e-8, 2.0 ** -24][i % 3], 'phase_value': 0.0}, count=False)
        if len(ctx.viol) > 3: return


def replay(ctx, rec):
    if rec.get('no_failing_input_found'):
        print('replay names broken obligations only:', json.dumps(rec['broken_obligations'])[:3000]); return 1
    inp = dict(rec['input'])
    name = inp.pop('oracle')
    res = ORACLES[name](inp)
    bad = 0
    for fn, clause, ok, exp, obs in res:
        print('OK  ' if ok else 'FAIL', fn, clause, 'expected', exp, 'observed', obs)
        bad += 0 if ok else 1
    return 1 if bad else 0
