"""Call recipes for the C20 snapshot oracle: how to call odak's public functions with valid arguments.

A recipe builds (args, kwargs) from a generator `g` (all randomness from random.Random(seed)).
Variants:
  default   optional parameters are omitted, so the function's own default-argument objects are used
  explicit  every parameter is passed explicitly with random values
  boundary  the classes the property names: non-default origins, zero sigmas, list-typed parameters
            passed as lists the caller keeps, float arrays passed where lists are documented
Everything is small (a call takes milliseconds) and deterministic given (recipe, variant, seed).
"""
import math, random
import numpy as np
import torch

VARIANTS = ('default', 'explicit', 'boundary')


class G:
    def __init__(self, seed, variant):
        self.rng = random.Random(seed)
        self.variant = variant
        self.nprng = np.random.RandomState(self.rng.randrange(2 ** 31))

    # ---- scalars
    def u(self, a=0.1, b=1.0):
        return self.rng.uniform(a, b)

    def i(self, a, b):
        return self.rng.randint(a, b)

    def mode(self):
        return self.rng.choice(['XYZ', 'XZY', 'YXZ', 'ZXY', 'ZYX'])

    # ---- numpy
    def arr(self, *shape, lo=-1.0, hi=1.0, dtype=np.float64):
        return (self.nprng.uniform(lo, hi, size=shape)).astype(dtype)

    def carr(self, *shape):
        return (self.nprng.uniform(-1, 1, size=shape) + 1j * self.nprng.uniform(-1, 1, size=shape)).astype(np.complex128)

    def lst(self, n, lo=-1.0, hi=1.0):
        return [self.rng.uniform(lo, hi) for _ in range(n)]

    def angles(self):
        """rotation angles: never all zero (rotate_points has a shortcut for that)"""
        return [self.rng.uniform(5., 80.) * self.rng.choice([-1, 1]) for _ in range(3)]

    def origin(self):
        """non-default (non-zero) origin in the boundary and explicit variants"""
        return [self.rng.uniform(0.5, 2.0) * self.rng.choice([-1, 1]) for _ in range(3)]

    # ---- torch
    def t(self, *shape, lo=-1.0, hi=1.0, dtype=torch.float32):
        return torch.tensor(self.nprng.uniform(lo, hi, size=shape), dtype=dtype)

    def ct(self, *shape):
        return torch.tensor(self.nprng.uniform(-1, 1, size=shape) + 1j * self.nprng.uniform(-1, 1, size=shape), dtype=torch.complex64)

    def img(self, c=3, h=32, w=32, batch=True):
        x = torch.tensor(self.nprng.uniform(0.05, 0.95, size=(c, h, w)), dtype=torch.float32)
        return x.unsqueeze(0) if batch else x

    # ---- optional arguments: omitted in the `default` variant
    def opt(self, **kw):
        return {} if self.variant == 'default' else kw

    @property
    def boundary(self):
        return self.variant == 'boundary'


def A(*args, **kwargs):
    return list(args), dict(kwargs)


RECIPES = {}
METHODS = {}


def R(name, build, random_result=False, note=''):
    RECIPES[name] = {'build': build, 'random': random_result, 'note': note}


def M(name, cls, init, method, build, random_result=False):
    """method recipe: `cls` constructed by init(g), then cls.method called with build(g)"""
    METHODS[name] = {'cls': cls, 'init': init, 'method': method, 'build': build, 'random': random_result}


# ------------------------------------------------------------------------------------------ odak.tools (numpy)
R('odak.tools.rotmatx', lambda g: A(g.u(-90, 90)))
R('odak.tools.rotmaty', lambda g: A(g.u(-90, 90)))
R('odak.tools.rotmatz', lambda g: A(g.u(-90, 90)))
R('odak.tools.rotate_point', lambda g: A(g.arr(3), **g.opt(angles=g.angles(), mode=g.mode(), origin=g.origin(), offset=g.lst(3))))
R('odak.tools.rotate_points', lambda g: A(g.arr(g.i(1, 6), 3), angles=g.angles(), **g.opt(mode=g.mode(), origin=g.origin(), offset=g.lst(3))))
R('odak.tools.rotate_points#zero_angles', lambda g: A(g.arr(4, 3), angles=[0, 0, 0], **g.opt(origin=g.origin(), offset=g.lst(3))))
R('odak.tools.tilt_towards', lambda g: A(g.lst(3), g.lst(3, 2, 3)))
R('odak.tools.cross_product', lambda g: A(g.arr(2, 3), g.arr(2, 3)))
R('odak.tools.same_side', lambda g: A(g.arr(3), g.arr(3), g.arr(3), g.arr(3)))
R('odak.tools.distance_between_point_clouds', lambda g: A(g.arr(5, 3), g.arr(4, 3)))
R('odak.tools.distance_between_two_points', lambda g: A(g.arr(3), g.arr(3)))
R('odak.tools.closest_point_to_a_ray', lambda g: A(g.arr(3), g.arr(2, 3)))
R('odak.tools.point_to_ray_distance', lambda g: A(g.arr(3), g.arr(3), g.arr(3)))
R('odak.tools.create_empty_list', lambda g: A(**g.opt(dimensions=[g.i(1, 3), g.i(1, 3)])))
R('odak.tools.generate_bandlimits', lambda g: A(**g.opt(size=[16, 16], levels=3)))
R('odak.tools.zero_pad', lambda g: A(g.arr(g.i(3, 8), g.i(3, 8)), **g.opt(size=[12, 13])))
R('odak.tools.crop_center', lambda g: A(g.arr(2 * g.i(2, 5), 2 * g.i(2, 5)), **g.opt(size=[2, 2])))
R('odak.tools.quantize', lambda g: A(g.arr(6, 6, lo=0, hi=1), **g.opt(bits=g.i(2, 8))))
R('odak.tools.convolve2d', lambda g: A(g.arr(8, 8), g.arr(8, 8)))
R('odak.tools.generate_2d_gaussian', lambda g: A(**g.opt(kernel_length=[9, 9], nsigma=[0, 2] if g.boundary else [g.u(1, 3), g.u(1, 3)])))
R('odak.tools.blur_gaussian', lambda g: A(g.arr(32, 32), **g.opt(kernel_length=[8, 8], nsigma=[0, 2] if g.boundary else [g.u(1, 3), g.u(1, 3)])))
R('odak.tools.random_sample_point_cloud', lambda g: A(g.arr(20, 3), 5), random_result=True)
R('odak.tools.sphere_sample', lambda g: A(**g.opt(no=[4, 5], radius=g.u(), center=g.origin(), k=[1, 2])))
R('odak.tools.sphere_sample_uniform', lambda g: A(**g.opt(no=[4, 4], radius=g.u(), center=g.origin(), k=[1, 2])))
R('odak.tools.box_volume_sample', lambda g: A(**g.opt(no=[3, 3, 3], size=g.lst(3, 1, 5), center=g.origin(), angles=g.angles())))
R('odak.tools.circular_sample', lambda g: A(**g.opt(no=[4, 4], radius=g.u(1, 5), center=g.origin(), angles=g.angles())))
R('odak.tools.circular_uniform_random_sample', lambda g: A(**g.opt(no=[3, 10], radius=g.u(1, 5), center=g.origin(), angles=g.angles())), random_result=True)
R('odak.tools.circular_uniform_sample', lambda g: A(**g.opt(no=[3, 10], radius=g.u(1, 5), center=g.origin(), angles=g.angles())))
R('odak.tools.grid_sample', lambda g: A(**g.opt(no=[4, 4], size=g.lst(2, 1, 5), center=g.origin(), angles=g.angles())))
R('odak.tools.batch_of_rays', lambda g: A(g.arr(3), g.arr(5, 3)))
R('odak.tools.convert_to_numpy', lambda g: A(g.t(4, 3)))
R('odak.tools.convert_to_torch', lambda g: A(g.arr(4, 3), **g.opt(grad=False)))
R('odak.tools.convert_bytes', lambda g: A(g.u(1, 1e9)))
R('odak.tools.shell_command', lambda g: A(['echo', '~/c20_%d' % g.i(0, 9)], **g.opt(cwd='.', timeout=20, check=True)))
R('odak.tools.check_directory', lambda g: A('/tmp'))

# ------------------------------------------------------------------------------------------ odak.raytracing (numpy)
R('odak.raytracing.create_ray', lambda g: A(g.lst(3), g.lst(3, 10, 80)))
R('odak.raytracing.create_ray_from_two_points', lambda g: A(g.arr(3), g.arr(3) + 2.))
R('odak.raytracing.create_ray_from_two_points#batch', lambda g: A(g.arr(4, 3), g.arr(4, 3) + 2.))
R('odak.raytracing.create_ray_from_angles', lambda g: A(g.arr(3), g.arr(3, lo=5, hi=60), **g.opt(mode=g.mode())))
R('odak.raytracing.propagate_a_ray', lambda g: A(_ray_np(g), g.u(0.5, 3)))
R('odak.raytracing.propagate_a_ray#batch', lambda g: A(_rays_np(g, 3), g.arr(3, lo=0.5, hi=3)))
R('odak.raytracing.calculate_intersection_of_two_rays', lambda g: A(_ray_np(g), _ray_np(g)))
R('odak.raytracing.find_nearest_points', lambda g: A(_ray_np(g), _ray_np(g)))
R('odak.raytracing.reflect', lambda g: A(_ray_np(g), _ray_np(g)))
R('odak.raytracing.intersect_w_surface', lambda g: A(_ray_np(g), g.arr(3, 3) + np.array([[0, 0, 5.], [1, 0, 5.], [0, 1, 5.]])))
R('odak.raytracing.get_triangle_normal', lambda g: A(_tri_np(g)))
R('odak.raytracing.intersect_w_circle', lambda g: A(_ray_np(g), [g.arr(3, 3) * 0.1 + np.array([[0, 0, 5.], [1, 0, 5.], [0, 1, 5.]]), g.arr(3) * 0.1 + np.array([0, 0, 5.]), g.u(5, 10)]))
R('odak.raytracing.intersect_w_triangle', lambda g: A(_ray_np(g), _tri_np(g)))
R('odak.raytracing.get_sphere_normal', lambda g: A(g.arr(3) + 3., g.arr(4)))
R('odak.raytracing.get_cylinder_normal', lambda g: A(g.arr(3) + 3., g.arr(7)))
R('odak.raytracing.propagate_parametric_intersection_error', lambda g: A([g.u(0, 1), g.u(1, 2)], [g.u(1, 2), g.u(0, 1)]))
R('odak.raytracing.intersect_w_sphere', lambda g: A(np.array([[0., 0., -10.], [g.u(-.05, .05), g.u(-.05, .05), 1.]]), np.array([0., 0., 0., g.u(1, 3)])))
R('odak.raytracing.intersect_w_cylinder', lambda g: A(np.array([[0., 0., -10.], [g.u(-.05, .05), g.u(-.05, .05), 1.]]), np.array([0., 0., 0., g.u(1, 3), 0., 1., 0.])))
R('odak.raytracing.define_plane', lambda g: A(g.arr(3), **g.opt(angles=g.angles())))
R('odak.raytracing.bring_plane_to_origin', lambda g: A(g.arr(3), g.arr(3, 3), **g.opt(shape=[5., 5.], center=g.origin(), angles=g.angles(), mode='XYZ')))
R('odak.raytracing.center_of_triangle', lambda g: A(_tri_np(g)))
R('odak.raytracing.is_it_on_triangle', lambda g: A(g.arr(3), g.arr(3), g.arr(3) + 1, g.arr(3) + 2))
R('odak.raytracing.define_circle', lambda g: A(g.lst(3), g.u(1, 3), g.angles()))
R('odak.raytracing.define_sphere', lambda g: A(g.lst(3), g.u(1, 3)))
R('odak.raytracing.sphere_function', lambda g: A(g.arr(4, 3), g.arr(4)))
R('odak.raytracing.define_cylinder', lambda g: A(g.lst(3), g.u(1, 3), **g.opt(rotation=g.angles())))
R('odak.raytracing.cylinder_function', lambda g: A(g.arr(4, 3), g.arr(7)))


def _ray_np(g):
    d = g.arr(3) + np.array([0., 0., 2.])
    return np.array([g.arr(3), d / np.linalg.norm(d)])


def _rays_np(g, n):
    return np.array([_ray_np(g) for _ in range(n)])


def _tri_np(g):
    return g.arr(3, 3) * 0.2 + np.array([[0, 0, 5.], [2, 0, 5.], [0, 2, 5.]])


# ------------------------------------------------------------------------------------------ odak.wave (numpy)
WL, DX = 515e-9, 8e-6
R('odak.wave.wavenumber', lambda g: A(WL))
R('odak.wave.rayleigh_resolution', lambda g: A(g.u(1, 10), **g.opt(focal=g.u(10, 100), wavelength=0.0005)))
R('odak.wave.calculate_intensity', lambda g: A(g.carr(6, 6)))
R('odak.wave.calculate_phase', lambda g: A(g.carr(6, 6), **g.opt(deg=True)))
R('odak.wave.calculate_amplitude', lambda g: A(g.carr(6, 6)))
R('odak.wave.add_random_phase', lambda g: A(g.carr(6, 6)), random_result=True)
R('odak.wave.add_phase', lambda g: A(g.carr(6, 6), g.arr(6, 6)))
R('odak.wave.set_amplitude', lambda g: A(g.carr(6, 6), g.arr(6, 6, lo=0, hi=1)))
R('odak.wave.generate_complex_field', lambda g: A(g.arr(6, 6, lo=0, hi=1), g.arr(6, 6)))
R('odak.wave.adjust_phase_only_slm_range', lambda g: A(g.u(3, 7), 515e-9, 532e-9))
R('odak.wave.produce_phase_only_slm_pattern', lambda g: A(g.carr(6, 6), 2 * math.pi, **g.opt(bits=8, default_range=2 * math.pi, illumination=g.arr(6, 6, lo=0, hi=1))))
for _pt in ['Impulse Response Fresnel', 'Angular Spectrum', 'Bandlimited Angular Spectrum', 'Transfer Function Fresnel', 'Fraunhofer']:
    R('odak.wave.propagate_beam#%s' % _pt, (lambda pt: lambda g: A(g.carr(8, 8), 2 * math.pi / WL, g.u(0.01, 0.1), DX, WL, propagation_type=pt))(_pt))
R('odak.wave.quadratic_phase_function', lambda g: A(8, 8, 2 * math.pi / WL, **g.opt(focal=g.u(0.1, 0.5), dx=DX, offset=[g.i(-2, 2), g.i(-2, 2)])))
R('odak.wave.prism_phase_function', lambda g: A(8, 8, 2 * math.pi / WL, g.u(0.1, 1), **g.opt(dx=DX, axis='y')))
R('odak.wave.linear_grating', lambda g: A(8, 8, **g.opt(every=2, add=3.14, axis='y')))
R('odak.wave.double_convergence', lambda g: A(8, 8, 2 * math.pi / WL, g.u(0.1, 0.5), DX))
R('odak.wave.gerchberg_saxton', lambda g: A(g.carr(8, 8), 2, g.u(0.01, 0.1), DX, WL, propagation_type='Transfer Function Fresnel', **g.opt(slm_range=6.28, initial_phase=g.arr(8, 8))), random_result=True)
R('odak.wave.propagate_plane_waves', lambda g: A(g.carr(5), g.arr(5, lo=0, hi=1e-3), 2 * math.pi / WL, **g.opt(w=0, t=0)))
R('odak.wave.electric_field_per_plane_wave', lambda g: A(g.u(), g.arr(5, lo=0, hi=1e-3), 2 * math.pi / WL, **g.opt(phase=g.u(), w=0, t=0)))
R('odak.wave.propagate_field', lambda g: A(g.arr(4, 3), g.arr(5, 3) + 3., g.carr(4), 2 * math.pi / WL, **g.opt(direction=1)))
R('odak.jones.electricfield', lambda g: A(g.u(), g.u()))
R('odak.jones.linearpolarizer', lambda g: A(g.arr(2, 1), **g.opt(rotation=g.u(0, 90))))
R('odak.fit.least_square_1d', lambda g: A(g.arr(6), g.arr(6)))
R('odak.fit.threshold_linear_model', lambda g: A(g.arr(3), g.arr(3), **g.opt(threshold=0.1)))
R('odak.fit.perceptron', lambda g: A(g.arr(6, 3), np.array([0, 1, 0, 1, 1, 0]), **g.opt(learning_rate=0.1, iteration_number=3)))
R('odak.measurement.line_spread_function', lambda g: A(g.arr(16, lo=0, hi=1)))
R('odak.measurement.fourier_transform_1d', lambda g: A(g.arr(16, lo=0, hi=1)))
R('odak.measurement.roi', lambda g: A(g.arr(20, 20, lo=0, hi=1), **g.opt(location=[2, 18, 2, 18], threshold=[0.2, 0.8, 0.2, 0.8])))
R('odak.measurement.modulation_transfer_function', lambda g: A(np.sort(g.arr(16, lo=0, hi=1)), np.sort(g.arr(16, lo=0, hi=1)), [0.01, 0.01]))

# ------------------------------------------------------------------------------------------ odak.learn.tools (torch)
R('odak.learn.tools.rotmatx', lambda g: A(torch.tensor([g.u(-90, 90)])))
R('odak.learn.tools.get_rotation_matrix', lambda g: A(tilt_angles=torch.tensor(g.angles()).unsqueeze(-1), **g.opt(tilt_order=g.rng.choice(['XYZ', 'XZY', 'ZXY', 'YXZ', 'ZYX']))))
R('odak.learn.tools.rotate_points', lambda g: A(g.t(g.i(1, 5), 3), **g.opt(angles=torch.tensor([g.angles()]), mode=g.mode(), origin=torch.tensor([g.origin()]), offset=g.t(1, 3))))
R('odak.learn.tools.tilt_towards', lambda g: A(g.lst(3), g.lst(3, 2, 3)))
R('odak.learn.tools.same_side', lambda g: A(g.t(3), g.t(3), g.t(3), g.t(3)))
R('odak.learn.tools.distance_between_two_points', lambda g: A(g.t(3), g.t(3)))
R('odak.learn.tools.quantize', lambda g: A(g.t(6, 6, lo=0, hi=1), **g.opt(bits=g.i(2, 8), limits=[g.u(-1, -0.1), g.u(1.1, 2)])))
R('odak.learn.tools.zero_pad', lambda g: A(g.t(g.i(5, 8), g.i(5, 8)), **g.opt(size=[12, 13])))
R('odak.learn.tools.crop_center', lambda g: A(g.t(2 * g.i(3, 5), 2 * g.i(3, 5)), **g.opt(size=[4, 4])))
R('odak.learn.tools.convolve2d', lambda g: A(g.t(8, 8), g.t(8, 8)))
R('odak.learn.tools.generate_2d_gaussian', lambda g: A(**g.opt(kernel_length=[9, 9], nsigma=[0, 0] if g.boundary else [g.u(1, 3), g.u(1, 3)], mu=g.lst(2), normalize=True)))
R('odak.learn.tools.generate_2d_gaussian#zero_sigma', lambda g: A(kernel_length=[7, 7], nsigma=[0, g.u(1, 3)] if g.rng.random() < .5 else [g.u(1, 3), 0]))
R('odak.learn.tools.generate_2d_dirac_delta', lambda g: A(**g.opt(kernel_length=[9, 9], a=[g.u(1, 3), g.u(1, 3)], mu=g.lst(2), theta=g.u(0, 1), normalize=True)))
R('odak.learn.tools.blur_gaussian', lambda g: A(g.t(12, 12), **g.opt(kernel_length=[8, 6] if g.boundary else [7, 7], nsigma=[0, 0] if g.boundary else [g.u(1, 3), g.u(1, 3)])))
R('odak.learn.tools.correlation_2d', lambda g: A(g.t(8, 8), g.t(8, 8)))
R('odak.learn.tools.grid_sample', lambda g: A(**g.opt(no=[4, 4], size=g.lst(2, 1, 5), center=g.origin(), angles=g.angles())))
R('odak.learn.tools.multi_scale_total_variation_loss', lambda g: A(g.img(), **g.opt(levels=2)))
R('odak.learn.tools.total_variation_loss', lambda g: A(g.img()))
R('odak.learn.tools.radial_basis_function', lambda g: A(g.t(5), **g.opt(epsilon=g.u())))
R('odak.learn.tools.histogram_loss', lambda g: A(g.img(), g.img(), **g.opt(bins=8, limits=[0., 1.])))
R('odak.learn.tools.weber_contrast', lambda g: A(g.img(), [2, 10, 2, 10], [12, 20, 12, 20]))
R('odak.learn.tools.michelson_contrast', lambda g: A(g.img(), [2, 10, 2, 10], [12, 20, 12, 20]))
R('odak.learn.tools.wrapped_mean_squared_error', lambda g: A(g.img(), g.img(), **g.opt(reduction='sum')))
R('odak.learn.tools.circular_binary_mask', lambda g: A(12, 12, g.i(2, 5)))
R('odak.learn.tools.resize', lambda g: A(g.img(3, 16, 16, batch=False), **g.opt(multiplier=0.5, mode='nearest')))
R('odak.learn.tools.freeze', lambda g: A(torch.nn.Linear(3, 2)), note='documented in place')
R('odak.learn.tools.unfreeze', lambda g: A(_frozen(torch.nn.Linear(3, 2))), note='documented in place')


def _frozen(m):
    for p in m.parameters():
        p.requires_grad = False
    return m


# ------------------------------------------------------------------------------------------ odak.learn.wave (torch)
K = 2 * math.pi / WL
R('odak.learn.wave.wavenumber', lambda g: A(WL))
R('odak.learn.wave.calculate_phase', lambda g: A(g.ct(6, 6), **g.opt(deg=True)))
R('odak.learn.wave.calculate_amplitude', lambda g: A(g.ct(6, 6)))
R('odak.learn.wave.set_amplitude', lambda g: A(g.ct(6, 6), g.t(6, 6, lo=0, hi=1)))
R('odak.learn.wave.generate_complex_field', lambda g: A(g.t(6, 6, lo=0, hi=1), g.t(6, 6)))
for _pt in ['Angular Spectrum', 'Bandlimited Angular Spectrum', 'Impulse Response Fresnel', 'Seperable Impulse Response Fresnel',
            'Transfer Function Fresnel', 'Fraunhofer', 'Incoherent Angular Spectrum']:
    R('odak.learn.wave.propagate_beam#%s' % _pt, (lambda pt: lambda g: A(
        g.ct(10, 10), K, g.u(0.005, 0.05), DX, WL, propagation_type=pt,
        **g.opt(zero_padding=[True, g.rng.random() < .5, True], aperture=1., scale=1, samples=[4, 4, 2, 2])))(_pt))
R('odak.learn.wave.propagate_beam#custom', lambda g: A(g.ct(10, 10), K, 0.01, DX, WL, propagation_type='custom', kernel=g.ct(20, 20),
                                                       zero_padding=[True, False, True], **g.opt(aperture=g.t(20, 20, lo=0, hi=1))))
for _pt in ['Bandlimited Angular Spectrum', 'Angular Spectrum', 'Transfer Function Fresnel', 'Impulse Response Fresnel', 'Incoherent Angular Spectrum', 'Seperable Impulse Response Fresnel']:
    R('odak.learn.wave.get_propagation_kernel#%s' % _pt, (lambda pt: lambda g: A(
        8, 8, **g.opt(dx=DX, wavelength=WL, distance=g.u(0.005, 0.05), propagation_type=pt, scale=1, samples=[4, 4, 2, 2])) if g.variant != 'default'
        else A(8, 8, propagation_type=pt, distance=0.01, samples=[4, 4, 2, 2]))(_pt))
R('odak.learn.wave.get_light_kernels', lambda g: A([WL, 532e-9], [0.01, 0.02], [DX, DX], resolution=[8, 8],
                                                   **g.opt(resolution_factor=1, samples=[4, 4, 2, 2], propagation_type='Bandlimited Angular Spectrum', kernel_type='spatial')))
R('odak.learn.wave.fraunhofer', lambda g: A(g.ct(8, 8), K, g.u(0.1, 1), DX, WL))
R('odak.learn.wave.custom', lambda g: A(g.ct(8, 8), g.ct(8, 8), **g.opt(zero_padding=False, aperture=g.t(8, 8, lo=0, hi=1))))
R('odak.learn.wave.custom#zero_padding', lambda g: A(g.ct(8, 8), g.ct(8, 8), zero_padding=True))
R('odak.learn.wave.get_impulse_response_fresnel_kernel', lambda g: A(8, 8, distance=0.01, aperture_samples=[4, 4, 2, 2], **g.opt(dx=DX, wavelength=WL, scale=1)))
R('odak.learn.wave.get_seperable_impulse_response_fresnel_kernel', lambda g: A(8, 8, distance=0.01, aperture_samples=[4, 4, 2, 2], **g.opt(dx=DX, wavelength=WL, scale=1)))
R('odak.learn.wave.get_point_wise_impulse_response_fresnel_kernel', lambda g: A(
    g.t(6, 3, lo=-1e-3, hi=1e-3), g.ct(1, 6), g.t(16, 3, lo=-1e-3, hi=1e-3), [4, 4], distance=g.u(0.01, 0.1),
    **g.opt(resolution_factor=1, wavelength=WL, randomization=g.boundary)), random_result=True)
R('odak.learn.wave.get_point_wise_impulse_response_fresnel_kernel#randomization', lambda g: A(
    g.t(6, 3, lo=-1e-3, hi=1e-3), g.ct(1, 6), g.t(16, 3, lo=-1e-3, hi=1e-3), [4, 4], distance=g.u(0.01, 0.1), randomization=True), random_result=True)
for _f in ['seperable_impulse_response_fresnel', 'impulse_response_fresnel']:
    R('odak.learn.wave.%s' % _f, lambda g: A(g.ct(8, 8), K, g.u(0.005, 0.05), DX, WL, samples=[4, 4, 2, 2], **g.opt(zero_padding=False, aperture=1., scale=1)))
for _f in ['transfer_function_fresnel', 'angular_spectrum', 'incoherent_angular_spectrum', 'band_limited_angular_spectrum']:
    R('odak.learn.wave.%s' % _f, lambda g: A(g.ct(8, 8), K, g.u(0.005, 0.05), DX, WL, **g.opt(zero_padding=False, aperture=g.t(8, 8, lo=0, hi=1) if g.boundary else 1.)))
for _f in ['get_transfer_function_fresnel_kernel', 'get_angular_spectrum_kernel', 'get_incoherent_angular_spectrum_kernel', 'get_band_limited_angular_spectrum_kernel']:
    R('odak.learn.wave.%s' % _f, lambda g: A(8, 8, **g.opt(dx=DX, wavelength=WL, distance=g.u(0.005, 0.05))))
R('odak.learn.wave.gerchberg_saxton', lambda g: A(g.ct(8, 8), 2, g.u(0.005, 0.05), DX, WL, **g.opt(slm_range=6.28, propagation_type='Transfer Function Fresnel')), random_result=True)
R('odak.learn.wave.stochastic_gradient_descent', lambda g: A(g.t(8, 8, lo=0, hi=1), WL, 0.01, DX, n_iteration=2, **g.opt(propagation_type='Bandlimited Angular Spectrum', learning_rate=0.1)), random_result=True)
R('odak.learn.wave.shift_w_double_phase', lambda g: A(g.t(8, 8), g.u(0.001, 0.01), DX, WL, **g.opt(propagation_type='Transfer Function Fresnel', kernel_length=4, sigma=0.5, amplitude=g.t(8, 8, lo=0.1, hi=1))))
R('odak.learn.wave.quadratic_phase_function', lambda g: A(8, 8, K, **g.opt(focal=g.u(0.1, 0.5), dx=DX, offset=[g.i(-2, 2), g.i(-2, 2)])))
R('odak.learn.wave.prism_grating', lambda g: A(8, 8, K, g.u(0.1, 1), **g.opt(dx=DX, axis='y', phase_offset=0.1)))
R('odak.learn.wave.blazed_grating', lambda g: A(8, 8, **g.opt(levels=3, axis='y')))
R('odak.learn.wave.linear_grating', lambda g: A(8, 8, **g.opt(every=2, add=3.14, axis='y')))

# ------------------------------------------------------------------------------------------ odak.learn.raytracing (torch)
def _ray_t(g, n=1):
    o = g.t(n, 3)
    d = g.t(n, 3) * 0.2 + torch.tensor([[0., 0., 1.]])
    d = d / torch.sqrt(torch.sum(d ** 2, dim=1, keepdim=True))
    return torch.stack([o, d], dim=1)


def _tri_t(g, n=1):
    return g.t(n, 3, 3) * 0.2 + torch.tensor([[[-2., -2., 5.], [2., -2., 5.], [0., 3., 5.]]])


R('odak.learn.raytracing.create_ray', lambda g: A(g.t(3, 3), g.t(3, 3, lo=5, hi=60), **g.opt(direction=g.boundary)))
R('odak.learn.raytracing.create_ray_from_two_points', lambda g: A(g.t(4, 3), g.t(4, 3) + 2.))
R('odak.learn.raytracing.create_ray_from_all_pairs', lambda g: A(g.t(3, 3), g.t(4, 3) + 2.))
R('odak.learn.raytracing.create_ray_from_grid_w_luminous_angle', lambda g: A(g.t(3), [1., 1.], [3, 3], torch.tensor(g.lst(3, 0, 20)), 4, g.u(5, 30)), random_result=True)
R('odak.learn.raytracing.create_ray_from_point_w_luminous_angle', lambda g: A(g.t(3), 5, torch.tensor(g.lst(3, 0, 20)), g.u(5, 30)), random_result=True)
R('odak.learn.raytracing.propagate_ray', lambda g: A(_ray_t(g, 3), g.t(3, lo=0.5, hi=3)))
R('odak.learn.raytracing.refract', lambda g: A(_ray_t(g, 2), _ray_t(g, 2), 1.0, 1.5, **g.opt(error=0.01)))
R('odak.learn.raytracing.reflect', lambda g: A(_ray_t(g, 2), _ray_t(g, 2)))
R('odak.learn.raytracing.intersect_w_sphere', lambda g: A(torch.tensor([[[0., 0., -10.], [0.01, 0.02, 1.]]]), torch.tensor([[0., 0., 0., g.u(1, 3)]]), number_of_steps=5, **g.opt(learning_rate=0.2, error_threshold=0.01)))
R('odak.learn.raytracing.intersect_w_triangle', lambda g: A(_ray_t(g, 3), _tri_t(g)))
R('odak.learn.raytracing.intersect_w_triangle_batch', lambda g: A(_ray_t(g, 3), _tri_t(g, 2)))
R('odak.learn.raytracing.intersect_w_surface', lambda g: A(_ray_t(g, 3), _tri_t(g)))
R('odak.learn.raytracing.intersect_w_surface_batch', lambda g: A(_ray_t(g, 3), _tri_t(g, 2)))
R('odak.learn.raytracing.get_triangle_normal', lambda g: A(_tri_t(g, 2)))
R('odak.learn.raytracing.get_sphere_normal_torch', lambda g: A(g.t(3, 3) + 3., g.t(4)))
R('odak.learn.raytracing.intersect_w_circle', lambda g: A(_ray_t(g, 3), [_tri_t(g), torch.tensor([[0., 0., 5.]]), torch.tensor(g.u(5, 10))]))
R('odak.learn.raytracing.define_plane', lambda g: A(g.t(3), **g.opt(angles=torch.tensor(g.angles()))))
R('odak.learn.raytracing.define_plane_mesh', lambda g: A(**g.opt(number_of_meshes=[2, 2], size=[1., 2.], angles=torch.tensor(g.angles()), offset=g.t(1, 3))))
R('odak.learn.raytracing.center_of_triangle', lambda g: A(_tri_t(g, 2)))
R('odak.learn.raytracing.is_it_on_triangle', lambda g: A(g.t(4, 3), _tri_t(g)[0]))
R('odak.learn.raytracing.is_it_on_triangle_batch', lambda g: A(g.t(2, 4, 3), _tri_t(g, 2)))
R('odak.learn.raytracing.define_sphere', lambda g: A(**g.opt(center=g.t(1, 3), radius=torch.tensor([g.u(1, 3)]))))
R('odak.learn.raytracing.define_circle', lambda g: A(g.t(3), g.u(1, 3), torch.tensor(g.angles())))

# ------------------------------------------------------------------------------------------ odak.learn.perception (torch)
for _f in ['rgb_2_ycrcb', 'ycrcb_2_rgb', 'rgb_to_linear_rgb', 'linear_rgb_to_rgb', 'linear_rgb_to_xyz', 'xyz_to_linear_rgb', 'rgb_to_hsv', 'hsv_to_rgb', 'srgb_to_lab', 'lab_to_srgb']:
    R('odak.learn.perception.color_conversion.%s' % _f, lambda g: A(g.img(3, 8, 8, batch=False)))
R('odak.learn.perception.color_conversion.color_map', lambda g: A(g.img(3, 8, 8, batch=False), g.img(3, 8, 8, batch=False), **g.opt(model='Lab Stats')))
R('odak.learn.perception.foveation.make_3d_location_map', lambda g: A([16, 16], **g.opt(real_image_width=0.3, real_viewing_distance=0.6)))
R('odak.learn.perception.foveation.make_eccentricity_distance_maps', lambda g: A(g.lst(2, 0.2, 0.8), [16, 16], **g.opt(real_image_width=0.3, real_viewing_distance=0.6)))
R('odak.learn.perception.foveation.make_pooling_size_map_pixels', lambda g: A(g.lst(2, 0.2, 0.8), [16, 16], **g.opt(alpha=0.3, real_image_width=0.3, real_viewing_distance=0.6, mode='linear')))
R('odak.learn.perception.foveation.make_pooling_size_map_lod', lambda g: A(g.lst(2, 0.2, 0.8), [16, 16], **g.opt(alpha=0.3, real_image_width=0.3, real_viewing_distance=0.6, mode='linear')))
R('odak.learn.perception.foveation.make_radial_map', lambda g: A([16, 16], g.lst(2, 0.2, 0.8)))
R('odak.learn.perception.foveation.make_equi_pooling_size_map_pixels', lambda g: A(g.lst(2, -0.5, 0.5), [16, 32], **g.opt(alpha=0.3, mode='linear')))
R('odak.learn.perception.foveation.make_equi_pooling_size_map_lod', lambda g: A(g.lst(2, -0.5, 0.5), [16, 32], **g.opt(alpha=0.3, mode='linear')))
R('odak.learn.perception.util.check_loss_inputs', lambda g: A('loss', g.img(), g.img()))
R('odak.learn.perception.util.slice_rgbd_targets', lambda g: A(g.img(3, 8, 8, batch=False), g.t(8, 8, lo=0, hi=1), [0., 0.5, 1.]))
R('odak.learn.perception.spatial_steerable_pyramid.pad_image_for_pyramid', lambda g: A(g.img(3, 30, 27), 3))
R('odak.learn.perception.steerable_pyramid_filters.get_steerable_pyramid_filters', lambda g: A(g.rng.choice([3, 5, 9]), g.rng.choice([1, 2, 4, 6]), g.rng.choice(['full', 'cropped', 'trained'])))
R('odak.learn.perception.steerable_pyramid_filters.crop_steerable_pyramid_filters', lambda g: A(_full_filters(g), 5))


def _full_filters(g):
    import odak.learn.perception.steerable_pyramid_filters as spf
    return spf.get_steerable_pyramid_filters(9, g.rng.choice([2, 4, 6]), 'full')


def _cls(path):
    import importlib
    mod, name = path.rsplit('.', 1)
    return getattr(importlib.import_module(mod), name)


M('odak.learn.perception.SpatialSteerablePyramid.construct_pyramid', 'odak.learn.perception.spatial_steerable_pyramid.SpatialSteerablePyramid',
  lambda g: A(**g.opt(use_bilinear_downup=g.boundary, n_channels=3, filter_size=5, n_orientations=2, filter_type='cropped')) if g.variant != 'default' else A(n_channels=3),
  'construct_pyramid', lambda g: A(g.img(3, 32, 32), 2))
M('odak.learn.perception.SpatialSteerablePyramid.reconstruct_from_pyramid', 'odak.learn.perception.spatial_steerable_pyramid.SpatialSteerablePyramid',
  lambda g: A(n_channels=3), 'reconstruct_from_pyramid',
  lambda g: A(_cls('odak.learn.perception.spatial_steerable_pyramid.SpatialSteerablePyramid')(n_channels=3).construct_pyramid(g.img(3, 32, 32), 2)))
M('odak.learn.perception.RadiallyVaryingBlur.blur', 'odak.learn.perception.radially_varying_blur.RadiallyVaryingBlur', lambda g: A(), 'blur',
  lambda g: A(g.img(3, 32, 32), centre=g.lst(2, 0.2, 0.8), **g.opt(alpha=0.1, real_image_width=0.3, real_viewing_distance=0.6, mode='linear')))
M('odak.learn.perception.MetamericLoss.__call__', 'odak.learn.perception.metameric_loss.MetamericLoss', lambda g: A(n_pyramid_levels=2, n_orientations=2), '__call__',
  lambda g: A(g.img(3, 32, 32), g.img(3, 32, 32), **g.opt(gaze=g.lst(2, 0.2, 0.8))))
M('odak.learn.perception.MetamericLossUniform.__call__', 'odak.learn.perception.metameric_loss_uniform.MetamericLossUniform', lambda g: A(n_pyramid_levels=2, n_orientations=2), '__call__',
  lambda g: A(g.img(3, 32, 32), g.img(3, 32, 32)))
M('odak.learn.perception.MetamerMSELoss.__call__', 'odak.learn.perception.metamer_mse_loss.MetamerMSELoss', lambda g: A(n_pyramid_levels=2, n_orientations=2), '__call__',
  lambda g: A(g.img(3, 32, 32), g.img(3, 32, 32), **g.opt(gaze=g.lst(2, 0.2, 0.8))))
M('odak.learn.perception.BlurLoss.__call__', 'odak.learn.perception.blur_loss.BlurLoss', lambda g: A(), '__call__',
  lambda g: A(g.img(3, 32, 32), g.img(3, 32, 32), **g.opt(gaze=g.lst(2, 0.2, 0.8))))
M('odak.learn.perception.PSNR.forward', 'odak.learn.perception.image_quality_losses.PSNR', lambda g: A(), 'forward', lambda g: A(g.img(), g.img(), **g.opt(peak_value=1.0)))
M('odak.learn.wave.phase_gradient.forward', 'odak.learn.wave.loss.phase_gradient', lambda g: A(), 'forward', lambda g: A(g.t(1, 1, 8, 8)))
M('odak.learn.wave.speckle_contrast.forward', 'odak.learn.wave.loss.speckle_contrast', lambda g: A(kernel_size=3), 'forward', lambda g: A(g.t(1, 1, 8, 8, lo=0.1, hi=1)))
M('odak.learn.wave.multiplane_loss.__init__', 'odak.learn.wave.loss.multiplane_loss', None, '__init__',
  lambda g: A(g.img(3, 16, 16, batch=False), g.t(16, 16, lo=0, hi=1), number_of_planes=g.rng.choice([3, 4]), target_blur_size=3, **g.opt(blur_ratio=0.25, weights=[1., 2.1, 0.6], multiplier=1., scheme='defocus')))
M('odak.learn.wave.multiplane_loss.__call__', 'odak.learn.wave.loss.multiplane_loss',
  lambda g: A(g.img(3, 16, 16, batch=False), g.t(16, 16, lo=0, hi=1), number_of_planes=2, target_blur_size=3), '__call__',
  lambda g: A(g.img(3, 16, 16, batch=False), g.img(3, 16, 16, batch=False), **g.opt(plane_id=1)))
M('odak.learn.wave.propagator.__call__', 'odak.learn.wave.propagators.propagator',
  lambda g: A(resolution=[8, 8], wavelengths=[WL], pixel_pitch=DX, number_of_depth_layers=2, volume_depth=0.01, image_location_offset=0.005, **g.opt(resolution_factor=1, number_of_frames=1)),
  '__call__', lambda g: A(g.ct(8, 8), 0, 1))
M('odak.learn.wave.propagator.reconstruct', 'odak.learn.wave.propagators.propagator',
  lambda g: A(resolution=[8, 8], wavelengths=[WL], pixel_pitch=DX, number_of_depth_layers=2, volume_depth=0.01, image_location_offset=0.005),
  'reconstruct', lambda g: A(g.t(1, 8, 8), **g.opt(amplitude=g.t(1, 8, 8, lo=0.1, hi=1), no_grad=True, get_complex=g.boundary)))
M('odak.learn.raytracing.planar_mesh.__init__', 'odak.learn.raytracing.mesh.planar_mesh', None, '__init__',
  lambda g: A(size=torch.tensor([1., 1.]), number_of_meshes=torch.tensor([3, 3]), **g.opt(angles=torch.tensor(g.angles()), offset=g.t(3), heights=g.t(3, 3, 1, lo=0, hi=0.1))))
M('odak.learn.raytracing.planar_mesh.get_triangles', 'odak.learn.raytracing.mesh.planar_mesh',
  lambda g: A(size=torch.tensor([1., 1.]), number_of_meshes=torch.tensor([3, 3])), 'get_triangles', lambda g: A())
M('odak.learn.raytracing.detector.intersect', 'odak.learn.raytracing.detector.detector',
  lambda g: A(colors=1, center=torch.tensor([0., 0., 5.]), tilt=torch.tensor([0., 0., 0.]), size=torch.tensor([4., 4.]), resolution=torch.tensor([8, 8])),
  'intersect', lambda g: A(_ray_t(g, 4)))
M('odak.learn.models.unet.forward', 'odak.learn.models.models.unet', lambda g: A(depth=2, dimensions=4, input_channels=2, output_channels=1), 'forward', lambda g: A(g.t(1, 2, 16, 16)))
M('odak.learn.models.multi_layer_perceptron.forward', 'odak.learn.models.models.multi_layer_perceptron', lambda g: A(dimensions=[2, 4, 1]), 'forward', lambda g: A(g.t(5, 2)))
M('odak.learn.models.convolution_layer.forward', 'odak.learn.models.components.convolution_layer', lambda g: A(input_channels=2, output_channels=2), 'forward', lambda g: A(g.t(1, 2, 8, 8)))
M('odak.learn.models.double_convolution.forward', 'odak.learn.models.components.double_convolution', lambda g: A(input_channels=2, mid_channels=2, output_channels=2), 'forward', lambda g: A(g.t(1, 2, 8, 8)))
M('odak.learn.models.residual_layer.forward', 'odak.learn.models.components.residual_layer', lambda g: A(input_channels=2, mid_channels=2), 'forward', lambda g: A(g.t(1, 2, 8, 8)))
M('odak.learn.models.channel_gate.forward', 'odak.learn.models.components.channel_gate', lambda g: A(gate_channels=4, reduction_ratio=2), 'forward', lambda g: A(g.t(1, 4, 8, 8)))
M('odak.learn.models.spatial_gate.forward', 'odak.learn.models.components.spatial_gate', lambda g: A(), 'forward', lambda g: A(g.t(1, 4, 8, 8)))
M('odak.learn.models.convolutional_block_attention.forward', 'odak.learn.models.components.convolutional_block_attention', lambda g: A(gate_channels=4, reduction_ratio=2), 'forward', lambda g: A(g.t(1, 4, 8, 8)))
M('odak.learn.models.positional_encoder.forward', 'odak.learn.models.components.positional_encoder', lambda g: A(L=3), 'forward', lambda g: A(g.t(5, 2)))


# ------------------------------------------------------------------------------------------ files and assets (scratch directory)
import os as _os, tempfile as _tempfile

_SCRATCH = [None]


def scratch():
    """a scratch directory for the file recipes (created once per process, removed by the harness)"""
    if _SCRATCH[0] is None or not _os.path.isdir(_SCRATCH[0]):
        _SCRATCH[0] = _tempfile.mkdtemp(prefix='c20_scratch_')
    return _SCRATCH[0]


def _path(name):
    return _os.path.join(scratch(), name)


def _img_np(g, dtype, c=3, hi=255.):
    """image data of the given dtype; float data spans beyond [cmin, cmax] so that clamping is visible"""
    a = g.arr(12, 10, c, lo=-0.2 * hi, hi=1.2 * hi) if c else g.arr(12, 10, lo=-0.2 * hi, hi=1.2 * hi)
    if np.issubdtype(dtype, np.integer):
        a = np.clip(a, 0, hi)
    return a.astype(dtype)


def _png(g, name='in.png'):
    import cv2
    p = _path(name)
    cv2.imwrite(p, (g.arr(12, 10, 3, lo=0, hi=255)).astype(np.uint8))
    return p


def _ply(g, name='in.ply'):
    import odak.tools as ot
    p = _path(name)
    ot.write_PLY(g.arr(4, 3, 3), savefn=p)
    return p


def _txt(g, name='in.txt'):
    p = _path(name)
    open(p, 'w').write('first line \n\tsecond line\n\n# heading\nlast')
    return p


for _dt in ('float32', 'float64', 'uint8', 'uint16'):
    R('odak.tools.save_image#%s' % _dt, (lambda dt: lambda g: A(_path('out_%s.png' % dt), _img_np(g, np.dtype(dt).type, hi=255. if dt != 'uint16' else 65535.),
                                                               **g.opt(cmin=0, cmax=255 if dt != 'uint16' else 65535, color_depth=8 if dt != 'uint16' else 16)))(_dt))
R('odak.tools.save_image#unit_range', lambda g: A(_path('out_unit.png'), _img_np(g, np.float32, hi=1.), cmin=0., cmax=1.))
R('odak.tools.save_image#gray', lambda g: A(_path('out_gray.png'), _img_np(g, np.float32, c=0), **g.opt(cmin=10, cmax=200)))
R('odak.tools.load_image', lambda g: A(_png(g), **g.opt(normalizeby=255., torch_style=g.boundary)))
R('odak.tools.resize_image', lambda g: A(_img_np(g, np.uint8), [6, 5]))
R('odak.tools.get_base_filename', lambda g: A('/tmp/some/dir/name.ext'))
R('odak.tools.save_dictionary', lambda g: A({'a': g.lst(3), 'b': {'c': 'text', 'd': [1, 2]}}, _path('out.json')))
R('odak.tools.load_dictionary', lambda g: A(_json(g)))
R('odak.tools.list_files', lambda g: A(_os.path.dirname(_txt(g)), **g.opt(key='*.txt', recursive=False)))
R('odak.tools.size_of_a_file', lambda g: A(_txt(g)))
R('odak.tools.expanduser', lambda g: A('~/c20_x'))
R('odak.tools.copy_file', lambda g: A(_txt(g), _path('copy.txt'), **g.opt(follow_symlinks=True)))
R('odak.tools.write_to_text_file', lambda g: A(['line one', 'line two ', ''], _path('out.txt'), **g.opt(write_flag='w')))
R('odak.tools.read_text_file', lambda g: A(_txt(g)))
R('odak.tools.read_PLY', lambda g: A(_ply(g), **g.opt(offset=g.origin(), angles=g.angles(), mode='XYZ')))
R('odak.tools.read_PLY_point_cloud', lambda g: A(_ply_points(g)))
R('odak.tools.write_PLY', lambda g: A(g.arr(4, 3, 3), **g.opt(savefn=_path('out.ply'))) if g.variant != 'default' else A(g.arr(4, 3, 3), savefn=_path('out.ply')))
R('odak.tools.write_PLY_from_points', lambda g: A(g.arr(4, 4, 3), savefn=_path('out_pts.ply')))


def _json(g):
    import json as _j
    p = _path('in.json')
    _j.dump({'a': [1, 2, 3], 'b': 'text'}, open(p, 'w'))
    return p


def _ply_points(g):
    import odak.tools as ot
    p = _path('in_pts.ply')
    ot.write_PLY_from_points(g.arr(4, 4, 3), savefn=p)
    return p


def _img_t(g, dtype, c=3, hi=255.):
    a = g.t(c, 12, 10, lo=-0.2 * hi, hi=1.2 * hi) if c else g.t(12, 10, lo=-0.2 * hi, hi=1.2 * hi)
    return a.to(dtype)


for _dt in ('float32', 'float64'):
    R('odak.learn.tools.save_image#%s' % _dt, (lambda dt: lambda g: A(_path('tout_%s.png' % dt), _img_t(g, getattr(torch, dt)), **g.opt(cmin=0, cmax=255, color_depth=8)))(_dt))
R('odak.learn.tools.save_image#unit_range', lambda g: A(_path('tout_unit.png'), _img_t(g, torch.float32, hi=1.), cmin=0., cmax=1.))
R('odak.learn.tools.save_image#hwc', lambda g: A(_path('tout_hwc.png'), g.t(12, 10, 3, lo=-50, hi=300), **g.opt(cmin=0, cmax=255)))
R('odak.learn.tools.load_image', lambda g: A(_png(g), **g.opt(normalizeby=255., torch_style=g.boundary)))
R('odak.learn.tools.save_torch_tensor', lambda g: A(_path('t.pt'), g.t(3, 4)))
R('odak.learn.tools.torch_load', lambda g: A(_pt(g), **g.opt(weights_only=True)))


def _pt(g):
    p = _path('in.pt')
    torch.save(g.t(3, 4), p)
    return p


M('odak.tools.latex.get_line', 'odak.tools.latex.latex', lambda g: A(_txt(g, 'in.tex')), 'get_line', lambda g: A(**g.opt(line_id=1)))
M('odak.tools.markdown.get_line', 'odak.tools.markdown.markdown', lambda g: A(_txt(g, 'in.md')), 'get_line', lambda g: A(**g.opt(line_id=1)))
M('odak.tools.markdown.set_dictonaries', 'odak.tools.markdown.markdown', lambda g: A(_txt(g, 'in.md')), 'set_dictonaries',
  lambda g: A(['```'], ['```'], ['#']))
M('odak.catalog.plane_detector.raytrace', 'odak.catalog.detectors.plane_detector',
  lambda g: A(resolution=[6, 6], shape=[4., 4.], center=[0., 0., 5.], **g.opt(angles=[0., 0., 0.])), 'raytrace',
  lambda g: A(_rays_np(g, 4), **g.opt(field=g.carr(4), channel=0)))
M('odak.catalog.plane_detector.__init__', 'odak.catalog.detectors.plane_detector', None, '__init__',
  lambda g: A(**g.opt(field=g.carr(1, 6, 6), resolution=[6, 6], shape=[4., 4.], center=g.origin(), angles=g.angles())))
M('odak.catalog.thin_diffuser.raytrace', 'odak.catalog.diffusers.thin_diffuser',
  lambda g: A(shape=[4., 4.], center=[0., 0., 5.]), 'raytrace', lambda g: A(_rays_np(g, 2)))
M('odak.catalog.thin_diffuser.__init__', 'odak.catalog.diffusers.thin_diffuser', None, '__init__',
  lambda g: A(**g.opt(shape=[4., 4.], center=g.origin(), angles=g.angles(), diffusion_angle=5., diffusion_no=[2, 2])))
M('odak.catalog.plano_convex_lens.__init__', 'odak.catalog.lenses.plano_convex_lens', None, '__init__',
  lambda g: A(**g.opt(item='LA1024', location=g.origin(), rotation=g.angles())))
M('odak.learn.raytracing.detector.__init__', 'odak.learn.raytracing.detector.detector', None, '__init__',
  lambda g: A(colors=1, **g.opt(center=g.t(3), tilt=torch.tensor(g.angles()), size=torch.tensor([4., 4.]), resolution=torch.tensor([8, 8]))))
M('odak.learn.raytracing.planar_mesh.mirror', 'odak.learn.raytracing.mesh.planar_mesh',
  lambda g: A(size=torch.tensor([4., 4.]), number_of_meshes=torch.tensor([2, 2]), offset=torch.tensor([0., 0., 5.])), 'mirror', lambda g: A(_ray_t(g, 3)))
