"""C08 — zero-pad / centre-crop are exact inverses that keep the optical axis fixed.

Proof: coq/theories/C08 (index arithmetic over Z, all h, w >= 1, all sizes >= shape, layouts).
Tie to /repo (B2): the model's executable definitions are evaluated by vm_compute inside Coq on
the same (shape, size, layout) cases the implementation is run on; placement is read exactly from
arrays of distinct non-zero integers.  Direct oracles state the property on the implementation.
"""
import itertools, json
import numpy as np
import torch
from harness.common import zlit, listlit, parse_zlist

PROPS = ['C08_crop_pad_default', 'C08_crop_pad_explicit', 'C08_pad_content_and_zeros', 'C08_pad_inside',
         'C08_centre_fixed', 'C08_numpy_equals_torch', 'C08_numpy_pad_amounts_valid',
         'C08_layout_4d_channels_first', 'C08_layout_4d_channels_last', 'C08_layout_3d',
         'C08_layout_crop_inverts_pad', 'C08_legacy_offset_ok_iff_even', 'C08_instance']
PRE = 'From Coq Require Import ZArith List. Import ListNotations. Open Scope Z_scope.\nFrom OdakV Require Import C08.Model.'


def fns():
    import odak.tools as nt
    import odak.learn.tools as tt
    return {'numpy': (nt.zero_pad, nt.crop_center), 'torch': (tt.zero_pad, tt.crop_center)}


def mk(shape, dtype, api):
    n = int(np.prod(shape))
    x = (np.arange(n, dtype=np.float64) + 1.).reshape(shape)
    if dtype == 'complex':
        x = x + 1j * (x + 0.5)
    return torch.tensor(x) if api == 'torch' else x


def to_np(y):
    return y.detach().cpu().numpy() if isinstance(y, torch.Tensor) else np.asarray(y)


def axes_of(shape):
    """spatial axes by the documented layouts (independent of the code): used by the oracles"""
    if len(shape) == 2: return (0, 1)
    if len(shape) == 3: return (1, 2)
    return (1, 2) if shape[-1] < 5 else (2, 3)


def opt(size):
    return 'None' if size is None else '(Some (%s, %s))' % (zlit(size[0]), zlit(size[1]))


# ---------------------------------------------------------------- observation of the implementation
def observe_pad(api, shape, size, dtype='real'):
    """Run zero_pad; read where the content landed.  Returns dict(out_shape, start, content_ok, zeros_ok)."""
    zp, _ = fns()[api]
    x = mk(shape, dtype, api)
    y = to_np(zp(x, size=size) if size is not None else zp(x))
    xn = to_np(x)
    a, b = axes_of(shape)
    pos = np.argwhere(y == xn.flat[0])
    if len(pos) != 1:
        return {'out_shape': list(y.shape), 'start': None, 'content_ok': False, 'zeros_ok': False}
    sh, sw = int(pos[0][a]), int(pos[0][b])
    h, w = shape[a], shape[b]
    sl = [slice(None)] * len(shape); sl[a] = slice(sh, sh + h); sl[b] = slice(sw, sw + w)
    block = y[tuple(sl)]
    content_ok = block.shape == xn.shape and bool((block == xn).all())
    rest = y.copy(); rest[tuple(sl)] = 0
    return {'out_shape': list(y.shape), 'start': [sh, sw], 'content_ok': content_ok, 'zeros_ok': bool((rest == 0).all())}


def observe_crop(api, shape, size, dtype='real'):
    """Run crop_center on an array of distinct values; returns dict(out_shape, start, content_ok)."""
    _, cc = fns()[api]
    x = mk(shape, dtype, api)
    y = to_np(cc(x, size=size) if size is not None else cc(x))
    xn = to_np(x)
    a, b = axes_of(shape)
    if y.size == 0:
        return {'out_shape': list(y.shape), 'start': None, 'content_ok': False}
    pos = np.argwhere(xn == y.flat[0])
    qh, qw = int(pos[0][a]), int(pos[0][b])
    sl = [slice(None)] * len(shape); sl[a] = slice(qh, qh + y.shape[a]); sl[b] = slice(qw, qw + y.shape[b])
    return {'out_shape': list(y.shape), 'start': [qh, qw], 'content_ok': bool(xn[tuple(sl)].shape == y.shape and (xn[tuple(sl)] == y).all())}


# ---------------------------------------------------------------- direct oracles (the property on the code)
def oracle_roundtrip(inp):
    """crop(pad(x)) == x bit for bit; pad doubles / gives the requested size; zeros around; centre fixed."""
    api, shape, size, dtype = inp['api'], inp['shape'], inp.get('size'), inp.get('dtype', 'real')
    zp, cc = fns()[api]
    x = mk(shape, dtype, api)
    xn = to_np(x).copy()
    a, b = axes_of(shape)
    h, w = shape[a], shape[b]
    out = []
    p = zp(x, size=size) if size is not None else zp(x)
    pn = to_np(p)
    want = list(shape); want[a], want[b] = (2 * h, 2 * w) if size is None else (size[0], size[1])
    out.append(('pad_shape', list(pn.shape) == want, want, list(pn.shape)))
    o = observe_pad(api, shape, size, dtype)
    out.append(('pad_content_unchanged', o['content_ok'], True, o))
    out.append(('pad_only_zeros_added', o['zeros_ok'], True, o))
    if size is None and o['start'] is not None:
        out.append(('centre_fixed', o['start'][0] + h // 2 == (2 * h) // 2 and o['start'][1] + w // 2 == (2 * w) // 2,
                    [(2 * h) // 2 - h // 2, (2 * w) // 2 - w // 2], o['start']))
    try:
        c = cc(p, size=[h, w]) if size is not None else cc(p)
        cn = to_np(c)
        ok = cn.shape == xn.shape and bool((cn == xn).all()) and cn.dtype == xn.dtype
        out.append(('crop_pad_identity', ok, 'input array', {'shape': list(cn.shape), 'first_row': cn.reshape(-1)[:8].tolist() if cn.dtype != complex else str(cn.reshape(-1)[:4])}))
    except Exception as e:
        out.append(('crop_pad_identity', False, 'input array', 'exception %r' % (e,)))
    if api == 'torch':
        # the other documented ways of writing the crop size: 1 x 1 x M x N (list, tuple, torch.Size) select the same window as M x N
        try:
            ref = to_np(cc(p, size=[h, w]))
            for form in ([1, 1, h, w], (h, w), torch.Size([1, 1, h, w])):
                alt = to_np(cc(p, size=form))
                out.append(('crop_size_forms_agree', alt.shape == ref.shape and bool((alt == ref).all()), 'same window as size=[%d, %d]' % (h, w), {'form': str(form), 'shape': list(alt.shape)}))
        except Exception as e:
            out.append(('crop_size_forms_agree', False, 'same window', 'exception %r' % (e,)))
    out.append(('argument_unchanged', bool((to_np(x) == xn).all()), True, False))
    return out


def oracle_api_agree(inp):
    """NumPy and PyTorch versions place content identically (2-D)."""
    shape, size = inp['shape'], inp.get('size')
    a = observe_pad('numpy', shape, size); b = observe_pad('torch', shape, size)
    return [('numpy_torch_same_placement', a == b, a, b)]


ORACLES = {'roundtrip': oracle_roundtrip, 'api_agree': oracle_api_agree}


def apply_oracle(ctx, name, inp):
    try:
        res = ORACLES[name](inp)
    except Exception as e:
        res = [('no_exception', False, 'a result', repr(e))]
    bad = 0
    for clause, ok, exp, obs in res:
        if not ok:
            bad += 1
            ctx.violation('zero_pad/crop_center[%s]' % inp.get('api', 'both'), clause, dict(inp, oracle=name), exp, obs)
    return bad


# ---------------------------------------------------------------- case generation
def gen_cases(ctx):
    rng = ctx.rng
    hi = 40 if ctx.thorough else 22
    cases = []
    # exhaustive over (h, w): numpy from 1, torch from 5 (documented minimum); default size
    for h in range(1, hi + 1):
        for w in range(1, hi + 1):
            cases.append(('numpy', [h, w], None))
            if h >= 5 and w >= 5:
                cases.append(('torch', [h, w], None))
    # explicit sizes: every (h, s) combination on one axis is reached (the axes are independent in the
    # model; the other axis takes a random companion), extras 0..9
    for h in range(1, hi + 1):
        for e in range(0, 10):
            w = rng.randint(1, hi); e2 = rng.randint(0, 9)
            cases.append(('numpy', [h, w], [h + e, w + e2]))
            cases.append(('numpy', [w, h], [w + e2, h + e]))
            if h >= 5:
                w5 = max(w, 5)
                cases.append(('torch', [h, w5], [h + e, w5 + e2]))
                cases.append(('torch', [w5, h], [w5 + e2, h + e]))
    # ranks / layouts (torch)
    lay = []
    for h, w in itertools.product([5, 6, 7, 8, 9, 12, 13], [5, 6, 7, 10, 11]):
        k, c = rng.randint(1, 3), rng.randint(1, 4)
        lay += [[k, h, w], [k, c, h, w], [k, h, w, c]]
    for s in lay:
        cases.append(('torch', s, None))
        a, b = axes_of(s)
        cases.append(('torch', s, [s[a] + rng.randint(0, 6), s[b] + rng.randint(0, 6)]))
    return cases


def coq_pad_term(api, shape, size):
    a, b = axes_of(shape)
    return '(pad_summary_%s %s %s %s, padded_shape %s %s)' % (
        api, zlit(shape[a]), zlit(shape[b]), opt(size), listlit([zlit(s) for s in shape]), opt(size))


def coq_crop_term(shape, size):
    a, b = axes_of(shape)
    return '(crop_summary %s %s %s, cropped_shape %s %s)' % (
        zlit(shape[a]), zlit(shape[b]), opt(size), listlit([zlit(s) for s in shape]), opt(size))


def run(ctx):
    ctx.rule = ('pad and crop run on arrays of distinct non-zero integers for every (h,w) up to the tier bound '
                '(numpy from 1, torch from 5), explicit sizes shape+0..9 on every axis length, ranks 2/3/4 in both '
                'layouts, real and complex; a case is non-trivial when the implementation returned an array whose '
                'placement could be read; distinct = distinct (api, op, shape, size, dtype)')
    ctx.trusted += ['harness/props/c08.py placement reader and comparators', 'numpy/torch indexing, np.pad, tensor slicing (external, observed)',
                    'model covers index arithmetic and rank/layout dispatch; dtype handling and memory layout are observed only']
    ctx.gate()
    ctx.ensure_theories(['theories/C08/Props.vo'])
    ctx.theorems('OdakV.C08.Props', PROPS)

    cases = gen_cases(ctx)
    terms, meta = [], []
    mism = 0
    for api, shape, size in cases:
        try:
            o = observe_pad(api, shape, size)
        except Exception as e:
            o = {'error': repr(e)}
        terms.append(coq_pad_term(api, shape, size)); meta.append(('pad', api, shape, size, o))
        # crop of the padded shape (what the round trip uses) and of a generic larger array
        a, b = axes_of(shape)
        pshape = list(shape)
        pshape[a], pshape[b] = (2 * shape[a], 2 * shape[b]) if size is None else (size[0], size[1])
        csize = None if size is None else [shape[a], shape[b]]
        try:
            oc = observe_crop(api, pshape, csize)
        except Exception as e:
            oc = {'error': repr(e)}
        terms.append(coq_crop_term(pshape, csize)); meta.append(('crop', api, pshape, csize, oc))
    vals = ctx.coq_eval(PRE, terms, label='placement', chunk=400)
    for v, (op, api, shape, size, o) in zip(vals, meta):
        key = (op, api, tuple(shape), tuple(size) if size else None)
        if v is None:
            continue
        nums = parse_zlist(v.split('Some')[0]) if 'Some' in v else parse_zlist(v)
        mshape = parse_zlist(v.split('Some')[1]) if 'Some' in v else None
        if api == 'numpy':
            mshape = nums[0:2]          # the NumPy functions are 2-D only: no rank / layout dispatch
        pred = {'out': nums[0:2], 'start': nums[2:4], 'shape': mshape}
        a, b = axes_of(shape)
        ok = 'error' not in o and o.get('start') is not None and o['out_shape'] == mshape and \
            [o['out_shape'][a], o['out_shape'][b]] == pred['out'] and o['start'] == pred['start'] and o.get('content_ok', True)
        ctx.case('%s/%s/rank%d/%s' % (op, api, len(shape), 'default' if size is None else 'explicit'), key, nontrivial='error' not in o and o.get('start') is not None)
        ctx.traces += 1
        if not ok:
            mism += 1
            if mism <= 5:
                ctx.log('model/implementation disagree: %s %s shape=%s size=%s model=%s impl=%s' % (op, api, shape, size, pred, o))
        if len(ctx.samples) < 4 and (shape[0] % 2 == 1) and size is not None:
            ctx.sample({'op': op, 'api': api, 'shape': shape, 'size': size, 'model': pred, 'implementation': o})
    ctx.obligation('correspondence:placement(model=implementation on %d cases)' % len(meta), mism == 0, '%d disagreements' % mism)

    # full arrays through the model (small shapes): every element compared
    small = [(api, [h, w], size) for api in ('numpy', 'torch') for h in (5, 6, 7) for w in (5, 8, 9)
             for size in (None, [h + 3, w + 4])]
    small += [('numpy', [h, w], None) for h in (1, 2, 3) for w in (1, 4)]
    terms2, meta2 = [], []
    for api, (h, w), size in small:
        rows = (np.arange(h * w) + 1).reshape(h, w)
        lit = listlit([listlit([zlit(v) for v in r]) for r in rows.tolist()])
        terms2.append('run_pad_%s %d %d %s %s' % (api, h, w, opt(size), lit))
        zp, cc = fns()[api]
        x = mk([h, w], 'real', api)
        y = to_np(zp(x, size=size) if size is not None else zp(x))
        meta2.append((api, h, w, size, y))
    vals2 = ctx.coq_eval(PRE, terms2, label='arrays', chunk=60)
    bad2 = 0
    for v, (api, h, w, size, y) in zip(vals2, meta2):
        if v is None:
            continue
        nums = parse_zlist(v)
        H, W, flat = nums[0], nums[1], nums[2:]
        ok = [H, W] == list(y.shape) and flat == [int(t) for t in y.reshape(-1)]
        ctx.case('full-array/%s' % api, (api, h, w, tuple(size) if size else None))
        ctx.traces += 1
        bad2 += 0 if ok else 1
    ctx.obligation('correspondence:full-arrays(%d)' % len(meta2), bad2 == 0, '%d disagreements' % bad2)

    # direct oracles on the implementation (always; they give the replayable failing input)
    n_or = 0
    for api, shape, size in cases:
        if len(shape) == 2 or size is None or True:
            for dtype in (('real', 'complex') if (shape[0] + shape[-1]) % 3 == 0 else ('real',)):
                inp = {'api': api, 'shape': shape, 'size': size, 'dtype': dtype}
                apply_oracle(ctx, 'roundtrip', inp); n_or += 1
                ctx.case('oracle/roundtrip/%s' % dtype, ('o', api, tuple(shape), tuple(size) if size else None, dtype))
        if len(shape) == 2 and api == 'torch':
            apply_oracle(ctx, 'api_agree', {'shape': shape, 'size': size}); n_or += 1
            ctx.case('oracle/api_agree', ('agree', tuple(shape), tuple(size) if size else None))
    ctx.exhaustive = True
    ctx.extra['exhaustive_domain'] = 'all (h,w) in [1,%d]^2 default size; all (h, h+e) e in 0..9 per axis' % (40 if ctx.thorough else 22)
    ctx.extra['oracle_calls'] = n_or


def search(ctx):
    """Obligations broke without a failing input from run(): look further out."""
    for h in range(1, 70):
        for w in (h, h + 1, 2 * h + 1):
            for api in ('numpy', 'torch'):
                if api == 'torch' and (h < 5 or w < 5):
                    continue
                for size in (None, [h + 1, w + 2], [2 * h + 1, 2 * w + 1]):
                    if apply_oracle(ctx, 'roundtrip', {'api': api, 'shape': [h, w], 'size': size, 'dtype': 'real'}):
                        return


def replay(ctx, rec):
    if rec.get('no_failing_input_found'):
        print('replay names broken obligations only:', json.dumps(rec['broken_obligations'])[:2000]); return 1
    inp = dict(rec['input']); name = inp.pop('oracle')
    res = ORACLES[name](inp)
    bad = [r for r in res if not r[1]]
    for r in res:
        print(('FAIL ' if not r[1] else 'ok   ') + r[0], '' if r[1] else 'expected=%s observed=%s' % (r[2], r[3]))
    return 1 if bad else 0
