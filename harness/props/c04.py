"""C04 — all propagation methods model the same physics and the same +z direction.

Proof (coq/theories/C04): continuous-domain facts about what every kernel samples: sqrt_paraxial / as_tf_close (Fresnel
transfer function = paraxial expansion of the angular spectrum, error |k z| sin^4 / 2), Helmholtz and paraxial dispersion,
forward_direction (all phases grow with z), the Fresnel pair (impulse response k/2z <-> transfer function -pi lam z, prefactor
1/(i lam z), opposite signs), Gaussian-beam complex-width algebra (gauss_q: the transfer function maps s to s + i lam z/pi;
width, amplitude, curvature sign and radius of the closed form; even/odd in z), the closed form solves the paraxial wave equation
u_z = (i/2k)(u_xx + u_yy) with the Gaussian waist as initial value and so does every plane wave times the Fresnel transfer function
(Coquelicot derivatives), lens_focus (lens + chirp cancel iff z = +f),
Gaussian beam through the lens: I(+f) = (1 + 4 (zR/f)^2) I(-f), spot w0 f / zR; regression lemmas for the repaired defects.
Tie B1 (every run): the exponents / prefactors / weights traced from the current sources of both APIs (transfer functions:
Run.GenWaveK via the shared wave recipe; lens phases and impulse responses: Run.GenC04 via tracer/recipes/c04.py) are proved,
for all real dx, lambda, k, z, f, to be those model quantities on the library's sample grids (coq/tie/C04_TieA.v, C04_TieB.v),
incl. "lens phase + chirp of distance f = 0 at every pixel" and "quadrature weight dx^2 exactly once in both APIs".
coq/tie/C04_TieD.v: the band-limit masks of both APIs are the published cut-off |f| < 1/(lam sqrt((2z/L)^2+1)), each axis with its
own extent (C04_bl_limit_sampling gives the cut-off its meaning), and mask x exp(i phase) recomposes the traced kernel pixel.
Model <-> oracle-reference correspondence (every run; not a tie to the code): the closed-form predictions the oracles compare against
are evaluated inside Coq (q_predict, proved equal to the real model) on the exact rational inputs of the run.
Direct oracles: Gaussian beams and lens x aperture through every method x both APIs inside the common validity window (even, odd and
non-square grids); band-limit mask and pass-band energy of both APIs against the published cut-off.
PARTIAL: discretisation error is only observed; the Fresnel-pair Fourier integral (impulse response <-> transfer function) and
the Fourier synthesis / uniqueness step (the solution of the paraxial equation with Gaussian data IS the superposition of the
propagated plane waves) are cited.
"""
import fractions, json, math
import numpy as np
import torch
from harness import wave_common as W
from harness.common import qlit

PROPS = ['C04_sqrt_paraxial', 'C04_as_tf_close', 'C04_as_tf_on_grid', 'C04_as_dispersion', 'C04_tf_dispersion',
         'C04_forward_direction', 'C04_on_axis_wavenumber', 'C04_bl_limit_sampling', 'C04_bl_limit_bounds', 'C04_bl_limit_even', 'C04_bl_pass_true', 'C04_ir_tf_pair_coeff', 'C04_ir_tf_pair_prefactor', 'C04_ir_tf_signs',
         'C04_ir_sample_modulus', 'C04_gauss_q', 'C04_gauss_q_waist', 'C04_gauss_steps_compose', 'C04_gauss_inverse_width',
         'C04_gauss_width', 'C04_gauss_amplitude', 'C04_gauss_curv_sign', 'C04_gauss_radius', 'C04_gauss_even_odd',
         'C04_gauss_conj_overlap', 'C04_gauss_solves_paraxial', 'C04_gauss_initial', 'C04_gauss_field_parts',
         'C04_mode_is_transfer_function', 'C04_mode_solves_paraxial', 'C04_lens_focus', 'C04_lens_gauss_contrast', 'C04_lens_gauss_gain', 'C04_lens_gauss_spot',
         'C04_tf_legacy_backwards', 'C04_lens_focus_conjugated', 'C04_lens_legacy_focus', 'C04_lens_gauss_contrast_legacy',
         'C04_q_predict_sound']
T_TF = ['Angular Spectrum', 'Bandlimited Angular Spectrum', 'Transfer Function Fresnel']
T_IR = ['Impulse Response Fresnel', 'Seperable Impulse Response Fresnel']
N_TF = ['Angular Spectrum', 'Bandlimited Angular Spectrum', 'Transfer Function Fresnel']
N_IR = ['Impulse Response Fresnel']
FN = {'torch': 'odak.learn.wave.propagate_beam', 'numpy': 'odak.wave.propagate_beam'}
LENS_FN = {'torch': 'odak.learn.wave.quadratic_phase_function', 'numpy': 'odak.wave.quadratic_phase_function'}
# tolerances (discretisation error inside the validity window; observed values are 3 to 10 times smaller)
TOL_L2, TOL_AMP, TOL_W, TOL_BETA, TOL_OVERLAP, TOL_PAIR, TOL_CONTRAST = 0.05, 0.05, 0.04, 0.10, 0.03, 0.08, 0.35
MIN_CONTRAST = 100.0


# ---------------------------------------------------------------- closed form (the Coq model's formulas, float)
def predict(k, w0, z, f):
    """[w(z)^2, amplitude^2, beta, contrast 1 + 4 (zR/f)^2, focal spot radius^2]; q_predict of OdakV.C04.Model"""
    zR = k * (w0 * w0) / 2
    w2 = (w0 * w0) * (1 + (z / zR) * (z / zR))
    c = 2 * z / k
    return [w2, (w0 * w0) / w2, c / ((w0 * w0) * (w0 * w0) + c * c), 1 + 4 * ((zR / f) * (zR / f)), (w0 * f / zR) * (w0 * f / zR)]


def axes(shape, dx):
    h, w = shape
    x = (np.arange(h) - h // 2) * dx
    y = (np.arange(w) - w // 2) * dx
    return np.meshgrid(x, y, indexing='ij')


def gauss_closed(shape, dx, k, w0, z, cx=0., cy=0.):
    X, Y = axes(shape, dx)
    s = w0 ** 2 + 1j * 2 * z / k
    return (w0 ** 2 / s) * np.exp(-((X - cx) ** 2 + (Y - cy) ** 2) / s)


# ---------------------------------------------------------------- running the implementation
def run_method(api, method, u, k, z, dx, lam, pad, samples=(1, 1, 1, 1)):
    """central region (shape of u) of the propagated field; pad: transform on the doubled grid"""
    if api == 'torch':
        r = W.t_prop(torch.tensor(u, dtype=torch.complex64), method, z, dx, lam, zero_padding=(pad, False, pad), samples=tuple(samples))
        return W.to_np(r).astype(complex)
    if not pad:
        return np.asarray(W.n_prop(u, method, z, dx, lam))
    h, w = u.shape
    big = np.zeros((2 * h, 2 * w), dtype=complex)
    oh, ow = h - h // 2, w - w // 2                      # centre pixel h//2 of u lands on the centre pixel h of the doubled grid
    big[oh:oh + h, ow:ow + w] = u
    r = np.asarray(W.n_prop(big, method, z, dx, lam))
    return r[oh:oh + h, ow:ow + w]


def centroid(out, dx, frac=0.01):
    I = np.abs(out) ** 2
    X, Y = axes(out.shape, dx)
    M = I > frac * I.max()
    t = (I * M).sum()
    return float((I * M * X).sum() / t), float((I * M * Y).sum() / t)


def zc_eff(shape, dx, lam, pad):
    """critical distance N dx^2 / lam of the transform actually taken (smaller axis)"""
    return (2 if pad else 1) * min(shape) * dx * dx / lam


def shift_tol(inp):
    t = 0.75 + 1.1 * abs(inp['z'] if 'z' in inp else inp['f']) / zc_eff(inp['shape'], inp['dx'], inp['lam'], inp['pad'])
    if list(inp.get('samples', [1, 1, 1, 1])) != [1, 1, 1, 1]: t += 0.75
    return t


# ---------------------------------------------------------------- oracle 1: Gaussian beam against the closed form
def oracle_gauss(inp):
    """amplitude, width, wavefront curvature (sign and size) and field of a propagated Gaussian waist"""
    shape, dx, lam, w0, z = tuple(inp['shape']), inp['dx'], inp['lam'], inp['w0'], inp['z']
    k = 2 * math.pi / lam
    u0 = gauss_closed(shape, dx, k, w0, 0.0)
    out = run_method(inp['api'], inp['method'], u0, k, z, dx, lam, inp['pad'], inp.get('samples', (1, 1, 1, 1)))
    res = []
    if not np.all(np.isfinite(out)):
        return [('finite_output', False, 'finite field', 'NaN/inf in output')]
    w2, amp2, beta, _, _ = predict(k, w0, z, 1.0)
    cx, cy = centroid(out, dx)
    tol = shift_tol(inp)
    res.append(('beam_stays_on_axis', math.hypot(cx, cy) / dx <= tol * math.sqrt(2), '|centroid| <= %.2f px per axis' % tol, [cx / dx, cy / dx]))
    ref = gauss_closed(shape, dx, k, w0, z, cx, cy)
    ip = np.vdot(ref, out)
    nr, no = np.linalg.norm(ref), np.linalg.norm(out)
    ph = ip / abs(ip) if abs(ip) > 0 else 1.0
    e = float(np.linalg.norm(out - ph * ref) / nr)
    res.append(('closed_form_field', e <= TOL_L2, 'relative L2 error <= %g (global phase and sub-pixel registration removed)' % TOL_L2, e))
    amp = float(abs(ip) / nr ** 2)
    res.append(('amplitude', abs(amp - 1) <= TOL_AMP, 'on-axis modulus %.6g within %g' % (math.sqrt(amp2), TOL_AMP), amp * math.sqrt(amp2)))
    X, Y = axes(shape, dx)
    R2 = (X - cx) ** 2 + (Y - cy) ** 2
    I = np.abs(out) ** 2
    core = R2 <= 9 * w2
    wm = math.sqrt(2 * float((I * core * R2).sum() / (I * core).sum()))
    res.append(('width', abs(wm / math.sqrt(w2) - 1) <= TOL_W, 'w(z) = %.6g within %g' % (math.sqrt(w2), TOL_W), wm))
    # wavefront curvature: weighted least-squares fit of the phase on the bright core to phi0 + beta r^2 (r from the beam axis)
    ic = np.unravel_index(np.argmax(I), I.shape)
    phs = np.angle(out * np.conj(out[ic]))
    Wt = I * (I >= 0.2 * I.max())
    s0, s1, s2 = float(Wt.sum()), float((Wt * R2).sum()), float((Wt * R2 * R2).sum())
    t0, t1 = float((Wt * phs).sum()), float((Wt * phs * R2).sum())
    best = (s0 * t1 - s1 * t0) / max(1e-300, s0 * s2 - s1 * s1)
    res.append(('curvature_sign', (best > 0) == (z > 0) and best != 0, 'wavefront %s (beta %s 0)' % ('diverging' if z > 0 else 'converging', '>' if z > 0 else '<'), best))
    res.append(('curvature', abs(best / beta - 1) <= TOL_BETA, 'beta = k/2R = %.6g within %g' % (beta, TOL_BETA), best))
    # overlap with the conjugate beam (opposite curvature): 1 / sqrt(1 + (z/zR)^2)
    cc = float(abs(np.vdot(np.conj(ref), out)) / (nr * no)); ct = float(abs(ip) / (nr * no))
    a = z / (k * w0 * w0 / 2)
    res.append(('conjugate_overlap', abs(cc - 1 / math.sqrt(1 + a * a)) <= TOL_OVERLAP and ct >= cc, 'overlap with the opposite curvature = %.4f within %g, below the overlap with the closed form' % (1 / math.sqrt(1 + a * a), TOL_OVERLAP), [cc, ct]))
    return res


# ---------------------------------------------------------------- oracle 2: the methods agree with one another
def combos(ir=True):
    c = [('torch', m) for m in T_TF + (T_IR if ir else [])] + [('numpy', m) for m in N_TF + (N_IR if ir else [])]
    return c


def fshift(a, sx, sy):
    """translate by (sx, sy) pixels (Fourier interpolation)"""
    h, w = a.shape
    fx = np.fft.fftfreq(h).reshape(h, 1); fy = np.fft.fftfreq(w).reshape(1, w)
    return np.fft.ifft2(np.fft.fft2(a) * np.exp(-2j * np.pi * (fx * sx + fy * sy)))


def oracle_agree(inp):
    """every pair of methods (both APIs) gives the same field up to a global phase and a sub-pixel translation"""
    shape, dx, lam, w0, z = tuple(inp['shape']), inp['dx'], inp['lam'], inp['w0'], inp['z']
    k = 2 * math.pi / lam
    u0 = gauss_closed(shape, dx, k, w0, 0.0)
    outs = {}
    for api, m in combos(inp['pad']):
        o = run_method(api, m, u0, k, z, dx, lam, inp['pad'])
        if not np.all(np.isfinite(o)):
            return [('finite_output', False, 'finite field', '%s/%s gives NaN/inf' % (api, m))]
        cx, cy = centroid(o, dx)
        o = fshift(o, -cx / dx, -cy / dx)
        ic = (shape[0] // 2, shape[1] // 2)
        outs[(api, m)] = o * np.exp(-1j * np.angle(o[ic]))
    keys = list(outs)
    worst, pair = 0.0, None
    for i in range(len(keys)):
        for j in range(i + 1, len(keys)):
            a, b = outs[keys[i]], outs[keys[j]]
            e = float(np.linalg.norm(a - b) / max(np.linalg.norm(a), np.linalg.norm(b)))
            if e > worst: worst, pair = e, (keys[i], keys[j])
    return [('methods_agree', worst <= TOL_PAIR, 'pairwise relative L2 difference <= %g over %d method x API combinations' % (TOL_PAIR, len(keys)), {'worst': worst, 'pair': pair})]


# ---------------------------------------------------------------- oracle 3: the library's own lens focuses at +f
def own_lens(api, shape, k, f, dx):
    if api == 'torch':
        from odak.learn.wave import quadratic_phase_function as q
        return W.to_np(q(shape[0], shape[1], k, focal=f, dx=dx)).astype(complex)
    from odak.wave import quadratic_phase_function as q
    return np.asarray(q(shape[1], shape[0], k, focal=f, dx=dx)).astype(complex)      # numpy returns [ny, nx]


def aperture(ap, shape, dx):
    X, Y = axes(shape, dx)
    if ap['kind'] == 'gauss': return np.exp(-(X ** 2 + Y ** 2) / ap['w0'] ** 2)
    if ap['kind'] == 'circ': return ((X ** 2 + Y ** 2) <= ap['a'] ** 2).astype(float)
    return ((np.abs(X) <= ap['a']) & (np.abs(Y) <= ap['a'])).astype(float)


def oracle_focus(inp):
    """aperture x the API's own lens of focal length f: concentrated in the plane z = +f, spread out in z = -f"""
    shape, dx, lam, f, ap = tuple(inp['shape']), inp['dx'], inp['lam'], inp['f'], inp['aperture']
    k = 2 * math.pi / lam
    u = aperture(ap, shape, dx) * own_lens(inp['api'], shape, k, f, dx)
    if u.shape != shape:
        return [('lens_shape', False, list(shape), list(u.shape))]
    rp = run_method(inp['api'], inp['method'], u, k, f, dx, lam, inp['pad'])
    rm = run_method(inp['api'], inp['method'], u, k, -f, dx, lam, inp['pad'])
    if not (np.all(np.isfinite(rp)) and np.all(np.isfinite(rm))):
        return [('finite_output', False, 'finite field', 'NaN/inf in output')]
    Ip, Im = np.abs(rp) ** 2, np.abs(rm) ** 2
    cp, cm = float(Ip.max() / Ip.sum()), float(Im.max() / Im.sum())
    need = MIN_CONTRAST
    if ap['kind'] == 'gauss':                      # closed form: exactly 1 + 4 (zR/f)^2, which is below 100 for weakly focused beams
        need = min(MIN_CONTRAST, 0.5 * predict(k, ap['w0'], 0.0, f)[3])
    res = [('focus_at_plus_f', cp >= need * cm, 'peak/total in the plane +f at least %.4g x that in the plane -f' % need, {'plus_f': cp, 'minus_f': cm, 'ratio': cp / cm})]
    ic = np.unravel_index(np.argmax(Ip), Ip.shape)
    off = [ic[0] - shape[0] // 2, ic[1] - shape[1] // 2]
    tol = shift_tol(inp) + 0.75
    res.append(('focus_on_axis', max(abs(off[0]), abs(off[1])) <= tol, 'peak within %.2f px of the axis' % tol, off))
    if ap['kind'] == 'gauss':
        _, _, _, contrast, spot2 = predict(k, ap['w0'], 0.0, f)
        ratio = float(Ip.max() / Im.max())
        res.append(('gaussian_contrast', abs(ratio / contrast - 1) <= TOL_CONTRAST, 'I(+f)/I(-f) = 1 + 4 (zR/f)^2 = %.5g within %g' % (contrast, TOL_CONTRAST), ratio))
        gain = float(Ip.max() / (np.abs(u) ** 2).max())
        res.append(('gaussian_gain', abs(gain / ((contrast - 1) / 4) - 1) <= TOL_CONTRAST, 'I(+f)/I(lens) = (zR/f)^2 = %.5g within %g' % ((contrast - 1) / 4, TOL_CONTRAST), gain))
    return res


# ---------------------------------------------------------------- oracle 4: the lens function itself
def oracle_lens(inp):
    """the sampled lens is the thin-lens phase exp(-i k r^2 / 2f) on the documented grid, in both APIs"""
    nx, ny, k, f, dx = inp['nx'], inp['ny'], inp['k'], inp['f'], inp['dx']
    x = np.linspace(-nx * dx / 2, nx * dx / 2, nx); y = np.linspace(-ny * dx / 2, ny * dx / 2, ny)
    if inp['api'] == 'torch':
        from odak.learn.wave import quadratic_phase_function as q
        got = W.to_np(q(nx, ny, k, focal=f, dx=dx)).astype(complex); X, Y = np.meshgrid(x, y, indexing='ij'); tol = 2e-4 + 4e-7 * abs(k / (2 * f)) * (x[-1] ** 2 + y[-1] ** 2)
    else:
        from odak.wave import quadratic_phase_function as q
        got = np.asarray(q(nx, ny, k, focal=f, dx=dx)).astype(complex); X, Y = np.meshgrid(x, y); tol = 1e-9
    want = np.exp(-1j * k / (2 * f) * (X ** 2 + Y ** 2))
    if got.shape != want.shape:
        return [('lens_shape', False, list(want.shape), list(got.shape))]
    e = float(np.abs(got - want).max())
    return [('thin_lens_phase', e <= tol, 'exp(-i k r^2 / 2f) within %.3g' % tol, e)]


# ---------------------------------------------------------------- oracle 5: the band limit of the band-limited angular spectrum
def published_mask(api, shape, dx, lam, z):
    """|f| < 1 / (lam sqrt((2 z / L)^2 + 1)) on each axis with the extent L = n dx of that axis, on the library's frequency grid;
    also returns the smallest relative distance of a sample from the cut-off (knife-edge guard)"""
    h, w = shape
    if api == 'torch':
        fr = np.linspace(-1 / (2 * dx) + 0.5 / (2 * dx * h), 1 / (2 * dx) - 0.5 / (2 * dx * h), h)
        fc = np.linspace(-1 / (2 * dx) + 0.5 / (2 * dx * w), 1 / (2 * dx) - 0.5 / (2 * dx * w), w)
    else:
        fr = np.linspace(-1 / (2 * dx), 1 / (2 * dx), h); fc = np.linspace(-1 / (2 * dx), 1 / (2 * dx), w)
    lr = 1 / math.sqrt((2 * z / (dx * h)) ** 2 + 1) / lam; lc = 1 / math.sqrt((2 * z / (dx * w)) ** 2 + 1) / lam
    edge = min(float(np.abs(np.abs(fr) / lr - 1).min()), float(np.abs(np.abs(fc) / lc - 1).min()))
    return (np.abs(fr)[:, None] < lr) & (np.abs(fc)[None, :] < lc), edge


def oracle_bandlimit(inp):
    """the band-limited method passes exactly the published band (each axis with its own extent) and nothing else"""
    shape, dx, lam, z = tuple(inp['shape']), inp['dx'], inp['lam'], inp['z']
    k = 2 * math.pi / lam
    M, edge = published_mask(inp['api'], shape, dx, lam, z)
    if inp['api'] == 'torch':
        H = W.to_np(W.lw().get_band_limited_angular_spectrum_kernel(shape[0], shape[1], dx=dx, wavelength=lam, distance=z))
    else:
        d = np.zeros(shape, dtype=complex); d[0, 0] = 1.0           # flat spectrum: the output spectrum is the kernel
        H = np.fft.fftshift(np.fft.fft2(W.n_prop(d, 'Bandlimited Angular Spectrum', z, dx, lam)))
    got = np.abs(H) > 0.5
    res = [('band_limit_mask', got.shape == M.shape and bool(np.all(got == M)) and bool(np.all(np.abs(np.abs(H) - got) <= 1e-4)),
            '0/1 mask |f| < 1/(lam sqrt((2z/L)^2+1)) per axis: %d of %d samples pass' % (int(M.sum()), M.size),
            {'passing': int(got.sum()), 'mismatching_samples': int((got != M).sum()) if got.shape == M.shape else None})]
    rng = np.random.default_rng(inp['fseed'])
    u = W.cfield(rng, shape)
    out = run_method(inp['api'], 'Bandlimited Angular Spectrum', u, k, z, dx, lam, False)
    U = np.fft.fftshift(np.fft.fft2(u))
    want = float((np.abs(U) ** 2 * M).sum() / (np.abs(U) ** 2).sum())
    gotf = float((np.abs(out) ** 2).sum() / (np.abs(u) ** 2).sum())
    res.append(('passband_energy', abs(gotf - want) <= 2e-3 * max(want, 1e-3) + 1e-6, 'fraction of the energy inside the published band = %.6g' % want, gotf))
    return res


ORACLES = {'gauss': oracle_gauss, 'agree': oracle_agree, 'focus': oracle_focus, 'lens': oracle_lens, 'bandlimit': oracle_bandlimit}


def apply_oracle(ctx, name, inp):
    try:
        res = ORACLES[name](inp)
    except Exception as e:
        res = [('no_exception', False, 'a result', repr(e))]
    bad = 0
    for clause, ok, exp, obs in res:
        if not ok:
            bad += 1
            if name == 'lens': fn = LENS_FN[inp['api']]
            elif name == 'bandlimit': fn = '%s[Bandlimited Angular Spectrum]' % FN[inp['api']]
            elif name == 'agree': fn = 'propagate_beam[all methods, both APIs]'
            else: fn = '%s[%s]' % (FN[inp['api']], inp['method'])
            ctx.violation(fn, clause, dict(inp, oracle=name), exp, obs)
    return bad


# ---------------------------------------------------------------- generators (the common validity window)
def window(rng, n, boundary=None):
    """(lam, dx, zc) with dx >= lam / sqrt 2 (all grid frequencies propagate) and float32-safe |k z| up to 2 zc"""
    lam = rng.uniform(0.4, 0.7)
    r = rng.uniform(0.75, 1.15) if boundary != 'pitch' else 0.7072
    while 2 * math.pi * n * r * r * 2 > 4000: r *= 0.95          # |k z| <= 4e3 at z = 2 zc
    r = max(r, 0.7072)
    dx = lam * r
    return lam, dx, n * dx * dx / lam


def gauss_case(rng, shape, boundary=None, ir=True):
    """Gaussian waist w0 and distance z with zc <= |z| <= 2 zc (impulse response sampled, ghosts outside the crop),
    0.35 <= |z|/zR <= 1.5 (curvature measurable), waist >= 5 px and >= 4 lam (paraxial), beam within the window"""
    n = min(shape)
    for it in range(400):
        if it == 150: boundary = None                     # this boundary class is empty for this grid
        lam, dx, zc = window(rng, max(shape), boundary)
        zc_lo = max(shape) * dx * dx / lam; zc_hi = 2 * n * dx * dx / lam
        if zc_lo > zc_hi: continue
        zz = {'near': zc_lo, 'far': zc_hi}.get(boundary, rng.uniform(zc_lo, zc_hi)) if ir else rng.uniform(0.15, 2.0) * zc_lo
        a = {'flat': 0.35, 'curved': 1.5}.get(boundary, rng.uniform(0.35, 1.5))
        zR = zz / a
        w0 = math.sqrt(lam * zR / math.pi)
        wz = w0 * math.sqrt(1 + a * a)
        if w0 >= 5 * dx and w0 >= 3.75 * lam and wz <= n * dx / 7:
            z = -zz if (boundary == 'backward' or (boundary is None and rng.random() < 0.3)) else zz
            return {'shape': list(shape), 'dx': dx, 'lam': lam, 'w0': w0, 'z': z}
    raise RuntimeError('no Gaussian case in the validity window for shape %r' % (shape,))


def focus_case(rng, shape, kind, boundary=None):
    n = min(shape)
    for it in range(400):
        if it == 150 and boundary != 'negative': boundary = None
        lam, dx, zc = window(rng, max(shape), boundary)
        zc_lo = max(shape) * dx * dx / lam; zc_hi = 2 * n * dx * dx / lam
        if zc_lo > zc_hi: continue
        f = {'near': zc_lo, 'far': zc_hi}.get(boundary, rng.uniform(zc_lo, zc_hi))
        if kind == 'gauss':
            t = rng.uniform(3.5, 9.5)                     # zR / f: predicted contrast 1 + 4 t^2 in [50, 362]
            w0 = math.sqrt(t * f * lam / math.pi)
            # aperture inside the grid, focal spot w0 / t resolved by the grid and paraxial
            if w0 > n * dx / 5 or w0 / t < 2.5 * dx or w0 / t < 2.5 * lam: continue
            ap = {'kind': 'gauss', 'w0': w0}
        else:
            ap = {'kind': kind, 'a': rng.uniform(0.27, 0.34) * n * dx}
            if ap["a"] ** 2 < 5.5 * lam * f: continue       # Fresnel number a^2 / (lam f) >= 5.5: a lens that actually focuses
        if boundary == 'negative': f = -f
        return {'shape': list(shape), 'dx': dx, 'lam': lam, 'f': f, 'aperture': ap}
    raise RuntimeError('no focus case in the validity window for shape %r' % (shape,))


def gen_inputs(ctx, scale=1):
    rng = ctx.rng
    out = []
    sizes = [(64, 64), (96, 96), (128, 128), (96, 128), (80, 64), (63, 63), (97, 81)] + ([(160, 160), (192, 192), (256, 256), (128, 192)] if ctx.thorough else [])
    bnds = [None, 'near', 'far', 'flat', 'curved', 'backward', 'pitch']
    i = 0
    # --- Gaussian beam through every method x both APIs, transform on the doubled grid (the torch default)
    for rep in range(scale * (10 if ctx.thorough else 3)):
        for shape in sizes:
            b = bnds[i % len(bnds)]; i += 1
            g = gauss_case(rng, shape, b)
            for api, m in combos():
                d = dict(g, api=api, method=m, pad=True)
                if api == 'torch' and m in T_IR and max(shape) <= 96 and i % 2 == 0:
                    d['samples'] = [[2, 2, 1, 1], [3, 2, 2, 1], [2, 2, 2, 2]][i % 3]
                out.append(('gauss', d))
            out.append(('agree', dict(g, pad=True)))
    # --- transfer-function methods on the bare grid (even, odd, non-square), any distance the beam fits in
    for shape in [(64, 64), (63, 63), (97, 81), (128, 128), (101, 128)] + ([(255, 255), (160, 200)] if ctx.thorough else []):
        for rep in range(scale * (6 if ctx.thorough else 2)):
            g = gauss_case(rng, shape, None, ir=False)
            for api in ('torch', 'numpy'):
                for m in T_TF:
                    out.append(('gauss', dict(g, api=api, method=m, pad=False)))
            out.append(('agree', dict(g, pad=False)))
    # --- the library's own lens x aperture
    j = 0
    for rep in range(scale * (8 if ctx.thorough else 2)):
        for shape in sizes[:3] + [(97, 97)] + ([(160, 160), (256, 256)] if ctx.thorough else []):
            for kind in ('gauss', 'circ', 'square'):
                if kind != 'gauss' and min(shape) < 96: continue      # a hard aperture that focuses sharply (Fresnel number >= 5.5) needs the larger grids
                b = [None, 'near', 'far', 'negative', None][j % 5]; j += 1
                fc = focus_case(rng, shape, kind, b)
                for api, m in combos():
                    # hard-edged apertures: the plane -f holds a field twice the aperture's size, keep it inside the doubled grid
                    out.append(('focus', dict(fc, api=api, method=m, pad=bool(j % 2) or kind != 'gauss' or m in T_IR + N_IR)))
    # --- band limit: cut-off at 0.15 .. 0.95 of the Nyquist frequency of the longer axis, both signs of z, square / non-square / odd
    #     grids; plus z = 0 (everything passes) and a very long distance (only the lowest frequencies pass)
    bshapes = [(32, 32), (24, 48), (48, 24), (33, 40), (17, 64), (64, 64)] + ([(128, 96), (75, 75)] if ctx.thorough else [])
    for rep in range(scale * (4 if ctx.thorough else 2)):
        for bi, shape in enumerate(bshapes):
            for api in ('torch', 'numpy'):
                for _ in range(50):
                    lam = rng.uniform(0.4, 0.7); dx = lam * rng.uniform(0.75, 1.6)
                    rho = rng.uniform(0.15, 0.95)
                    L_ = max(shape) * dx
                    z = L_ / 2 * math.sqrt(max(0.0, (2 * dx / (rho * lam)) ** 2 - 1)) * rng.choice([-1, 1])
                    if rep == 1 and bi == 0: z = 0.0
                    if rep == 1 and bi == 1: z = 400.0 * L_
                    if published_mask(api, shape, dx, lam, z)[1] >= 1e-4: break          # no sample on the knife edge of the cut-off
                out.append(('bandlimit', {'api': api, 'shape': list(shape), 'dx': dx, 'lam': lam, 'z': z, 'fseed': rng.randrange(10 ** 6)}))
    # --- the lens functions themselves (square, non-square, negative focal length)
    for (nx, ny) in [(8, 8), (7, 9), (64, 64), (33, 20), (128, 96)]:
        for api in ('torch', 'numpy'):
            lam = rng.uniform(0.4, 0.7); dx = lam * rng.uniform(0.75, 1.3)
            f = rng.choice([-1, 1]) * rng.uniform(1.0, 2.0) * max(nx, ny) * dx * dx / lam
            out.append(('lens', {'api': api, 'nx': nx, 'ny': ny, 'k': 2 * math.pi / lam, 'f': f, 'dx': dx}))
    return out


# ---------------------------------------------------------------- B1: trace + tie (and Print Assumptions), Coq jobs in parallel
def trace_and_tie(ctx):
    from concurrent.futures import ThreadPoolExecutor
    from tracer.recipes import c04 as recipe, wave as wrecipe
    g = g2 = None
    jobs = [lambda: ctx.theorems('OdakV.C04.Props', PROPS)]
    # shared wave recipe: transfer-function kernels per pixel, operator structure of every propagation function
    try:
        g, _ = wrecipe.kernels()             # shared recipe: phases and band-limit masks are read off the finished kernel samples
        defs, disp = wrecipe.pipelines()
        ctx.programs += len(g.defs) + len(defs)
        ctx.obligation('translator:trace-wave(%d kernel definitions, %d pipeline terms)' % (len(g.defs), len(defs)), True)
        bad = [(f, d) for f, d in disp.items() if not (d['propagation_type'] == wrecipe.TYPE_OF[f] and d['distance_is_z'] and d['wavelength_is_lam'] and d['dx_is_dx'] and d['nu_nv'] == [4, 6])]
        ctx.obligation("translator:kernel-request-arguments(each method asks for its own kernel type with the caller's dx, wavelength, distance and the field's shape)", not bad, str(bad))
        # only the shared kernel ties this property builds on (evenness / composition of the band-limited kernel is C02's business)
        jobs.append(lambda: ctx.compile_tie('GenWaveK', g.text(), [['Wave_TieK_as', 'Wave_TieK_tf', 'Wave_TieK_nas', 'Wave_TieK_ntf'], ['C04_TieA', 'C04_TieD']]))
        jobs.append(lambda: ctx.compile_tie('GenWaveP', wrecipe.pipes_text(defs), [['Wave_TieP']]))
    except Exception as e:
        g = None
        ctx.obligation('translator:trace-wave', False, repr(e))
        for f in ('C04_TieA', 'C04_TieD'): ctx.obligation('tie:%s' % f, False, 'not attempted: traced definitions unavailable')
    # this property's recipe: lens phases and impulse responses of both APIs
    try:
        g2, info = recipe.trace()
        ctx.programs += len(g2.defs) + 4
        ctx.obligation('translator:trace-c04(%d definitions: lens phases and impulse responses of both APIs)' % len(g2.defs), True)
        ctx.extra['traced_c04_pipelines'] = info
        def c04_job():
            ok, out = ctx.coqc('GenC04P', recipe.pipes_text(info))
            ctx.obligation('translator-output-compiles:GenC04P', ok, out[-1500:])
            ctx.compile_tie('GenC04', g2.text(), [['C04_TieB', 'C04_TieC']])
        jobs.append(c04_job)
    except Exception as e:
        g2 = None
        ctx.obligation('translator:trace-c04', False, repr(e))
        for f in ('C04_TieB', 'C04_TieC'): ctx.obligation('tie:%s' % f, False, 'not attempted: traced definitions unavailable')
    import time
    def timed(j, label):
        t = time.time(); j(); ctx.log('coq job %s: %.1fs' % (label, time.time() - t))
    labels = ['Print Assumptions', 'GenWaveK + kernel ties + C04_TieA', 'GenWaveP + Wave_TieP', 'GenC04(P) + C04_TieB/C']
    with ThreadPoolExecutor(max_workers=len(jobs)) as ex:
        for fu in [ex.submit(timed, j, labels[i] if len(jobs) == 4 else str(i)) for i, j in enumerate(jobs)]: fu.result()
    return g, g2


def self_check(ctx, g2):
    """traced definitions evaluated numerically == the real functions (translator self-check)"""
    from tracer.recipes import c04 as recipe
    L = W.lw(); N = W.nw()
    from odak.learn.wave import quadratic_phase_function as tq
    from odak.wave import quadratic_phase_function as nq
    NX, NY = recipe.NX, recipe.NY
    rng = ctx.rng
    bad = n = 0
    def grid(tag, env, args):
        return np.array([[complex(g2.evalf('%s_re_%d_%d' % (tag, i, j), env), g2.evalf('%s_im_%d_%d' % (tag, i, j), env)) for j in range(NY)] for i in range(NX)])
    def cmp(what, a, b, tol):
        nonlocal bad, n
        n += a.size
        if a.shape != b.shape or not np.all(np.abs(a - b) <= tol * max(1.0, float(np.abs(b).max()))):
            bad += 1; ctx.log('self-check mismatch', what, float(np.abs(a - b).max()) if a.shape == b.shape else (a.shape, b.shape))
    for t in range(6):
        lam = rng.uniform(0.4, 0.7); dx = lam * rng.uniform(0.8, 3.0); z = rng.choice([-1, 1]) * rng.uniform(3, 30); f = rng.choice([-1, 1]) * rng.uniform(3, 30)
        lam, dx, z, f = [float(np.float32(v)) for v in (lam, dx, z, f)]
        k = 2 * math.pi / lam
        cmp('torch lens', grid('tl', {'k': k, 'f': f, 'dx': dx}, None), W.to_np(tq(NX, NY, k, focal=f, dx=dx)), 2e-5)
        cmp('numpy lens', grid('nl', {'k': k, 'f': f, 'dx': dx}, None), np.asarray(nq(NY, NX, k, focal=f, dx=dx)), 1e-9)
        env = {'dx': dx, 'lam': lam, 'z': z}
        h = grid('tir', env, None)
        H = np.fft.fftshift(np.fft.fft2(np.fft.fftshift(h))) * dx ** 2
        cmp('torch impulse response', H, W.to_np(L.get_impulse_response_fresnel_kernel(NX, NY, dx=dx, wavelength=lam, distance=z, scale=1, aperture_samples=[1, 1, 1, 1])), 2e-4)
        h2 = sum(np.array([[np.exp(1j * g2.evalf('tir2_ph_%d_%d_%d' % (s, i, j), env)) for j in range(NY)] for i in range(NX)]) for s in range(4)) / (1j * lam * z)
        H2 = np.fft.fftshift(np.fft.fft2(np.fft.fftshift(h2))) * dx ** 2 / 4
        cmp('torch impulse response, samples %r' % (recipe.SAMPLES2,), H2, W.to_np(L.get_impulse_response_fresnel_kernel(NX, NY, dx=dx, wavelength=lam, distance=z, scale=1, aperture_samples=list(recipe.SAMPLES2))), 2e-4)
        Hs, hs, hx, hy = L.get_seperable_impulse_response_fresnel_kernel(NX, NY, dx=dx, wavelength=lam, distance=z, scale=1, aperture_samples=[1, 1, 1, 1])
        cmp('torch separable impulse response', grid('ts', env, None), W.to_np(hs), 5e-4)
        u = np.zeros((NX, NY), dtype=complex); u[(NX - NX // 2) % NX, (NY - NY // 2) % NY] = 1.0
        envn = dict(env, k=k)
        # unit sample where the function's fftshift puts it at the origin: the output is the sampled impulse response itself
        cmp('numpy impulse response', grid('nir', envn, None), np.asarray(N.impulse_response_fresnel(u, k, z, dx, lam)), 1e-9)
    ctx.traces += n
    ctx.obligation('translator-self-check:c04(traced lens / impulse-response samples = the real functions on %d values)' % n, bad == 0 and n > 0, '%d mismatching arrays' % bad)


# ---------------------------------------------------------------- B2: closed-form predictions evaluated inside Coq
PRE = ('From Coq Require Import ZArith QArith List.\nFrom OdakV Require Import C04.Model.\n'
       '(* numerator / denominator pairs: Coq prints some Q numerals in decimal or hexadecimal notation *)\n'
       'Definition qz (l : list Q) : list (Z * Z) := List.map (fun q => (Qnum q, Z.pos (Qden q))) l.\nOpen Scope Z_scope.\n')


def parse_qlist(s):
    """list of (numerator, denominator) pairs as printed by vm_compute"""
    import re
    return [fractions.Fraction(int(a), int(b)) for a, b in re.findall(r'\(\s*(-?\d+)\s*,\s*(\d+)\s*\)', s.replace('%Z', ''))]


def correspondence(ctx, cases):
    """q_predict (proved equal to the real model, C04_q_predict_sound) evaluated by vm_compute on the exact rationals of
    this run's inputs == the float closed form the oracles compare the implementation against"""
    terms, metas = [], []
    for name, inp in cases:
        if name == 'gauss': k, w0, z, f = 2 * math.pi / inp['lam'], inp['w0'], inp['z'], 1.0
        elif name == 'focus' and inp['aperture']['kind'] == 'gauss': k, w0, z, f = 2 * math.pi / inp['lam'], inp['aperture']['w0'], 0.0, inp['f']
        else: continue
        key = (k, w0, z, f)
        if key in [m for m in metas]: continue
        metas.append(key)
        terms.append('qz (q_predict %s %s %s %s)' % tuple('(%s)%%Q' % qlit(v) for v in key))
    if not terms:
        ctx.obligation('correspondence:closed-form', False, 'no case'); return
    vals = ctx.coq_eval(PRE, terms, label='closedform', chunk=5)
    bad = 0
    for v, key in zip(vals, metas):
        if v is None: bad += 1; continue
        q = parse_qlist(v)
        p = predict(*key)
        ok = len(q) == 5 and all(abs(float(a) - b) <= 1e-9 * max(1e-300, abs(b)) for a, b in zip(q, p))
        ctx.traces += 1
        if not ok:
            bad += 1; ctx.log('closed-form mismatch', key, [float(a) for a in q], p)
    ctx.obligation('model-vs-oracle-reference:closed-form(%d input tuples: Coq q_predict = the float reference of the oracles within 1e-9)' % len(metas), bad == 0, '%d disagreements' % bad)


# ---------------------------------------------------------------- entry points
def run(ctx):
    ctx.rule = ('Gaussian waists (>= 5 px, >= 3.75 lambda, beam within window/7) propagated by zc <= |z| <= 2 zc (zc = N dx^2/lambda of the bare grid; '
                'transform on the doubled grid as in the torch default) with 0.35 <= |z|/zR <= 1.5, both signs of z, pitch >= lambda/sqrt2 incl. its edge, '
                '|k z| <= 4e3 (float32 phases); every method x both APIs on even, odd (63x63, 97x81) and non-square grids, sub-pixel sampled impulse responses; transfer-function '
                'methods additionally on bare even / odd / non-square grids at 0.15..2 zc; lens x (Gaussian, circular, square) aperture with zc <= |f| <= 2 zc, '
                'both signs of f; band-limited kernels with the cut-off at 0.15..0.95 of Nyquist (plus z = 0 and a very long distance) on square / non-square / odd grids; '
                'non-trivial = every case; distinct by full input')
    ctx.trusted += ['tracer (tracer/shim.py, opshim.py, recipes/wave.py, recipes/c04.py): shape-generic code traced at a 3x4 instance; validated by the numeric self-checks',
                    'cited, not proved: the Fresnel-pair Fourier integral FT[exp(i a r^2)](f) = (i pi / a) exp(-i pi^2 f^2 / a) (its coefficient algebra is proved) and '
                    'Fourier synthesis / uniqueness for the paraxial wave equation (proved: the closed form and every transfer-function-propagated plane wave solve it)',
                    'discretisation error is bounded only empirically: L2 %g, amplitude %g, width %g, curvature %g, pairwise %g, focus contrast >= %g'
                    % (TOL_L2, TOL_AMP, TOL_W, TOL_BETA, TOL_PAIR, MIN_CONTRAST),
                    'sub-pixel registration and a global phase are removed before fields are compared: the frequency grid linspace(-1/2dx, 1/2dx, n) of the '
                    'library is off the FFT grid by half a sample, which translates the output by lambda z / (2 n dx) (bounded by the beam_stays_on_axis clause)']
    ctx.assumptions += ['statement restricted to the common validity window described in coverage.rule (PARTIAL: see level_note)']
    ctx.gate()
    ctx.ensure_theories(['theories/C04/Props.vo'])
    ctx.log('theories built')
    g, g2 = trace_and_tie(ctx)
    ctx.log('assumptions printed, sources traced and tied')
    if g is not None: W.kernel_self_check(ctx, g)
    if g2 is not None: self_check(ctx, g2)
    cases = gen_inputs(ctx)
    correspondence(ctx, cases)
    ctx.log('closed form evaluated in Coq; %d oracle inputs' % len(cases))
    worst = {}
    for name, inp in cases:
        apply_oracle(ctx, name, inp)
        cat = '%s/%s/%s' % (name, inp.get('api', 'both'), inp.get('method', '-'))
        ctx.case(cat, json.dumps(inp, sort_keys=True))
        if name in ('gauss', 'focus') and len(ctx.samples) < 6 and (len(ctx.samples) % 2 == 0) == (inp['api'] == 'torch'):
            ctx.sample(dict(inp, oracle=name))


def search(ctx):
    n0 = len(ctx.viol)
    for name, inp in gen_inputs(ctx, scale=3):
        apply_oracle(ctx, name, inp)
        if len(ctx.viol) > n0 + 3: return


def replay(ctx, rec):
    if rec.get('no_failing_input_found'):
        print('replay names broken obligations only:', json.dumps(rec['broken_obligations'])[:3000]); return 1
    inp = dict(rec['input']); name = inp.pop('oracle')
    res = ORACLES[name](inp)
    for r in res:
        print(('FAIL ' if not r[1] else 'ok   ') + r[0], '' if r[1] else 'expected=%s observed=%s' % (r[2], r[3]))
    return 1 if [r for r in res if not r[1]] else 0
