"""C11 — reflection and refraction obey the law of reflection and Snell's law.

Proof: coq/theories/C11 (reflection: mirror formula, length, angles, coplanarity, involution, any normal
length/sign; refraction: |out|^2 = 1 + |n|^2 f(t), Newton residual f(t') = (t'-t)^2, Snell in cross and sine
form, root selection / far side, equal indices, scale invariance, existence of the transmitted ray).
Tie to /repo (B1, translator): `reflect` of both APIs is traced whole (one ray, two rays x two normals, two
rays x one normal, three rays); `refract` is cut at its `while` into prologue / body / guard / epilogue, each
traced; coq/tie/C11_Tie*.v proves every traced definition equal to the model for all reals, proves that the
loop over the traced guard and body is the model's `refract_t`, and restates the property's clauses on the
traced definitions.  The translator is validated on every run (traced terms evaluated numerically against the
real functions, pieces composed by the loop against the real `refract`).  Direct oracles state each clause on
the implementation (PyTorch float32 and NumPy float64) and give replayable failing inputs.
"""
import json, math
import numpy as np
import torch
from tracer.recipes import c11 as recipe
from tracer import emit, shim

PROPS = ['C11_reflect_formula', 'C11_reflect_any_length_and_sign', 'C11_reflect_len', 'C11_reflect_angle', 'C11_reflect_tangent',
         'C11_reflect_coplanar', 'C11_reflect_involutive', 'C11_reflect_origin', 'C11_reflect_eps_refuted',
         'C11_refract_unit', 'C11_snell_cross', 'C11_snell_sines', 'C11_refract_sound', 'C11_refract_sound_any_exit',
         'C11_snell_sines_tolerance', 'C11_newton_selects', 'C11_selected_root_is_root', 'C11_refract_transmits',
         'C11_tir_iff_sines', 'C11_refract_same_index', 'C11_refract_any_length_and_sign', 'C11_refract_origin',
         'C11_exit_unscaled_refuted', 'C11_instance']
F_TREFL, F_NREFL, F_REFR = 'odak.learn.raytracing.reflect', 'odak.raytracing.reflect', 'odak.learn.raytracing.refract'
TOL32, TOL64 = 2e-5, 1e-11
INDEX_PAIRS = [(1.0, 1.5), (1.5, 1.0), (1.33, 1.0), (1.0, 2.4), (1.0, 1.0), (1.0003, 1.0), (1.0, 1.0003), (2.4, 1.5)]


def api():
    import odak.learn.raytracing as lr
    import odak.raytracing as nr
    return lr, nr


# ---------------------------------------------------------------- generators
def unit(rng):
    while True:
        v = np.array([rng.gauss(0, 1) for _ in range(3)])
        if np.linalg.norm(v) > 1e-3:
            return v / np.linalg.norm(v)


def f32(x):
    return np.asarray(x, dtype=np.float32).astype(float)


def direction_at(nhat, theta, rng):
    """unit direction making the angle theta with -nhat (it travels against the normal)"""
    t = np.cross(nhat, unit(rng))
    while np.linalg.norm(t) < 1e-3:
        t = np.cross(nhat, unit(rng))
    t /= np.linalg.norm(t)
    return -math.cos(theta) * nhat + math.sin(theta) * t


def gen_reflect(ctx, n):
    """rays and normals for reflection: lengths 1e-3..1e3 and both signs, batches 1..5, one normal for all or one per ray"""
    rng = ctx.rng
    out = []
    for i in range(n):
        m = rng.choice([1, 1, 2, 3, 3, 4, 5]) if i not in (1, 3) else 2
        shared = m > 1 and rng.random() < 0.3 and i not in (1, 3)
        rays, nrms = [], []
        for j in range(m):
            rays.append([[rng.uniform(-2, 2) for _ in range(3)], unit(rng).tolist()])
        for j in range(1 if shared else m):
            length = 10 ** rng.uniform(-3, 3) if i % 2 == 0 else rng.choice([1e-3, 1e-2, 1.0, 1.0, 1e2, 1e3])
            nv = unit(rng) * length * rng.choice([-1, 1])
            nrms.append([[rng.uniform(-2, 2) for _ in range(3)], nv.tolist()])
        two_d = m == 1 and rng.random() < 0.5
        kind = 'shared' if shared else ('2d' if two_d else 'rows%d' % m)
        if m > 1 and not shared and (rng.random() < 0.3 or i in (1, 3)):
            rays = rays[:1]; kind = 'one-ray-x-%d-normals' % m                      # ONE ray reflected about m normals
        out.append({'rays': rays, 'normals': nrms, 'two_d': two_d, 'kind': kind})
    return out


def gen_refract(ctx, n):
    """rays, normals and index pairs WITH a transmitted solution, away from the critical angle and from
    grazing incidence (where float32 decides); normals of length 1e-3..1e3, both signs; batches"""
    rng = ctx.rng
    out = []
    for i in range(n):
        n1, n2 = INDEX_PAIRS[i % len(INDEX_PAIRS)] if i % 3 else (round(rng.uniform(1.0, 2.5), 3), round(rng.uniform(1.0, 2.5), 3))
        mu = n1 / n2
        m = rng.choice([1, 1, 1, 2, 3, 4])
        shared = m > 1 and rng.random() < 0.3
        error = rng.choice([0.01, 0.01, 0.01, 1e-3, 1e-4])
        nrms, rays = [], []
        for j in range(1 if shared else m):
            length = 10 ** rng.uniform(-3, 3) if i % 2 == 0 else rng.choice([1e-3, 1e-2, 1.0, 1.0, 1e2, 1e3])
            nrms.append([[rng.uniform(-2, 2) for _ in range(3)], (unit(rng) * length * rng.choice([-1, 1])).tolist()])
        for j in range(m):
            nv = np.array(nrms[0 if shared else j][1]); nhat = nv / np.linalg.norm(nv)
            smax = min(0.999, 0.97 / mu)                       # mu sin(t1) <= 0.97
            tmax = min(math.asin(smax), math.radians(87))
            theta = rng.uniform(0, tmax) if rng.random() < 0.8 else rng.choice([0.0, tmax, tmax / 2])
            d = direction_at(nhat * rng.choice([-1, 1]), theta, rng)
            rays.append([[rng.uniform(-2, 2) for _ in range(3)], d.tolist()])
        shape = '/shared' if shared else '/rows%d' % m
        if m > 1 and not shared and (rng.random() < 0.3 or i in (1, 3, 5, 7)):
            # ONE ray refracted at m surfaces: keep the normals against which ray 0 has a transmitted solution away from the critical angle
            d0 = np.array(rays[0][1]); keep = []
            for nr_ in nrms:
                nv = np.array(nr_[1]); c = abs(d0 @ nv) / np.linalg.norm(nv)
                if mu * math.sqrt(max(0.0, 1 - c * c)) <= 0.97 and c >= math.cos(math.radians(87)):
                    keep.append(nr_)
            if len(keep) >= 2:
                rays, nrms, shape = rays[:1], keep, '/one-ray-x-%d-normals' % len(keep)
        out.append({'rays': rays, 'normals': nrms, 'n1': n1, 'n2': n2, 'error': error,
                    'kind': ('same-index' if n1 == n2 else ('to-denser' if mu < 1 else 'to-rarer')) + shape})
    return out


# ---------------------------------------------------------------- direct oracles
def nrows(inp):
    return max(len(inp['rays']), len(inp['normals']))


def rows(inp):
    """(i, ray origin, direction, hit point, normal) for every row of the output; a single ray or a single normal is shared"""
    for i in range(nrows(inp)):
        r = inp['rays'][0 if len(inp['rays']) == 1 else i]; nr = inp['normals'][0 if len(inp['normals']) == 1 else i]
        yield i, np.array(r[0], float), np.array(r[1], float), np.array(nr[0], float), np.array(nr[1], float)


TORCH_DT = {'int64': torch.int64, 'int32': torch.int32, 'float32': torch.float32, 'float64': torch.float64}


def typed(values, dtype, which, two_d=False):
    """the nested list `values` as the caller would hand it over: a NumPy array / torch tensor of the named dtype, or (NumPy API
    only) the python list itself"""
    if two_d: values = values[0]
    if which == 'torch':
        return torch.tensor(values, dtype=TORCH_DT[dtype or 'float32'])
    if dtype == 'list':
        return values
    return np.array(values, dtype=dtype or 'float64')


def call_reflect(inp):
    lr, nr = api()
    rays = typed(inp['rays'], inp.get('ray_dtype'), inp['api'], inp.get('two_d'))
    nrms = typed(inp['normals'], inp.get('normal_dtype'), inp['api'], inp.get('two_d'))
    if inp['api'] == 'torch':
        return lr.reflect(rays, nrms).numpy().astype(float)
    return np.asarray(nr.reflect(rays, nrms), float)


def oracle_reflect(inp):
    """law of reflection for every ray of the batch, in one API"""
    tol = TOL32 if inp['api'] == 'torch' else TOL64
    m = nrows(inp)
    out = call_reflect(inp)
    res = []
    if inp['api'] == 'numpy' and m == 1:
        ok_shape = out.shape == (2, 3); out = out.reshape(1, 2, 3) if ok_shape else out
    else:
        ok_shape = out.shape == (m, 2, 3)
    res.append(('output_shape', ok_shape, '%d x 2 x 3' % m, list(out.shape)))
    if not ok_shape:
        return res
    twice = call_reflect(dict(inp, ray_dtype=None, rays=[[inp['rays'][0 if len(inp['rays']) == 1 else i][0], out[i, 1].tolist()] for i in range(m)])).reshape(m, 2, 3)
    w = {'finite': 0.0, 'length': 0.0, 'normal_component': 0.0, 'tangential_component': 0.0, 'coplanar': 0.0, 'involutive': 0.0, 'origin': 0.0}
    for i, o, d, p, n in rows(inp):
        if inp['api'] == 'torch':
            d, n, p = f32(d), f32(n), f32(p)
        nh = n / np.linalg.norm(n)
        r = out[i, 1]
        if not np.all(np.isfinite(out[i])):
            w['finite'] = float('inf'); continue
        w['length'] = max(w['length'], abs(np.linalg.norm(r) - np.linalg.norm(d)))
        w['normal_component'] = max(w['normal_component'], abs(r @ nh + d @ nh))            # equal angles with the normal
        w['tangential_component'] = max(w['tangential_component'], float(np.linalg.norm(np.cross(r, nh) - np.cross(d, nh))))
        w['coplanar'] = max(w['coplanar'], abs(r @ np.cross(d, nh)))
        w['involutive'] = max(w['involutive'], float(np.linalg.norm(twice[i, 1] - d)))
        w['origin'] = max(w['origin'], float(np.linalg.norm(out[i, 0] - p)))
    for k, v in w.items():
        res.append((k, v <= (0 if k in ('finite', 'origin') else 4 * tol), '<= %g' % (0 if k in ('finite', 'origin') else 4 * tol), v))
    if inp.get('ray_dtype') or inp.get('normal_dtype'):
        # the same geometry handed over as float arrays must give the same ray: the dtype of the caller's array is not geometry
        ref = call_reflect(dict(inp, ray_dtype=None, normal_dtype=None)).reshape(m, 2, 3)
        dev = float(np.max(np.abs(out - ref))) if np.all(np.isfinite(out)) else float('inf')
        res.append(('same_as_float_input', dev <= 4 * tol, '<= %g' % (4 * tol), dev))
    return res


# `refract` is called in a worker process under a watchdog: the unrepaired loop need not return
_GUARD = None


class NoReturn(Exception):
    pass


def guard():
    global _GUARD
    if _GUARD is None:
        from harness.props.c12_watchdog import Guard
        _GUARD = Guard('harness.props.c11', timeout=10.0)
    return _GUARD


def w_refract(inp, rows_=None):
    """(worker side) the real refract on float32 tensors; nested lists"""
    lr, _ = api()
    rays = torch.tensor(inp['rays'], dtype=TORCH_DT[inp.get('ray_dtype') or 'float32']); nrms = torch.tensor(inp['normals'], dtype=TORCH_DT[inp.get('normal_dtype') or 'float32'])
    if rows_ is not None:
        k = 0 if nrms.shape[0] == 1 else rows_; kr = 0 if rays.shape[0] == 1 else rows_
        rays = rays[kr:kr + 1]; nrms = nrms[k:k + 1]
    if inp.get('two_d'): rays, nrms = rays[0], nrms[0]
    kw = {} if inp.get('error') is None else {'error': inp['error']}
    return lr.refract(rays, nrms, inp['n1'], inp['n2'], **kw).tolist()


def w_refract64(v, n, n1, n2, kw):
    """(worker side) the real refract on float64 tensors (translator self-check)"""
    lr, _ = api()
    return lr.refract(torch.tensor(v, dtype=torch.float64), torch.tensor(n, dtype=torch.float64), n1, n2, **kw).tolist()


def guarded(fn, *args):
    kind, val = guard().call(fn, *args)
    if kind == 'timeout':
        raise NoReturn('no return (watchdog: %s)' % val if val else 'not called: the watchdog expired %d times already' % guard().timeouts)
    if kind == 'exc':
        raise RuntimeError(val)
    return np.array(val, float)


def call_refract(inp, rows_=None):
    return guarded('w_refract', {k: inp[k] for k in ('rays', 'normals', 'n1', 'n2', 'error', 'two_d', 'ray_dtype', 'normal_dtype') if k in inp}, rows_)


def oracle_refract(inp):
    """Snell's law for every ray of the batch (inputs with a transmitted solution)"""
    m = nrows(inp); err = 0.01 if inp.get('error') is None else inp['error']
    n1, n2 = inp['n1'], inp['n2']; mu = n1 / n2
    out = call_refract(inp)
    res = [('output_shape', out.shape == (m, 2, 3), '%d x 2 x 3' % m, list(out.shape))]
    if out.shape != (m, 2, 3):
        return res
    w = {'transmitted_ray_returned': 0.0, 'unit_length': 0.0, 'snell': 0.0, 'coplanar': 0.0, 'far_side': 0.0, 'origin': 0.0, 'same_index_unchanged': 0.0, 'batch_equals_single': 0.0}
    for i, o, d, p, n in rows(inp):
        d, n, p = f32(d), f32(n), f32(p)
        nh = n / np.linalg.norm(n)
        r = out[i, 1]
        if not np.all(np.isfinite(out[i])):
            w['transmitted_ray_returned'] = float('inf'); continue
        rl = np.linalg.norm(r)
        s1 = np.linalg.norm(np.cross(d, nh)) / np.linalg.norm(d); s2 = np.linalg.norm(np.cross(r, nh)) / rl
        w['unit_length'] = max(w['unit_length'], abs(rl - 1))
        w['snell'] = max(w['snell'], abs(n1 * s1 - n2 * s2))
        w['coplanar'] = max(w['coplanar'], abs(r @ np.cross(d, nh)) / rl)
        c2 = math.sqrt(max(0.0, 1 - (mu * s1) ** 2))                      # cos of the refraction angle
        w['far_side'] = max(w['far_side'], abs((r @ nh) / rl - math.copysign(c2, d @ nh)))
        w['origin'] = max(w['origin'], float(np.linalg.norm(out[i, 0] - p)))
        if n1 == n2:
            w['same_index_unchanged'] = max(w['same_index_unchanged'], float(np.linalg.norm(r - d)))
        if m > 1:
            one = call_refract(inp, i)
            w['batch_equals_single'] = max(w['batch_equals_single'], float(np.linalg.norm(one[0] - out[i])) if np.all(np.isfinite(one)) else float('inf'))
    # "within the requested tolerance": the requested error (plus float32 rounding)
    bound = {'transmitted_ray_returned': 0, 'unit_length': err + TOL32, 'snell': max(n1, n2) * (err + TOL32), 'coplanar': 4 * TOL32,
             'far_side': 2 * err + 4 * TOL32, 'origin': 0, 'same_index_unchanged': 4 * TOL32, 'batch_equals_single': 2 * err + 4 * TOL32}
    for k, v in w.items():
        res.append((k, v <= bound[k], '<= %g' % bound[k], v))
    if inp.get('ray_dtype') or inp.get('normal_dtype'):
        ref = call_refract(dict(inp, ray_dtype=None, normal_dtype=None))
        dev = float(np.max(np.abs(out - ref))) if np.all(np.isfinite(out)) else float('inf')
        res.append(('same_as_float_input', dev <= 2 * err + 4 * TOL32, '<= %g' % (2 * err + 4 * TOL32), dev))
    return res


def oracle_boundary(inp):
    """boundary stream: only shape / finiteness / flags (normal incidence, normal along the ray, extreme lengths,
    [2 x 3] inputs, near-critical angles where a NaN flag is as good as a ray)"""
    res = []
    if inp['what'] == 'reflect':
        out = call_reflect(inp)
        res.append(('finite', bool(np.all(np.isfinite(out))), 'finite', out.tolist()))
    else:
        out = call_refract(inp)
        fin = np.isfinite(out[:, 1]).all(axis=1)
        res.append(('origin_finite', bool(np.all(np.isfinite(out[:, 0]))), 'finite', out[:, 0].tolist()))
        if inp.get('must_transmit'):
            res.append(('transmitted_ray_returned', bool(fin.all()), 'finite direction cosines', out[:, 1].tolist()))
        err = 0.01 if inp.get('error') is None else inp['error']
        ln = np.linalg.norm(out[:, 1], axis=1)
        res.append(('unit_or_flagged', bool(np.all(~fin | (np.abs(ln - 1) <= err + TOL32))), 'NaN or |out| = 1 within the requested error', ln.tolist()))
    return res


ORACLES = {'reflect': oracle_reflect, 'refract': oracle_refract, 'boundary': oracle_boundary}


def apply_oracle(ctx, name, inp):
    fn = F_REFR if (name == 'refract' or inp.get('what') == 'refract') else (F_TREFL if inp.get('api') == 'torch' else F_NREFL)
    try:
        res = ORACLES[name](inp)
    except NoReturn as e:
        res = [('returns', False, 'a result', str(e))]
    except Exception as e:
        res = [('no_exception', False, 'a result', repr(e))]
    for clause, ok, exp, obs in res:
        if not ok:
            ctx.violation(fn, clause, dict(inp, oracle=name), exp, obs)
    return res


def gen_dtype(ctx, n):
    """the dtype family: the same geometric cases with the ray (or the normal) handed over as an int64 / int32 / float32 / float64
    array or tensor and (NumPy) as a python list: axis-aligned and small-integer directions and integer origins with non-integer
    normals and hit points, and integer normals with non-integer rays; one ray, batches, a shared normal, one ray x m normals"""
    rng = ctx.rng
    dirs = [[0, 0, 1], [0, 0, -1], [1, 0, 0], [0, -1, 0], [1, 1, 0], [1, -1, 2], [0, 2, -1], [-3, 0, 1]]
    refl, refr = [], []
    for i in range(n):
        m = [1, 1, 2, 3][i % 4]
        shape = ['rows', 'shared', 'one-ray'][(i // 4) % 3] if m > 1 else 'rows'
        two_d = m == 1 and i % 8 == 0
        # (a) integer ray, non-integer normal
        rays = [[[rng.randint(-3, 3) for _ in range(3)], list(rng.choice(dirs))] for _ in range(1 if shape == 'one-ray' else m)]
        nrms = [[[rng.uniform(-2, 2) for _ in range(3)], (unit(rng) * 10 ** rng.uniform(-1, 1)).tolist()] for _ in range(1 if shape == 'shared' else m)]
        for dt in ('int64', 'int32', 'float32', 'float64', 'list'):
            refl.append({'rays': rays, 'normals': nrms, 'two_d': two_d, 'ray_dtype': dt, 'normal_dtype': 'list' if dt == 'list' and i % 2 else None,
                         'kind': 'dtype/ray=%s/%s%d' % (dt, shape, m)})
        # (b) integer normal, non-integer ray
        nrm_i = [[[rng.randint(-3, 3) for _ in range(3)], list(rng.choice(dirs))] for _ in range(1 if shape == 'shared' else m)]
        rays_f = [[[rng.uniform(-2, 2) for _ in range(3)], unit(rng).tolist()] for _ in range(1 if shape == 'one-ray' else m)]
        for dt in ('int64', 'int32', 'list'):
            refl.append({'rays': rays_f, 'normals': nrm_i, 'two_d': two_d, 'ray_dtype': None, 'normal_dtype': dt, 'kind': 'dtype/normal=%s/%s%d' % (dt, shape, m)})
        # refraction (PyTorch only): an axis-aligned integer ray onto a surface tilted by at most 30 degrees
        if i % 2 == 0:
            d = list(rng.choice(dirs[:4])); dn = np.array(d, float)
            nr_ = []
            for _ in range(1 if shape == 'shared' else m):
                t = np.cross(dn, unit(rng)); t = t / np.linalg.norm(t)
                th = rng.uniform(0.05, 0.5)
                nr_.append([[rng.uniform(-2, 2) for _ in range(3)], ((math.cos(th) * dn + math.sin(th) * t) * rng.choice([-1, 1]) * 10 ** rng.uniform(-1, 1)).tolist()])
            rr = [[[rng.randint(-3, 3) for _ in range(3)], d] for _ in range(1 if shape == 'one-ray' else m)]
            n1, n2 = rng.choice([(1.0, 1.5), (1.5, 1.0), (1.0, 1.0)])
            for dt in ('int64', 'int32', 'float64'):
                refr.append({'rays': rr, 'normals': nr_, 'n1': n1, 'n2': n2, 'error': 0.01, 'two_d': two_d, 'ray_dtype': dt, 'normal_dtype': None,
                             'kind': 'dtype/ray=%s/%s%d' % (dt, shape, m)})
    return refl, refr


def boundary_cases():
    ez = [0.0, 0.0, 1.0]
    out = []
    for L in (1e-3, 1.0, 1e3):
        for sgn in (1, -1):
            nv = [0.0, 0.0, sgn * L]
            for api_ in ('torch', 'numpy'):
                out.append({'what': 'reflect', 'api': api_, 'rays': [[[0, 0, 1], [0.0, 0.0, -1.0]]], 'normals': [[[0, 0, 0], nv]], 'two_d': True, 'kind': 'normal-incidence'})
                out.append({'what': 'reflect', 'api': api_, 'rays': [[[0, 0, 1], [1.0, 0.0, 0.0]]], 'normals': [[[0, 0, 0], nv]], 'kind': 'grazing'})
            for n1, n2 in ((1.0, 1.5), (1.5, 1.0), (1.0, 1.0)):
                out.append({'what': 'refract', 'rays': [[[0, 0, 1], [0.0, 0.0, -1.0]]], 'normals': [[[0, 0, 0], nv]], 'n1': n1, 'n2': n2, 'must_transmit': True, 'two_d': sgn == 1, 'kind': 'normal-incidence'})
                out.append({'what': 'refract', 'rays': [[[0, 0, 1], [0.6, 0.0, -0.8]], [[0, 0, 1], [0.0, 0.6, 0.8]]], 'normals': [[[0, 0, 0], nv]], 'n1': n1, 'n2': n2, 'must_transmit': n1 <= n2, 'kind': '3-4-5/shared'})
    # just inside / outside the critical angle: either answer is acceptable, a wrong-length ray is not
    for dth in (-1e-3, -1e-5, 1e-5, 1e-3):
        th = math.asin(1 / 1.5) + dth
        out.append({'what': 'refract', 'rays': [[[0, 0, 1], [math.sin(th), 0.0, -math.cos(th)]]], 'normals': [[[0, 0, 0], ez]], 'n1': 1.5, 'n2': 1.0, 'kind': 'near-critical'})
    return out


# ---------------------------------------------------------------- translator self-check
def env_rows(prefix, arr):
    return {'%s_%d_%d_%d' % (prefix, i, j, k): float(arr[i, j, k]) for i in range(arr.shape[0]) for j in range(2) for k in range(3)}


def compose_refract(g, v, n, n1, n2, error, cap):
    """the traced pieces of `refract` composed by the loop (one ray), evaluated in float64"""
    nan = float('nan')
    env = dict(env_rows('v', v), **env_rows('n', n)); env.update({'n1': n1, 'n2': n2, 'NaN': nan})
    to = g.evalf('g_rf_to', env)
    eps, num, it = float('inf'), 0.0, 0
    while g.evalf('g_rf_guard1', {'eps_0': eps, 'error': error, 'num': num, 'cap': cap}):
        st = dict(env, to_0=to)
        to, eps, num = g.evalf('g_rf_step', st), g.evalf('g_rf_eps', st), g.evalf('g_rf_num', {'num': num})
        it += 1
        if it > 100000: raise RuntimeError('composed loop does not stop')
    env2 = dict(env, to_0=to, eps_0=eps, error=error)
    return np.array([[g.evalf('g_rf_out_o_%d' % k, env2) for k in range(3)], [g.evalf('g_rf_out_d_%d' % k, env2) for k in range(3)]]), it


def self_check(ctx, g, info, rcases, fcases):
    lr, nr = api()
    bad = n = 0
    def cmp(name, got, want, rtol, atol):
        nonlocal bad, n
        n += 1
        if not emit.close(got, want, rtol, atol):
            bad += 1; ctx.log('self-check mismatch', name, got, want)
    for c in rcases:
        if 'ns_refl_d_1_2' not in g.by_name:
            break
        m = len(c['rays']); rays = np.array(c['rays'], float); nrms = np.array(c['normals'], float)
        if m == 1 and len(c['normals']) == 1:
            env = dict(env_rows('v', rays), **env_rows('n', nrms))
            o64 = np.asarray(nr.reflect(rays[0], nrms[0]), float)
            o32 = lr.reflect(torch.tensor(rays, dtype=torch.float32), torch.tensor(nrms, dtype=torch.float32)).numpy().astype(float)
            env32 = {k: float(np.float32(x)) for k, x in env.items()}
            sc = max(1.0, float(np.abs(nrms[0, 0]).max()))
            for k in range(3):
                cmp('n_refl_d_%d' % k, g.evalf('n_refl_d_%d' % k, env), o64[1, k], 1e-9, 1e-11)
                cmp('n_refl_o_%d' % k, g.evalf('n_refl_o_%d' % k, env), o64[0, k], 0, 0)
                cmp('t_refl_d_%d' % k, g.evalf('t_refl_d_%d' % k, env32), o32[0, 1, k], 1e-4, 2e-5)
                cmp('t_refl_o_%d' % k, g.evalf('t_refl_o_%d' % k, env32), o32[0, 0, k], 0, 0)
        elif m == 2 and len(c['normals']) == 2:
            env = dict(env_rows('v', rays), **env_rows('n', nrms))
            o64 = np.asarray(nr.reflect(rays, nrms), float)
            o32 = lr.reflect(torch.tensor(rays, dtype=torch.float32), torch.tensor(nrms, dtype=torch.float32)).numpy().astype(float)
            env32 = {k: float(np.float32(x)) for k, x in env.items()}
            for i in range(2):
                for k in range(3):
                    cmp('nb_refl_d_%d_%d' % (i, k), g.evalf('nb_refl_d_%d_%d' % (i, k), env), o64[i, 1, k], 1e-9, 1e-11)
                    cmp('tb_refl_d_%d_%d' % (i, k), g.evalf('tb_refl_d_%d_%d' % (i, k), env32), o32[i, 1, k], 1e-4, 2e-5)
        elif m == 1 and len(c['normals']) == 2 and 't1m_refl_d_1_2' in g.by_name:
            env = dict(env_rows('v', rays), **env_rows('n', nrms))
            o64 = np.asarray(nr.reflect(rays, nrms), float)
            o32 = lr.reflect(torch.tensor(rays, dtype=torch.float32), torch.tensor(nrms, dtype=torch.float32)).numpy().astype(float)
            env32 = {k: float(np.float32(x)) for k, x in env.items()}
            for i in range(2):
                for k in range(3):
                    cmp('n1m_refl_d_%d_%d' % (i, k), g.evalf('n1m_refl_d_%d_%d' % (i, k), env), o64[i, 1, k], 1e-9, 1e-11)
                    cmp('n1m_refl_o_%d_%d' % (i, k), g.evalf('n1m_refl_o_%d_%d' % (i, k), env), o64[i, 0, k], 0, 0)
                    cmp('t1m_refl_d_%d_%d' % (i, k), g.evalf('t1m_refl_d_%d_%d' % (i, k), env32), o32[i, 1, k], 1e-4, 2e-5)
        elif m == 3 and len(c['normals']) == 3:
            env = dict(env_rows('v', rays), **env_rows('n', nrms))
            o64 = np.asarray(nr.reflect(rays, nrms), float)
            for i in range(3):
                for k in range(3):
                    cmp('n3_refl_d_%d_%d' % (i, k), g.evalf('n3_refl_d_%d_%d' % (i, k), env), o64[i, 1, k], 1e-9, 1e-11)
    # refract: pieces composed by the loop == the real function (float64 tensors, one ray), incl. a TIR and a capped case
    extra = [{'rays': [[[0, 0, 1], [0.8, 0.0, -0.6]]], 'normals': [[[0.1, 0.2, 0.0], [0.0, 0.0, 2.0]]], 'n1': 1.5, 'n2': 1.0, 'error': 0.01},
             {'rays': [[[0, 0, 1], [0.6, 0.0, -0.8]]], 'normals': [[[0.1, 0.2, 0.0], [0.0, 0.0, 0.5]]], 'n1': 1.0, 'n2': 1.5, 'error': 1e-9, 'cap': 2}]
    for c in (fcases + extra if info is not None else []):
        if len(c['rays']) != 1 or len(c['normals']) != 1:
            continue                                                  # rows of a batch leave the loop together: compared by the oracles
        v = np.array(c['rays'], float); nn = np.array(c['normals'], float)
        kw = {'error': c['error']}
        cap = c.get('cap', info['defaults'].get('max_iterations', 0))
        if info['has_cap']:
            kw['max_iterations'] = cap
        elif 'cap' in c:
            continue
        want = guarded('w_refract64', v.tolist(), nn.tolist(), c['n1'], c['n2'], kw)[0]
        got, it = compose_refract(g, v, nn, c['n1'], c['n2'], c['error'], cap)
        for j in range(2):
            for k in range(3):
                cmp('refract[%d,%d] (%d iterations)' % (j, k, it), got[j, k], want[j, k], 1e-9, 1e-12)
    ctx.traces += n
    ctx.obligation('translator-self-check(traced terms = real functions on %d values)' % n, bad == 0 and n > 0, '%d mismatches' % bad)


def loop_control(ctx, info):
    """the part of `refract` that is not a formula: how the loop is entered, and which names its body may change"""
    # (that the loop carries exactly the Newton variable, the step size and the counter is checked by the recipe from the data flow:
    #  a body that also changed a name read by the next pass or by the epilogue makes RefractCut fail closed)
    ok_num = info['init'].get('counter', '').strip() == '0'
    ctx.obligation('refract:loop-counter-starts-at-0', ok_num, repr(info['init'].get('counter')))
    try:
        val = eval(info['init']['eps'], {'torch': torch, 'float': float}, {'vector': torch.zeros(3, 2, 3), 'error': 0.0})
        entered = bool(torch.isinf(val).all() and (val > 0).all()) and tuple(val.shape) == (3,)
    except Exception as e:
        val, entered = repr(e), False
    ctx.obligation('refract:loop-entered-for-every-requested-error(eps starts at +inf)', entered, 'eps = %s -> %s' % (info['init'].get('eps'), val))


def run(ctx):
    ctx.rule = ('reflect: rays with random unit directions, normals with random direction, length 1e-3..1e3 (log-uniform or the '
                'decades) and either sign, batches of 1..5 rays with one normal per ray or one shared, [2 x 3] inputs; refract: the same '
                'normals, index pairs incl. equal, nearly equal and random 1..2.5, incidence angles up to mu sin(t1) = 0.97 and 87 deg, '
                'requested errors 1e-2..1e-4; boundary stream (normal incidence, normal along the ray, near-critical) compares flags '
                'only; dtype family: the same clauses plus equality with the float result when the ray (or the normal) is handed over as an '
                'int64 / int32 / float32 / float64 array or tensor or (NumPy) a python list — axis-aligned and small-integer directions, integer '
                'origins, non-integer normals and hit points, and vice versa; non-trivial = every clause evaluated; distinct by (api, rays, normals, indices, dtypes)')
    ctx.trusted += ['tracer/shim.py + tracer/recipes/c11.py (translator incl. the cut of `refract` at its while statement; validated each run by the numeric self-check)',
                    'torch/numpy kernels modelled as exact real arithmetic; float rounding not modelled',
                    'IEEE NaN semantics (a NaN start value stays NaN through the Newton step and compares false in the guard): the traced definitions carry NaN as an uninterpreted marker',
                    'promotion of [2 x 3] inputs and zeros_like/in-place row assignment are covered by the traces of the shapes listed in the recipe (1, 2, 3 rays) and by the oracles for other sizes']
    ctx.gate()
    ctx.ensure_theories(['theories/C11/Props.vo'])
    ctx.theorems('OdakV.C11.Props', PROPS)
    g, info = emit.Gen(), None
    try:
        recipe.trace_reflect(g)
        ctx.obligation('translator:trace-reflect(%d definitions)' % len(g.defs), True)
    except Exception as e:
        ctx.obligation('translator:trace-reflect', False, repr(e))
    try:
        k = len(g.defs)
        info = recipe.trace_refract(g, with_guard=True)
        ctx.obligation('translator:trace-refract(%d definitions)' % (len(g.defs) - k), True)
    except Exception as e:
        ctx.obligation('translator:trace-refract', False, repr(e))
    ctx.programs = len(g.defs)
    nr_, nf_ = (1500, 1500) if ctx.thorough else (260, 260)
    rcases, fcases = gen_reflect(ctx, nr_), gen_refract(ctx, nf_)
    ctx.compile_tie('GenC11', g.text(), [['C11_TieA', 'C11_TieB'], ['C11_TieProps']])
    if info is not None:
        loop_control(ctx, info)
    try:
        self_check(ctx, g, info, rcases[:150], fcases[:150])
    except Exception as e:
        ctx.obligation('translator-self-check', False, repr(e))
    if 't_refl_d_0' in g.by_name:
        ctx.sample({'traced_definition': 't_refl_d_0', 'coq': shim.coq(g.by_name['t_refl_d_0'][1])[:300]})
    if info is not None:
        ctx.sample({'traced_definition': 'g_rf_eps', 'coq': shim.coq(g.by_name['g_rf_eps'][1])[:300], 'guard': info['guard_src']})
    for c in rcases:
        for which in ('torch', 'numpy'):
            res = apply_oracle(ctx, 'reflect', dict(c, api=which))
            ctx.case('reflect/%s/%s' % (which, c['kind']), (which, str(c['rays']), str(c['normals'])), nontrivial=len(res) >= 7)
    for c in fcases:
        res = apply_oracle(ctx, 'refract', c)
        ctx.case('refract/%s' % c['kind'], (str(c['rays']), str(c['normals']), c['n1'], c['n2'], c['error']), nontrivial=len(res) >= 8)
    for c in rcases[:2] + fcases[:2]:
        ctx.sample({k: c[k] for k in c if k != 'oracle'})
    for c in boundary_cases():
        apply_oracle(ctx, 'boundary', c)
        ctx.case('boundary/%s/%s' % (c['what'], c['kind']), json.dumps(c, sort_keys=True), nontrivial=False)
    drefl, drefr = gen_dtype(ctx, 48 if ctx.thorough else 12)
    for c in drefl:
        for which in ('numpy', 'torch'):
            if which == 'torch' and 'list' in (c.get('ray_dtype'), c.get('normal_dtype')):
                continue                                   # the PyTorch API takes tensors only
            res = apply_oracle(ctx, 'reflect', dict(c, api=which))
            ctx.case('reflect/%s/%s' % (which, c['kind']), (which, json.dumps(c, sort_keys=True)), nontrivial=len(res) >= 8)
    for c in drefr:
        res = apply_oracle(ctx, 'refract', c)
        ctx.case('refract/%s' % c['kind'], json.dumps(c, sort_keys=True), nontrivial=len(res) >= 9)


def search(ctx):
    for c in gen_reflect(ctx, 2000):
        for which in ('torch', 'numpy'):
            apply_oracle(ctx, 'reflect', dict(c, api=which))
    for c in gen_refract(ctx, 2000):
        apply_oracle(ctx, 'refract', c)
        if len(ctx.viol) > 6:
            return
    for c in boundary_cases():
        apply_oracle(ctx, 'boundary', c)
    drefl, drefr = gen_dtype(ctx, 24)
    for c in drefl:
        for which in ('numpy', 'torch'):
            if not (which == 'torch' and 'list' in (c.get('ray_dtype'), c.get('normal_dtype'))):
                apply_oracle(ctx, 'reflect', dict(c, api=which))
    for c in drefr:
        apply_oracle(ctx, 'refract', c)


def replay(ctx, rec):
    if rec.get('no_failing_input_found'):
        print('replay names broken obligations only:', json.dumps(rec['broken_obligations'])[:3000]); return 1
    inp = dict(rec['input']); name = inp.pop('oracle')
    try:
        res = ORACLES[name](inp)
    except NoReturn as e:
        res = [('returns', False, 'a result', str(e))]
    except Exception as e:
        res = [('no_exception', False, 'a result', repr(e))]
    for r in res:
        print(('FAIL ' if not r[1] else 'ok   ') + r[0], '' if r[1] else 'expected=%s observed=%s' % (r[2], r[3]))
    return 1 if [r for r in res if not r[1]] else 0
