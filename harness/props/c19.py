"""C19 — what is saved can be loaded back unchanged.

Proof: coq/theories/C19 — text line lists over code points down to UTF-8 bytes, copy_file on a file
system, PLY vertex/face tables, the 8/16-bit quantiser of save_image in IEEE-754 binary32 (Flocq) for
every range (cmin, cmax) and every level, BGR swap, CHW<->HWC, channel-axis detection of the PyTorch
saver; external codecs (PNG/cv2, JSON, plyfile, torch.save) are Section hypotheses.
Tie to /repo (B2, every run): the model's executable definitions are evaluated inside Coq (vm_compute)
on the same pixels / images / tensors / line lists / byte files / copy sequences / triangle tables the
implementation is run on, and compared exactly (integers); the argument pair handed to shutil.copyfile
and the array handed by the PyTorch saver to the NumPy saver are recorded from the real functions.
Direct oracles state every clause of the property on real files in a scratch directory.
"""
import ast, json, math, os, re, shutil, subprocess, sys
import numpy as np
import torch
import cv2
from harness import common
from harness.common import zlit, listlit

PROPS = ['C19_lines_rt', 'C19_text_file_rt', 'C19_utf8_rt', 'C19_lines_need_clean', 'C19_lines_legacy_refuted',
         'C19_lines_legacy_partial', 'C19_dict_rt', 'C19_dict_legacy_refuted', 'C19_dict_legacy_partial',
         'C19_copy_spec', 'C19_copy_total', 'C19_copy_legacy_refuted', 'C19_ply_tables_rt', 'C19_ply_file_rt',
         'C19_ply_file_rt_exact', 'C19_ply_file_idempotent', 'C19_quant_any_range', 'C19_quant32_correct',
         'C19_quant32_any_range', 'C19_quant_level_rt', 'C19_legacy_quant8_rt', 'C19_legacy_quant16_rt',
         'C19_legacy_quant_refuted', 'C19_bgr_swap_involutive', 'C19_image_rt', 'C19_image_levels_rt',
         'C19_chw_hwc_inverse', 'C19_hwc_chw_inverse', 'C19_torch_equals_numpy_chw', 'C19_torch_equals_numpy_hwc',
         'C19_channels_first_ambiguous', 'C19_channels_first_legacy_refuted', 'C19_channels_last_legacy_refuted',
         'C19_channels_first_legacy_partial', 'C19_torch_style_gray', 'C19_torch_style_off', 'C19_torch_style_color',
         'C19_torch_style_color_shape', 'C19_image_rt_full', 'C19_instance']
PRE = ('From Coq Require Import ZArith List Bool. Import ListNotations. Open Scope Z_scope.\n'
       'From OdakV Require Import C19.Model.')
CHANNEL_COUNTS = (1, 3, 4)
_count = [0]


def mods():
    import odak.tools as T
    import odak.learn.tools as LT
    return T, LT


def scr():
    d = os.path.join(common.VERIF, 'build', 'C19', 'scratch')
    os.makedirs(d, exist_ok=True)
    return d


def fresh(suffix):
    _count[0] += 1
    return os.path.join(scr(), 'f%06d%s' % (_count[0], suffix))


def rm(*paths):
    for p in paths:
        try:
            if os.path.islink(p) or os.path.isfile(p):
                os.remove(p)
            elif os.path.isdir(p):
                shutil.rmtree(p)
        except OSError:
            pass


def rd(p):
    with open(p, 'rb') as f:
        return f.read()


# ---------------------------------------------------------------- Coq literals / parsing
def dy(x):
    """exact dyadic (m, e) of a Python float / int"""
    n, d = float(x).as_integer_ratio()
    return '(%s, %s)' % (zlit(n), zlit(-(d.bit_length() - 1)))


def zl(xs):
    return listlit([zlit(int(v)) for v in xs])


def nest(a):
    """nested Coq list literal of an integer ndarray / nested list"""
    if isinstance(a, np.ndarray):
        a = a.tolist()
    if isinstance(a, list):
        return listlit([nest(v) for v in a])
    return zlit(int(a))


def coq_py(s):
    """value printed by Coq (nested lists / tuples / Some / None of Z and nat) -> Python"""
    if s is None:
        return None
    s = re.sub(r'%\w+', '', s).strip()
    if s in ('true', 'false'):
        return s == 'true'
    s = s.replace(';', ',')
    s = re.sub(r'\bSome\b', '', s)
    s = re.sub(r'\bNone\b', 'None', s)
    s = re.sub(r'\b(Gray|Color)\b\s*', lambda m: '"%s",' % m.group(1), s)
    try:
        return ast.literal_eval(s)
    except Exception:
        return ('unparsed', s)


def tolist(x):
    if isinstance(x, tuple):
        return [tolist(v) for v in x]
    if isinstance(x, list):
        return [tolist(v) for v in x]
    return x


# ---------------------------------------------------------------- images: inputs
def make_levels(inp):
    """integer level array of the logical (H, W) / (H, W, C) shape, deterministic from the input"""
    L = 2 ** inp['depth'] - 1
    shape = tuple(inp['shape'])
    n = int(np.prod(shape))
    rng = np.random.default_rng(inp.get('seed', 0))
    pat = inp.get('pattern', 'random')
    if 'levels' in inp:
        lv = np.array(inp['levels'], dtype=np.int64).reshape(shape)
    elif pat == 'ramp':
        lv = ((np.arange(n) * inp.get('step', 1) + inp.get('start', 0)) % (L + 1)).reshape(shape)
    elif pat == 'extremes':
        lv = rng.choice(np.array([0, 1, 2, L // 2, L // 2 + 1, L - 1, L]), size=shape)
    else:
        lv = rng.integers(0, L + 1, size=shape)
    return lv.astype(np.int64)


def float_image(inp, lv):
    """the float image a user holds for these levels under the range (cmin, cmax): what
    load_image(fn, normalizeby = L / cmax) returns (image * 1. / normalizeby)"""
    L = 2 ** inp['depth'] - 1
    cmax = inp.get('cmax')
    if cmax is None:
        return lv.astype(np.float64), float(L)
    return lv * 1. / (L / float(cmax)), float(cmax)


def logical_squeeze(shape):
    return tuple(shape[:2]) if len(shape) == 3 and shape[2] == 1 else tuple(shape)


def oracle_image(inp):
    """save_image / load_image round trip: values, shape, channel order, bit depth; NumPy or PyTorch API"""
    T, LT = mods()
    depth = inp['depth']; L = 2 ** depth - 1
    lv = make_levels(inp)
    x, cmax = float_image(inp, lv)
    cmin = float(inp.get('cmin', 0.))
    api = inp['api']
    out = []
    fn = fresh('.png'); fn2 = fresh('.png')
    want_shape = logical_squeeze(lv.shape)
    lvs = lv.reshape(want_shape)
    try:
        form = inp.get('form', 'keyword')
        if form == 'default' and not (inp.get('cmax') is None and depth == 8 and cmin == 0.):
            form = 'keyword'
        if form == 'int' and float(cmin).is_integer() and float(cmax).is_integer():
            cmin, cmax = int(cmin), int(cmax)

        def save(f, name, img):
            if form == 'default':
                return f(name, img)                            # cmin = 0, cmax = 255, color_depth = 8
            if form == 'positional':
                return f(name, img, cmin, cmax, depth)
            return f(name, img, cmin=cmin, cmax=cmax, color_depth=depth)
        if api == 'numpy':
            save(T.save_image, fn, x)
        else:
            xt = torch.tensor(x, dtype=torch.float32)
            lay = inp.get('layout', 'chw')
            if lv.ndim == 3 and lay in ('chw', '1chw'):
                t = xt.permute(2, 0, 1).contiguous()
                if lay == '1chw':
                    t = t.unsqueeze(0)
            else:
                t = xt
            save(LT.save_image, fn, t)
            # the equivalent NumPy array through the NumPy saver: same file, byte for byte
            save(T.save_image, fn2, xt.numpy())
            same = rd(fn) == rd(fn2)
            if not same and inp.get('ambiguous') and lv.ndim == 3:
                # CHW and HWC are both legitimate readings of this shape: either file is accepted
                t3 = t.numpy().reshape(t.shape[-3:])
                for cand in (t3, np.moveaxis(t3, 0, -1)):
                    try:
                        save(T.save_image, fn2, cand)
                        same = same or rd(fn) == rd(fn2)
                    except Exception:
                        pass
            out.append(('torch_file_equals_numpy_file', same, 'identical bytes', 'files differ'))
        out.append(('saved_without_error', True, None, None))
    except Exception as e:
        out.append(('saved_without_error', False, 'a file', repr(e)[:300]))
        rm(fn, fn2)
        return out
    try:
        raw = cv2.imread(fn, cv2.IMREAD_UNCHANGED)
        out.append(('info:bit_depth', raw is not None and raw.dtype == (np.uint8 if depth == 8 else np.uint16), 'uint%d' % depth, str(getattr(raw, 'dtype', None))))
        if inp.get('ambiguous'):
            return out
        if raw is not None and raw.ndim == 3 and lvs.ndim == 3 and raw.shape == lvs.shape:
            order = [2, 1, 0] + list(range(3, raw.shape[2]))
            wrong = np.argwhere((raw[:, :, order] != lvs).any(axis=2))
            out.append(('info:channel_order_on_disk', len(wrong) == 0, 'B, G, R(, A) of every pixel in the file',
                        None if len(wrong) == 0 else 'pixel %s stored as %s for R,G,B(,A) = %s' % (wrong[0].tolist(), raw[tuple(wrong[0])].tolist(), lvs[tuple(wrong[0])].tolist())))
        # the documented argument space of load_image: torch_style in {False, True} x normalizeby in {default 0,
        # the float that undoes (cmin, cmax), the integer number of levels}; every rank: a monochrome file comes
        # back (H, W) whatever torch_style says, a colour file (H, W, C) or, torch style, (C, H, W)
        loader = T.load_image if api == 'numpy' else LT.load_image
        nbs = [('0', None), ('levels', L)] + ([('range', L / float(cmax))] if inp.get('cmax') is not None else [])
        gots = []
        for ts in (False, True):
            for nbname, nb in nbs:
                kw = {}
                if ts or inp.get('seed', 0) % 2:
                    kw['torch_style'] = ts                      # False is also passed explicitly now and then
                if nb is not None:
                    kw['normalizeby'] = nb
                got = loader(fn, **kw)
                want = (np.moveaxis(lvs, -1, 0) if ts and lvs.ndim == 3 else lvs).astype(np.float64)
                if nb is not None:
                    want = want * 1. / nb
                name = 'torch_style=%s,normalizeby=%s' % (ts, nbname)
                if api == 'numpy':
                    out.append(('info:dtype[%s]' % name, isinstance(got, np.ndarray) and got.dtype == np.float64, 'float64 ndarray', str(getattr(got, 'dtype', type(got)))))
                else:
                    out.append(('info:dtype[%s]' % name, isinstance(got, torch.Tensor) and got.dtype == torch.float32, 'torch.float32 tensor', str(getattr(got, 'dtype', type(got)))))
                    got = got.numpy(); want = want.astype(np.float32)
                gots.append((name, got, want))
        for name, g, want in gots:
            g = np.asarray(g)
            okshape = tuple(g.shape) == tuple(want.shape)
            out.append(('shape_identical[%s]' % name, okshape, list(want.shape), list(g.shape)))
            if okshape:
                bad = np.argwhere(g != want)
                out.append(('values_identical[%s]' % name, len(bad) == 0, 'every pixel equal',
                            None if len(bad) == 0 else {'mismatches': int(len(bad)), 'first_index': bad[0].tolist(),
                                                        'expected': float(want[tuple(bad[0])]), 'observed': float(g[tuple(bad[0])])}))
    except BaseException as e:
        out.append(('loaded_without_error', False, 'an array', repr(e)[:300]))
    finally:
        rm(fn, fn2)
    return out


def oracle_clip(inp):
    """documented range semantics: values above cmax are stored as the top level, values below cmin like cmin
    itself, and the stored level never decreases when the value grows"""
    T, _ = mods()
    depth, cmin, cmax = inp['depth'], float(inp['cmin']), float(inp['cmax'])
    L = 2 ** depth - 1
    vals = sorted(float(v) for v in inp['values'])
    row = [cmin, cmax] + vals
    fn = fresh('.png')
    out = []
    try:
        T.save_image(fn, np.array(row, dtype=np.float64).reshape(1, -1), cmin=cmin, cmax=cmax, color_depth=depth)
        got = T.load_image(fn).reshape(-1)
        lev_min, lev_max, lv = got[0], got[1], got[2:]
        out.append(('cmax_is_top_level', lev_max == L, L, float(lev_max)))
        above = [(v, float(l)) for v, l in zip(vals, lv) if v > cmax and l != L]
        out.append(('above_cmax_stored_as_top_level', not above, 'level %d' % L, above[:3]))
        below = [(v, float(l)) for v, l in zip(vals, lv) if v < cmin and l != lev_min]
        out.append(('below_cmin_stored_as_cmin', not below, 'level %s' % lev_min, below[:3]))
        dec = [(vals[i], float(lv[i]), vals[i + 1], float(lv[i + 1])) for i in range(len(vals) - 1) if lv[i + 1] < lv[i]]
        out.append(('levels_monotone_in_value', not dec, 'non-decreasing', dec[:2]))
    except Exception as e:
        out.append(('no_exception', False, 'a file', repr(e)[:300]))
    finally:
        rm(fn)
    return out


# ---------------------------------------------------------------- dictionaries
def same_json(a, b):
    """equality of JSON values as Python compares them: dictionaries as mappings (key order is not part of
    the value), lists in order, leaves with == (a bool never equals a number here, NaN is not generated)"""
    if isinstance(a, dict) or isinstance(b, dict):
        return isinstance(a, dict) and isinstance(b, dict) and set(a.keys()) == set(b.keys()) and all(same_json(a[k], b[k]) for k in a)
    if isinstance(a, list) or isinstance(b, list):
        return isinstance(a, list) and isinstance(b, list) and len(a) == len(b) and all(same_json(u, v) for u, v in zip(a, b))
    if isinstance(a, bool) != isinstance(b, bool):
        return False
    return a == b


def oracle_dictionary(inp):
    T, _ = mods()
    d = inp['d']
    fn = fresh('.json')
    out = []
    try:
        r = T.save_dictionary(d, fn)
        out.append(('info:save_returns_settings', r is d or same_json(r, d), 'the dictionary', None))
        raw = rd(fn)
        try:
            viautf8 = json.loads(raw.decode('utf-8'))
            out.append(('file_is_utf8_json', same_json(viautf8, d), 'UTF-8 JSON of the dictionary', 'differs'))
        except Exception as e:
            out.append(('file_is_utf8_json', False, 'UTF-8 JSON', repr(e)[:200]))
        got = T.load_dictionary(fn)
        out.append(('values_identical', same_json(got, d), 'the dictionary', repr(got)[:300]))
    except Exception as e:
        out.append(('no_exception', False, 'a round trip', repr(e)[:300]))
    finally:
        rm(fn)
    return out


LOCALE_SCRIPT = r'''
import json, sys
import odak.tools as T
cases = json.load(open(sys.argv[1], encoding='ascii'))
res = []
for i, c in enumerate(cases):
    fn = sys.argv[2] + '.%d.dat' % i
    try:
        if c['kind'] == 'dict':
            T.save_dictionary(c['v'], fn)
            got = T.load_dictionary(fn)
        else:
            T.write_to_text_file(c['v'], fn)
            got = T.read_text_file(fn)
        res.append({'ok': got == c['v'], 'obs': json.dumps(got)[:200]})
    except Exception as e:
        res.append({'ok': False, 'obs': repr(e)[:200]})
json.dump(res, open(sys.argv[3], 'w', encoding='ascii'))
'''


def run_in_locale(cases, env_over):
    """save + load in a fresh interpreter whose locale is not UTF-8; cases: [{'kind': 'dict'|'text', 'v': value}]"""
    base = fresh('')
    cases_fn, res_fn = base + '.cases', base + '.res'
    json.dump(cases, open(cases_fn, 'w', encoding='ascii'), ensure_ascii=True)
    env = dict(os.environ); env.update(env_over)
    p = subprocess.run([sys.executable, '-c', LOCALE_SCRIPT, cases_fn, base, res_fn], env=env, capture_output=True, text=True, timeout=300)
    try:
        res = json.load(open(res_fn, encoding='ascii'))
    except Exception:
        res = [{'ok': False, 'obs': 'interpreter failed: ' + (p.stderr or '')[-300:]}] * len(cases)
    for f in os.listdir(scr()):
        if f.startswith(os.path.basename(base) + '.'):
            rm(os.path.join(scr(), f))
    return res


C_LOCALE = {'LC_ALL': 'C', 'LANG': 'C', 'PYTHONUTF8': '0', 'PYTHONCOERCECLOCALE': '0'}


def oracle_dictionary_locale(inp):
    """the file is written as UTF-8 explicitly, so it must load whatever the locale's default codec is"""
    res = run_in_locale([{'kind': 'dict', 'v': inp['d']}], inp.get('env', C_LOCALE))
    return [('values_identical_in_non_utf8_locale', res[0]['ok'], 'the dictionary', res[0]['obs'])]


def oracle_text_locale(inp):
    """a line list with non-ASCII text is written and read back whatever the locale's default codec is"""
    res = run_in_locale([{'kind': 'text', 'v': inp['lines']}], inp.get('env', C_LOCALE))
    return [('lines_identical_in_non_utf8_locale', res[0]['ok'], 'the list written', res[0]['obs'])]


# ---------------------------------------------------------------- text line lists
def oracle_text(inp):
    T, _ = mods()
    ls = inp['lines']
    fn = fresh('.txt')
    out = []
    try:
        if inp.get('append_at') is not None:
            k = inp['append_at']
            T.write_to_text_file(ls[:k], fn)
            T.write_to_text_file(ls[k:], fn, write_flag='a')
        else:
            T.write_to_text_file(ls, fn)
        content = rd(fn).decode('utf-8')
        out.append(('file_content', content == ''.join(l + '\n' for l in ls), 'one line per entry', repr(content)[:200]))
        got = T.read_text_file(fn)
        ok = got == ls
        obs = None
        if not ok:
            k = next((i for i, (a, b) in enumerate(zip(got, ls)) if a != b), min(len(got), len(ls)))
            obs = {'n_read': len(got), 'n_written': len(ls), 'first_difference': k,
                   'written': ls[k] if k < len(ls) else None, 'read': got[k] if k < len(got) else None}
        out.append(('lines_identical', ok, 'the list written', obs))
    except Exception as e:
        out.append(('no_exception', False, 'a round trip', repr(e)[:300]))
    finally:
        rm(fn)
    return out


# ---------------------------------------------------------------- copy_file
def content_of(seed, size):
    return np.random.default_rng(seed).integers(0, 256, size=size, dtype=np.uint8).tobytes()


def oracle_copy(inp):
    T, _ = mods()
    d = fresh('.dir'); os.makedirs(d)
    out = []
    home = os.environ.get('HOME')
    try:
        src = os.path.join(d, inp['src_name']); dst = os.path.join(d, inp['dst_name'])
        data = content_of(inp['seed'], inp['size'])
        other = os.path.join(d, 'bystander.bin'); open(other, 'wb').write(b'bystander')
        real = src
        if inp.get('src_is_symlink'):
            real = os.path.join(d, 'target.bin'); open(real, 'wb').write(data); os.symlink(real, src)
        else:
            open(src, 'wb').write(data)
        if inp.get('dst_exists'):
            open(dst, 'wb').write(b'old content that is longer than nothing' * 3)
        a_src, a_dst = src, dst
        if inp.get('tilde'):
            os.environ['HOME'] = d
            a_src, a_dst = '~/' + inp['src_name'], '~/' + inp['dst_name']
        try:
            T.copy_file(a_src, a_dst, follow_symlinks=inp.get('follow_symlinks', True))
            exc = None
        except Exception as e:
            exc = e
        same_name = inp['src_name'] == inp['dst_name']
        if same_name:
            out.append(('same_file_refused_or_noop', exc is None or isinstance(exc, shutil.SameFileError), 'SameFileError or nothing', repr(exc)))
        else:
            out.append(('no_exception', exc is None, 'a copy', repr(exc)[:300]))
            out.append(('destination_identical', os.path.exists(dst) and rd(dst) == data, '%d bytes equal to the source' % len(data),
                        'missing' if not os.path.exists(dst) else '%d bytes' % len(rd(dst))))
        out.append(('source_intact', os.path.exists(real) and rd(real) == data and os.path.islink(src) == bool(inp.get('src_is_symlink')), 'unchanged', None))
        out.append(('other_files_untouched', rd(other) == b'bystander' and sorted(os.listdir(d)) == sorted(set(['bystander.bin', inp['src_name'], inp['dst_name']] + (['target.bin'] if inp.get('src_is_symlink') else []))), 'only the destination appears', sorted(os.listdir(d))))
    finally:
        if home is None:
            os.environ.pop('HOME', None)
        else:
            os.environ['HOME'] = home
        rm(d)
    return out


def oracle_copy_arguments(inp):
    """what copy_file hands to shutil.copyfile (recorded through a stand-in module object)"""
    import odak.tools.file as F
    calls = []

    class Stub:
        SameFileError = shutil.SameFileError

        def __getattr__(self, name):
            return getattr(shutil, name)

        @staticmethod
        def copyfile(*a, **k):
            import inspect
            b = inspect.signature(shutil.copyfile).bind(*a, **k); b.apply_defaults()
            calls.append(b.arguments); return b.arguments['dst']
    old = F.shutil
    F.shutil = Stub()
    try:
        F.copy_file(inp['src'], inp['dst'], follow_symlinks=inp['follow_symlinks'])
    finally:
        F.shutil = old
    want = (os.path.expanduser(inp['src']), os.path.expanduser(inp['dst']), inp['follow_symlinks'])
    got = None
    if len(calls) == 1:
        got = (calls[0]['src'], calls[0]['dst'], calls[0]['follow_symlinks'])
    return [('copyfile_called_with_source_and_destination', got == want, list(want), list(got) if got else 'calls: %d' % len(calls))]


# ---------------------------------------------------------------- PLY
def make_tris(inp):
    rng = np.random.default_rng(inp['seed'])
    n, kind = inp['n'], inp.get('kind', 'float32')
    if kind == 'int':
        return rng.integers(-50, 50, size=(n, 3, 3)).astype(np.float64)
    t = rng.standard_normal((n, 3, 3)) * 10.0 ** rng.uniform(-inp.get('span', 3), inp.get('span', 3), size=(n, 3, 3))
    if kind == 'float32':
        return t.astype(np.float32)
    if kind == 'edge':
        vals = np.array([0.0, -0.0, 1.0, -1.0, 1e-30, -1e30, 3.4028234e38, 1.17549435e-38, 1e-45, 0.1, 1 / 3, 16777217.0])
        return rng.choice(vals, size=(n, 3, 3)).astype(np.float32)
    return t                                                   # float64: not representable in the 'f4' columns


def oracle_ply(inp):
    T, _ = mods()
    tris = make_tris(inp)
    fn = fresh('.ply'); fn2 = fresh('.ply')
    out = []
    try:
        T.write_PLY(tris, fn)
        got = T.read_PLY(fn)
        want = tris.astype(np.float32)
        out.append(('shape_identical', tuple(got.shape) == (inp['n'], 3, 3), [inp['n'], 3, 3], list(got.shape)))
        out.append(('info:dtype_float32', got.dtype == np.float32, 'float32', str(got.dtype)))
        if tuple(got.shape) == tuple(want.shape):
            bad = np.argwhere(got != want)
            out.append(('values_identical', len(bad) == 0, 'every coordinate equal to its binary32 value',
                        None if len(bad) == 0 else {'index': bad[0].tolist(), 'expected': float(want[tuple(bad[0])]), 'observed': float(got[tuple(bad[0])])}))
            T.write_PLY(got, fn2)                       # what was loaded saves and loads as itself (values; -0.0 == 0.0)
            again = T.read_PLY(fn2)
            out.append(('second_round_trip_identical', again.shape == got.shape and bool((again == got).all()), 'the array loaded first', 'differs'))
        out.append(('argument_unchanged', bool((tris == make_tris(inp)).all()), True, False))
    except Exception as e:
        out.append(('no_exception', False, 'a round trip', repr(e)[:300]))
    finally:
        rm(fn, fn2)
    return out


# ---------------------------------------------------------------- tensors
def make_tensor(inp):
    g = torch.Generator().manual_seed(inp['seed'])
    shape, dt = tuple(inp['shape']), inp['dtype']
    if dt in ('float32', 'float64', 'float16', 'bfloat16'):
        t = torch.randn(shape, generator=g, dtype=torch.float32).to(getattr(torch, dt))
    elif dt in ('complex64', 'complex128'):
        t = torch.complex(torch.randn(shape, generator=g), torch.randn(shape, generator=g)).to(getattr(torch, dt))
    elif dt == 'bool':
        t = torch.randint(0, 2, shape, generator=g).bool()
    else:
        t = torch.randint(-100 if dt != 'uint8' else 0, 100, shape, generator=g).to(getattr(torch, dt))
    if inp.get('transposed') and t.ndim >= 2:
        t = t.transpose(0, 1)
    return t


def oracle_tensor(inp):
    _, LT = mods()
    t = make_tensor(inp)
    fn = fresh('.pt')
    out = []
    try:
        LT.save_torch_tensor(fn, t)
        got = LT.torch_load(fn)
        out.append(('is_tensor', isinstance(got, torch.Tensor), 'a tensor', str(type(got))))
        if isinstance(got, torch.Tensor):
            out.append(('shape_identical', tuple(got.shape) == tuple(t.shape), list(t.shape), list(got.shape)))
            out.append(('dtype_identical', got.dtype == t.dtype, str(t.dtype), str(got.dtype)))
            out.append(('values_identical', tuple(got.shape) == tuple(t.shape) and got.dtype == t.dtype and bool(torch.equal(got, t)), 'equal', 'differs'))
    except Exception as e:
        out.append(('no_exception', False, 'a round trip', repr(e)[:300]))
    finally:
        rm(fn)
    return out


ORACLES = {'image': oracle_image, 'clip': oracle_clip, 'dictionary': oracle_dictionary, 'dictionary_locale': oracle_dictionary_locale, 'text_locale': oracle_text_locale,
           'text': oracle_text, 'copy': oracle_copy, 'copy_arguments': oracle_copy_arguments, 'ply': oracle_ply,
           'tensor': oracle_tensor}
FUNCTION = {'image': None, 'clip': 'odak.tools.save_image/load_image', 'dictionary': 'odak.tools.save_dictionary/load_dictionary',
            'dictionary_locale': 'odak.tools.save_dictionary/load_dictionary', 'text_locale': 'odak.tools.write_to_text_file/read_text_file', 'text': 'odak.tools.write_to_text_file/read_text_file',
            'copy': 'odak.tools.copy_file', 'copy_arguments': 'odak.tools.copy_file', 'ply': 'odak.tools.write_PLY/read_PLY',
            'tensor': 'odak.learn.tools.save_torch_tensor/torch_load'}


def apply_oracle(ctx, name, inp):
    try:
        res = ORACLES[name](inp)
    except Exception as e:
        res = [('no_exception', False, 'a result', repr(e)[:300])]
    fn = FUNCTION[name] or ('odak.learn.tools.save_image/load_image' if inp.get('api') == 'torch' else 'odak.tools.save_image/load_image')
    bad = 0
    for clause, ok, exp, obs in res:
        if ok:
            continue
        if clause.startswith('info:'):
            # observations beyond the statement of the property (bit depth / channel order of the file as other
            # programs see it, return values, dtypes): counted in the evidence, never an alarm
            info = ctx.extra.setdefault('informative_observations_failed', {})
            if clause not in info:
                ctx.log('informative (not part of the property): %s %s input=%s observed=%s' % (fn, clause, json.dumps(inp, default=str)[:200], str(obs)[:200]))
            info[clause] = info.get(clause, 0) + 1
            continue
        bad += 1
        report(ctx, fn, clause, dict(inp, oracle=name), exp, obs)
    return bad, res


def report(ctx, fn, clause, inp, exp, obs):
    """the verdict keeps one replay per (function, clause): hand over the first two failing inputs of each"""
    seen = ctx.extra.setdefault('_reported', {})
    seen[(fn, clause)] = seen.get((fn, clause), 0) + 1
    if seen[(fn, clause)] <= 2:
        ctx.violation(fn, clause, inp, exp, obs)


# ---------------------------------------------------------------- generators
BLANKS = [' ', '\t', '\x0b', '\x0c', '\x1c', '\x1d', '\x1e', '\x1f', '\x85', '\xa0', '\u1680', '\u2000', '\u2003', '\u200a', '\u2028', '\u2029', '\u202f', '\u205f', '\u3000']
ALPHABETS = ['abcdefghijklmnopqrstuvwxyz0123456789', ' \t', '\xe4\xf6\xfc\xdf\xe9\xe8\xea\xf1\xe7\xf8\xe5', '\u03b1\u03b2\u03b3\u03b4\u03b5', '\u0430\u0431\u0432\u0433\u0434', '\u65e5\u672c\u8a9e\u6f22\u5b57', '\U0001f600\U0001f642\U0001f680\u2713\u2605', '.,;:!?"\'\\/{}[]()<>#%&*+-=_|~^`@$', '\x00\x01\x07\x08\x1b\x7f', '\u200b\ufeff\u00ad']


def gen_string(rng, maxlen=12):
    n = rng.choice([0, 1, 2, 3, 5, 8, maxlen])
    al = ''.join(rng.sample(ALPHABETS, rng.randint(1, 3)))
    return ''.join(rng.choice(al) for _ in range(n))


def gen_line(rng):
    s = gen_string(rng, 30)
    r = rng.random()
    if r < 0.35:
        s += ''.join(rng.choice(BLANKS) for _ in range(rng.randint(1, 3)))       # trailing blanks
    elif r < 0.45:
        s = ''.join(rng.choice(BLANKS) for _ in range(rng.randint(1, 3))) + s    # leading blanks
    elif r < 0.5:
        s = ''.join(rng.choice(BLANKS) for _ in range(rng.randint(1, 4)))        # only blanks
    return s


def gen_lines(rng, k):
    kind = k % 8
    if kind == 0:
        return []
    if kind == 1:
        return [''] * rng.randint(1, 4)
    if kind == 2:
        return [gen_string(rng, 2000 if k % 16 == 2 else 200) * rng.randint(1, 5)]
    n = rng.choice([1, 2, 3, 5, 17, 64])
    return [gen_line(rng) for _ in range(n)]


def gen_json(rng, depth=0):
    r = rng.random()
    if depth >= 4 or r < 0.55 - 0.1 * depth:
        k = rng.randint(0, 9)
        if k == 0: return rng.randint(-10, 10)
        if k == 1: return rng.choice([2 ** 53 + 1, -2 ** 70, 10 ** 30, 0])
        if k == 2: return rng.choice([0.1, -0.0, 1e-300, 1.7976931348623157e308, 5e-324, 1 / 3, 2.5, -1e21, 1e16])
        if k == 3: return rng.uniform(-1e3, 1e3)
        if k == 4: return rng.choice([True, False])
        if k == 5: return None
        if k == 6: return gen_string(rng) + rng.choice(['', ' ', '\n', '\t', '\r\n', '\\', '"', '\u2028'])
        return gen_string(rng)
    if r < 0.8:
        return [gen_json(rng, depth + 1) for _ in range(rng.choice([0, 1, 2, 3, 6]))]
    return gen_dict(rng, depth + 1)


def gen_dict(rng, depth=0):
    d = {}
    for _ in range(rng.choice([0, 1, 2, 3, 5, 8]) if depth else rng.choice([0, 1, 2, 4, 8, 16])):
        d[gen_string(rng) if rng.random() < 0.9 else ''] = gen_json(rng, depth + 1)
    return d


def has_non_ascii(x):
    return any(ord(c) > 127 for c in json.dumps(x, ensure_ascii=False))


RANGES = [None, 1.0, 100.0, 3.0, 0.1, 2.0, 1000.0, 1e-3, 7.5, 65535.0, 255.0, 1e6, 12345.678, 0.7]


def gen_image_inputs(ctx):
    rng = ctx.rng
    out = []
    big = ctx.thorough
    # every level of both depths through whole images, 1 and 3 channels, the library range and others
    for depth in (8, 16):
        L = 2 ** depth - 1
        for cmax in ([None, 1.0, 100.0, 3.0] if not big else RANGES):
            if depth == 8:
                out.append({'api': 'numpy', 'depth': 8, 'shape': [16, 16], 'pattern': 'ramp', 'cmax': cmax})
                out.append({'api': 'numpy', 'depth': 8, 'shape': [8, 32, 3], 'pattern': 'ramp', 'step': 1, 'start': 1, 'cmax': cmax})
            else:
                n = 8 if big else 2
                starts = rng.sample(range(0, 65536, 8192), n) if not big else list(range(0, 65536, 8192))
                for s in starts:                      # 8192 consecutive levels per image
                    out.append({'api': 'numpy', 'depth': 16, 'shape': [64, 128], 'pattern': 'ramp', 'start': s, 'cmax': cmax})
                out.append({'api': 'numpy', 'depth': 16, 'shape': [32, 32, 3], 'pattern': 'ramp', 'step': 21, 'start': rng.randint(0, L), 'cmax': cmax})
    # sizes: 1-pixel sides, odd, non-square, channel counts, both APIs and layouts
    sizes = [(h, w) for h in range(1, 6) for w in range(1, 6)] + [(1, 7), (7, 1), (13, 7), (16, 9), (9, 3), (6, 4)]
    if big:
        sizes += [(h, w) for h in range(1, 9) for w in range(1, 9)] + [(64, 48), (101, 3), (3, 101)]
    for (h, w) in sizes:
        for c in (None, 1, 3, 4):
            for depth in (8, 16):
                shape = [h, w] if c is None else [h, w, c]
                base = {'depth': depth, 'shape': shape, 'seed': rng.randint(0, 10 ** 6), 'pattern': rng.choice(['random', 'extremes']),
                        'cmax': rng.choice(RANGES if (h + w + depth) % 3 else [None, 255.0, 65535.0, 100.0]),
                        'form': rng.choice(['keyword', 'keyword', 'positional', 'int', 'default'])}
                out.append(dict(base, api='numpy'))
                if c is None:
                    out.append(dict(base, api='torch', layout='hw'))
                else:
                    for lay in ('chw', 'hwc', '1chw'):
                        ts = [c, h, w] if lay != 'hwc' else [h, w, c]
                        amb = (ts[0] in CHANNEL_COUNTS) == (ts[2] in CHANNEL_COUNTS)
                        if lay == '1chw' and (h + w) % 3:
                            continue
                        out.append(dict(base, api='torch', layout=lay, ambiguous=amb))
    # cmin inside the range: values are inside [cmin, cmax]
    for _ in range(20 if not big else 100):
        depth = rng.choice([8, 16]); L = 2 ** depth - 1
        cmax = rng.choice([1.0, 100.0, 255.0, 3.0, 65535.0])
        lo = rng.randint(0, L // 2)
        lv = [rng.randint(lo, L) for _ in range(12)]
        out.append({'api': rng.choice(['numpy', 'torch']), 'layout': 'hw', 'depth': depth, 'shape': [3, 4], 'levels': lv, 'cmax': cmax, 'cmin': lo * cmax / L})
    return out


def gen_clip_inputs(ctx):
    rng = ctx.rng
    out = []
    for _ in range(30 if not ctx.thorough else 300):
        depth = rng.choice([8, 16])
        cmax = rng.choice([1.0, 100.0, 255.0, 65535.0, 3.0, 0.1, rng.uniform(0.5, 900.0)])
        cmin = rng.choice([0.0, 0.0, 0.1, 0.25, 0.5]) * cmax
        vals = [rng.uniform(cmin, cmax) for _ in range(8)] + [cmax * rng.uniform(1.0001, 3.0) for _ in range(4)] + [cmax * 1e6, cmax + 1.0]
        vals += [cmin - rng.uniform(0.001, 2.0) * cmax for _ in range(4)] + [-1e6 * cmax, -0.0]
        out.append({'depth': depth, 'cmin': cmin, 'cmax': cmax, 'values': vals})
    return out


def gen_copy_inputs(ctx):
    rng = ctx.rng
    out = []
    names = ['a.bin', 'b.bin', 'with space.dat', '\xfcn\xef\u2713.bin', 'noext', 'x.tar.gz']
    for k in range(40 if not ctx.thorough else 200):
        s, d = rng.sample(names, 2)
        inp = {'src_name': s, 'dst_name': d, 'seed': rng.randint(0, 10 ** 6), 'size': rng.choice([0, 1, 2, 100, 4096, 65537, 300000]),
               'dst_exists': rng.random() < 0.4, 'follow_symlinks': rng.random() < 0.7, 'src_is_symlink': rng.random() < 0.25, 'tilde': rng.random() < 0.2}
        if inp['src_is_symlink'] and not inp['follow_symlinks']:
            inp['dst_exists'] = False        # shutil itself refuses to replace a file by a link (FileExistsError): outside the property
        out.append(inp)
    out.append({'src_name': 'a.bin', 'dst_name': 'a.bin', 'seed': 1, 'size': 10})
    return out


# ---------------------------------------------------------------- B2: the model inside Coq vs the implementation
def f32(x):
    return float(np.float32(x))


def quantiser_cases(ctx):
    """(depth, cmin, cmax, [pixel values]) rows saved as 1 x N images; the stored levels are read back raw"""
    rng = ctx.rng
    rows = []
    per = 48
    for depth in (8, 16):
        L = 2 ** depth - 1
        cm = [float(L), 1.0, 100.0, 3.0, 0.1, 1e-3, 1e6, 12345.678, rng.uniform(0.5, 500.0), 10 ** rng.uniform(-6, 6)]
        for cmax in cm:
            full = cmax in (float(L), 100.0) and (depth == 8 or ctx.thorough)        # every level through Coq and the file
            levels = list(range(L + 1)) if full else sorted(rng.sample(range(L + 1), per))
            for k in range(0, len(levels), per):
                ch = levels[k:k + per]
                rows.append((depth, 0.0, cmax, [n * 1. / (L / cmax) for n in ch], 'grid'))
            # off the grid, ties, float32 neighbours, values outside the range (clipped), a positive cmin
            vals = [rng.uniform(0, cmax) for _ in range(16)] + [cmax / 2, cmax / 4, 0.0, cmax, cmax * 1.5, 2 * cmax, -cmax, -0.0,
                    float(np.nextafter(np.float32(cmax), np.float32(0))), float(np.nextafter(np.float32(cmax), np.float32(np.inf)))]
            rows.append((depth, 0.0, cmax, vals, 'offgrid'))
            cmin = rng.choice([0.25, 0.1, 0.5]) * cmax
            vals = [rng.uniform(0, cmax) for _ in range(10)] + [cmin, float(np.nextafter(np.float32(cmin), np.float32(0))),
                    float(np.nextafter(np.float32(cmin), np.float32(np.inf))), f32(cmin), 0.0, cmax]
            rows.append((depth, cmin, cmax, vals, 'cmin'))
    if not ctx.thorough:
        keep = [r for r in rows if r[4] != 'grid' or r[0] == 8]
        grid16 = [r for r in rows if r[4] == 'grid' and r[0] == 16]
        rows = keep + grid16
    return rows


def b2_quantiser(ctx):
    T, _ = mods()
    rows = quantiser_cases(ctx)
    terms, impl = [], []
    for depth, cmin, cmax, vals, kind in rows:
        fn = fresh('.png')
        try:
            T.save_image(fn, np.array(vals, dtype=np.float64).reshape(1, -1), cmin=cmin, cmax=cmax, color_depth=depth)
            raw = cv2.imread(fn, cv2.IMREAD_UNCHANGED).reshape(-1).astype(int).tolist()
        except Exception as e:
            raw = 'exception %r' % (e,)
        rm(fn)
        impl.append(raw)
        terms.append('map (quant_dy true %d %s %s) %s' % (depth, dy(cmin), dy(cmax), listlit([dy(v) for v in vals])))
    vals = ctx.coq_eval(PRE, terms, label='quantiser', chunk=max(4, len(terms) // 14 + 1))
    bad = 0
    for v, raw, (depth, cmin, cmax, px, kind) in zip(vals, impl, rows):
        model = coq_py(v)
        for j in range(len(px)):
            ctx.case('quantiser/%d-bit/%s' % (depth, kind), (depth, cmin, cmax, px[j]))
        ctx.traces += 1
        if v is None or model != raw:
            bad += 1
            if bad <= 4:
                j = next((i for i in range(len(px)) if not isinstance(raw, list) or not isinstance(model, list) or i >= len(model) or model[i] != raw[i]), 0)
                ctx.log('quantiser: model and implementation disagree: depth=%d cmin=%r cmax=%r pixel=%r model=%s implementation=%s' % (
                    depth, cmin, cmax, px[j], model[j] if isinstance(model, list) and j < len(model) else model, raw[j] if isinstance(raw, list) else raw))
        elif len(ctx.samples) < 2 and kind == 'grid' and cmax == 100.0:
            ctx.sample({'quantiser': {'depth': depth, 'cmin': cmin, 'cmax': cmax, 'pixels': px[:6], 'levels_model': model[:6], 'levels_implementation': raw[:6]}})
    ctx.obligation('correspondence:quantiser(IEEE binary32 model = file levels on %d rows, %d pixels)' % (len(rows), sum(len(r[3]) for r in rows)), bad == 0, '%d rows disagree' % bad)


def b2_layout(ctx):
    """what is handed to cv2.imwrite (read back raw) and what load_image makes of a raw file, on arrays of distinct levels"""
    T, LT = mods()
    rng = ctx.rng
    shapes = [(1, 1), (2, 3), (3, 2), (1, 4), (4, 1), (2, 4), (5, 3), (1, 5), (2, 2, 1), (3, 1, 1), (3, 4, 1), (2, 5, 1), (1, 3, 1), (1, 1, 3), (2, 3, 3), (3, 2, 3), (1, 5, 3), (2, 2, 4), (3, 1, 4), (4, 3, 3)]
    terms, meta = [], []
    for shp in shapes:
        for depth in (8, 16):
            n = int(np.prod(shp)); L = 2 ** depth - 1
            lv = (np.arange(n) * (L // (n + 1)) + rng.randint(1, 7)).reshape(shp)
            fn = fresh('.png')
            T.save_image(fn, lv.astype(float), cmin=0, cmax=L, color_depth=depth)
            raw = cv2.imread(fn, cv2.IMREAD_UNCHANGED)
            loaded = T.load_image(fn)
            rm(fn)
            ctor = 'Gray' if len(shp) == 2 else 'Color'
            terms.append('canon (save_px (fun z => z) (%s %s))' % (ctor, nest(lv)))
            meta.append(('save', shp, depth, raw))
            rctor = 'Gray' if raw.ndim == 2 else 'Color'
            terms.append('load_px (%s %s)' % (rctor, nest(raw.astype(int))))
            meta.append(('load', shp, depth, loaded))
            terms.append('shape_ok (%s %s)' % (ctor, nest(lv)))
            meta.append(('accepted', shp, depth, True))
            # load_image(torch_style) for each rank, both APIs: model load_view on the raw file content
            for ts in (False, True):
                fn = fresh('.png')
                T.save_image(fn, lv.astype(float), cmin=0, cmax=L, color_depth=depth)
                for apiname, ld in (('numpy', T.load_image), ('torch', LT.load_image)):
                    v = ld(fn, torch_style=ts)
                    v = v.numpy() if isinstance(v, torch.Tensor) else v
                    terms.append('(load_view (fun z => z) %s (%s %s), image_shape (load_view (fun z => z) %s (%s %s)))' % (
                        'true' if ts else 'false', rctor, nest(raw.astype(int)), 'true' if ts else 'false', rctor, nest(raw.astype(int))))
                    meta.append(('torch_style', shp + (apiname, ts), depth, v))
                rm(fn)
    # the PyTorch saver: the array it hands to the NumPy saver (recorded), every small shape
    import odak.tools
    got = {}
    orig = odak.tools.save_image

    import inspect
    sig = inspect.signature(orig)

    def rec(*a, **k):
        # the caller may forward positionally or by keyword: bind to the real function's parameter names
        b = sig.bind(*a, **k); b.apply_defaults()
        got['a'] = np.array(b.arguments['img']); got['args'] = {n: v for n, v in b.arguments.items() if n not in ('fn', 'img')}
        return True
    tshapes = [(a, b, c) for a in range(1, 7) for b in range(1, 7) for c in range(1, 7)]
    if not ctx.thorough:
        tshapes = [s for s in tshapes if rng.random() < 0.5 or min(s) <= 2 or 3 in s]
    tshapes += [(3, 40, 50), (40, 50, 3), (1, 9, 9), (9, 9, 1), (4, 10, 2), (2, 10, 4), (1, 3, 12, 7), (1, 12, 7, 3), (1, 3, 2, 5)]
    odak.tools.save_image = rec
    try:
        for shp in tshapes:
            n = int(np.prod(shp))
            t = torch.arange(1, n + 1, dtype=torch.float32).reshape(shp)
            got.clear()
            try:
                LT.save_image('unused.png', t, cmin=0, cmax=255)
                a = got.get('a')
                if a is not None and (got['args'].get('cmin'), got['args'].get('cmax'), got['args'].get('color_depth')) != (0, 255, 8):
                    a = None                                  # range / depth not forwarded to the NumPy saver
            except Exception as e:
                a = None
            s3 = shp[-3:]
            tn = t.numpy().reshape(s3)
            if a is None:
                obs = 'exception'
            else:
                asis = a.shape == tuple(s3) and np.array_equal(a, tn)
                moved = a.shape == (s3[1], s3[2], s3[0]) and np.array_equal(a, np.moveaxis(tn, 0, -1))
                obs = 'either' if asis and moved else True if moved else False if asis else 'other array of shape %s' % (a.shape,)
            if n <= 30:
                terms.append('torch_to_numpy channels_first %s' % nest(t.numpy().reshape(s3).astype(int)))
                meta.append(('torch_array', shp, None, a))
            terms.append('channels_first %d %d %d' % tuple(s3))
            meta.append(('torch_detect', shp, None, obs))
    finally:
        odak.tools.save_image = orig
    vals = ctx.coq_eval(PRE, terms, label='layout', chunk=max(50, len(terms) // 8 + 1))
    bad = 0
    for v, (what, shp, depth, impl) in zip(vals, meta):
        m = coq_py(v)
        if what in ('save', 'load'):
            arr = np.array(tolist(m[1])) if isinstance(m, tuple) and len(m) == 2 else None
            ok = arr is not None and arr.shape == np.asarray(impl).shape and bool((arr == np.asarray(impl)).all()) and (m[0] == 'Gray') == (np.asarray(impl).ndim == 2)
        elif what == 'accepted':
            ok = (v or '').strip() == 'true'
        elif what == 'torch_style':
            # m = ((ctor, array), shape): same rank (Gray <-> two axes), same shape, same values
            ok = False
            if isinstance(m, tuple) and len(m) == 3 and m[0] in ('Gray', 'Color'):       # printed as (Gray [[..]], [h; w])
                arr = np.array(tolist(m[1])); mshape = list(tolist(m[2]))
                ok = (m[0] == 'Gray') == (impl.ndim == 2) and list(arr.shape) == list(impl.shape) == mshape and bool((arr == impl).all())
        elif what == 'torch_array':
            ok = impl is not None and np.array(tolist(m)).shape == impl.shape and bool((np.array(tolist(m)) == impl).all())
        else:
            ok = impl == 'either' or (isinstance(impl, bool) and (v or '').strip() == ('true' if impl else 'false'))
        ctx.case('layout/%s' % what, (what, shp, depth))
        ctx.traces += 1
        if not ok:
            bad += 1
            if bad <= 4:
                ctx.log('layout: model and implementation disagree: %s shape=%s depth=%s model=%s implementation=%s' % (what, shp, depth, str(m)[:200], str(impl)[:200]))
    ctx.obligation('correspondence:layout(channel swap, (H,W,1), PyTorch channel axis: model = implementation on %d cases)' % len(meta), bad == 0, '%d disagree' % bad)


def cps(s):
    return [ord(c) for c in s]


def b2_text(ctx):
    T, _ = mods()
    rng = ctx.rng
    terms, meta = [], []
    n = 40 if not ctx.thorough else 300
    for k in range(n):
        ls = gen_lines(rng, k)
        if sum(len(l) for l in ls) > 600:
            ls = [l[:100] for l in ls[:6]]
        fn = fresh('.txt')
        T.write_to_text_file(ls, fn)
        terms.append('write_text_file_model %s' % listlit([zl(cps(l)) for l in ls]))
        meta.append(('write', ls, list(rd(fn))))
        rm(fn)
    # arbitrary files handed to read_text_file: every newline convention, no final newline, blanks
    pieces = ['a', 'bc ', ' d\t', '', '\xe9\u2713', 'x\x0b', 'y\x85', '\u3000z\u2003', 'tab\t\t', '\U0001f600 ', 'q\x1c', 'r\u2028']
    seps = ['\n', '\r\n', '\r', '\n\n', '\r\r', '\n\r', '\r\n\n']
    for k in range(n):
        s = ''
        for _ in range(rng.randint(0, 6)):
            s += rng.choice(pieces) + rng.choice(seps)
        if rng.random() < 0.4:
            s += rng.choice(pieces)
        fn = fresh('.txt')
        open(fn, 'wb').write(s.encode('utf-8'))
        try:
            got = [cps(l) for l in T.read_text_file(fn)]
        except Exception as e:
            got = 'exception %r' % (e,)
        terms.append('read_text_file_model strip_nl %s' % zl(list(s.encode('utf-8'))))
        meta.append(('read', s, got))
        rm(fn)
    # the white-space table of the regression lemma against the interpreter's str.rstrip()
    terms.append('filter is_space (map Z.of_nat (seq 0 (Z.to_nat 12400)))')
    meta.append(('is_space', None, [c for c in range(12400) if (chr(c) + '').rstrip() == '']))
    terms.append('map (fun s => (strip_ws s, strip_nl s)) %s' % listlit([zl(cps(x)) for x in ['a \t', ' a', 'a\n\n', '\n', 'a\xa0\n', '', 'a\u200b ', 'b\u2003\u3000', 'c\x1f\x85']]))
    meta.append(('strip', None, [[cps(x.rstrip()), cps(x.rstrip('\n'))] for x in ['a \t', ' a', 'a\n\n', '\n', 'a\xa0\n', '', 'a\u200b ', 'b\u2003\u3000', 'c\x1f\x85']]))
    vals = ctx.coq_eval(PRE, terms, label='text', chunk=max(20, len(terms) // 8 + 1))
    bad = 0
    for v, (what, src, impl) in zip(vals, meta):
        m = tolist(coq_py(v))
        ok = m == impl
        ctx.case('text/%s' % what, (what, str(src)))
        ctx.traces += 1
        if not ok:
            bad += 1
            if bad <= 4:
                ctx.log('text: model and implementation disagree: %s input=%r model=%s implementation=%s' % (what, src, str(m)[:200], str(impl)[:200]))
    ctx.obligation('correspondence:text(bytes written, lines read from arbitrary files, str.rstrip table: %d cases)' % len(meta), bad == 0, '%d disagree' % bad)


def b2_copy(ctx):
    T, _ = mods()
    rng = ctx.rng
    terms, meta = [], []
    names = ['n0', 'n1', '\xe42', 'n 3', 'n4']
    for k in range(30 if not ctx.thorough else 200):
        d = fresh('.dir'); os.makedirs(d)
        fs0 = {}
        for i in range(5):
            if rng.random() < 0.55:
                fs0[i] = [rng.randint(0, 255) for _ in range(rng.randint(0, 5))]
                open(os.path.join(d, names[i]), 'wb').write(bytes(fs0[i]))
        ops = [(rng.randint(0, 4), rng.randint(0, 4)) for _ in range(rng.randint(1, 8))]
        outs = []
        for s, t in ops:
            try:
                T.copy_file(os.path.join(d, names[s]), os.path.join(d, names[t]))
                outs.append(0)
            except shutil.SameFileError:
                outs.append(1)
            except FileNotFoundError:
                outs.append(2)
            except Exception as e:
                outs.append('exception %r' % (e,))
        final = [list(rd(os.path.join(d, names[i]))) if os.path.exists(os.path.join(d, names[i])) else None for i in range(5)]
        rm(d)
        fl = listlit(['(%d, %s)' % (i, zl(b)) for i, b in fs0.items()])
        terms.append('let r := run_copies false %s %s in (fst r, map (fun p => lookup p (snd r)) [0; 1; 2; 3; 4])' % (
            listlit(['(%d, %d)' % o for o in ops]), fl))
        meta.append((fs0, ops, outs, final))
    vals = ctx.coq_eval(PRE, terms, label='copy', chunk=max(10, len(terms) // 4 + 1))
    bad = 0
    for v, (fs0, ops, outs, final) in zip(vals, meta):
        # `Some [..]` / `None` per name: parse by hand to keep None distinct from []
        ok = False
        if v is not None:
            m = re.match(r'^\((\[.*?\]), (\[.*\])\)$', re.sub(r'%\w+', '', v))
            if m:
                mo = ast.literal_eval(m.group(1).replace(';', ','))
                mf = ast.literal_eval(re.sub(r'Some\s*', '', m.group(2)).replace(';', ','))
                ok = mo == outs and mf == final
        ctx.case('copy/sequence', (str(fs0), str(ops)))
        ctx.traces += len(ops)
        if not ok:
            bad += 1
            if bad <= 4:
                ctx.log('copy: model and implementation disagree: files=%s ops=%s model=%s implementation=%s' % (fs0, ops, v, (outs, final)))
    ctx.obligation('correspondence:copy(operation sequences on real files = model file system, %d sequences)' % len(meta), bad == 0, '%d disagree' % bad)


def b2_ply(ctx):
    from plyfile import PlyData, PlyElement
    T, _ = mods()
    rng = ctx.rng
    terms, meta = [], []

    def tri_lit(t):
        return '(' + ', '.join('(%s, %s, %s)' % tuple(zlit(int(v)) for v in p) for p in t) + ')'
    for n in [0, 1, 2, 3, 5, 9] + ([17, 40] if ctx.thorough else []):
        tris = rng_int_tris(rng, n)
        fn = fresh('.ply')
        T.write_PLY(tris, fn)
        with open(fn, 'rb') as f:
            pd = PlyData.read(f)
        V = [[int(pd['vertex'][i][k]) for k in range(3)] for i in range(pd['vertex'].count)]
        Fc = [[int(x) for x in row] for row in pd['face'].data['vertex_indices']]
        rm(fn)
        terms.append('write_ply_model (fun z : Z => z) %s' % listlit([tri_lit(t) for t in tris.astype(int).tolist()]))
        meta.append(('tables', n, [V, Fc]))
    # files not written by write_PLY: shared vertices, permuted / repeated faces
    for k in range(12 if not ctx.thorough else 60):
        nv = rng.randint(3, 8)
        V = [[rng.randint(-20, 20) for _ in range(3)] for _ in range(nv)]
        Fc = [[rng.randrange(nv) for _ in range(3)] for _ in range(rng.randint(1, 6))]
        pn = np.asarray([tuple(map(float, v)) for v in V], dtype=[('x', 'f4'), ('y', 'f4'), ('z', 'f4')])
        fc = np.asarray([(f, 255, 255, 255) for f in Fc], dtype=[('vertex_indices', 'i4', (3,)), ('red', 'u1'), ('green', 'u1'), ('blue', 'u1')])
        fn = fresh('.ply')
        PlyData([PlyElement.describe(pn, 'vertex'), PlyElement.describe(fc, 'face')], text=bool(k % 2)).write(fn)
        try:
            got = T.read_PLY(fn).astype(int).tolist()
        except Exception as e:
            got = 'exception %r' % (e,)
        rm(fn)
        terms.append('ply_read %s %s' % (listlit(['(%s, %s, %s)' % tuple(zlit(x) for x in v) for v in V]),
                                         listlit(['(%d, %d, %d)%%nat' % tuple(f) for f in Fc])))
        meta.append(('read', (V, Fc), got))
    vals = ctx.coq_eval(PRE, terms, label='ply', chunk=max(10, len(terms) // 4 + 1))
    bad = 0
    def flat(x):
        return [z for y in x for z in flat(y)] if isinstance(x, list) else [x]
    for v, (what, src, impl) in zip(vals, meta):
        m = tolist(coq_py(v))
        if what == 'read':                               # Coq prints nested pairs left-flattened: regroup by 9
            f = flat(m) if isinstance(m, list) else None
            m = np.array(f).reshape(-1, 3, 3).tolist() if f is not None and len(f) % 9 == 0 else m
        ok = m == impl
        ctx.case('ply/%s' % what, (what, str(src)))
        ctx.traces += 1
        if not ok:
            bad += 1
            if bad <= 4:
                ctx.log('ply: model and implementation disagree: %s %s model=%s implementation=%s' % (what, str(src)[:100], str(m)[:200], str(impl)[:200]))
    ctx.obligation('correspondence:ply(vertex/face tables written, triangles read from arbitrary tables: %d cases)' % len(meta), bad == 0, '%d disagree' % bad)


def rng_int_tris(rng, n):
    return np.array([[[rng.randint(-30, 30) for _ in range(3)] for _ in range(3)] for _ in range(n)], dtype=np.float64).reshape(n, 3, 3)


def codec_contracts(ctx):
    """the hypotheses of the theorems about external codecs, tried on the real libraries"""
    rng = np.random.default_rng(ctx.rng.randint(0, 10 ** 6))
    bad = []
    n = 0
    for shp in [(1, 1), (3, 5), (5, 3, 1), (4, 6, 3), (2, 2, 4), (1, 7, 3), (33, 17, 3)]:
        for dt in (np.uint8, np.uint16):
            a = rng.integers(0, np.iinfo(dt).max + 1, size=shp).astype(dt)
            fn = fresh('.png')
            cv2.imwrite(fn, a); b = cv2.imread(fn, cv2.IMREAD_UNCHANGED); rm(fn)
            want = a.reshape(shp[:2]) if len(shp) == 3 and shp[2] == 1 else a
            n += 1
            if b is None or b.shape != want.shape or b.dtype != want.dtype or not (b == want).all():
                bad.append(('png', shp, str(dt)))
    for s in ['', 'plain', '\xe9\u2713\u65e5\u672c\U0001f600', '\x00\x7f\x80\u07ff\u0800\uffff\U00010000\U0010ffff']:
        n += 1
        if s.encode('utf-8').decode('utf-8') != s:
            bad.append(('utf8', s))
    for d in [{}, {'k': [1, 2.5, None, True, '\xe9', {'n': {}}]}, {'': -0.0, 'big': 2 ** 80}]:
        n += 1
        if not same_json(json.loads(json.dumps(d, ensure_ascii=False, indent=4)), d):
            bad.append(('json', d))
    ctx.obligation('contracts:external-codecs(cv2 PNG 8/16-bit 1/3/4 channels incl. (H,W,1)->(H,W); utf-8; json) %d cases' % n, not bad, str(bad)[:400])
    return n


# ---------------------------------------------------------------- run
def run(ctx):
    ctx.rule = ('images: every level of both depths in whole images (ramps), 1/3/4 channels and (H,W)/(H,W,1), 1-pixel / odd / '
                'non-square sizes, ranges cmax in {2^d-1, 1, 100, 3, 0.1, 1e-3, 1e6, ...}, cmin inside the range, NumPy and PyTorch APIs '
                '(HW, CHW, HWC, 1CHW; shapes for which CHW and HWC cannot be told apart are accepted under either reading); '
                'dictionaries: random nested JSON values incl. non-ASCII keys/strings, control characters, big ints, extreme floats, '
                'also saved and loaded in an interpreter with a C (ASCII) locale, as are non-ASCII line lists; line lists: empty list, empty lines, trailing/leading blanks of '
                'every Unicode white-space class, non-ASCII, long lines, append mode; copies: sizes 0..300 kB, existing destination, '
                'symlinked source, ~ expansion, non-ASCII names, same file; PLY: 0..50 triangles, binary32 / binary64 / edge values; '
                'tensors: dtypes, ranks 0..4, empty, non-contiguous. Non-trivial = the implementation produced a file that was read back; '
                'distinct by input')
    ctx.trusted += ['harness/props/c19.py generators, comparators and the Coq-output parser',
                    'external codecs, observed and contract-checked each run, not modelled: PNG via cv2.imwrite/imread, json.dump/load, plyfile text/binary PLY, torch.save/torch.load, the interpreter\'s UTF-8 codec and universal-newline reader',
                    'Flocq IEEE-754 binary32 (BinarySingleNaN) as the meaning of numpy float32 /, *, rint, casts (validated pixel-wise each run)',
                    'the file system is modelled as name -> bytes; symlinks, ~ expansion, permissions are observed by the oracles only',
                    'tensors (.pt) are observed only (no model)']
    ctx.assumptions += ['text lines contain no CR/LF (a line-oriented file cannot hold them: theorem C19_lines_need_clean)',
                        'pixel values are finite, cmax > 0, 0 <= cmin <= cmax; an (H,W,1) array comes back as (H,W)',
                        'PLY coordinates come back as their binary32 values (the file declares float columns)',
                        'JSON values are JSON-native (string keys, lists, finite floats)',
                        'PARTIAL: external codecs enter the theorems as contracts (hypotheses), exercised on the real libraries each run but not verified: '
                        'cv2.imwrite/imread PNG (imread(imwrite(a)) = a for uint8/uint16 arrays with 1/3/4 channels, (H,W,1) -> (H,W)); '
                        'json.dump/json.load (parse(dump d) = d); plyfile (tables written are the tables read; float columns are binary32); '
                        'the interpreter\'s UTF-8 codec and universal-newline text reader (modelled, compared byte-wise each run); '
                        'torch.save/torch.load (no model, no theorem: observed by the tensor oracle only)']
    ctx.gate()
    ctx.ensure_theories(['theories/C19/Props.vo'])
    ctx.theorems('OdakV.C19.Props', PROPS)
    rm(scr())
    ncontract = codec_contracts(ctx)
    # ---- B2: model executed in Coq against the implementation
    for part in (b2_quantiser, b2_layout, b2_text, b2_copy, b2_ply):
        try:
            part(ctx)
        except Exception as e:
            import traceback
            ctx.obligation('correspondence:%s' % part.__name__, False, traceback.format_exc()[-1500:])
    # ---- recorded arguments of shutil.copyfile (the former defect was in exactly these)
    nbad = 0
    for src, dst, fl in [('/tmp/a/b.bin', '/tmp/c/d.bin', True), ('rel/x', 'y', False), ('~/s.txt', '~/t.txt', True), ('\xfc.bin', 'dir with space/\xfc2.bin', True)]:
        b, _ = apply_oracle(ctx, 'copy_arguments', {'src': src, 'dst': dst, 'follow_symlinks': fl}); nbad += b
        ctx.case('copy/arguments', (src, dst, fl))
    ctx.obligation('tie:copy_file hands (source, destination, follow_symlinks) to shutil.copyfile', nbad == 0, '%d calls differ' % nbad)
    # ---- direct oracles
    rng = ctx.rng
    n_or = 0
    for inp in gen_image_inputs(ctx):
        bad, res = apply_oracle(ctx, 'image', inp); n_or += 1
        ctx.case('image/%s/%d-bit/%s/%s' % (inp['api'], inp['depth'], 'x'.join(map(str, inp['shape'][2:])) or 'gray', 'lib-range' if inp.get('cmax') is None else 'range'),
                 json.dumps(inp, sort_keys=True), nontrivial=len(res) >= 3)
        if len(ctx.samples) < 4 and inp['api'] == 'torch' and not bad:
            ctx.sample({'image': inp, 'clauses': [r[0] for r in res]})
    for inp in gen_clip_inputs(ctx):
        apply_oracle(ctx, 'clip', inp); n_or += 1
        ctx.case('image/clip/%d-bit' % inp['depth'], json.dumps(inp, sort_keys=True))
    dicts = [gen_dict(rng) for _ in range(60 if not ctx.thorough else 600)]
    dicts += [{}, {'\xe9': '\xfc'}, {'k': 'h\xe9llo \u2713 \u65e5\u672c \U0001f600'}, {'nested': {'a': [1, [2, [3, {'b': None}]]]}}, {'esc': 'line\nbreak\t"q"\\ \x00'}]
    for d in dicts:
        bad, res = apply_oracle(ctx, 'dictionary', {'d': d}); n_or += 1
        ctx.case('dictionary/%s' % ('non-ascii' if has_non_ascii(d) else 'ascii'), json.dumps(d, sort_keys=True))
    texts = []
    for k in range(120 if not ctx.thorough else 1200):
        ls = gen_lines(rng, k)
        inp = {'lines': ls}
        if len(ls) >= 2 and k % 5 == 0:
            inp['append_at'] = rng.randint(0, len(ls))
        bad, res = apply_oracle(ctx, 'text', inp); n_or += 1
        ctx.case('text/%s' % ('empty' if not ls else 'blank-tail' if any(l != l.rstrip() for l in ls) else 'plain'), json.dumps(ls))
        if len(ctx.samples) < 5 and any(l != l.rstrip() for l in ls) and len(ls) < 4:
            ctx.sample({'lines': ls})
        texts.append(ls)
    # one fresh interpreter under a C (ASCII) locale: the files are UTF-8 whatever the locale says
    loc = [d for d in dicts if has_non_ascii(d)][:25] + [d for d in dicts if not has_non_ascii(d)][:5]
    tloc = [t for t in texts if has_non_ascii(t) and sum(map(len, t)) < 2000][:40] + [t for t in texts if not has_non_ascii(t)][:5]
    tloc += [['h\xe9llo'], ['\u65e5\u672c\u8a9e ', '', '\U0001f600\t'], ['\xa0']]
    res = run_in_locale([{'kind': 'dict', 'v': d} for d in loc] + [{'kind': 'text', 'v': t} for t in tloc], C_LOCALE)
    for d, r in zip(loc, res[:len(loc)]):
        n_or += 1
        ctx.case('dictionary/C-locale/%s' % ('non-ascii' if has_non_ascii(d) else 'ascii'), json.dumps(d, sort_keys=True))
        if not r['ok']:
            report(ctx, FUNCTION['dictionary_locale'], 'values_identical_in_non_utf8_locale', {'d': d, 'env': C_LOCALE, 'oracle': 'dictionary_locale'}, 'the dictionary', r['obs'])
    for t, r in zip(tloc, res[len(loc):]):
        n_or += 1
        ctx.case('text/C-locale/%s' % ('non-ascii' if has_non_ascii(t) else 'ascii'), json.dumps(t))
        if not r['ok']:
            report(ctx, FUNCTION['text_locale'], 'lines_identical_in_non_utf8_locale', {'lines': t, 'env': C_LOCALE, 'oracle': 'text_locale'}, 'the list written', r['obs'])
    for inp in gen_copy_inputs(ctx):
        apply_oracle(ctx, 'copy', inp); n_or += 1
        ctx.case('copy/%s' % ('same' if inp['src_name'] == inp['dst_name'] else 'symlink' if inp.get('src_is_symlink') else 'file'), json.dumps(inp, sort_keys=True))
    for n in [0, 1, 2, 3, 10, 50] + ([200] if ctx.thorough else []):
        for kind in ('float32', 'float64', 'int', 'edge'):
            for span in (1, 30):
                inp = {'n': n, 'seed': rng.randint(0, 10 ** 6), 'kind': kind, 'span': span}
                apply_oracle(ctx, 'ply', inp); n_or += 1
                ctx.case('ply/%s/%s' % (kind, 'empty' if n == 0 else 'some'), json.dumps(inp, sort_keys=True))
    for shape in [[], [0], [3], [2, 3], [1, 3, 4, 5], [0, 3], [7, 1]]:
        for dt in ['float32', 'float64', 'float16', 'bfloat16', 'int64', 'int32', 'uint8', 'bool', 'complex64']:
            inp = {'shape': shape, 'dtype': dt, 'seed': rng.randint(0, 10 ** 6), 'transposed': len(shape) >= 2 and rng.random() < 0.5}
            apply_oracle(ctx, 'tensor', inp); n_or += 1
            ctx.case('tensor/%s' % dt, json.dumps(inp, sort_keys=True))
    rm(scr())
    ctx.exhaustive = True
    ctx.extra['exhaustive_domain'] = ('all 256 levels of 8-bit images under cmax in {255, 1, 100, 3} through real files (quick) / 14 ranges (thorough); '
                                      '16-bit: 2 x 8192 consecutive levels per range (quick) / all 65 536 levels per range (thorough); '
                                      'Coq: all levels, all ranges (C19_quant32_any_range); PyTorch channel axis: shapes up to 6x6x6')
    ctx.extra['oracle_calls'] = n_or
    ctx.extra['contract_cases'] = ncontract
    ctx.extra.pop('_reported', None)


def search(ctx):
    """an obligation broke without a failing input from run(): look further with the oracles"""
    rng = ctx.rng
    for depth in (8, 16):
        L = 2 ** depth - 1
        for cmax in RANGES + [rng.uniform(0.01, 1000) for _ in range(10)]:
            for start in range(0, L + 1, 8192):
                apply_oracle(ctx, 'image', {'api': 'numpy', 'depth': depth, 'shape': [64, 128] if depth == 16 else [16, 16], 'pattern': 'ramp', 'start': start, 'cmax': cmax})
            if len(ctx.viol) > 2:
                return
    for inp in gen_clip_inputs(ctx):
        apply_oracle(ctx, 'clip', inp)
    for h in range(1, 8):
        for w in range(1, 8):
            for c in (1, 3):
                for lay in ('chw', 'hwc'):
                    ts = [c, h, w] if lay == 'chw' else [h, w, c]
                    amb = (ts[0] in CHANNEL_COUNTS) == (ts[2] in CHANNEL_COUNTS)
                    apply_oracle(ctx, 'image', {'api': 'torch', 'depth': 8, 'shape': [h, w, c], 'layout': lay, 'seed': 1, 'ambiguous': amb})
    for k in range(2000):
        apply_oracle(ctx, 'text', {'lines': gen_lines(rng, k)})
        if k % 4 == 0:
            apply_oracle(ctx, 'dictionary', {'d': gen_dict(rng)})
        if len(ctx.viol) > 4:
            return
    for inp in gen_copy_inputs(ctx):
        apply_oracle(ctx, 'copy', inp)


def replay(ctx, rec):
    if rec.get('no_failing_input_found'):
        print('replay names broken obligations only:', json.dumps(rec['broken_obligations'])[:3000]); return 1
    inp = dict(rec['input']); name = inp.pop('oracle')
    res = ORACLES[name](inp)
    for r in res:
        print(('FAIL ' if not r[1] else 'ok   ') + r[0], '' if r[1] else 'expected=%s observed=%s' % (r[2], r[3]))
    rm(scr())
    return 1 if [r for r in res if not r[1]] else 0
