"""C02 — propagation distances compose: 0 is the identity, -z undoes z, z1 then z2 = z1 + z2.

Proof: coq/theories/Wave/*.v + coq/theories/C02/Props.v (custom_id, custom_compose, steps_fold by induction
over step programs, kernel_compose / zero / undo for phases additive in z, phasor_product).
Tie (B1, every run): traced kernels have a phase that is additive in z (coq/tie/Wave_TieK_*.v: *_add_i_j, *_laws_i_j,
bl_laws on the common band, bl_mask_even) and traced pipelines are the documented forward model, with pad / crop
exactly around it (coq/tie/Wave_TieP.v: traced_compose, traced_identity, t_beam_padcrop_*_ok).
Direct oracles on the implementation (float32 phases: equalities are checked in configurations with |k z| <= 2e3).
"""
import json, math
import numpy as np
import torch
from harness import wave_common as W

PROPS = ['C02_zero_distance_identity', 'C02_zero_distance_identity_numpy_fresnel', 'C02_two_steps_compose',
         'C02_two_steps_compose_numpy_fresnel', 'C02_step_programs', 'C02_kernel_compose', 'C02_kernel_zero',
         'C02_kernel_undo', 'C02_kernel_program', 'C02_pad_crop_identity', 'C02_step_programs_numpy_fresnel', 'C02_distance_programs']
TOL = {'torch': 3e-3, 'numpy': 1e-8}
METHODS = ['Angular Spectrum', 'Transfer Function Fresnel', 'Bandlimited Angular Spectrum']


def rel(a, b):
    a, b = W.to_np(a), W.to_np(b)
    return float(np.abs(a - b).max() / max(1e-30, np.abs(b).max()))


def oracle_zero(inp):
    """distance 0 returns the field unchanged: no padding, and pad-then-crop"""
    rng = np.random.default_rng(inp['fseed'])
    u = W.typed(W.cfield(rng, tuple(inp['shape'])), inp['api'], inp.get('dtype'))
    out = []
    if inp['api'] == 'torch':
        for zp, nm in (((False, False, False), 'zero_distance_identity'), ((True, False, True), 'zero_distance_identity_pad_crop')):
            if nm.endswith('pad_crop') and min(inp['shape'][-2:]) < 5: continue
            r = W.t_prop(u, inp['method'], 0.0, inp['dx'], inp['lam'], zero_padding=zp)
            ok = list(r.shape) == list(inp['shape']) and rel(r, u) <= 1e-5
            out.append((nm, ok, 'input field', {'shape': list(r.shape), 'max_rel_err': rel(r, u) if list(r.shape) == list(inp['shape']) else None}))
    else:
        r = W.n_prop(u, inp['method'], 0.0, inp['dx'], inp['lam'])
        out.append(('zero_distance_identity', rel(r, u) <= (1e-10 if W.tol_key(inp) == 'numpy' else 1e-5), 'input field', rel(r, u)))
    return out


def band(inp, zs):
    """samples of the centred spectrum that every step's band limit passes (all ones for AS / TF)"""
    if inp['method'] != 'Bandlimited Angular Spectrum': return None
    h, w = inp['shape'][-2:]
    M = np.ones((h, w), dtype=bool)
    L = W.lw()
    for z in zs:
        if inp['api'] == 'torch':
            M &= (L.get_band_limited_angular_spectrum_kernel(h, w, dx=inp['dx'], wavelength=inp['lam'], distance=z).abs().numpy() > 0.5)
        else:
            fx = np.linspace(-1. / 2. / inp['dx'], 1. / 2. / inp['dx'], w); fy = np.linspace(-1. / 2. / inp['dx'], 1. / 2. / inp['dx'], h)
            FX, FY = np.meshgrid(fx, fy)
            M &= (np.abs(FX) < 1 / np.sqrt((2 * z / (inp['dx'] * w)) ** 2 + 1) / inp['lam']) & (np.abs(FY) < 1 / np.sqrt((2 * z / (inp['dx'] * h)) ** 2 + 1) / inp['lam'])
    return M


def on_band(x, M):
    x = W.to_np(x)
    if M is None: return x
    return np.fft.fftshift(np.fft.fft2(x), axes=(-2, -1)) * M / math.sqrt(M.size)


def oracle_compose(inp):
    """z then -z restores the field; z1 then z2 equals z1+z2; a whole program equals one step by the sum"""
    rng = np.random.default_rng(inp['fseed'])
    u = W.typed(W.cfield(rng, tuple(inp['shape'])), inp['api'], inp.get('dtype'))
    P = (lambda x, z: W.t_prop(x, inp['method'], z, inp['dx'], inp['lam'])) if inp['api'] == 'torch' else (lambda x, z: W.n_prop(x, inp['method'], z, inp['dx'], inp['lam']))
    tol = TOL[W.tol_key(inp)]
    zs = inp['zs']
    out = []
    z = zs[0]
    M = band(inp, [z, -z])
    back = P(P(u, z), -z)
    e = rel(on_band(back, M), on_band(u, M))
    out.append(('minus_z_undoes_z', e <= tol, '<= %g' % tol, e))
    x = u
    for zz in zs: x = P(x, zz)
    one = P(u, float(sum(zs)))
    M = band(inp, list(zs) + [float(sum(zs))])
    e = rel(on_band(x, M), on_band(one, M))
    out.append(('steps_equal_one_step_by_sum', e <= tol * len(zs), '<= %g' % (tol * len(zs)), e))
    return out


def oracle_propagator(inp):
    """'back and forth' propagator objects (product of a forward and a backward kernel): every (channel, depth) output equals ONE
    propagation by the net distance z_d - image_location_offset with pad-then-crop, for every wavelength and in any order of calls (so the plane at the offset
    itself is a propagation by distance 0)"""
    from odak.learn.wave import propagator
    rng = np.random.default_rng(inp['fseed'])
    h, w = inp['shape']
    u = torch.tensor(W.cfield(rng, (h, w)), dtype=torch.complex64)
    off = inp['offset']
    p = propagator(resolution=[h, w], wavelengths=list(inp['lams']), pixel_pitch=inp['dx'], number_of_depth_layers=len(inp['zs']), distances=list(inp['zs']),
                   image_location_offset=off, propagation_type=inp['method'], propagator_type='back and forth', back_and_forth_distance=inp['zm'])
    out = []
    for c, d in inp['order']:
        y = p(u, c, d)
        lam = inp['lams'][c]; net = inp['zs'][d] - off
        # the object's own Fourier-plane aperture (a circular 0/1 mask on the doubled grid by default) is part of both sides
        ref = W.t_prop(u, inp['method'], net, inp['dx'], lam, zero_padding=(True, False, True), aperture=p.aperture)
        e = rel(y, ref)
        out.append(('back_and_forth_equals_net_distance', e <= 2 * TOL['torch'], '<= %g (channel %d, depth %d)' % (2 * TOL['torch'], c, d), e))
    return out


ORACLES = {'zero': oracle_zero, 'compose': oracle_compose, 'propagator': oracle_propagator}
FN = {'torch': 'odak.learn.wave.propagate_beam', 'numpy': 'odak.wave.propagate_beam', 'propagator': 'odak.learn.wave.propagator.__call__'}


def apply_oracle(ctx, name, inp):
    try:
        res = ORACLES[name](inp)
    except Exception as e:
        res = [('no_exception', False, 'a result', repr(e))]
    bad = 0
    for clause, ok, exp, obs in res:
        if not ok:
            bad += 1
            ctx.violation('%s[%s]' % (FN[inp['api']], inp['method']), clause, dict(inp, oracle=name), exp, obs)
    return bad


def gen_inputs(ctx, n):
    rng = ctx.rng
    out = []
    # z = 0 for every small shape (torch: incl. pad-then-crop from 5x5)
    hi = 24 if ctx.thorough else 13
    for h in range(2, hi + 1):
        for w in sorted({h, h + 1, max(2, h - 3), (7 * h) % 11 + 2}):
            for api in ('torch', 'numpy'):
                m = METHODS[(h + w) % 3]
                out.append(('zero', {'api': api, 'method': m, 'shape': [h, w], 'lam': 0.5, 'dx': rng.choice([0.36, 1.0, 4.0]), 'fseed': rng.randrange(10 ** 6), 'dtype': W.DTYPES[api][(h + 2 * w) % 5]}))
    sz = W.sizes(ctx)
    for i in range(n):
        shape = list(sz[(i * 5 + 3) % len(sz)])
        if min(shape) < 2: shape = [3, 4]
        lam = rng.uniform(0.4, 0.7); dx = lam * rng.uniform(0.72, 5.0)
        k = rng.choice([1, 2, 2, 3, 4, 6])
        zs = [rng.uniform(-25, 25) for _ in range(k)]              # |k z| <= ~ 400 per step: float32 phases stay accurate
        for api in ('torch', 'numpy'):
            for m in METHODS:
                shp = ([2] + shape) if (api == 'torch' and i % 4 == 0) else shape
                out.append(('compose', {'api': api, 'method': m, 'shape': shp, 'lam': lam, 'dx': dx, 'zs': zs, 'fseed': rng.randrange(10 ** 6), 'dtype': W.DTYPES[api][(i + METHODS.index(m)) % 5]}))
        if i % 3 == 0 and min(shape) >= 5:      # torch zero_pad reads 2-D arrays with a side below 5 as channel-last (property C08 starts at 5)
            lams = [lam, lam * 1.15, lam * 1.3]
            off = rng.uniform(2, 8)
            dzs = [off + rng.uniform(-6, 6), off, off + rng.uniform(-6, 6)]
            order = [(c, d) for c in range(3) for d in range(3)]
            rng.shuffle(order)
            for m in METHODS[:2]:
                out.append(('propagator', {'api': 'propagator', 'method': m, 'shape': shape, 'lams': lams, 'dx': 1.3 * lam * rng.uniform(0.75, 4.0), 'zs': dzs, 'offset': off,
                                           'zm': rng.uniform(5, 25), 'order': [list(x) for x in order[:6]], 'fseed': rng.randrange(10 ** 6)}))
    return out


def run(ctx):
    ctx.rule = ('z = 0 on every (h,w) up to the tier bound incl. pad-then-crop; random step programs of length 1..6 with '
                'both signs, all three transfer-function methods, both APIs, odd / non-square / batched grids, normalised units so '
                'that float32 phases are accurate; band-limited results compared on the band all steps pass; '
                'non-trivial = every case (random non-zero field); distinct by full input')
    ctx.trusted += ['tracer (see C01)', 'float rounding not modelled: equality within %g (torch float32) / %g (numpy)' % (TOL['torch'], TOL['numpy']),
                    'Fourier-domain padding (zero_padding[1]) resamples the output and is excluded by the statement',
                    'pad/crop index arithmetic: property C08 (crop(pad x) = x)']
    ctx.gate()
    ctx.ensure_theories(['theories/C02/Props.vo'])
    ctx.theorems('OdakV.C02.Props', PROPS)
    g = W.trace_and_tie(ctx)
    if g is not None:
        W.kernel_self_check(ctx, g)
    W.dft_instance(ctx)
    W.fft_contracts(ctx)
    for name, inp in gen_inputs(ctx, 60 if ctx.thorough else 10):
        apply_oracle(ctx, name, inp)
        ctx.case('%s/%s/%s' % (name, inp['api'], inp['method']), json.dumps(inp, sort_keys=True))
        if len(ctx.samples) < 5 and name == 'compose': ctx.sample(inp)


def search(ctx):
    for name, inp in gen_inputs(ctx, 80):
        apply_oracle(ctx, name, inp)
        if len(ctx.viol) > 3: return


def replay(ctx, rec):
    if rec.get('no_failing_input_found'):
        print('replay names broken obligations only:', json.dumps(rec['broken_obligations'])[:3000]); return 1
    inp = dict(rec['input']); name = inp.pop('oracle')
    res = ORACLES[name](inp)
    for r in res:
        print(('FAIL ' if not r[1] else 'ok   ') + r[0], '' if r[1] else 'expected=%s observed=%s' % (r[2], r[3]))
    return 1 if [r for r in res if not r[1]] else 0
