"""C20 — library calls never modify the caller's arrays, lists or default arguments.

Proof: coq/theories/C20 — an imperative IR with a relational heap semantics (fresh objects, views and
parts, containers keeping references, nondeterministic contents / branches / loop counts / early exits)
and an executable may-alias + mutation checker; `C20_analysis_sound`: a body the checker accepts leaves
every object that existed before the call bit for bit unchanged (closed under the global context).

Tie to /repo, re-checked on every run (route B1, translator + validation inside Coq): tracer/mutir.py
translates the CURRENT source of every function and method of odak/** into the IR (SSA form, callee
bodies inlined, library calls classified by the committed tables tracer/recipes/c20.py); the generated
file is compiled, coq/tie/C20_TieA.v proves by vm_compute that every function outside the committed
list of documented in-place updates passes `check`, and instantiates the soundness theorem for each.
Route B2: the verdicts Coq computes are compared with what the implementation does — the snapshot
oracle calls the real functions with deep-snapshotted arguments and default-argument objects (recipe
table harness/props/c20_recipes.py, three variants incl. the boundary classes the property names), and
the test-corpus oracle runs odak's own tests with every odak function wrapped by the same snapshot check.
"""
import json, os, subprocess, sys, time, traceback
from concurrent.futures import ThreadPoolExecutor
from harness import common
from harness.props import c20_snapshot as S

PROPS = ['C20_analysis_sound', 'C20_check_sound', 'C20_deep_unchanged', 'C20_session_unchanged', 'C20_repeat_call_same_result',
         'C20_rotate_point_shipped_refuted', 'C20_rotate_point_shipped_rejected', 'C20_rotate_point_repaired_holds',
         'C20_container_flow', 'C20_instance']


# ---------------------------------------------------------------- direct oracle 1: snapshot calls
def _build(inp):
    from harness.props import c20_recipes as RC
    name, variant, seed = inp['recipe'], inp['variant'], int(inp['seed'])
    g = RC.G(seed, variant)
    if name in RC.RECIPES:
        rec = RC.RECIPES[name]
        fn = S.resolve(name.split('#')[0])
        args, kwargs = rec['build'](g)
        return fn, fn, args, kwargs, rec['random'], name.split('#')[0]
    rec = RC.METHODS[name]
    cls = S.resolve(rec['cls'])
    if rec['method'] == '__init__':
        args, kwargs = rec['build'](g)
        return cls, cls.__init__, args, kwargs, rec['random'], rec['cls'] + '.__init__'
    ia, ik = rec['init'](g)
    S.reseed(seed)
    obj = cls(*ia, **ik)
    args, kwargs = rec['build'](g)
    bound = getattr(obj, rec['method'])
    return bound, getattr(cls, rec['method']), args, kwargs, rec['random'], rec['cls'] + '.' + rec['method']


def oracle_snapshot_call(inp):
    """Call the real function twice with the same argument objects.  Clauses:
       arguments_unchanged       every argument (deeply) is bit for bit what it was before the call
       defaults_unchanged        __defaults__ / __kwdefaults__ of every odak function are what they were
       second_call_same_result   the second call returns what the first returned (same RNG seed before each)"""
    target, func, args, kwargs, is_random, qual = _build(inp)
    before_args = S.snap((args, kwargs))
    before_def = S.snap_defaults()
    out = []
    S.reseed(int(inp['seed']))
    try:
        r1 = target(*args, **kwargs)
    except Exception as e:
        return qual, [('recipe_valid', None, 'a result', 'exception in first call: %r' % (e,))]
    s1 = S.snap(r1)
    d = S.diff(before_args, S.snap((args, kwargs)))
    out.append(('arguments_unchanged', d is None, 'arguments bit for bit as before the call', d))
    after_def = S.snap_defaults()
    bad = [q for q in before_def if before_def[q] != after_def.get(q)]
    out.append(('defaults_unchanged', not bad, 'default arguments as before the call',
                '; '.join('%s %s' % (q, S.diff(before_def[q], after_def.get(q))) for q in bad[:3]) if bad else None))
    S.reseed(int(inp['seed']))
    try:
        r2 = target(*args, **kwargs)
        d2 = S.diff(s1, S.snap(r2))
        out.append(('second_call_same_result', d2 is None, 'the result of the first call', d2))
    except Exception as e:
        out.append(('second_call_same_result', False, 'the result of the first call', 'exception in second call: %r' % (e,)))
    # restore default-argument objects a defective call may have changed, so that later cases start clean
    if bad:
        _restore_defaults()
    return qual, out


_PRISTINE = {}


def _remember_defaults():
    import copy
    for q, f in S.all_defaults().items():
        if f.__defaults__ or f.__kwdefaults__:
            _PRISTINE[q] = (copy.deepcopy(f.__defaults__), copy.deepcopy(f.__kwdefaults__))


def _restore_defaults():
    import copy
    for q, f in S.all_defaults().items():
        if q in _PRISTINE:
            d, k = _PRISTINE[q]
            f.__defaults__ = copy.deepcopy(d)
            f.__kwdefaults__ = copy.deepcopy(k)


ORACLES = {'snapshot_call': oracle_snapshot_call}


# ---------------------------------------------------------------- direct oracle 2: odak's own tests, instrumented
FAST_TESTS = ['test_catalog_thin_diffuser.py', 'test_catalog_plane_detector.py', 'test_catalog_plano_convex_lens.py', 'test_learn_gratings.py',
              'test_jones_linear_polarizer.py', 'test_learn_components.py', 'test_learn_models_convolutional_block_attention.py',
              'test_learn_perception_color_conversion.py', 'test_learn_perception_display_color_hvs.py', 'test_learn_perception_color_map.py',
              'test_learn_ray_create_ray_from_all_pairs.py', 'test_learn_ray_create_ray_from_two_points.py',
              'test_learn_ray_create_ray_from_grid_w_luminous_angle.py', 'test_learn_ray_create_ray_from_point_w_luminous_angle.py',
              'test_learn_ray_intersect_w_a_triangle.py', 'test_learn_ray_intersect_w_triangle_batch.py', 'test_learn_ray_refract_reflect.py',
              'test_learn_tools_losses.py', 'test_learn_tools_freeze_unfreeze.py', 'test_learn_tools_zero_pad_crop_center.py',
              'test_learn_tools_generate_2d_dirac_delta.py', 
              'test_measurement_modulation_transfer_function.py', 'test_ray_create_ray_from_two_points.py', 'test_ray_find_nearest_points.py',
              'test_ray_intersect_w_a_surface.py', 'test_ray_intersect_w_a_triangle.py', 'test_ray_intersect_w_sphere.py', 'test_tools_PLY.py',
              'test_tools_markdown.py', 'test_tools_save_image.py', 'test_tools_latex.py', 'test_wave_grating.py', 'test_wave_rayleigh_resolution.py',
              'test_fit_least_squeare_1d.py', 'test_learn_wave_get_point_wise_impulse_response_fresnel_kernel.py',
              'test_learn_wave_get_seperable_impulse_response_fresnel.py', 'test_learn_perception_image_quality_losses.py']


def oracle_test_corpus(inp):
    """Run one of odak's test files with every odak function wrapped by the snapshot check (subprocess)."""
    env = dict(os.environ, PYTHONPATH='%s:%s' % (common.REPO, common.VERIF), OMP_NUM_THREADS='1', MKL_NUM_THREADS='1', PYTHONWARNINGS='ignore')
    cmd = ['/venv/bin/python', os.path.join(common.VERIF, 'harness', 'props', 'c20_corpus.py'), common.REPO, inp['test'], str(inp.get('limit', 6)),
           str(inp.get('cpu', 0))]
    rc, out = common.sh(cmd, timeout=int(inp.get('timeout', 1800)), env=env)
    for line in out.split('\n'):
        if line.startswith('@@C20 '):
            o = json.loads(line[6:])
            o['timeout'] = bool(o.get('cpu_limit_hit'))
            return o
    return {'test': inp['test'], 'timeout': True, 'snapshots': 0, 'functions': [], 'violations': [], 'error': 'no result (rc=%s)' % rc}


ORACLES['test_corpus'] = oracle_test_corpus


# ---------------------------------------------------------------- the static side: translate, compile, check
def tables():
    from tracer.recipes import c20 as T
    return T


def static_analysis(ctx):
    """translate every function of the current tree, compile the IR, run the tie, read the verdicts"""
    import ast
    from tracer import mutir
    T = tables()
    from harness.props import c20_probe as PR
    T.PROBE = PR.classify_library          # library functions that are in no table are classified from an observation
    t0 = time.time()
    if not hasattr(T, 'MUTATING_NAMES_STATIC'):
        T.MUTATING_NAMES_STATIC = set(T.MUTATING_NAMES)
    T.MUTATING_NAMES = set(T.MUTATING_NAMES_STATIC)
    res = mutir.translate_all(common.REPO, T)
    # private helpers (module-level, underscore-prefixed) are not entry points: they are checked where they are called
    # (inlined; treated as writing everything when they cannot be inlined).  The names of those that do write a parameter
    # join the names that make an unresolvable call count as a write, and the tree is translated again with them.
    writers = sorted({r['name'].rsplit('.', 1)[1] for r in res if r.get('private') and not mutir.py_check(r['params'], r['prog'])[0]})
    if set(writers) - T.MUTATING_NAMES:
        T.MUTATING_NAMES = T.MUTATING_NAMES | set(writers)
        res = mutir.translate_all(common.REPO, T)
    ctx.extra['private_helpers'] = {r['name']: ('writes a parameter (by design; every call site is checked)' if r['name'].rsplit('.', 1)[1] in writers
                                                else 'writes nothing it is given') for r in res if r.get('private')}
    ctx.log('translated %d function / method definitions of %s/odak in %.1fs (%d IR statements)'
            % (len(res), common.REPO, time.time() - t0, sum(r['nstmts'] for r in res)))
    # independent count of definitions (module-level functions and methods of module-level classes)
    ndefs = 0
    for dp, dn, fn in os.walk(os.path.join(common.REPO, 'odak')):
        for f in fn:
            if f.endswith('.py'):
                try:
                    tree = ast.parse(open(os.path.join(dp, f)).read())
                except SyntaxError:
                    continue
                for n in tree.body:
                    if isinstance(n, ast.FunctionDef):
                        ndefs += 1
                    elif isinstance(n, ast.ClassDef):
                        ndefs += sum(1 for m in n.body if isinstance(m, ast.FunctionDef))
    names = [r['name'] for r in res]
    ctx.obligation('translator:covers-every-definition(%d)' % ndefs, ndefs == len(res) and len(set(names)) == len(names) and ndefs > 100,
                   'definitions found by an independent AST walk: %d, translated: %d, distinct names: %d' % (ndefs, len(res), len(set(names))))
    errs = [(r['name'], r['error']) for r in res if r['error']]
    ctx.obligation('translator:no-untranslatable-construct', not errs, '; '.join('%s: %s' % e for e in errs[:10]))
    # library calls that are in no committed table: classified from an observation of the real function under the call
    # shape used in the source (fresh / alias / write); a function that cannot be probed is treated as writing its
    # arguments (sound; if that makes a body unacceptable the checker-accepts obligation names it)
    probed = {}
    for r in res:
        probed.update(r['probed'])
    ctx.extra['library_calls_classified_by_probe'] = probed
    if probed:
        ctx.log('library calls outside the committed tables, classified by probing the real function: %s' % probed)
        ctx.assumptions.append('library functions not in the committed tables were classified from sample calls: %s' % probed)
    table_self_test(ctx, res)
    ctx.extra['unresolved_callees'] = sorted({u for r in res for u in r['unresolved']})
    ctx.extra['translator_notes'] = sorted({u for r in res for u in r['notes']})
    ctx.programs = len(res)

    # the committed table of functions that may be rejected
    excused = {}
    for i, r in enumerate(res):
        if r['name'] in T.DOCUMENTED_IN_PLACE:
            excused[i] = 'documented in place'
        elif r['file'] in T.OUT_OF_SCOPE_FILES:
            excused[i] = 'out of scope: ' + T.OUT_OF_SCOPE_FILES[r['file']]
        elif r.get('private'):
            excused[i] = 'private helper: not an entry point; checked at every call site (inlined into its callers)'
    # the docstring quotes of the documented in-place updates are still in the source
    for q, quote in T.DOCUMENTED_IN_PLACE.items():
        rr = [r for r in res if r['name'] == q]
        okq = False
        if rr:
            src = open(os.path.join(common.REPO, rr[0]['file'])).read()
            okq = quote in src
        ctx.obligation('documented-in-place:docstring-quote-present:%s' % q, okq, 'quote %r not found' % quote)

    parts, master = mutir.gen_files(res, 12)
    exp = ('From Coq Require Import List NArith.\nImport ListNotations.\nLocal Open Scope N_scope.\n'
           'Definition expected_rejected : list N := [%s].\n' % '; '.join('%d' % i for i in sorted(excused)))
    rs = ctx.coqc_many(parts + [('GenC20_expected', exp)], timeout=600)
    okparts = all(ok for ok, _ in rs)
    ctx.obligation('translator-output-compiles:GenC20 parts(%d)' % len(parts), okparts, '\n'.join(o[-600:] for ok, o in rs if not ok))
    verdicts = {}
    if okparts:
        ok, out = ctx.coqc('GenC20', master, 600)
        ctx.obligation('translator-output-compiles:GenC20', ok, out[-1500:])
        okparts = ok
    if okparts:
        # the committed tie file and the verdict evaluation are compiled side by side
        pre = 'From Coq Require Import List NArith.\nFrom OdakV Require Import C20.Model.\nFrom Run Require Import GenC20.\nImport ListNotations.'
        terms = ['map (fun f => (f_id f, fn_blame f)) (filter (fun f => negb (fn_ok f)) all_fns)', 'length all_fns']
        ev = '\n'.join(['Set Printing Width 1000000.', 'Set Printing Depth 1000000.', pre] + ['Eval vm_compute in (%s).' % t for t in terms]) + '\n'
        tie = open(os.path.join(common.COQ, 'tie', 'C20_TieA.v')).read()
        (okt, outt), (oke, oute) = ctx.coqc_many([('C20_TieA', tie), ('verdicts_0', ev)], timeout=900)
        ctx.obligation('tie:C20_TieA', okt, outt[-2500:])
        if okt:
            closed = outt.count('Closed under the global context')
            ctx.obligation('tie-axioms:C20_TieA', closed == 2, 'Print Assumptions output: %s' % outt[-600:])
        vals = common.parse_evals(oute) if oke else []
        ctx.obligation('coq-eval:verdicts', oke and len(vals) == 2, oute[-1500:])
        if len(vals) != 2:
            vals = [None, None]
        if vals[0] is not None:
            body = vals[0]
            rej = {}
            import re
            for m in re.finditer(r'\((\d+)%N, \[([^\]]*)\]\)|\((\d+)%N, nil\)', body):
                if m.group(1) is not None:
                    rej[int(m.group(1))] = [int(x) for x in re.findall(r'\d+', re.sub(r'%N', '', m.group(2)))]
                else:
                    rej[int(m.group(3))] = []
            n_all = common.parse_z(vals[1]) if vals[1] else -1
            ctx.obligation('coq:all_fns-has-every-function', n_all == len(res), 'Coq list has %s entries, translator produced %d' % (n_all, len(res)))
            verdicts = {i: (i not in rej) for i in range(len(res))}
            # cross-check with the reference implementation of the checker
            pyv = {i: mutir.py_check(r['params'], r['prog'])[0] for i, r in enumerate(res)}
            dis = [res[i]['name'] for i in verdicts if verdicts[i] != pyv[i]]
            ctx.obligation('self-check:coq-verdicts=reference-checker(%d)' % len(res), not dis, 'disagree on %s' % dis[:10])
            unexpected = [i for i in rej if i not in excused]
            for i in unexpected:
                r = res[i]
                blame = sorted({r['names'].get(v, '?') for v in rej[i]})
                ctx.obligation('checker-accepts:%s' % r['name'], False,
                               '%s:%d may modify an object that existed before the call: written variables %s' % (r['file'], r['line'], blame))
            ctx.obligation('checker-accepts:every function outside the committed table (%d accepted, %d excused)'
                           % (len(res) - len(rej), len([i for i in rej if i in excused])), not unexpected,
                           'rejected: %s' % [res[i]['name'] for i in unexpected])
            miss = sorted({res[i]['name'].rsplit('.', 1)[1] for i in rej} - set(T.MUTATING_NAMES))
            ctx.obligation('tables:MUTATING_NAMES-covers-rejected-functions', not miss, 'missing: %s' % miss)
            ctx.extra['rejected_functions'] = {res[i]['name']: {'why': excused.get(i, 'UNEXPECTED'), 'written': sorted({res[i]['names'].get(v, '?') for v in rej[i]})} for i in rej}
    return res, verdicts, excused


def table_self_test(ctx, res):
    """Every (library function | method name, call shape) that odak uses, with the class the translator gave it, is
    called on small fresh arrays / tensors of several dtypes (matching and non-matching): an entry classed `fresh` or
    `scalar` must never share memory with an operand nor write one; `alias` must never write."""
    from harness.props import c20_probe as PR
    t0 = time.time()
    lib, meth = set(), set()
    for r in res:
        lib |= {tuple(x) for x in r['libcalls']}
        meth |= {tuple(x) for x in r['methcalls']}
    bad, nprobed, unprobed = [], 0, []
    for d, npos, kw, cls in sorted(lib, key=repr):
        if d.split('.')[0] not in ('numpy', 'torch', 'copy'):
            continue
        p = PR.probe_library(d, npos, tuple(tuple(k) for k in kw))
        if p is None:
            unprobed.append(d)
            continue
        nprobed += 1
        ctx.case('table-self-test/library/%s' % cls, (d, npos, kw))
        if (p['writes'] and cls != 'write') or (p['aliases'] and cls in ('fresh', 'scalar')):
            bad.append('%s classed %s but observed %s: %s' % (d, cls, 'writing an argument' if p['writes'] else 'sharing memory with an argument', p['example']))
    for name, npos, kw, cls in sorted(meth, key=repr):
        if cls == 'scalar-receiver':
            continue
        p = PR.probe_method(name, npos, tuple(tuple(k) for k in kw))
        if p is None:
            unprobed.append('.' + name)
            continue
        nprobed += 1
        ctx.case('table-self-test/method/%s' % cls, (name, npos, kw))
        if (p['writes'] and cls != 'write') or (p['aliases'] and cls in ('fresh', 'scalar')):
            bad.append('.%s classed %s but observed %s: %s' % (name, cls, 'writing the receiver' if p['writes'] else 'sharing memory with the receiver', p['example']))
    ctx.obligation('tables:self-test(table class vs observed aliasing / writing; %d call shapes probed)' % nprobed, not bad and nprobed > 200, '; '.join(bad[:12]))
    ctx.extra['table_self_test'] = {'call_shapes_probed': nprobed, 'not_probeable': sorted(set(unprobed)), 'seconds': round(time.time() - t0, 1)}
    ctx.log('table self-test: %d call shapes probed in %.1fs, %d mismatches' % (nprobed, time.time() - t0, len(bad)))


# ---------------------------------------------------------------- running the oracles
def qualname_of(func):
    return '%s.%s' % (func.__module__, func.__qualname__)


def run_snapshot_calls(ctx, seeds, only=None, verdict_of=None):
    """returns {function qualname: {'calls': n, 'violations': n}}"""
    import contextlib, io, logging
    from harness.props import c20_recipes as RC
    T = tables()
    logging.disable(logging.CRITICAL)
    _remember_defaults()
    seen = {}
    names = list(RC.RECIPES) + list(RC.METHODS)
    for name in names:
        if only is not None and not only(name):
            continue
        for variant in RC.VARIANTS:
            for seed in seeds:
                inp = {'oracle': 'snapshot_call', 'recipe': name, 'variant': variant, 'seed': seed}
                sink = io.StringIO()
                try:
                    with contextlib.redirect_stderr(sink), contextlib.redirect_stdout(sink):
                        qual, res = oracle_snapshot_call(inp)
                        try:
                            func = _build(inp)[1]
                            qual = qualname_of(func)
                        except Exception:
                            pass
                except Exception as e:
                    ctx.extra.setdefault('recipe_errors', []).append('%s/%s: %r' % (name, variant, e))
                    continue
                st = seen.setdefault(qual, {'calls': 0, 'violations': 0})
                st['calls'] += 1
                is_random = (RC.RECIPES.get(name) or RC.METHODS.get(name))['random']
                bad = []
                for clause, ok, exp, obs in res:
                    if ok is None:
                        ctx.extra.setdefault('recipe_errors', []).append('%s/%s: %s' % (name, variant, obs))
                        continue
                    if clause == 'second_call_same_result' and is_random:
                        continue
                    if not ok:
                        bad.append((clause, exp, obs))
                ctx.case('snapshot/%s/%s' % (variant, 'mutated' if bad else 'unchanged'), (name, variant, seed))
                ctx.traces += 1
                if bad:
                    st['violations'] += 1
                    if qual in T.DOCUMENTED_IN_PLACE:
                        ctx.extra.setdefault('documented_in_place_observed', {})[qual] = bad[0][2]
                        continue
                    for clause, exp, obs in bad:
                        ctx.violation(qual, clause, inp, exp, obs)
                if len(ctx.samples) < 3 and variant == 'boundary':
                    ctx.sample({'oracle': 'snapshot_call', 'input': inp, 'function': qual, 'clauses': [(c, ok) for c, ok, _, _ in res]})
    logging.disable(logging.NOTSET)
    import shutil
    if RC._SCRATCH[0]:
        shutil.rmtree(RC._SCRATCH[0], ignore_errors=True)
        RC._SCRATCH[0] = None
    return seen


def run_corpus(ctx, tests, cpu, limit=6):
    """each file gets a CPU-time budget (not wall time: the result does not depend on the load of the machine)"""
    T = tables()
    seen = {}
    with ThreadPoolExecutor(max_workers=min(common.NCPU, 14)) as ex:
        outs = list(ex.map(lambda t: oracle_test_corpus({'test': 'test/' + t, 'cpu': cpu, 'limit': limit}), tests))
    nsnap = 0
    for o in outs:
        nsnap += o.get('snapshots', 0)
        ctx.case('corpus/%s' % ('timeout' if o.get('timeout') else 'ran'), o['test'], nontrivial=o.get('snapshots', 0) > 0)
        for q in o.get('functions', []):
            seen.setdefault(q, {'calls': 0, 'violations': 0})['calls'] += 1
        for v in o.get('violations', []):
            q = v['function']
            seen.setdefault(q, {'calls': 0, 'violations': 0})['violations'] += 1
            if q in T.DOCUMENTED_IN_PLACE:
                ctx.extra.setdefault('documented_in_place_observed', {})[q] = v['diff']
                continue
            ctx.violation(q, v['clause'], {'oracle': 'test_corpus', 'test': o['test'], 'function': q, 'cpu': cpu, 'limit': limit},
                          'arguments / defaults bit for bit as before the call', v['diff'])
    ctx.traces += nsnap
    incomplete = [o['test'] for o in outs if o.get('timeout')]
    ctx.extra['corpus'] = {'tests_selected': len(tests), 'tests_completed': len(tests) - len(incomplete), 'cpu_budget_s_per_file': cpu,
                           'snapshotted_calls': nsnap, 'not_completed': incomplete, 'functions_observed': len(seen)}
    if incomplete:
        ctx.assumptions.append('test-corpus oracle: %d of %d test files did not finish within their CPU budget (%d s) and were only partly observed: %s'
                               % (len(incomplete), len(tests), cpu, incomplete))
    return seen


def run(ctx):
    T = tables()
    ctx.rule = ('static: every function / method definition of odak/** is translated and checked inside Coq (a case = one definition; '
                'non-trivial = its IR contains at least one write statement or aliasing of a parameter). dynamic: every recipe of '
                'harness/props/c20_recipes.py is called twice in three variants (default arguments / explicit / boundary: non-default origins, '
                'zero sigmas, list-typed parameters) with deep bitwise snapshots of arguments, of the default-argument objects of ALL odak '
                'functions and of the result; odak\'s own tests are run with every odak function wrapped by the same snapshot check; '
                'distinct = distinct (recipe, variant, seed) or test file')
    ctx.trusted += ['tracer/mutir.py (AST -> IR translator: SSA, inlining, kinds) and the classification tables tracer/recipes/c20.py '
                    '(fresh / alias / load / mutate / store; parameter-kind overrides; documented in-place updates)',
                    'dynamic dispatch, callbacks and torch.nn.Module calls are not inlined: assumed not to write their arguments unless their '
                    'name is one of the rejected functions (compositional: every odak body is checked against its own parameters)',
                    'methods: the state of `self` is not an argument; attribute objects of self are treated as owned by the object',
                    'autograd graph state (.grad, backward) is outside the model; requires_grad flags are inside the dynamic snapshot',
                    'harness/props/c20_snapshot.py (bitwise snapshots), c20_recipes.py (valid-call recipes), c20_corpus.py (instrumentation)',
                    'numpy / torch / Python object model (which operations write in place, which return views) as classified in the tables; '
                    'cross-checked by the dynamic oracles only']
    ctx.gate()
    ctx.ensure_theories(['theories/C20/Props.vo'])
    ctx.theorems('OdakV.C20.Props', PROPS + ['C20_fn_ok_sound'])

    res, verdicts, excused = static_analysis(ctx)
    by_name = {r['name']: i for i, r in enumerate(res)}
    from tracer import mutir
    for i, r in enumerate(res):
        writes = len(mutir.mutated_vars(r['prog']))
        ctx.case('static/%s' % ('accepted' if verdicts.get(i, False) else ('excused' if i in excused else 'rejected')), r['name'], nontrivial=writes > 0)

    # ---- dynamic oracles on the real implementation
    seeds = [ctx.rng.randrange(10 ** 6) for _ in range(6 if ctx.thorough else 1)]
    t0 = time.time()
    seen = run_snapshot_calls(ctx, seeds)
    ctx.log('snapshot oracle: %d calls of %d functions in %.1fs' % (sum(v['calls'] for v in seen.values()), len(seen), time.time() - t0))
    t0 = time.time()
    tdir = os.path.join(common.REPO, 'test')
    alltests = sorted(f for f in os.listdir(tdir) if f.startswith('test_') and f.endswith('.py')) if os.path.isdir(tdir) else []
    if ctx.thorough:
        tests, cpu = alltests, 900
    else:
        tests, cpu = [t for t in FAST_TESTS if t in alltests], 60       # the same files for every seed
    seen2 = run_corpus(ctx, tests, cpu)
    ctx.log('test-corpus oracle: %d of %d test files completed, %d snapshotted calls of %d functions in %.1fs'
            % (ctx.extra['corpus']['tests_completed'], len(tests), ctx.extra['corpus']['snapshotted_calls'], len(seen2), time.time() - t0))

    # ---- B2 correspondence: what Coq concluded about the model agrees with what the implementation did
    observed = {}
    for d in (seen, seen2):
        for q, st in d.items():
            o = observed.setdefault(q, {'calls': 0, 'violations': 0})
            o['calls'] += st['calls']; o['violations'] += st['violations']
    if verdicts:
        wrong = [q for q, st in observed.items() if q in by_name and verdicts.get(by_name[q]) and st['violations'] > 0]
        ctx.obligation('correspondence:accepted-by-the-checker=>no-change-observed (%d functions observed, %d of them in the model)'
                       % (len(observed), sum(1 for q in observed if q in by_name)), not wrong,
                       'the checker accepts but the implementation changed an argument: %s' % wrong)
        silent = [q for q in T.DOCUMENTED_IN_PLACE if q in observed and observed[q]['violations'] == 0]
        ctx.obligation('correspondence:documented-in-place-updates-are-observed', not silent, 'never observed changing their argument: %s' % silent)
    ctx.extra['functions_called_by_oracles'] = len(observed)
    ctx.extra['functions_in_model'] = len(res)
    # `exhaustive` is not claimed: only the static side enumerates its whole domain (every definition under odak/);
    # the dynamic oracles sample calls
    ctx.extra['static_domain'] = 'static check: every function / method definition under odak/ (%d)' % len(res)
    ctx.assumptions += [
        'the AST->IR translation is faithful: SSA construction, inlining, kinds (parameters documented / defaulted as int, float, str, bool, '
        'torch.device are immutable values and are not tracked)',
        'classification tables of numpy / torch / builtin operations (tracer/recipes/c20.py); validated each run by the table self-test on '
        'sample operands (%s call shapes), not proved' % ctx.extra.get('table_self_test', {}).get('call_shapes_probed'),
        '%d distinct callees cannot be resolved statically (torch.nn.Module attributes, callbacks, plotting objects: see unresolved_callees); '
        'they are assumed not to write their arguments unless named like a rejected function; torch.nn activations constructed with '
        'inplace=True do write their input (in odak they are applied to freshly computed convolution outputs; observed by the recipes of the '
        'model components only)' % len(ctx.extra.get('unresolved_callees', [])),
        'the state of `self` is not an argument: an argument stored in an attribute by one call and written by a later call is outside the model '
        '(within one call, e.g. a constructor that stores and then writes its argument, it is covered)',
        'autograd graph state (.grad, backward) is outside the model',
        'valid arguments only: the call recipes (%d functions called) and odak\'s own tests define the calls observed dynamically' % (len(seen)),
    ]
    ctx.extra['seeds'] = seeds


def search(ctx):
    """Obligations broke without a failing input from run(): call the recipes of the rejected functions (and then
    all of them) with more seeds."""
    rejected = [n.split('checker-accepts:')[1] for n, ok, _ in ctx.obligations if not ok and n.startswith('checker-accepts:odak')]
    shorts = {q.rsplit('.', 1)[1] for q in rejected}
    seeds = [ctx.rng.randrange(10 ** 6) for _ in range(12)]
    if shorts:
        run_snapshot_calls(ctx, seeds, only=lambda name: name.split('#')[0].rsplit('.', 1)[1] in shorts or any(s in name for s in shorts))
    if not ctx.viol:
        run_snapshot_calls(ctx, seeds[:4])


def replay(ctx, rec):
    if rec.get('no_failing_input_found'):
        print('replay names broken obligations only:', json.dumps(rec['broken_obligations'])[:3000])
        return 1
    inp = dict(rec['input'])
    name = inp.get('oracle')
    if name == 'snapshot_call':
        _remember_defaults()
        qual, res = oracle_snapshot_call(inp)
        bad = [r for r in res if r[1] is False]
        for r in res:
            print(('FAIL ' if r[1] is False else 'ok   ') + r[0], '' if r[1] else 'expected=%s observed=%s' % (r[2], r[3]))
        return 1 if bad else 0
    if name == 'test_corpus':
        o = oracle_test_corpus(inp)
        vs = [v for v in o.get('violations', []) if v['function'] == inp.get('function')]
        for v in vs[:10]:
            print('FAIL %s %s: %s' % (v['function'], v['clause'], v['diff']))
        if not vs:
            print('ok   no change of an argument of %s observed in %s' % (inp.get('function'), inp['test']))
        return 1 if vs else 0
    print('unknown oracle', name)
    return 1
