"""C05 - model-free sweep over EVERY public entry point of the anchored files.

The property in its own words: for each differentiable entry point, the gradient autograd returns for a scalar objective
exists with respect to every tensor parameter, is finite, and equals the central finite difference at valid inputs away from
documented non-smooth points.  This module needs no model: it enumerates the public functions / methods of the anchored
files from the CURRENT source (ast), and requires for each of them either a call recipe (RECIPES) or a documented exclusion
(EXCLUDED).  An entry point with neither is an obligation failure (fail closed: a new function must be classified).

A recipe is a function rng -> Case (parameters, a valid point, a closure that calls the REAL odak function and returns a
tensor).  float64 is used where the function allows it, float32 otherwise (finite differences then carry the float-noise
allowance of harness.props.c05.central_difference)."""
import ast, math, os, random
import numpy as np
import torch
from tracer import shim
from tracer.recipes import c05 as R

ANCHORS = ['odak/learn/raytracing/ray.py', 'odak/learn/raytracing/boundary.py', 'odak/learn/raytracing/mesh.py',
           'odak/learn/wave/classical.py', 'odak/learn/wave/util.py', 'odak/learn/wave/propagators.py',
           'odak/learn/perception/color_conversion.py', 'odak/learn/tools/loss.py', 'odak/learn/wave/loss.py',
           'odak/learn/perception/image_quality_losses.py']


def entry_points():
    """keys `file:name` / `file:Class.method` of every public function and method in the current source"""
    out = []
    for rel in ANCHORS:
        path = os.path.join(shim.REPO, rel)
        tree = ast.parse(open(path).read())
        for n in tree.body:
            if isinstance(n, ast.FunctionDef) and not n.name.startswith('_'):
                out.append('%s:%s' % (rel, n.name))
            if isinstance(n, ast.ClassDef):
                for m in n.body:
                    if isinstance(m, ast.FunctionDef) and (not m.name.startswith('_') or m.name == '__call__'):
                        out.append('%s:%s.%s' % (rel, n.name, m.name))
    return out


class Case:
    """same surface as tracer.recipes.c05.Entry as far as harness.props.c05.real_objective / central_difference need it"""
    def __init__(s, name, params, point, real, dtype='f64', fd=True, fd_slack=1.0, note=''):
        s.name, s.group, s.params, s.point, s.real, s.dtype, s.fd, s.fd_slack, s.note = name, 'sweep', params, point, real, dtype, fd, fd_slack, note
        s.nvars = sum(int(np.prod(shp)) for _, shp in params)

    def env_of(s, point):
        out = []
        for p, shp in s.params:
            a = np.asarray(point[p], dtype=np.float64).reshape(shp)
            out += [float(a[idx]) for idx in np.ndindex(*shp)] if shp else [float(a)]
        return out


def U(rng, shp, lo, hi):
    return np.array([rng.uniform(lo, hi) for _ in range(int(np.prod(shp)))]).reshape(shp)


def unit(rng):
    v = np.array([rng.gauss(0, 1) for _ in range(3)]); return v / np.linalg.norm(v)


def cat(*xs):
    out = []
    for x in xs:
        if isinstance(x, (list, tuple)): out += [cat(*x)] if len(x) else []
        elif torch.is_complex(x): out += [x.real.reshape(-1), x.imag.reshape(-1)]
        else: out.append(x.reshape(-1))
    return torch.cat(out) if out else torch.zeros(0)


def lr(): import odak.learn.raytracing as m; return m
def lw(): import odak.learn.wave as m; return m
def lp(): import odak.learn.perception as m; return m
def lt(): import odak.learn.tools as m; return m


# ------------------------------------------------------------------ generators of valid geometry
def triangle(rng, centre=None):
    nrm = unit(rng); h = np.array([1., 0, 0]) if abs(nrm[0]) < 0.9 else np.array([0, 1., 0])
    e1 = np.cross(nrm, h); e1 /= np.linalg.norm(e1); e2 = np.cross(nrm, e1)
    c = U(rng, (3,), -1, 1) if centre is None else centre
    ang = sorted(rng.uniform(0, 2 * math.pi) for _ in range(3))
    while min(ang[1] - ang[0], ang[2] - ang[1], ang[0] + 2 * math.pi - ang[2]) < 0.8:
        ang = sorted(rng.uniform(0, 2 * math.pi) for _ in range(3))
    tri = np.array([c + rng.uniform(0.8, 1.2) * (math.cos(a) * e1 + math.sin(a) * e2) for a in ang])
    return tri, nrm, e1, e2


def ray_at(rng, tri, nrm, e1, e2):
    al, be = rng.uniform(0.2, 0.3), rng.uniform(0.2, 0.3)
    target = tri[0] + al * (tri[2] - tri[0]) + be * (tri[1] - tri[0])
    o = target + rng.choice([-1, 1]) * rng.uniform(1.5, 3) * (nrm + rng.uniform(-0.3, 0.3) * e1 + rng.uniform(-0.3, 0.3) * e2)
    d = target - o
    return np.stack([o, d / np.linalg.norm(d)])


def rays_dirs(rng, n):
    return np.stack([np.stack([U(rng, (3,), -1, 1), unit(rng)]) for _ in range(n)])


def cfield(rng, shp):
    mag, ang = U(rng, shp, 0.4, 1.4), U(rng, shp, -3, 3)
    return {'fr': mag * np.cos(ang), 'fi': mag * np.sin(ang)}


WAVE = dict(lam=0.55, dx=2.1, z=7.5)           # same units; |k z| small enough for float32 kernels
WK = 2 * math.pi / WAVE['lam']


# ------------------------------------------------------------------ recipes
def r_create_ray(direction):
    def f(rng):
        return Case('create_ray', [('xyz', (2, 3)), ('abg', (2, 3))], {'xyz': U(rng, (2, 3), -1, 1), 'abg': U(rng, (2, 3), 20, 160)},
                    lambda p: lr().create_ray(p['xyz'], p['abg'], direction=direction), dtype='f32')
    return f


def r_two_points(rng):
    a = U(rng, (2, 3), -1, 1)
    return Case('create_ray_from_two_points', [('a', (2, 3)), ('b', (2, 3))], {'a': a, 'b': a + np.stack([unit(rng), unit(rng)]) * 1.5},
                lambda p: lr().create_ray_from_two_points(p['a'], p['b']), dtype='f32')


def r_all_pairs(rng):
    return Case('create_ray_from_all_pairs', [('a', (2, 3)), ('b', (3, 3))], {'a': U(rng, (2, 3), -1, 0), 'b': U(rng, (3, 3), 0.5, 2)},
                lambda p: lr().create_ray_from_all_pairs(p['a'], p['b']), dtype='f32')


def r_lum_point(rng):
    draws = [[rng.uniform(0.05, 0.95) for _ in range(3)] for _ in range(2)]

    def real(p):
        with R.patched_rand(torch, draws):
            return lr().create_ray_from_point_w_luminous_angle(p['o'], 3, p['tl'], 30.)
    return Case('lum_point', [('o', (3,)), ('tl', (3,))], {'o': U(rng, (3,), -1, 1), 'tl': U(rng, (3,), -40, 40)}, real, dtype='f32')


def r_lum_grid(rng):
    draws = [[rng.uniform(0.05, 0.95) for _ in range(8)] for _ in range(2)]

    def real(p):
        with R.patched_rand(torch, draws):
            return lr().create_ray_from_grid_w_luminous_angle(p['c'], [1., 1.], [2, 2], p['tl'], 2, 30.)
    return Case('lum_grid', [('c', (3,)), ('tl', (3,))], {'c': U(rng, (3,), -1, 1), 'tl': U(rng, (3,), -40, 40)}, real, dtype='f32')


def r_propagate_ray(rng):
    return Case('propagate_ray', [('r', (2, 2, 3)), ('d', (2,))], {'r': rays_dirs(rng, 2), 'd': U(rng, (2,), -2, 2)},
                lambda p: lr().propagate_ray(p['r'], p['d']), dtype='f32')


def r_refract(rng):
    def one():
        n = unit(rng); d = unit(rng)
        while abs(d @ n) < 0.5: d = unit(rng)
        if d @ n < 0: d = -d
        return np.stack([U(rng, (3,), -1, 1), d]), np.stack([U(rng, (3,), -1, 1), n])
    a, b = one(), one()
    return Case('refract', [('v', (2, 2, 3)), ('n', (2, 2, 3))], {'v': np.stack([a[0], b[0]]), 'n': np.stack([a[1], b[1]])},
                lambda p: lr().refract(p['v'], p['n'], 1.0, 1.5, error=1e-6), dtype='f32', note='Newton loop run to float precision (error = 1e-6)')


def r_reflect(rng):
    return Case('reflect', [('r', (2, 2, 3)), ('n', (2, 2, 3))], {'r': rays_dirs(rng, 2), 'n': rays_dirs(rng, 2) * rng.uniform(0.6, 1.5)},
                lambda p: lr().reflect(p['r'], p['n']), dtype='f32')


def r_sphere(rng):
    rays = np.array([[[0.2, 0.1, -2.], [0., 0., 1.]], [[-0.3, 0.2, -2.], [0.05, 0., 1.]]]) + U(rng, (2, 2, 3), -0.02, 0.02)

    def real(p):
        torch.manual_seed(0)
        ir, inn, d, c = lr().intersect_w_sphere(p['r'], p['s'], number_of_steps=500, learning_rate=0.05, error_threshold=5e-2)
        if ir.shape[0] == 0: raise RuntimeError('recipe: the internal optimiser did not reach the sphere')
        return cat(ir, inn)
    return Case('intersect_w_sphere', [('r', (2, 2, 3)), ('s', (1, 4))], {'r': rays, 's': np.array([[0., 0., 0., 1.]])}, real, dtype='f32', fd=False,
                note='the hit distance is found by an internal AdamW loop on its own leaf: autograd differentiates at the frozen distance, so finite differences of the whole routine are not its reference; existence and finiteness only')


def r_tri(fn, ntri, nray):
    def f(rng):
        while True:
            tris, rays = [], []
            for k in range(ntri):
                t, n, e1, e2 = triangle(rng); tris.append(t)
                rays += [ray_at(rng, t, n, e1, e2) for _ in range(nray if ntri == 1 else 1)]
            rays = rays[:nray]
            # well conditioned for EVERY (triangle, ray) pair: not near parallel, hit point not near an edge (the flag would flip)
            ok = True
            for t in tris:
                nn = np.cross(t[0] - t[1], t[2] - t[1]); nn /= np.linalg.norm(nn)
                for r in rays:
                    nd = nn @ r[1]
                    if abs(nd) < 0.35: ok = False; continue
                    hit = r[0] + (nn @ (t[0] - r[0])) / nd * r[1]
                    v0, v1, v2 = t[2] - t[0], t[1] - t[0], hit - t[0]
                    al, be = np.linalg.solve(np.array([[v0 @ v0, v0 @ v1], [v0 @ v1, v1 @ v1]]), [v0 @ v2, v1 @ v2])
                    if abs(min(al, be, 1 - al - be)) < 0.08 or np.linalg.norm(hit) > 6: ok = False
            if ok: break
        tri = np.stack(tris) if ntri > 1 else tris[0]

        def real(p):
            res = getattr(lr(), fn)(p['r'], p['t'])
            return cat(*[x for x in res if isinstance(x, (torch.Tensor, list, tuple)) and not (isinstance(x, torch.Tensor) and x.dtype == torch.bool)])
        return Case(fn, [('r', (nray, 2, 3)), ('t', tri.shape)], {'r': np.stack(rays), 't': tri}, real, dtype='f32')
    return f


def r_normal(with_centre):
    def f(rng):
        tri = np.stack([triangle(rng)[0] for _ in range(2)])
        if with_centre:
            return Case('get_triangle_normal', [('t', (2, 3, 3)), ('c', (2, 3))], {'t': tri, 'c': U(rng, (2, 3), -1, 1)},
                        lambda p: lr().get_triangle_normal(p['t'], p['c']), dtype='f32')
        return Case('get_triangle_normal', [('t', (2, 3, 3))], {'t': tri}, lambda p: lr().get_triangle_normal(p['t']), dtype='f32')
    return f


def r_sphere_normal(rng):
    return Case('get_sphere_normal_torch', [('p', (2, 3)), ('s', (4,))], {'p': U(rng, (2, 3), 1, 2), 's': np.array([0.1, -0.2, 0.3, 1.])},
                lambda p: lr().get_sphere_normal_torch(p['p'], p['s']), dtype='f32')


def r_circle(rng):
    t, n, e1, e2 = triangle(rng)
    ray = ray_at(rng, t, n, e1, e2)[None]
    centre, radius = torch.tensor(t.mean(0), dtype=torch.float32), torch.tensor(5.0)      # centre and radius only select (boolean mask): no gradient by construction
    return Case('intersect_w_circle', [('r', (1, 2, 3)), ('t', (3, 3))], {'r': ray, 't': t},
                lambda p: cat(*lr().intersect_w_circle(p['r'], [p['t'], centre, radius])), dtype='f32')


MESH_RAYS = np.array([[[0.2, -0.1, 1.0], [0.05, 0.1, -0.99]], [[-0.2, 0.25, 1.5], [0.0, 0.05, -1.0]], [[-0.3, -0.2, 1.2], [0.1, 0.0, -1.0]]])


def r_mesh(method):
    def f(rng):
        h = np.array([[[0.02], [-0.03]], [[0.05], [0.01]]]) + U(rng, (2, 2, 1), -0.004, 0.004)

        def real(p):
            mesh = lr().planar_mesh(size=torch.tensor([1., 1.]), number_of_meshes=torch.tensor([2, 2]), heights=p['h'].detach().clone(),
                                    angles=torch.tensor([3., -4., 5.]), offset=torch.tensor([0.01, 0.02, 0.03]))
            real.leaf = mesh.heights
            if method == 'mirror':
                rays = torch.tensor(MESH_RAYS, dtype=torch.float32); rays[:, 1] = rays[:, 1] / rays[:, 1].norm(dim=1, keepdim=True)
                return cat(*mesh.mirror(rays))
            return getattr(mesh, method)()
        real.leaves = lambda: [real.leaf]
        return Case('planar_mesh.' + method, [('h', (2, 2, 1))], {'h': h}, real, dtype='f32')
    return f


def r_beam(method, zp=(True, False, True), shape=(6, 5)):
    def f(rng):
        H, W = shape
        kh, kw = (2 * H, 2 * W) if zp[0] else (H, W)
        kernel = torch.tensor(np.exp(1j * U(rng, (kh, kw), -3, 3)), dtype=torch.complex64) if method == 'custom' else None
        return Case('propagate_beam[%s]' % method, [('fr', shape), ('fi', shape)], cfield(rng, shape),
                    lambda p: lw().propagate_beam(torch.complex(p['fr'], p['fi']), WK, WAVE['z'], WAVE['dx'], WAVE['lam'], propagation_type=method, kernel=kernel,
                                                  zero_padding=list(zp), samples=[2, 2, 1, 1]), dtype='f32')
    return f


def r_direct(fn, **kw):
    """the per-method functions of classical.py called directly (not through the propagate_beam dispatcher)"""
    def f(rng):
        shape = (6, 5)
        return Case(fn, [('fr', shape), ('fi', shape)], cfield(rng, shape),
                    lambda p: getattr(lw(), fn)(torch.complex(p['fr'], p['fi']), WK, WAVE['z'], WAVE['dx'], WAVE['lam'], **kw), dtype='f32')
    return f


def r_custom(rng):
    shape = (6, 5)
    pt = cfield(rng, shape); k = cfield(rng, shape); pt.update({'kr': k['fr'], 'ki': k['fi'], 'ap': U(rng, shape, 0.3, 1.0)})
    return Case('custom', [('fr', shape), ('fi', shape), ('kr', shape), ('ki', shape), ('ap', shape)], pt,
                lambda p: lw().custom(torch.complex(p['fr'], p['fi']), torch.complex(p['kr'], p['ki']), aperture=p['ap']), dtype='f64')


def r_pointwise_kernel(rng):
    pt = {'ap': U(rng, (5, 3), -1, 1), 'tp': U(rng, (4, 3), -1, 1)}; pt.update(cfield(rng, (1, 5)))
    return Case('get_point_wise_impulse_response_fresnel_kernel', [('ap', (5, 3)), ('fr', (1, 5)), ('fi', (1, 5)), ('tp', (4, 3))], pt,
                lambda p: lw().get_point_wise_impulse_response_fresnel_kernel(p['ap'], torch.complex(p['fr'], p['fi']), p['tp'], [2, 2], wavelength=0.5, distance=10.), dtype='f64')


def r_gs(rng):
    shape = (6, 6)
    return Case('gerchberg_saxton', [('fr', shape), ('fi', shape)], cfield(rng, shape),
                lambda p: cat(*lw().gerchberg_saxton(torch.complex(p['fr'], p['fi']), 2, WAVE['z'], WAVE['dx'], WAVE['lam'], propagation_type='Transfer Function Fresnel')), dtype='f32', fd_slack=2.0)


def r_point_wise(rng):
    return Case('point_wise', [('t', (6, 6))], {'t': U(rng, (6, 6), 0.2, 0.9)},
                lambda p: lw().point_wise(p['t'], WAVE['lam'], WAVE['z'], WAVE['dx'], 'cpu', lens_size=3), dtype='f32')


def r_double_phase(rng):
    return Case('shift_w_double_phase', [('ph', (6, 6))], {'ph': U(rng, (6, 6), -3, 3)},
                lambda p: lw().shift_w_double_phase(p['ph'], WAVE['z'], WAVE['dx'], WAVE['lam']), dtype='f32')


def r_util(fn):
    def f(rng):
        shp = (2, 3)
        if fn == 'wavenumber':
            return Case(fn, [('w', (3,))], {'w': U(rng, (3,), 0.4, 0.7)}, lambda p: lw().wavenumber(p['w']))
        if fn == 'generate_complex_field':
            return Case(fn, [('am', shp), ('ph', shp)], {'am': U(rng, shp, 0.3, 1.5), 'ph': U(rng, shp, -3, 3)}, lambda p: lw().generate_complex_field(p['am'], p['ph']))
        if fn == 'set_amplitude':
            pt = cfield(rng, shp); pt['am'] = U(rng, shp, 0.3, 1.5)
            return Case(fn, [('fr', shp), ('fi', shp), ('am', shp)], pt, lambda p: lw().set_amplitude(torch.complex(p['fr'], p['fi']), p['am']))
        g = getattr(lw(), fn)
        if fn == 'calculate_phase':
            return Case(fn, [('fr', shp), ('fi', shp)], cfield(rng, shp), lambda p: cat(g(torch.complex(p['fr'], p['fi'])), g(torch.complex(p['fr'], p['fi']), deg=True)))
        return Case(fn, [('fr', shp), ('fi', shp)], cfield(rng, shp), lambda p: g(torch.complex(p['fr'], p['fi'])))
    return f


def make_prop(ptype, method='Bandlimited Angular Spectrum', frames=1, mode='conventional'):
    return lw().propagator(resolution=[6, 5], wavelengths=[WAVE['lam'], WAVE['lam'] * 1.2], pixel_pitch=WAVE['dx'], number_of_frames=frames,
                           number_of_depth_layers=2, volume_depth=2.0, image_location_offset=WAVE['z'], propagation_type=method,
                           propagator_type=ptype, back_and_forth_distance=20., aperture_samples=[2, 2, 1, 1], method=mode)


def r_prop_call(ptype):
    def f(rng):
        shape = (6, 5)

        def real(p):
            P = make_prop(ptype); u = torch.complex(p['fr'], p['fi'])
            return cat(P(u, 0, 1), P(u, 0, 1), P(u, 1, 0))          # first call, cached call, another key
        return Case('propagator.__call__', [('fr', shape), ('fi', shape)], cfield(rng, shape), real, dtype='f32')
    return f


def r_prop_reconstruct(rng):
    shape = (2, 6, 5)

    def real(p):
        P = make_prop('forward', frames=2)
        return cat(P.reconstruct(p['ph'], amplitude=p['am'], no_grad=False), P.reconstruct(p['ph'], amplitude=p['am'], no_grad=False, get_complex=True))
    return Case('propagator.reconstruct', [('ph', shape), ('am', shape)], {'ph': U(rng, shape, -3, 3), 'am': U(rng, shape, 0.4, 1.2)}, real, dtype='f32')


def r_laser_powers(rng):
    def real(p):
        P = make_prop('forward', frames=2, mode='multi-color'); P.set_laser_powers(p['cp'])
        return P.get_laser_powers()
    return Case('propagator.get_laser_powers', [('cp', (2, 2))], {'cp': U(rng, (2, 2), 0.2, 1.2)}, real, dtype='f32')


COLOUR4 = ['rgb_2_ycrcb', 'ycrcb_2_rgb', 'rgb_to_linear_rgb', 'linear_rgb_to_rgb', 'linear_rgb_to_xyz', 'xyz_to_linear_rgb', 'rgb_to_hsv', 'hsv_to_rgb', 'srgb_to_lab', 'lab_to_srgb']


def r_colour(fn, batched):
    def f(rng):
        shp = (2, 3, 2, 2) if batched else (3, 2, 2)
        x = U(rng, shp, 0.1, 0.9)
        if fn == 'rgb_to_hsv':                             # keep the channels apart (ties of max / min are non-smooth)
            x = np.moveaxis(np.stack([U(rng, shp[:-3] + shp[-2:], lo, lo + 0.15) for lo in rng.sample([0.1, 0.4, 0.7], 3)], 0), 0, -3)
        if fn == 'hsv_to_rgb':
            x = np.moveaxis(x, -3, 0); x[0] = (np.floor(U(rng, x[0].shape, 0, 6)) + U(rng, x[0].shape, 0.2, 0.8)) * math.pi / 3; x = np.moveaxis(x, 0, -3)
        if fn == 'lab_to_srgb':
            x = lp().srgb_to_lab(torch.tensor(U(rng, shp, 0.15, 0.85), dtype=torch.float32)).numpy().astype(np.float64)
        return Case(fn, [('x', shp)], {'x': x}, lambda p: getattr(lp(), fn)(p['x']), dtype='f32')
    return f


def r_color_map(rng):
    tgt = torch.tensor(U(rng, (3, 4, 5), 0.15, 0.85), dtype=torch.float32)
    return Case('color_map', [('x', (3, 4, 5))], {'x': U(rng, (3, 4, 5), 0.15, 0.85)}, lambda p: lp().color_map(p['x'], tgt), dtype='f32', fd_slack=2.0)


def hvs():
    from odak.learn.perception.color_conversion import display_color_hvs
    g = torch.Generator().manual_seed(3)
    return display_color_hvs(resolution=[4, 4], primaries_spectrum=torch.rand(3, 301, generator=g))


def r_hvs(method):
    def f(rng):
        shp = (1, 3, 2, 2)
        d = hvs()
        if method == '__call__':
            return Case('display_color_hvs.__call__', [('x', shp), ('y', shp)], {'x': U(rng, shp, 0.1, 0.9), 'y': U(rng, shp, 0.1, 0.9)}, lambda p: d(p['x'], p['y']), dtype='f32')
        return Case('display_color_hvs.' + method, [('x', shp)], {'x': U(rng, shp, 0.1, 0.9)}, lambda p: getattr(d, method)(p['x']).float(), dtype='f32')
    return f


def r_loss(fn):
    def f(rng):
        T = lt()
        if fn == 'multi_scale_total_variation_loss':
            return Case(fn, [('x', (8, 8))], {'x': U(rng, (8, 8), 0, 1)}, lambda p: T.multi_scale_total_variation_loss(p['x'], levels=3))
        if fn == 'total_variation_loss':
            return Case(fn, [('x', (1, 2, 4, 3))], {'x': U(rng, (1, 2, 4, 3), 0, 1)}, lambda p: T.total_variation_loss(p['x']))
        if fn == 'radial_basis_function':
            return Case(fn, [('x', (5,))], {'x': U(rng, (5,), -2, 2)}, lambda p: T.radial_basis_function(p['x'], epsilon=0.7))
        if fn == 'histogram_loss':
            return Case(fn, [('x', (1, 2, 4, 4))], {'x': U(rng, (1, 2, 4, 4), 0, 1)}, lambda p: T.histogram_loss(p['x'], torch.full((1, 2, 4, 4), 0.3, dtype=p['x'].dtype), bins=4), dtype='f32')
        if fn in ('weber_contrast', 'michelson_contrast'):
            return Case(fn, [('x', (3, 6, 6))], {'x': U(rng, (3, 6, 6), 0.2, 0.9)}, lambda p: getattr(T, fn)(p['x'], [0, 3, 0, 3], [3, 6, 2, 6]))
        if fn == 'wrapped_mean_squared_error':
            return Case(fn, [('x', (2, 3)), ('y', (2, 3))], {'x': U(rng, (2, 3), -3, 3), 'y': U(rng, (2, 3), -3, 3)},
                        lambda p: cat(T.wrapped_mean_squared_error(p['x'], p['y']), T.wrapped_mean_squared_error(p['x'], p['y'], reduction='sum')))
        raise KeyError(fn)
    return f


def r_wave_loss(which):
    def f(rng):
        from odak.learn.wave import loss as L
        if which.startswith('phase_gradient'):
            obj = L.phase_gradient()
            m = which.split('.')[1]
            return Case(which, [('x', (1, 1, 6, 6))], {'x': U(rng, (1, 1, 6, 6), -3, 3)}, lambda p: getattr(obj, m)(p['x']), dtype='f32')
        if which.startswith('speckle_contrast'):
            obj = L.speckle_contrast(kernel_size=3, step_size=(1, 1))
            m = which.split('.')[1]
            return Case(which, [('x', (1, 1, 6, 6))], {'x': U(rng, (1, 1, 6, 6), 0.2, 1.5)}, lambda p: getattr(obj, m)(p['x']), dtype='f32')
        g = np.random.default_rng(11)
        img = torch.tensor(g.uniform(0.1, 0.9, (3, 8, 8)), dtype=torch.float32); depth = torch.tensor(g.uniform(0, 1, (8, 8)), dtype=torch.float32)
        cls = getattr(L, which.split('.')[0])
        obj = cls(img, depth, target_blur_size=3, number_of_planes=3)
        shp = (3, 8, 8)
        x = U(rng, shp, 0.3, 0.7)
        y = x + U(rng, shp, 0.05, 0.25) * np.where(U(rng, shp, 0, 1) < 0.5, -1.0, 1.0)        # away from x = y (kink of the L1 terms)
        return Case(which, [('x', shp), ('y', shp)], {'x': x, 'y': y},
                    lambda p: cat(obj(p['x'], p['y']), obj(p['x'], p['y'], plane_id=1)), dtype='f32')
    return f


def r_quality(which):
    def f(rng):
        from odak.learn.perception import image_quality_losses as Q
        obj = getattr(Q, which)()
        shp = (1, 3, 16, 16) if which != 'PSNR' else (2, 3)
        if which == 'MSSSIM': shp = (1, 3, 192, 192)
        dt = 'f64' if which == 'PSNR' else 'f32'
        return Case(which + '.forward', [('x', shp)], {'x': U(rng, shp, 0.1, 0.9)}, (lambda y: lambda p: obj(p['x'], y.to(p['x'].dtype)))(torch.tensor(U(rng, shp, 0.1, 0.9))), dtype=dt)
    return f


C, B, Ms, W_, Ut, Pr, Cc, Tl, Wl, Q_ = ANCHORS
RECIPES = {
    C + ':create_ray': [r_create_ray(False), r_create_ray(True)],
    C + ':create_ray_from_two_points': [r_two_points],
    C + ':create_ray_from_all_pairs': [r_all_pairs],
    C + ':create_ray_from_grid_w_luminous_angle': [r_lum_grid],
    C + ':create_ray_from_point_w_luminous_angle': [r_lum_point],
    C + ':propagate_ray': [r_propagate_ray],
    B + ':refract': [r_refract], B + ':reflect': [r_reflect], B + ':intersect_w_sphere': [r_sphere],
    B + ':intersect_w_triangle': [r_tri('intersect_w_triangle', 1, 2)], B + ':intersect_w_triangle_batch': [r_tri('intersect_w_triangle_batch', 2, 2)],
    B + ':intersect_w_surface': [r_tri('intersect_w_surface', 1, 2)], B + ':intersect_w_surface_batch': [r_tri('intersect_w_surface_batch', 2, 2)],
    B + ':get_triangle_normal': [r_normal(False), r_normal(True)], B + ':get_sphere_normal_torch': [r_sphere_normal], B + ':intersect_w_circle': [r_circle],
    Ms + ':planar_mesh.get_squares': [r_mesh('get_squares')], Ms + ':planar_mesh.get_triangles': [r_mesh('get_triangles')], Ms + ':planar_mesh.mirror': [r_mesh('mirror')],
    W_ + ':propagate_beam': [r_beam(m) for m in ('Angular Spectrum', 'Bandlimited Angular Spectrum', 'Transfer Function Fresnel', 'Impulse Response Fresnel',
                                                'Seperable Impulse Response Fresnel', 'Fraunhofer', 'custom', 'Incoherent Angular Spectrum')] + [r_beam('Bandlimited Angular Spectrum', (True, True, True))],
    W_ + ':fraunhofer': [r_direct('fraunhofer')], W_ + ':custom': [r_custom],
    W_ + ':seperable_impulse_response_fresnel': [r_direct('seperable_impulse_response_fresnel', samples=[2, 2, 1, 1])],
    W_ + ':impulse_response_fresnel': [r_direct('impulse_response_fresnel', samples=[2, 2, 1, 1])],
    W_ + ':transfer_function_fresnel': [r_direct('transfer_function_fresnel')], W_ + ':angular_spectrum': [r_direct('angular_spectrum')],
    W_ + ':incoherent_angular_spectrum': [r_direct('incoherent_angular_spectrum')], W_ + ':band_limited_angular_spectrum': [r_direct('band_limited_angular_spectrum', zero_padding=True)],
    W_ + ':get_point_wise_impulse_response_fresnel_kernel': [r_pointwise_kernel],
    W_ + ':gerchberg_saxton': [r_gs], W_ + ':point_wise': [r_point_wise], W_ + ':shift_w_double_phase': [r_double_phase],
    Ut + ':wavenumber': [r_util('wavenumber')], Ut + ':calculate_phase': [r_util('calculate_phase')], Ut + ':calculate_amplitude': [r_util('calculate_amplitude')],
    Ut + ':set_amplitude': [r_util('set_amplitude')], Ut + ':generate_complex_field': [r_util('generate_complex_field')],
    Pr + ':propagator.__call__': [r_prop_call('forward'), r_prop_call('back and forth')], Pr + ':propagator.reconstruct': [r_prop_reconstruct],
    Pr + ':propagator.get_laser_powers': [r_laser_powers],
    Cc + ':color_map': [r_color_map],
    Cc + ':display_color_hvs.__call__': [r_hvs('__call__')], Cc + ':display_color_hvs.primaries_to_lms': [r_hvs('primaries_to_lms')],
    Cc + ':display_color_hvs.lms_to_primaries': [r_hvs('lms_to_primaries')], Cc + ':display_color_hvs.second_to_third_stage': [r_hvs('second_to_third_stage')],
    Wl + ':phase_gradient.forward': [r_wave_loss('phase_gradient.forward')], Wl + ':phase_gradient.functional_conv2d': [r_wave_loss('phase_gradient.functional_conv2d')],
    Wl + ':speckle_contrast.forward': [r_wave_loss('speckle_contrast.forward')], Wl + ':speckle_contrast.functional_conv2d': [r_wave_loss('speckle_contrast.functional_conv2d')],
    Wl + ':multiplane_loss.__call__': [r_wave_loss('multiplane_loss.__call__')], Wl + ':perceptual_multiplane_loss.__call__': [r_wave_loss('perceptual_multiplane_loss.__call__')],
    Q_ + ':PSNR.forward': [r_quality('PSNR')],
}
for _fn in COLOUR4:
    RECIPES[Cc + ':' + _fn] = [r_colour(_fn, False), r_colour(_fn, True)]
for _fn in ('multi_scale_total_variation_loss', 'total_variation_loss', 'radial_basis_function', 'histogram_loss', 'weber_contrast', 'michelson_contrast', 'wrapped_mean_squared_error'):
    RECIPES[Tl + ':' + _fn] = [r_loss(_fn)]

_KB = 'kernel builder: takes python scalars (sizes, pitch, wavelength, distance), no tensor parameter of the property; its output enters the propagators as a constant'
_SETUP = 'object set-up / bookkeeping: no tensor parameter flows to a returned tensor'
_EXT = 'delegates to the optional external package torchmetrics (and returns the constant 0.0 when it is missing, as here): not odak code'
EXCLUDED = {
    Q_ + ':SSIM.forward': _EXT, Q_ + ':MSSSIM.forward': _EXT,
    Ms + ':planar_mesh.init_heights': _SETUP, Ms + ':planar_mesh.save_heights': 'file output', Ms + ':planar_mesh.save_heights_as_PLY': 'file output',
    W_ + ':get_propagation_kernel': _KB, W_ + ':get_light_kernels': _KB, W_ + ':get_impulse_response_fresnel_kernel': _KB,
    W_ + ':get_seperable_impulse_response_fresnel_kernel': _KB, W_ + ':get_transfer_function_fresnel_kernel': _KB, W_ + ':get_angular_spectrum_kernel': _KB,
    W_ + ':get_incoherent_angular_spectrum_kernel': _KB, W_ + ':get_band_limited_angular_spectrum_kernel': _KB,
    W_ + ':stochastic_gradient_descent': 'an optimiser: creates its own leaf (randn_like) and returns the optimised hologram; the target only enters the loss it minimises (covered by C07)',
    Pr + ':propagator.init_distances': _SETUP, Pr + ':propagator.init_kernels': _SETUP, Pr + ':propagator.init_channel_power': _SETUP, Pr + ':propagator.init_phase_scale': _SETUP,
    Pr + ':propagator.set_aperture': _SETUP, Pr + ':propagator.set_laser_powers': _SETUP + ' (exercised by the get_laser_powers recipe)',
    Pr + ':propagator.get_kernels': 'returns the cached kernels (constants); no parameter',
    Cc + ':display_color_hvs.initialize_cones_normalized': _SETUP, Cc + ':display_color_hvs.initialize_rgb_backlight_spectrum': _SETUP,
    Cc + ':display_color_hvs.initialize_random_spectrum_normalized': 'curve fit with its own L-BFGS leaf; returns a detached spectrum by design',
    Cc + ':display_color_hvs.display_spectrum_response': 'returns a python float', Cc + ':display_color_hvs.cone_response_to_spectrum': 'returns a python float',
    Cc + ':display_color_hvs.construct_matrix_lms': _SETUP, Cc + ':display_color_hvs.construct_matrix_primaries': _SETUP,
    Wl + ':multiplane_loss.get_targets': 'returns detached copies of the targets by design', Wl + ':multiplane_loss.set_targets': _SETUP, Wl + ':multiplane_loss.add_defocus_blur': _SETUP,
    Wl + ':perceptual_multiplane_loss.get_targets': 'returns detached copies of the targets by design', Wl + ':perceptual_multiplane_loss.set_targets': _SETUP,
    Wl + ':perceptual_multiplane_loss.add_defocus_blur': _SETUP,
}


def classify():
    """(entry points of the current source, those with neither a recipe nor an exclusion, recipe keys that no longer exist)"""
    eps = entry_points()
    missing = [k for k in eps if k not in RECIPES and k not in EXCLUDED]
    stale = [k for k in list(RECIPES) + list(EXCLUDED) if k not in eps]
    return eps, missing, stale


def build(key, variant, seed):
    return RECIPES[key][variant](random.Random(seed))


# ================================================================== call sequences on ONE stateful object
# The anchored files have objects that keep tensors between calls (planar_mesh: heights / triangles; propagator: kernel cache,
# distances; the loss objects: targets, masks, filter kernels; display_color_hvs: cone matrices).  A valid use is a SEQUENCE of
# objectives on one object, each back-propagated on its own with a plain backward (no retain_graph) before the parameters change
# (gradient accumulation over ray batches, a regulariser followed by a data term, several planes of one propagator).  For every
# objective of such a sequence the oracle requires: no exception, a finite gradient, and the same gradient a FRESH object gives
# for that objective alone (the fresh-object gradients are the ones the sweep compares with central differences).
class Seq:
    def __init__(s, name, fresh, objectives, note=''):
        s.name, s.fresh, s.objectives, s.note = name, fresh, objectives, note      # objectives: [(label, fn(obj, leaves) -> scalar, [compare leaf k with fresh?])]


def q_mesh(rng):
    h = np.array([[[0.02], [-0.03]], [[0.05], [0.01]]]) + U(rng, (2, 2, 1), -0.004, 0.004)
    rays = torch.tensor(MESH_RAYS, dtype=torch.float32); rays[:, 1] = rays[:, 1] / rays[:, 1].norm(dim=1, keepdim=True)
    w = torch.tensor(U(rng, (2, 3), 0.5, 1.5), dtype=torch.float32)

    def fresh():
        mesh = lr().planar_mesh(size=torch.tensor([1., 1.]), number_of_meshes=torch.tensor([2, 2]), heights=torch.tensor(h, dtype=torch.float32),
                                angles=torch.tensor([3., -4., 5.]), offset=torch.tensor([0.01, 0.02, 0.03]))
        return mesh, [mesh.heights]

    def smooth(mesh, lv):
        t = mesh.get_triangles()
        return ((t[:, 0, 2] - t[:, 1, 2]) ** 2).sum() + ((t[:, 1, 2] - t[:, 2, 2]) ** 2).sum()

    def ray_term(sel):
        def f(mesh, lv):
            rr, nn = mesh.mirror(rays[sel])
            if rr.shape[0] == 0: raise RuntimeError('recipe: no ray hits the mesh')
            return (rr * w).sum() + (nn[:, 1] * w[1]).sum()
        return f
    return Seq('planar_mesh', fresh, [('smoothness of get_triangles', smooth, [True]), ('mirror rays 0-1', ray_term(slice(0, 2)), [True]),
                                      ('mirror rays 1-2', ray_term(slice(1, 3)), [True]), ('get_squares', lambda m, lv: (m.get_squares() ** 2).sum(), [True]),
                                      ('mirror rays 0-1 again', ray_term(slice(0, 2)), [True])])


def q_propagator(ptype, method):
    def f(rng):
        shape = (6, 5)
        am, ph = U(rng, shape, 0.4, 1.2), U(rng, shape, -3, 3)

        def fresh():
            return make_prop(ptype, method), [torch.tensor(am, dtype=torch.float32, requires_grad=True), torch.tensor(ph, dtype=torch.float32, requires_grad=True)]

        def planes(*keys):
            def g(P, lv):
                u = lw().generate_complex_field(lv[0], lv[1])
                return sum(((P(u, c, d).abs() ** 2) * (1 + c + 2 * d)).sum() for c, d in keys)
            return g
        return Seq('propagator[%s, %s]' % (ptype, method), fresh,
                   [('plane (0,1), kernel generated', planes((0, 1)), [True, True]), ('plane (0,1), from the cache', planes((0, 1)), [True, True]),
                    ('cached (0,1) and first request of (1,0) in one graph', planes((0, 1), (1, 0)), [True, True]),
                    ('cached (1,0), cached (0,1) and first request of (0,0) in one graph', planes((1, 0), (0, 1), (0, 0)), [True, True]),
                    ('plane (0,0), from the cache', planes((0, 0)), [True, True])])
    return f


def q_propagator_distances(rng):
    shape = (6, 5)
    ph = U(rng, shape, -3, 3)
    dist = [WAVE['z'], WAVE['z'] * 1.3]

    def fresh():
        d = torch.tensor(dist, dtype=torch.float32, requires_grad=True)
        P = lw().propagator(resolution=[6, 5], wavelengths=[WAVE['lam']], pixel_pitch=WAVE['dx'], number_of_frames=1, distances=d,
                            propagation_type='Impulse Response Fresnel', propagator_type='forward', aperture_samples=[2, 2, 1, 1])
        return P, [torch.tensor(ph, dtype=torch.float32, requires_grad=True), d]

    def plane(dp):
        def g(P, lv):
            return (P(lw().generate_complex_field(1., lv[0]), 0, dp).abs() ** 2).sum()
        return g
    # the cache holds DETACHED kernels by design: a cached call has no gradient w.r.t. the distances, so only the phase gradient is compared there
    return Seq('propagator[learnable distances, Impulse Response Fresnel]', fresh,
               [('plane 0, kernel generated', plane(0), [True, True]), ('plane 0, from the cache', plane(0), [True, False]), ('plane 0, from the cache again', plane(0), [True, False]),
                ('plane 1, kernel generated', plane(1), [True, True]), ('plane 1, from the cache', plane(1), [True, False])],
               note='distances is a tensor that requires grad')


def q_object(name, make, shape, lo, hi, call=None, nin=1):
    def f(rng):
        xs = [U(rng, shape, lo, hi) for _ in range(nin)]
        if nin == 2: xs[1] = xs[0] + U(rng, shape, 0.05, 0.25) * np.where(U(rng, shape, 0, 1) < 0.5, -1.0, 1.0)
        w = [rng.uniform(0.5, 1.5) for _ in range(3)]

        def fresh():
            return make(), [torch.tensor(x, dtype=torch.float32, requires_grad=True) for x in xs]

        def obj(k):
            def g(o, lv):
                r = call(o, lv) if call else o(*lv)
                return (cat(r) * w[k]).sum() if isinstance(r, (list, tuple)) or r.numel() > 1 else r * w[k]
            return g
        return Seq(name, fresh, [('call %d' % (k + 1), obj(k), [True] * nin) for k in range(3)])
    return f


def _mp(cls):
    def make():
        from odak.learn.wave import loss as L
        g = np.random.default_rng(11)
        return getattr(L, cls)(torch.tensor(g.uniform(0.1, 0.9, (3, 8, 8)), dtype=torch.float32), torch.tensor(g.uniform(0, 1, (8, 8)), dtype=torch.float32), target_blur_size=3, number_of_planes=3)
    return make


def _wl(cls, **kw):
    def make():
        from odak.learn.wave import loss as L
        return getattr(L, cls)(**kw)
    return make


SEQUENCES = {
    'planar_mesh': q_mesh,
    'propagator_forward_bl': q_propagator('forward', 'Bandlimited Angular Spectrum'),
    'propagator_back_and_forth_tf': q_propagator('back and forth', 'Transfer Function Fresnel'),
    'propagator_forward_ir': q_propagator('forward', 'Impulse Response Fresnel'),
    'propagator_learnable_distances': q_propagator_distances,
    'multiplane_loss': q_object('multiplane_loss', _mp('multiplane_loss'), (3, 8, 8), 0.3, 0.7, call=lambda o, lv: o(lv[0], lv[1], plane_id=1), nin=2),
    'perceptual_multiplane_loss': q_object('perceptual_multiplane_loss', _mp('perceptual_multiplane_loss'), (3, 8, 8), 0.3, 0.7, call=lambda o, lv: o(lv[0], lv[1], plane_id=1), nin=2),
    'phase_gradient': q_object('phase_gradient', _wl('phase_gradient'), (1, 1, 6, 6), -3, 3),
    'speckle_contrast': q_object('speckle_contrast', _wl('speckle_contrast', kernel_size=3, step_size=(1, 1)), (1, 1, 6, 6), 0.2, 1.5),
    'display_color_hvs': q_object('display_color_hvs', hvs, (1, 3, 2, 2), 0.1, 0.9, nin=2),
}
# classes of the anchored files whose instances keep tensors between calls; each needs a sequence recipe (fail closed)
STATEFUL = {'planar_mesh': ['planar_mesh'], 'propagator': ['propagator_forward_bl', 'propagator_back_and_forth_tf', 'propagator_forward_ir', 'propagator_learnable_distances'],
            'multiplane_loss': ['multiplane_loss'], 'perceptual_multiplane_loss': ['perceptual_multiplane_loss'], 'phase_gradient': ['phase_gradient'],
            'speckle_contrast': ['speckle_contrast'], 'display_color_hvs': ['display_color_hvs']}
STATELESS = {'PSNR': 'no attribute', 'SSIM': 'no attribute; delegates to torchmetrics', 'MSSSIM': 'no attribute; delegates to torchmetrics'}


def classes():
    out = []
    for rel in ANCHORS:
        for n in ast.parse(open(os.path.join(shim.REPO, rel)).read()).body:
            if isinstance(n, ast.ClassDef): out.append(n.name)
    return out


def build_sequence(name, seed):
    return SEQUENCES[name](random.Random(seed))
